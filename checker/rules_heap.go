package main

// rules_heap.go — R41 HEAPGEOM: the geometry of the binary heap's sift routines, decided round by round on their path form.
//
// Sift-down (bubbleDownIndex): with i the slot being sifted, L ≡ 2i+1, R ≡ 2i+2 and S the heap's own size,
//   - a round that swaps i with c has c ∈ {L, R}, knows c < S and cmp(i, c) >= 0 (exchanging two elements that compare equal is harmless), and c is the smaller child: for c = L the
//     path knows S <= R or cmp(L, R) <= 0; for c = R it knows R < S and cmp(L, R) >= 0 (ties may go either way); the sift
//     continues at c;
//   - a path that stops knows S <= L (no child), or cmp(i, L) <= 0 together with (S <= R or cmp(L, R) <= 0), or R < S,
//     cmp(L, R) >= 0 and cmp(i, R) <= 0.
// Sift-up (bubbleUp): with P ≡ (i-1)/2, the sift starts at S-1; a round swaps i with P knowing 0 < i and cmp(P, i) >= 0 and
// continues at P; a path that stops knows i <= 0 or cmp(P, i) <= 0.
// Index terms are compared as linear forms (`i<<1 + 1`, `2*i + 1`, `left + 1`, a loop variable whose every assignment is
// 2·(index assignment) + 1, …), comparator atoms up to argument swap (cmp(a,b) > 0 ≡ cmp(b,a) < 0). The existing 10 000-element
// test does not see a right child compared at index == size (the list answers Get(size) with the zero value) or a last leaf that
// is never looked at; these conditions do.

import (
	"fmt"
	"go/token"
	"strings"

	"golang.org/x/tools/go/ssa"
)

// heapLin: linear form of an index term with shifts and multiplications by constants resolved.
func heapLin(t *Term, env map[string]lin) lin {
	if k, ok := t.constInt(); ok {
		return linConst(int(k))
	}
	scale := func(l lin, k int) lin {
		out := linConst(l.k * k)
		for x, c := range l.c {
			out.c[x] = c * k
		}
		return out
	}
	switch {
	case t.Op == "+" && len(t.Args) == 2:
		return heapLin(t.Args[0], env).add(heapLin(t.Args[1], env), 1)
	case t.Op == "-" && len(t.Args) == 2:
		return heapLin(t.Args[0], env).add(heapLin(t.Args[1], env), -1)
	case t.Op == "<<" && len(t.Args) == 2:
		if k, ok := t.Args[1].constInt(); ok && k >= 0 && k < 8 {
			return scale(heapLin(t.Args[0], env), 1<<uint(k))
		}
	case t.Op == "*" && len(t.Args) == 2:
		if k, ok := t.Args[0].constInt(); ok {
			return scale(heapLin(t.Args[1], env), int(k))
		}
		if k, ok := t.Args[1].constInt(); ok {
			return scale(heapLin(t.Args[0], env), int(k))
		}
	}
	s := noEpoch(t)
	if v, ok := env[s]; ok {
		return v
	}
	return linAtom(s)
}

// parentOf: t ≡ (x-1)>>1 or (x-1)/2 → lin of x.
func parentOf(t *Term, env map[string]lin) (lin, bool) {
	if len(t.Args) != 2 {
		return lin{}, false
	}
	k, ok := t.Args[1].constInt()
	if !ok || !((t.Op == ">>" && k == 1) || (t.Op == "/" && k == 2)) {
		return lin{}, false
	}
	return heapLin(t.Args[0], env).add(linConst(1), 1), true
}

type cmpAtom struct {
	a, b string // index terms (linear-form strings) of the compared slots
	rel  string // ">" | "<=" | ">=" | "<" | "==" | "!="   — cmp(a, b) rel 0
}

var theProg *Prog

func ruleR41(c *Ctx) *RuleResult {
	p := c.p
	theProg = p
	pkgFuncsCache = map[*ssa.Package][]*ssa.Function{}
	r := &RuleResult{Rule: "R41", Title: "HEAPGEOM: the sift routines look at the children 2i+1 / 2i+2 below the heap's size, pick the smaller one, and stop only when the heap order holds locally", Floor: 2}
	ct := typeByKey(p, "trees/binaryheap.Heap")
	if ct == nil {
		r.undecided("trees/binaryheap.Heap", "heap geometry", "-", "anchored type not found")
		return r
	}
	ms := methodsOf(p, ct)
	isSize := func(t *Term) bool {
		s := noEpoch(t)
		if !strings.Contains(s, "(fa:list p:0)") {
			return false
		}
		return (t.Op == "len" && strings.Contains(s, "(fa:elements ")) || (t.Op == "call" && strings.HasSuffix(t.Leaf, ").Size"))
	}
	// comparator arguments: the list answers Get(out of range) with the zero value — the library must not hand that to the
	// user's comparator (decided on the SSA form: the comparator is a pure term in the path form, an unused verdict leaves
	// no trace there)
	{
		var bad []string
		ncalls := 0
		for _, nm := range sortedNames(ms) {
			fn := ms[nm]
			if fn.Blocks == nil {
				continue
			}
			for _, call := range allCalls(fn) {
				if f, ok := recvField(fn, call.Common().Value); !ok || fieldName(fn, f) != "Comparator" {
					continue
				}
				ncalls++
				for _, a := range call.Common().Args {
					ex, ok := stripChange(a).(*ssa.Extract)
					if !ok || ex.Index != 0 {
						continue
					}
					gcall, ok := ex.Tuple.(*ssa.Call)
					if !ok || len(gcall.Call.Args) != 2 {
						continue
					}
					if cal := StaticCallee(&gcall.Call); cal == nil || cal.Name() != "Get" {
						continue
					}
					idx := gcall.Call.Args[1]
					x, k, isChild := childIndexSSA(idx, 0)
					if !isChild {
						continue
					}
					// a dominating `idx < size` (true edge) with the same child index on the left
					okGuard := false
					for _, cd := range guardsOf(call.Block()) {
						b, ok := cd.If.Cond.(*ssa.BinOp)
						if !ok {
							continue
						}
						var lhs, rhs ssa.Value
						switch {
						case b.Op == token.LSS && cd.Polarity:
							lhs, rhs = b.X, b.Y
						case b.Op == token.GTR && cd.Polarity:
							lhs, rhs = b.Y, b.X
						case b.Op == token.GEQ && !cd.Polarity:
							lhs, rhs = b.X, b.Y
						case b.Op == token.LEQ && !cd.Polarity:
							lhs, rhs = b.Y, b.X
						default:
							continue
						}
						if !isHeapSizeSSA(fn, rhs, 0) {
							continue
						}
						if lhs == idx {
							okGuard = true
						} else if x2, k2, ok2 := childIndexSSA(lhs, 0); ok2 && x2 == x && k2 == k {
							okGuard = true
						}
					}
					if !okGuard {
						side := "left"
						if k == 2 {
							side = "right"
						}
						bad = append(bad, fmt.Sprintf("%s calls the comparator at %s with the list's answer for the %s child slot without knowing that slot is below the heap's size (the list answers an out-of-range Get with the zero value, which a user comparator need not accept)", nm, p.InstrPos(call), side))
					}
				}
			}
		}
		key := "trees/binaryheap.Heap.comparator-args"
		clause := "the comparator is called with the value of a child slot (2i+1 / 2i+2) only where that slot is known to be below the heap's size"
		if len(bad) > 0 {
			r.bad(key, clause, "-", strings.Join(dedup(bad), "\n"))
		} else {
			r.ok(key, clause, "-", fmt.Sprintf("%d comparator call(s) in the heap's methods; every child-slot argument is read under its bound", ncalls))
		}
	}
	// the index range of a level: a function of the package that answers (start, end int) for one int (`evaluateRange`, where
	// it exists as such) describes level k of the implicit tree — 2^k slots starting at 2^k - 1. In linear arithmetic over
	// the power-of-two atoms it is written with (x << c read as 2^c·x): end - start = start + 1. A level one too wide hands
	// the first slot of the next level to this level's ordering.
	if fn := p.FuncByName("trees/binaryheap", "evaluateRange"); fn != nil && fn.Signature.Params().Len() == 1 && fn.Signature.Results().Len() == 2 {
		key := "trees/binaryheap.Iterator.level-range"
		clause := "the slots [start, end) of a level number start + 1: end - start = start + 1 in linear arithmetic over the powers of two the function is written with"
		gc := c.GC(fn)
		var bad []string
		n := 0
		var shl func(t *Term) lin
		shl = func(t *Term) lin {
			if k, ok := t.constInt(); ok {
				return linConst(int(k))
			}
			switch {
			case t.Op == "+" && len(t.Args) == 2:
				return shl(t.Args[0]).add(shl(t.Args[1]), 1)
			case t.Op == "-" && len(t.Args) == 2:
				return shl(t.Args[0]).add(shl(t.Args[1]), -1)
			case t.Op == "<<" && len(t.Args) == 2:
				// c << x with a constant c: c times the power-of-two atom 1 << x
				if cst, ok := t.Args[0].constInt(); ok && cst >= 0 && cst < 64 {
					if _, isC := t.Args[1].constInt(); !isC {
						a := linAtom("(<< #:1 " + noEpoch(t.Args[1]) + ")")
						out := linConst(0)
						for i := 0; i < int(cst); i++ {
							out = out.add(a, 1)
						}
						return out
					}
				}
				if k, ok := t.Args[1].constInt(); ok && k >= 0 && k < 8 {
					x := shl(t.Args[0])
					out := linConst(0)
					for i := 0; i < 1<<uint(k); i++ {
						out = out.add(x, 1)
					}
					return out
				}
			case t.Op == "*" && len(t.Args) == 2:
				for i := 0; i < 2; i++ {
					if k, ok := t.Args[i].constInt(); ok && k >= 0 && k < 64 {
						x := shl(t.Args[1-i])
						out := linConst(0)
						for j := 0; j < int(k); j++ {
							out = out.add(x, 1)
						}
						return out
					}
				}
			}
			return linAtom(noEpoch(t))
		}
		if gc.Undecided == "" {
			for _, g := range gc.GCs {
				if g.Exit.Op != "return" || len(g.Exit.Args) != 2 {
					continue
				}
				n++
				st, en := shl(g.Exit.Args[0]), shl(g.Exit.Args[1])
				d := en.add(st, -1).add(st, -1).add(linConst(1), -1)
				if len(d.c) == 0 && d.k != 0 {
					bad = append(bad, fmt.Sprintf("end - start is (start + 1) %+d: start = %s, end = %s", d.k, trunc(noEpoch(g.Exit.Args[0]), 100), trunc(noEpoch(g.Exit.Args[1]), 140)))
				}
				// a difference that is a non-zero multiple of the very powers of two start is written with is not zero either
				// (atoms that do not occur in start may be another spelling of the same power: no verdict)
				if len(d.c) > 0 {
					own := true
					for a, n := range d.c {
						if n == 0 {
							continue
						}
						if _, inStart := st.c[a]; !inStart {
							own = false
						}
					}
					if own {
						bad = append(bad, fmt.Sprintf("end - start differs from start + 1 by %s: start = %s, end = %s", trunc(d.String(), 80), trunc(noEpoch(g.Exit.Args[0]), 100), trunc(noEpoch(g.Exit.Args[1]), 140)))
					}
				}
			}
		}
		if len(bad) > 0 {
			r.bad(key, clause, p.FuncPos(fn), strings.Join(dedup(bad), "\n"))
		} else if n > 0 {
			r.ok(key, clause, p.FuncPos(fn), fmt.Sprintf("%d return path(s); where both ends are linear over the same powers of two, end - start = start + 1", n))
		}
	}
	// filling a level: the iterator reads list slots in a loop; every slot it reads lies below the heap's size — the loop bound is
	// the size itself, or a bound the entering path knows to be at most the size (the clamp `if end > Size() { end = Size() }`;
	// clamping against Size()+1 lets the level of a heap with 2^(k+1)-2 elements read one slot past the end: the list answers
	// the zero value, which is then ordered into the level as if it were an element)
	if it := typeByKey(p, "trees/binaryheap.Iterator"); it != nil {
		if fn := methodsOf(p, it)["Value"]; fn != nil {
			key := "trees/binaryheap.Iterator.level-fill"
			clause := "every list slot the iterator's Value() reads while collecting a level is known to lie below the heap's size"
			gc := c.GC(fn)
			var bad []string
			n := 0
			isLen := func(t *Term) bool {
				s := noEpoch(t)
				return (t.Op == "len" && strings.Contains(s, "(fa:elements ") && strings.Contains(s, "(fa:heap p:0)")) || (t.Op == "call" && strings.HasSuffix(t.Leaf, ").Size") && strings.Contains(s, "(fa:heap p:0)"))
			}
			if gc.Undecided == "" {
				for _, g := range gc.GCs {
					var slot *Term
					for _, ef := range g.Effects {
						ef.any(func(t *Term) bool {
							if t.Op == "call" && strings.HasSuffix(t.Leaf, ").Get") && len(t.Args) == 3 && t.Args[2].Op == "φ" && strings.Contains(noEpoch(t.Args[1]), "(fa:heap p:0)") {
								slot = t.Args[2]
							}
							return false
						})
					}
					if slot == nil {
						continue
					}
					n++
					ok := false
					know := append(append([]*Term(nil), g.Guards...), entryKnowledge(gc, g.From, 0)...)
					for _, a := range g.Guards {
						if a.Op != "<" || len(a.Args) != 2 || a.Args[0].String() != slot.String() {
							continue
						}
						B := a.Args[1]
						if isLen(B) {
							ok = true
						}
						// min(…, size, …)
						if (B.Op == "min" || (B.Op == "std" && B.Leaf == "min")) && B.any(isLen) {
							ok = true
						}
						// a bound handed back by a helper of the package other than the raw level arithmetic (a levelBounds that
						// clamps inside): not judged here
						if B.any(func(t *Term) bool {
							return (t.Op == "call" || t.Op == "res") && !strings.HasSuffix(t.Leaf, "numOfBits") && !strings.HasSuffix(t.Leaf, "evaluateRange") && t.Leaf != ""
						}) {
							ok = true
						}
						for _, kfact := range know {
							if kfact.Op == "<=" && len(kfact.Args) == 2 && noEpoch(kfact.Args[0]) == noEpoch(B) && isLen(kfact.Args[1]) {
								ok = true
							}
						}
					}
					if !ok {
						bad = append(bad, "a level is filled from list slot "+slot.String()+" without knowing it below the heap's size: "+trunc(guardsString(g), 200))
					}
				}
			}
			if len(bad) > 0 {
				r.bad(key, clause, p.FuncPos(fn), strings.Join(dedup(bad), "\n"))
			} else if n > 0 {
				r.ok(key, clause, p.FuncPos(fn), fmt.Sprintf("%d level-filling loop path(s), each bounded by the size or by a bound clamped to it", n))
			}
		}
	}
	// what Value() answers: position index of the level order is the (index-start+1)-th Pop of the level's temporary heap — on
	// every path. A shortcut that picks the level's minimum some other way (a linear scan) breaks ties differently from the
	// Pops that serve the level's other positions: one of two tied elements is handed out twice, the other never.
	if it := typeByKey(p, "trees/binaryheap.Iterator"); it != nil {
		if fn := methodsOf(p, it)["Value"]; fn != nil {
			key := "trees/binaryheap.Iterator.value-by-pop"
			clause := "every path of the iterator's Value() returns what a Pop of a temporary heap answered (or slot 0 of the iterated heap itself)"
			gc := c.GC(fn)
			var bad []string
			n := 0
			if gc.Undecided == "" {
				for _, g := range gc.GCs {
					if g.Exit.Op != "return" || len(g.Exit.Args) != 1 {
						continue
					}
					n++
					rv := g.Exit.Args[0]
					s := noEpoch(rv)
					okPop := rv.Op == "ext" && rv.Leaf == "0" && len(rv.Args) == 1 && rv.Args[0].Op == "res" && len(rv.Args[0].Args) == 1 && rv.Args[0].Args[0].Op == "do" && strings.HasSuffix(rv.Args[0].Args[0].Leaf, ").Pop")
					okRoot := strings.Contains(s, "(fa:heap p:0)") && (strings.HasSuffix(s, " #:0)))") || strings.Contains(s, ").Peek ")) && rv.Op == "ext"
					// a helper's result (an unknown helper is expanded; a known one would be a call): not judged
					okHelper := rv.Op == "res" || (rv.Op == "ext" && len(rv.Args) == 1 && rv.Args[0].Op == "res" && !okPop && rv.Args[0].Args[0].Op == "do" && !strings.HasSuffix(rv.Args[0].Args[0].Leaf, ").Pop") && !strings.Contains(rv.Args[0].Args[0].Leaf, "arraylist"))
					// a loop variable that only ever receives Pop results (the discard-pops and the final pop merged into one
					// loop that remembers the last value popped)
					okPhi := false
					if rv.Op == "φ" {
						parts := strings.SplitN(rv.Leaf, ".", 2)
						if len(parts) == 2 {
							k, j := parts[0], atoiOr(parts[1], -1)
							okPhi = true
							some := false
							for _, h := range gc.GCs {
								if h.Exit.Op != "goto" || h.Exit.Leaf != k || j < 0 || j >= len(h.Exit.Args) {
									continue
								}
								a := h.Exit.Args[j]
								isPop := a.Op == "ext" && a.Leaf == "0" && len(a.Args) == 1 && a.Args[0].Op == "res" && len(a.Args[0].Args) == 1 && a.Args[0].Args[0].Op == "do" && strings.HasSuffix(a.Args[0].Args[0].Leaf, ").Pop")
								switch {
								case isPop:
									some = true
								case a.Op == "#" || a.String() == rv.String():
								default:
									okPhi = false
								}
							}
							okPhi = okPhi && some
						}
					}
					if !okPop && !okRoot && !okHelper && !okPhi {
						bad = append(bad, "a path of Value() answers "+trunc(s, 160)+" — not the result of popping the level's temporary heap: "+trunc(guardsString(g), 160))
					}
				}
			}
			if len(bad) > 0 {
				r.bad(key, clause, p.FuncPos(fn), strings.Join(dedup(bad), "\n"))
			} else if n > 0 {
				r.ok(key, clause, p.FuncPos(fn), fmt.Sprintf("%d returning path(s), each answers through Pop", n))
			}
		}
	}
	// the iterator orders each level with a temporary heap: that heap must be ordered by the heap's own comparator (the very
	// function value — a wrapper that swaps or reverses it orders ties differently from the way Pop does)
	if it := typeByKey(p, "trees/binaryheap.Iterator"); it != nil {
		key := "trees/binaryheap.Iterator.level-order"
		clause := "every temporary heap the iterator builds to order a level is constructed with the iterated heap's own Comparator field"
		var bad []string
		n := 0
		for _, nm := range sortedNames(methodsOf(p, it)) {
			fn := methodsOf(p, it)[nm]
			if fn.Blocks == nil {
				continue
			}
			gc := c.GC(fn)
			if gc.Undecided != "" {
				continue
			}
			seen := map[string]bool{}
			chk := func(t *Term) bool {
				if t.Op == "call" && strings.HasSuffix(t.Leaf, "binaryheap.NewWith") && len(t.Args) == 2 {
					s := noEpoch(t.Args[1])
					if seen[s] {
						return false
					}
					seen[s] = true
					n++
					if !(t.Args[1].Op == "load" && len(t.Args[1].Args) == 1 && t.Args[1].Args[0].Op == "fa" && t.Args[1].Args[0].Leaf == "Comparator" && strings.Contains(s, "(fa:heap p:0)")) {
						bad = append(bad, fmt.Sprintf("%s builds a temporary heap ordered by %s, not by the iterated heap's Comparator", nm, trunc(s, 120)))
					}
				}
				return false
			}
			for _, g := range gc.GCs {
				for _, ef := range g.Effects {
					ef.any(chk)
				}
				for _, a := range g.Guards {
					a.any(chk)
				}
				g.Exit.any(chk)
			}
		}
		if len(bad) > 0 {
			r.bad(key, clause, "-", strings.Join(dedup(bad), "\n"))
		} else {
			r.ok(key, clause, "-", fmt.Sprintf("%d temporary heap(s), each built with heap.Comparator", n))
		}
	}
	downs, ups := heapSifters(c)
	for _, role := range []string{"bubbleDownIndex", "bubbleUp"} {
		down := role == "bubbleDownIndex"
		clause := "sift-up: starts at size-1, swaps slot i with (i-1)/2 only knowing 0 < i and cmp(parent, i) >= 0, continues at the parent, stops only knowing i <= 0 or cmp(parent, i) <= 0"
		fns := ups
		if down {
			clause = "sift-down: children are 2i+1 and 2i+2, each looked at only below the heap's size; a round swaps i with the smaller child knowing cmp(i, child) >= 0 and continues there; a path stops only knowing that no child exists or that slot i is not above-ordered by its smaller child"
			fns = downs
		}
		key := "trees/binaryheap.Heap." + role
		if len(fns) == 0 {
			r.undecided(key, clause, "-", "no function of the heap plays this role (a loop or recursion that swaps slot i with 2i+1 / 2i+2, resp. with (i-1)/2)")
			continue
		}
		var allBad, allFacts []string
		for _, fn := range fns {
			bad, facts := checkSifter(c, fn, down, isSize, ms)
			for _, b := range bad {
				allBad = append(allBad, fnName(fn)+": "+b)
			}
			allFacts = append(allFacts, fnName(fn)+": "+facts)
		}
		if len(allBad) > 0 {
			r.bad(key, clause, p.FuncPos(fns[0]), strings.Join(dedup(allBad), "\n"))
		} else {
			r.ok(key, clause, p.FuncPos(fns[0]), strings.Join(allFacts, "; "))
		}
	}
	return r
}

// heapSifters finds the functions of the heap that play the two sifting roles, whatever they are called: a loop or
// tail recursion over a slot variable i that swaps slot i with slot 2i+1 / 2i+2 (down) or with slot (i-1)/2 (up).
func heapSifters(c *Ctx) (downs, ups []*ssa.Function) {
	p := c.p
	ct := typeByKey(p, "trees/binaryheap.Heap")
	if ct == nil {
		return
	}
	ms := methodsOf(p, ct)
	for _, nm := range sortedNames(ms) {
		fn := ms[nm]
		if fn.Blocks == nil {
			continue
		}
		gc := c.GCTail(fn)
		if gc.Undecided != "" {
			continue
		}
		isDown, isUp := false, false
		for _, g := range gc.GCs {
			for _, ef := range g.Effects {
				n2, a2, ok := effDo(ef)
				if !ok || n2 != "Swap" || len(a2) != 3 || (a2[1].Op != "φ" && a2[1].Op != "p") {
					continue
				}
				I := noEpoch(a2[1])
				if x, ok := parentOf(a2[2], nil); ok && x.String() == linAtom(I).String() {
					isUp = true
					continue
				}
				// a loop variable that is kept at (i-1)/2 or 2i+1 is recognised by checkSifter; here: any swap of a
				// slot variable with a slot computed from it or carried beside it
				two := linAtom(I).add(linAtom(I), 1)
				d := heapLin(a2[2], nil).add(two, -1)
				if len(d.c) == 0 && (d.k == 1 || d.k == 2) {
					isDown = true
					continue
				}
				if a2[2].Op == "φ" && a2[1].Op == "φ" {
					// decide by the assignments of that variable
					ks := strings.SplitN(a2[1].Leaf, ".", 2)[0]
					is, js := atoiOr(strings.SplitN(a2[1].Leaf, ".", 2)[1], -1), -1
					if strings.HasPrefix(a2[2].Leaf, ks+".") {
						js = atoiOr(a2[2].Leaf[len(ks)+1:], -1)
					}
					for _, h := range gc.GCs {
						if h.Exit.Op != "goto" || h.Exit.Leaf != ks || is < 0 || js < 0 || is >= len(h.Exit.Args) || js >= len(h.Exit.Args) {
							continue
						}
						if x, ok := parentOf(h.Exit.Args[js], nil); ok && x.String() == heapLin(h.Exit.Args[is], nil).String() {
							isUp = true
						}
						li := heapLin(h.Exit.Args[is], nil)
						if d := heapLin(h.Exit.Args[js], nil).add(li, -1).add(li, -1); len(d.c) == 0 && (d.k == 1 || d.k == 2) {
							isDown = true
						}
					}
				}
			}
		}
		if isDown {
			downs = append(downs, fn)
		}
		if isUp {
			ups = append(ups, fn)
		}
	}
	// a helper the pinned tree does not know is read where it is spliced into its (known) caller — as a loop there, with
	// its size parameter bound to what the caller passes; judged on its own it would be a sifter whose bound is a bare parameter
	prune := func(fns []*ssa.Function) []*ssa.Function {
		known := false
		for _, f := range fns {
			if p.KnownFunc(f) {
				known = true
			}
		}
		if !known {
			return fns
		}
		var out []*ssa.Function
		for _, f := range fns {
			if p.KnownFunc(f) {
				out = append(out, f)
			}
		}
		return out
	}
	return prune(downs), prune(ups)
}

// checkSifter decides one sifting function.
func checkSifter(c *Ctx, fn *ssa.Function, down bool, isSize func(*Term) bool, ms map[string]*ssa.Function) (bad []string, facts string) {
	p := c.p
	_ = p
	{
		gc := c.GCTail(fn)
		if gc.Undecided != "" {
			return []string{gc.Undecided}, ""
		}
		// the index slot: the φ (or parameter, in tail-recursive form) that is the first Swap argument
		var idxT *Term
		for _, g := range gc.GCs {
			for _, ef := range g.Effects {
				if n2, a2, ok := effDo(ef); ok && n2 == "Swap" && len(a2) == 3 && idxT == nil {
					idxT = a2[1]
				}
			}
		}
		if idxT == nil {
			return []string{"no Swap found"}, ""
		}
		I := noEpoch(idxT)
		// loop variables that are functions of the index: every assignment (entry and back edges) is f(index assignment)
		env := map[string]lin{}
		if idxT.Op == "φ" {
			parts := strings.SplitN(idxT.Leaf, ".", 2)
			ks := parts[0]
			islot := atoiOr(parts[1], -1)
			nslots := 0
			for _, g := range gc.GCs {
				if g.Exit.Op == "goto" && g.Exit.Leaf == ks && len(g.Exit.Args) > nslots {
					nslots = len(g.Exit.Args)
				}
			}
			for j := 0; j < nslots; j++ {
				if j == islot {
					continue
				}
				var rel *lin // slot_j - 2*slot_i  (down)  /  "parent" (up)
				okAll, isParent := true, true
				for _, g := range gc.GCs {
					if g.Exit.Op != "goto" || g.Exit.Leaf != ks || j >= len(g.Exit.Args) || islot >= len(g.Exit.Args) {
						continue
					}
					ai, aj := g.Exit.Args[islot], g.Exit.Args[j]
					if x, ok := parentOf(aj, env); !ok || x.String() != heapLin(ai, env).String() {
						isParent = false
					}
					li := heapLin(ai, env)
					two := li.add(li, 1)
					d := heapLin(aj, env).add(two, -1)
					if len(d.c) != 0 || (rel != nil && rel.k != d.k) {
						okAll = false
					}
					rel = &d
				}
				slot := "φ:" + ks + "." + itoa(j)
				switch {
				case down && okAll && rel != nil:
					env[slot] = linAtom(I).add(linAtom(I), 1).add(linConst(rel.k), 1)
				case !down && isParent:
					env[slot] = linAtom("parent(" + I + ")")
				}
			}
			if !down {
				// entry: the sift starts at the last slot
				for _, g := range gc.GCs {
					if g.From != 0 || g.Exit.Op != "goto" || g.Exit.Leaf != ks || islot >= len(g.Exit.Args) {
						continue
					}
					a := g.Exit.Args[islot]
					okStart := false
					if a.Op == "-" && len(a.Args) == 2 && a.Args[1].String() == "#:1" && isSize(a.Args[0]) {
						okStart = true
					}
					if a.Op == "p" {
						okStart = true
						bad = append(bad, siftUpCallSites(c, fn, atoiOr(a.Leaf, -1), isSize, ms)...)
					}
					if !okStart {
						bad = append(bad, "the sift-up does not start at the heap's last slot (size-1): "+trunc(noEpoch(a), 100))
					}
				}
			}
		}
		// the element being sifted may be read once before the loop: Get(start) at the loop's entry *is* the element in
		// slot i in every round (each swap carries it along)
		entryIdx := map[string]bool{}
		if idxT.Op == "φ" {
			parts := strings.SplitN(idxT.Leaf, ".", 2)
			islot := atoiOr(parts[1], -1)
			for _, g := range gc.GCs {
				if g.From != atoiOr(parts[0], -1) && g.Exit.Op == "goto" && g.Exit.Leaf == parts[0] && islot < len(g.Exit.Args) {
					entryIdx[noEpoch(g.Exit.Args[islot])] = true
				}
			}
		}
		if !down && idxT.Op == "p" {
			bad = append(bad, siftUpCallSites(c, fn, atoiOr(idxT.Leaf, -1), isSize, ms)...)
		}
		idxForm := func(t *Term) string {
			if !down {
				if x, ok := parentOf(t, env); ok && x.String() == linAtom(I).String() {
					return "parent(" + I + ")"
				}
			}
			return heapLin(t, env).String()
		}
		L := linAtom(I).add(linAtom(I), 1).add(linConst(1), 1).String()
		R := linAtom(I).add(linAtom(I), 1).add(linConst(2), 1).String()
		P := "parent(" + I + ")"
		nswap, nstop := 0, 0
		for _, g := range gc.GCs {
			if g.From == 0 && idxT.Op == "φ" {
				continue
			}
			// knowledge of the path
			below, notBelow := map[string]bool{}, map[string]bool{} // index form → known < S / known >= S
			var cmps []cmpAtom
			iPos, iNonPos := false, false
			for _, a := range g.Guards {
				if len(a.Args) != 2 {
					continue
				}
				x, y := a.Args[0], a.Args[1]
				// comparator verdicts
				for side, d := range []*Term{x, y} {
					if d.Op != "dyn" || len(d.Args) != 3 || !strings.Contains(d.Args[0].String(), "fa:Comparator") {
						continue
					}
					other := y
					if side == 1 {
						other = x
					}
					if other.String() != "#:0" {
						continue
					}
					get := func(v *Term) (string, bool) {
						if v.Op == "ext" && v.Leaf == "0" && len(v.Args) == 1 && v.Args[0].Op == "call" && strings.HasSuffix(v.Args[0].Leaf, ").Get") && len(v.Args[0].Args) == 3 && strings.Contains(v.Args[0].Args[1].String(), "(fa:list p:0)") {
							if v.Args[0].Args[0].String() == "@:pre" && entryIdx[noEpoch(v.Args[0].Args[2])] {
								return heapLin(idxT, env).String(), true
							}
							return idxForm(v.Args[0].Args[2]), true
						}
						return "", false
					}
					ia, ok1 := get(d.Args[1])
					ib, ok2 := get(d.Args[2])
					if !ok1 || !ok2 {
						continue
					}
					rel := ""
					switch {
					case a.Op == "<" && side == 1: // 0 < cmp
						rel = ">"
					case a.Op == "<" && side == 0: // cmp < 0
						rel = "<"
					case a.Op == "<=" && side == 0: // cmp <= 0
						rel = "<="
					case a.Op == "<=" && side == 1: // 0 <= cmp
						rel = ">="
					}
					if rel != "" {
						cmps = append(cmps, cmpAtom{ia, ib, rel})
					}
				}
				// bounds against the heap's size
				if (a.Op == "<" || a.Op == "<=") && isSize(y) && !x.any(func(t *Term) bool { return t.Op == "dyn" }) {
					if a.Op == "<" {
						below[idxForm(x)] = true // x < S
					} else {
						// x <= S: says nothing useful (x may equal S)
					}
				}
				if (a.Op == "<" || a.Op == "<=") && isSize(x) && !y.any(func(t *Term) bool { return t.Op == "dyn" }) {
					if a.Op == "<=" {
						notBelow[idxForm(y)] = true // S <= y
					} else {
						notBelow[idxForm(y)] = true // S < y
					}
				}
				// the index against 0 (sift-up)
				if a.Op == "<" && x.String() == "#:0" && noEpoch(y) == I {
					iPos = true
				}
				if a.Op == "<=" && noEpoch(x) == I && y.String() == "#:0" {
					iNonPos = true
				}
			}
			knows := func(a, b, rel string) bool { // cmp(a,b) rel 0, up to argument swap
				flip := map[string]string{">": "<", "<": ">", ">=": "<=", "<=": ">="}
				implies := func(have, want string) bool {
					return have == want || (have == ">" && want == ">=") || (have == "<" && want == "<=")
				}
				for _, k := range cmps {
					if k.a == a && k.b == b && implies(k.rel, rel) {
						return true
					}
					if k.a == b && k.b == a && implies(flip[k.rel], rel) {
						return true
					}
				}
				return false
			}
			// the swap of this path, if any
			var sw []*Term
			for _, ef := range g.Effects {
				if n2, a2, ok := effDo(ef); ok && n2 == "Swap" && len(a2) == 3 {
					sw = a2
				}
			}
			show := trunc(g.String(), 260)
			if sw != nil {
				nswap++
				if noEpoch(sw[1]) != I {
					bad = append(bad, "a round swaps a slot other than the one being sifted: "+show)
					continue
				}
				cform := idxForm(sw[2])
				// continues at c
				cont := false
				if g.Exit.Op == "goto" {
					for _, a := range g.Exit.Args {
						if idxForm(a) == cform {
							cont = true
						}
					}
				}
				for _, ef := range g.Effects {
					if n2, a2, ok := effDo(ef); ok && n2 == fnName(fn) && len(a2) >= 2 && idxForm(a2[len(a2)-1]) == cform {
						cont = true
					}
				}
				if !cont {
					bad = append(bad, "after the swap the sift does not continue at the slot it swapped into: "+show)
				}
				if down {
					switch cform {
					case L:
						if !below[L] {
							bad = append(bad, "swaps with the left child without knowing 2i+1 < size: "+show)
						}
						if !knows(I, L, ">=") {
							bad = append(bad, "swaps with the left child without knowing cmp(slot, child) >= 0: "+show)
						}
						if !(notBelow[R] || knows(L, R, "<=")) {
							bad = append(bad, "swaps with the left child without knowing that the right child does not exist or is not smaller: "+show)
						}
					case R:
						if !below[R] {
							bad = append(bad, "swaps with the right child without knowing 2i+2 < size (at 2i+2 == size the list answers with the zero value): "+show)
						}
						if !knows(I, R, ">=") {
							bad = append(bad, "swaps with the right child without knowing cmp(slot, child) >= 0: "+show)
						}
						if !knows(L, R, ">=") {
							bad = append(bad, "swaps with the right child without knowing that it is the smaller one: "+show)
						}
					default:
						bad = append(bad, fmt.Sprintf("swaps slot i with slot %s, which is neither 2i+1 nor 2i+2: %s", cform, show))
					}
				} else {
					if cform != P {
						bad = append(bad, fmt.Sprintf("swaps slot i with slot %s, which is not (i-1)/2: %s", cform, show))
					}
					if !iPos {
						bad = append(bad, "swaps with the parent without knowing 0 < i: "+show)
					}
					if !knows(P, I, ">=") {
						bad = append(bad, "swaps with the parent without knowing cmp(parent, slot) >= 0: "+show)
					}
				}
				continue
			}
			if g.Exit.Op != "return" {
				continue
			}
			nstop++
			if down {
				okStop := notBelow[L] ||
					(knows(I, L, "<=") && (notBelow[R] || knows(L, R, "<="))) ||
					(below[R] && knows(L, R, ">=") && knows(I, R, "<="))
				if !okStop {
					bad = append(bad, "the sift-down stops on a path that knows neither that slot i has no child nor that it is in order with its smaller child: "+show)
				}
			} else {
				if !(iNonPos || knows(P, I, "<=")) {
					bad = append(bad, "the sift-up stops on a path that knows neither i <= 0 nor cmp(parent, slot) <= 0: "+show)
				}
			}
		}
		if nswap == 0 || nstop == 0 {
			bad = append(bad, fmt.Sprintf("expected swapping rounds and stopping paths, found %d / %d", nswap, nstop))
		}
		return bad, fmt.Sprintf("%d swapping round(s), %d stopping path(s), all with the geometry and knowledge required", nswap, nstop)
	}
}

// siftUpCallSites: the sift-up takes its start slot as a parameter — every call from another function of the heap passes
// the last slot (size-1).
func siftUpCallSites(c *Ctx, fn *ssa.Function, param int, isSize func(*Term) bool, ms map[string]*ssa.Function) []string {
	var bad []string
	for _, nm := range sortedNames(ms) {
		caller := ms[nm]
		if caller == fn || caller.Blocks == nil {
			continue
		}
		gc := c.GC(caller)
		if gc.Undecided != "" {
			continue
		}
		for _, g := range gc.GCs {
			for _, ef := range g.Effects {
				n2, a2, ok := effDo(ef)
				if !ok || n2 != fnName(fn) || param < 0 || param >= len(a2) || a2[0].String() != "p:0" {
					continue
				}
				a := a2[param]
				if !(a.Op == "-" && len(a.Args) == 2 && a.Args[1].String() == "#:1" && isSize(a.Args[0])) {
					bad = append(bad, fmt.Sprintf("%s starts the sift-up at %s instead of the heap's last slot (size-1)", nm, trunc(noEpoch(a), 100)))
				}
			}
		}
	}
	return bad
}

// childIndexSSA: v ≡ 2·x + k with k ∈ {1, 2} (shift or multiplication, `left + 1`, a φ all of whose inputs are that).
func childIndexSSA(v ssa.Value, depth int) (x ssa.Value, k int64, ok bool) {
	if depth > 4 {
		return nil, 0, false
	}
	v = stripChange(v)
	switch t := v.(type) {
	case *ssa.BinOp:
		if t.Op == token.ADD {
			for _, pr := range [][2]ssa.Value{{t.X, t.Y}, {t.Y, t.X}} {
				c, isC := constInt(pr[1])
				if !isC {
					continue
				}
				if d, ok := doubleOfSSA(pr[0]); ok && (c == 1 || c == 2) {
					return d, c, true
				}
				if x2, k2, ok := childIndexSSA(pr[0], depth+1); ok && k2+c <= 2 && c >= 0 {
					return x2, k2 + c, true
				}
			}
		}
	case *ssa.Phi:
		var x0 ssa.Value
		var k0 int64
		for i, e := range t.Edges {
			xe, ke, ok := childIndexSSA(e, depth+1)
			if !ok || (i > 0 && ke != k0) {
				return nil, 0, false
			}
			if i == 0 {
				x0, k0 = xe, ke
			}
		}
		if len(t.Edges) > 0 {
			return x0, k0, true // x differs per edge (the slot variable of that iteration); identified by the φ itself
		}
	}
	return nil, 0, false
}

func doubleOfSSA(v ssa.Value) (ssa.Value, bool) {
	b, ok := stripChange(v).(*ssa.BinOp)
	if !ok {
		return nil, false
	}
	switch b.Op {
	case token.SHL:
		if c, ok := constInt(b.Y); ok && c == 1 {
			return stripChange(b.X), true
		}
	case token.MUL:
		if c, ok := constInt(b.Y); ok && c == 2 {
			return stripChange(b.X), true
		}
		if c, ok := constInt(b.X); ok && c == 2 {
			return stripChange(b.Y), true
		}
	}
	return nil, false
}

// isHeapSizeSSA: v is the size of the heap's own list (a call to Size/len on it, possibly through φs of such calls).
func isHeapSizeSSA(fn *ssa.Function, v ssa.Value, depth int) bool {
	if depth > 3 {
		return false
	}
	v = stripChange(v)
	switch t := v.(type) {
	case *ssa.Call:
		if cal := StaticCallee(&t.Call); cal != nil && cal.Name() == "Size" && len(t.Call.Args) == 1 {
			if f, ok := recvField(fn, t.Call.Args[0]); ok && fieldName(fn, f) == "list" {
				return true
			}
		}
	case *ssa.Phi:
		for _, e := range t.Edges {
			if !isHeapSizeSSA(fn, e, depth+1) {
				return false
			}
		}
		return len(t.Edges) > 0
	case *ssa.Parameter:
		// a helper that receives the size: every call site in the package passes the heap's size
		idx := -1
		for i, q := range fn.Params {
			if q == t {
				idx = i
			}
		}
		if idx < 0 || fn.Pkg == nil {
			return false
		}
		sites := 0
		for _, mem := range fn.Pkg.Members {
			_ = mem
		}
		for _, caller := range callersInPackage(fn) {
			for _, c := range allCalls(caller) {
				cal := StaticCallee(c.Common())
				if cal == nil {
					continue
				}
				co := cal
				if cal.Origin() != nil {
					co = cal.Origin()
				}
				fo := fn
				if fn.Origin() != nil {
					fo = fn.Origin()
				}
				if co != fo || idx >= len(c.Common().Args) {
					continue
				}
				if caller == fn && stripChange(c.Common().Args[idx]) == ssa.Value(t) {
					continue // the recursion hands its own size parameter on unchanged
				}
				sites++
				if !isHeapSizeSSA(caller, c.Common().Args[idx], depth+1) {
					return false
				}
			}
		}
		return sites > 0
	}
	return false
}

// callersInPackage: the source functions of fn's package (candidates for calling fn).
var pkgFuncsCache = map[*ssa.Package][]*ssa.Function{}

func callersInPackage(fn *ssa.Function) []*ssa.Function {
	if fn.Pkg == nil {
		return nil
	}
	if fs, ok := pkgFuncsCache[fn.Pkg]; ok {
		return fs
	}
	var out []*ssa.Function
	for _, f := range theProg.Funcs {
		if f.Pkg == fn.Pkg && f.Blocks != nil {
			out = append(out, f)
		}
	}
	pkgFuncsCache[fn.Pkg] = out
	return out
}
