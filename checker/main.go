package main

// gods-sa — static verification of emirpasic/gods (see /verif/DESIGN.md).
//
//   gods-sa check <Cxx> [--tier quick|thorough] [--repo DIR] [--evidence-dir DIR]
//   gods-sa dump  <function-key-substring>      (debug: print E1 summaries)
//   gods-sa explain <obligation-key-substring> | --from <replay file>

import (
	"fmt"
	"os"
	"path/filepath"
	"sort"
	"strings"
	"time"

	"golang.org/x/tools/go/ssa"
)

type options struct {
	repo        string
	evidenceDir string
	known       string
	tier        string
	controlDir  string
}

func parseOpts(args []string) (options, []string) {
	o := options{repo: "/repo", evidenceDir: "/verif/evidence", known: "/verif/known_findings.json", tier: "quick", controlDir: "/verif/checker/testdata/positive"}
	if v := os.Getenv("GODS_REPO"); v != "" {
		o.repo = v
	}
	if v := os.Getenv("VERIF_TIER"); v == "quick" || v == "thorough" {
		o.tier = v
	}
	var rest []string
	for i := 0; i < len(args); i++ {
		next := func() string {
			if i+1 < len(args) {
				i++
				return args[i]
			}
			infraFail("missing value for %s", args[i])
			return ""
		}
		switch args[i] {
		case "--tier":
			o.tier = next()
		case "--repo":
			o.repo = next()
		case "--evidence-dir":
			o.evidenceDir = next()
		case "--known":
			o.known = next()
		case "--control-dir":
			o.controlDir = next()
		default:
			rest = append(rest, args[i])
		}
	}
	if o.tier != "quick" && o.tier != "thorough" {
		infraFail("unknown tier %q", o.tier)
	}
	abs, err := filepath.Abs(o.repo)
	if err == nil {
		o.repo = abs
	}
	return o, rest
}

func main() {
	if len(os.Args) < 2 {
		fmt.Fprintln(os.Stderr, "usage: gods-sa check <Cxx>|all [--tier quick|thorough] | dump <substr> | explain <key>")
		os.Exit(2)
	}
	opts, rest := parseOpts(os.Args[2:])
	switch os.Args[1] {
	case "check":
		if len(rest) != 1 {
			infraFail("check needs exactly one property id")
		}
		os.Exit(runCheck(opts, rest[0]))
	case "dump":
		p := Load(opts.repo)
		e := ComputeEffects(p)
		sub := ""
		if len(rest) > 0 {
			sub = rest[0]
		}
		dump(p, e, sub)
	case "gcnf":
		p := Load(opts.repo)
		e := ComputeEffects(p)
		for _, fn := range p.Funcs {
			if len(rest) > 0 && !strings.Contains(p.FuncKey(fn), rest[0]) {
				continue
			}
			opts := BuildOpts{}
			if re := os.Getenv("GCNF_INLINE"); re != "" { // debug: additionally expand callees whose key contains this substring
				opts.Inline = func(callee *ssa.Function) bool { return strings.Contains(p.FuncKey(callee), re) }
			}
			if d := os.Getenv("GCNF_DEPTH"); d != "" {
				opts.Depth = atoiOr(d, 0)
			}
			g := BuildGCNFOpts(p, e, fn, opts)
			if os.Getenv("GCNF_LIVEIN") != "" {
				opts.LiveIn = true
				g = BuildGCNFOpts(p, e, fn, opts)
				for _, x := range g.GCs {
					for k, v := range x.LiveIn {
						fmt.Printf("    live-in on path to %s: %s := %s\n", x.Exit.String(), k, v.String())
					}
				}
			}
			if os.Getenv("GCNF_TAIL") != "" {
				g = tailRecForm(p, g)
			}
			fmt.Printf("%s  (%d paths, %d cut points) %s\n", p.FuncKey(fn), g.NumPaths, len(g.Cuts), g.Undecided)
			for _, s := range g.Strings() {
				fmt.Println("   ", s)
			}
		}
	case "explain":
		os.Exit(runExplain(opts, rest))
	case "symbols":
		// the pinned symbol table (checker/symbols_pinned.txt): every named library function of the tree
		p := Load(opts.repo)
		for _, l := range p.symbolLines() {
			fmt.Println(l)
		}
	case "tables":
		p := Load(opts.repo)
		fmt.Printf("packages %d, library %d, functions %d\n", len(p.All), len(p.Lib), len(p.Funcs))
		for _, c := range p.T.Containers {
			fmt.Println("container", p.TypeKey(c))
		}
		for _, c := range p.T.Iterators {
			fmt.Println("iterator ", p.TypeKey(c), "index:", p.T.IndexIters[c], "key:", p.T.KeyIters[c])
		}
		for _, c := range p.T.RevIters {
			fmt.Println("reverse  ", p.TypeKey(c))
		}
		for _, c := range p.T.Nodes {
			fmt.Println("node     ", p.TypeKey(c))
		}
		for _, s := range p.T.IterInShared {
			fmt.Println("ITER-IN-SHARED", s)
		}
	default:
		infraFail("unknown command %q", os.Args[1])
	}
}

func runCheck(opts options, id string) int {
	start := time.Now()
	p := Load(opts.repo)
	ctx := newCtx(p, opts)
	kf := loadKnownFindings(opts.known)
	ids := []string{id}
	if id == "all" {
		ids = propertyIDs()
	}
	code := 0
	for _, pid := range ids {
		def, ok := properties[pid]
		if !ok {
			infraFail("unknown property %q", pid)
		}
		pr := def.run(ctx)
		if opts.tier == "thorough" {
			pr.Rules = append(pr.Rules, ctx.rule("R0t", ruleThorough))
		}
		pr.ID = pid
		pr.Tier = opts.tier
		pr.StartedAt = start
		if c := pr.finish(p, opts.evidenceDir, kf); c != 0 {
			code = c
		}
	}
	return code
}

func runExplain(opts options, rest []string) int {
	var want []string
	for i := 0; i < len(rest); i++ {
		if rest[i] == "--from" && i+1 < len(rest) {
			b, err := os.ReadFile(rest[i+1])
			if err != nil {
				infraFail("%v", err)
			}
			fmt.Print(string(b))
			return 0
		}
		want = append(want, rest[i])
	}
	p := Load(opts.repo)
	ctx := newCtx(p, opts)
	for _, pid := range propertyIDs() {
		pr := properties[pid].run(ctx)
		for _, r := range pr.Rules {
			for _, o := range r.Obs {
				for _, w := range want {
					if strings.Contains(o.Key, w) {
						fmt.Printf("[%s] %s %s\n  at      %s\n  clause  %s\n  facts   %s\n\n", pid, o.Status, o.Key, o.Pos, o.Clause, strings.ReplaceAll(o.Facts, "\n", "\n          "))
					}
				}
			}
		}
	}
	return 0
}

func dump(p *Prog, e *Effects, sub string) {
	for _, fn := range p.Funcs {
		k := p.FuncKey(fn)
		if sub != "" && !strings.Contains(k, sub) {
			continue
		}
		s := e.Sum[fn]
		fmt.Printf("%s  (%s)\n", k, p.FuncPos(fn))
		var ws []string
		for w, wit := range s.W {
			ws = append(ws, "    W "+w.String()+"  ← "+wit.String())
		}
		sort.Strings(ws)
		for _, w := range ws {
			fmt.Println(w)
		}
		for i, r := range s.Ret {
			if len(r) > 0 {
				fmt.Printf("    Ret[%d] %s\n", i, r)
			}
		}
		var ks []string
		for k, wit := range s.Keep {
			ks = append(ks, fmt.Sprintf("    Keep %s→%s  ← %s", k.From, k.To, wit))
		}
		sort.Strings(ks)
		for _, k := range ks {
			fmt.Println(k)
		}
		for r := range s.FreshInto {
			fmt.Printf("    FreshInto %s\n", r)
		}
		if s.Out != nil {
			fmt.Printf("    Out ← %s\n", s.Out)
		}
		for _, pw := range s.Panics {
			fmt.Printf("    Panic ← %s\n", pw)
		}
		for _, u := range s.Undecided {
			fmt.Printf("    UNDECIDED %s\n", u)
		}
	}
	fmt.Printf("rounds=%d dynamic calls=%d\n", e.Rounds, len(e.Dyn))
}
