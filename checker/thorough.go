package main

// thorough.go — the thorough tier (DESIGN §1.4): cross-validation of assumption A4 ("the generic SSA bodies analysed by
// the quick tier represent the program") against every concrete instantiation the repository itself uses.
//  T1  reload with Tests=true (tests + examples instantiate the generic library), build SSA with InstantiateGenerics,
//      re-run the effect analysis E1 on every *instantiated* library function body and re-check purity (R1) there;
//  T2  build a VTA call graph over that program and check every dynamic call site inside the library: a library function
//      reached through a func value / interface must itself be free of writes to its parameters and to globals
//      (E1 treats such calls as opaque user code, assumption A1 — this closes the gap for library-defined callees).
// Nothing is executed.

import (
	"fmt"
	"go/token"
	"go/types"
	"sort"
	"strings"

	"golang.org/x/tools/go/callgraph"
	"golang.org/x/tools/go/callgraph/cha"
	"golang.org/x/tools/go/callgraph/vta"
	"golang.org/x/tools/go/packages"
	"golang.org/x/tools/go/ssa"
	"golang.org/x/tools/go/ssa/ssautil"
)

// instMode switches callee resolution from "generic origin" to "the instantiated body itself".
var instMode bool

func loadInstantiated(dir string) *Prog {
	fset := token.NewFileSet()
	cfg := &packages.Config{Mode: packages.LoadAllSyntax | packages.NeedModule, Dir: dir, Fset: fset, Env: loadEnv(), Tests: true}
	pkgs, err := packages.Load(cfg, "./...")
	if err != nil {
		infraFail("thorough: packages.Load: %v", err)
	}
	nerr := 0
	packages.Visit(pkgs, nil, func(p *packages.Package) { nerr += len(p.Errors) })
	if nerr > 0 {
		infraFail("thorough: %d load/type errors with Tests=true", nerr)
	}
	p := &Prog{Dir: dir, Fset: fset, All: pkgs, byObj: map[*types.Func]*ssa.Function{}, libPkg: map[*types.Package]bool{}, Control: true}
	for _, pk := range pkgs {
		if pk.Module != nil && pk.Module.Main {
			p.ModPath = pk.Module.Path
			break
		}
	}
	seenPath := map[string]bool{}
	for _, pk := range pkgs {
		if isLibPath(p.ModPath, pk.PkgPath) && !strings.HasSuffix(pk.PkgPath, "_test") {
			p.libPkg[pk.Types] = true
			if !seenPath[pk.PkgPath] && !strings.Contains(pk.ID, "[") {
				seenPath[pk.PkgPath] = true
				p.Lib = append(p.Lib, pk)
			}
		}
	}
	// library packages also occur as dependencies of test variants
	packages.Visit(pkgs, nil, func(pk *packages.Package) {
		if isLibPath(p.ModPath, pk.PkgPath) && !strings.HasSuffix(pk.PkgPath, "_test") {
			p.libPkg[pk.Types] = true
		}
	})
	prog, _ := ssautil.AllPackages(pkgs, ssa.InstantiateGenerics)
	prog.Build()
	p.SSA = prog
	for fn := range ssautil.AllFunctions(prog) {
		if fn.Blocks == nil || !p.IsLib(fn) || isTestFn(p, fn) {
			continue
		}
		// generic (uninstantiated) bodies are what the quick tier analysed; here only concrete code
		if fn.TypeParams() != nil && fn.TypeParams().Len() > 0 && len(fn.TypeArgs()) == 0 {
			continue
		}
		if r := fn.Signature.Recv(); r != nil {
			if n := namedOf(r.Type()); n != nil && n.TypeParams() != nil && n.TypeParams().Len() > 0 && len(fn.TypeArgs()) == 0 {
				continue
			}
		}
		p.Funcs = append(p.Funcs, fn)
	}
	sort.Slice(p.Funcs, func(i, j int) bool { return p.Funcs[i].String() < p.Funcs[j].String() })
	p.T = buildTables(p)
	return p
}

// isTestFn: declared in a _test.go file (in-package tests live in the test variant of a library package).
func isTestFn(p *Prog, fn *ssa.Function) bool {
	f := fn
	for f.Parent() != nil {
		f = f.Parent()
	}
	if o := f.Origin(); o != nil {
		f = o
	}
	pos := f.Pos()
	if !pos.IsValid() {
		return false
	}
	return strings.HasSuffix(p.Fset.Position(pos).Filename, "_test.go")
}

func instKey(p *Prog, fn *ssa.Function) string {
	k := p.FuncKey(fn)
	if ta := fn.TypeArgs(); len(ta) > 0 {
		var xs []string
		for _, t := range ta {
			xs = append(xs, types.TypeString(t, func(*types.Package) string { return "" }))
		}
		k += "[" + strings.Join(xs, ",") + "]"
	}
	return k
}

func ruleThorough(c *Ctx) *RuleResult {
	r := &RuleResult{Rule: "R0t", Title: "THOROUGH: E1 purity re-checked on every concrete instantiation used by tests/examples; VTA check of dynamic call sites", Floor: 3}
	clause1 := "A4 cross-validation: the effect summary of every instantiated body of a read-only operation is as clean as that of the generic body"
	clause2 := "A1 cross-validation: every library function that a VTA call graph resolves at a dynamic call site inside the library writes nothing through its parameters or to globals"
	p2 := loadInstantiated(c.p.Dir)
	instMode = true
	defer func() { instMode = false }()
	e2 := ComputeEffects(p2)
	isReader := map[string]bool{}
	for _, n := range containerReaders {
		isReader[n] = true
	}
	mover := map[string]bool{}
	for _, n := range iteratorMovers {
		mover[n] = true
	}
	observer := map[string]bool{}
	for _, n := range iteratorObservers {
		observer[n] = true
	}
	contKeys, iterKeys := map[string]bool{}, map[string]bool{}
	for _, n := range p2.T.Containers {
		contKeys[p2.TypeKey(n)] = true
	}
	for _, n := range p2.T.Iterators {
		iterKeys[p2.TypeKey(n)] = true
	}
	nInst, nReaders := 0, 0
	var bad []string
	for _, fn := range p2.Funcs {
		if len(fn.TypeArgs()) > 0 {
			nInst++
		}
		rn := recvNamed(fn)
		if rn == nil || fn.Parent() != nil {
			continue
		}
		allowSelf := false
		name := fn.Name()
		if i := strings.IndexByte(name, '['); i >= 0 {
			name = name[:i] // instances are named "Next[int]"
		}
		switch {
		case contKeys[p2.TypeKey(rn)] && isReader[name]:
		case iterKeys[p2.TypeKey(rn)] && mover[name]:
			allowSelf = true
		case iterKeys[p2.TypeKey(rn)] && observer[name]:
		default:
			continue
		}
		nReaders++
		s := e2.Sum[fn]
		for _, b := range forbiddenWrites(p2, fn, s, allowSelf) {
			bad = append(bad, instKey(p2, fn)+": "+b)
		}
	}
	sort.Strings(bad)
	if nReaders < 300 {
		r.undecided("T1:instantiated-readers", clause1, "-", fmt.Sprintf("only %d instantiated reader bodies found (expected several hundred)", nReaders))
	} else if len(bad) > 0 {
		r.bad("T1:instantiated-readers", clause1, "-", strings.Join(bad, "\n"))
	} else {
		r.ok("T1:instantiated-readers", clause1, "-", fmt.Sprintf("%d packages loaded with tests, %d concrete library function bodies (%d instantiations), %d read-only operation instances re-checked: W clean in every one; E1 fixpoint in %d rounds", len(p2.All), len(p2.Funcs), nInst, nReaders, e2.Rounds))
	}
	// T2: VTA
	all := ssautil.AllFunctions(p2.SSA)
	cg := vta.CallGraph(all, cha.CallGraph(p2.SSA))
	nSites, nLibCallees := 0, 0
	var bad2 []string
	seenSite := map[ssa.CallInstruction]bool{}
	callgraph.GraphVisitEdges(cg, func(e *callgraph.Edge) error {
		if e.Site == nil || e.Caller.Func == nil || !p2.IsLib(e.Caller.Func) || e.Caller.Func.Blocks == nil || isTestFn(p2, e.Caller.Func) {
			return nil
		}
		cc := e.Site.Common()
		if cc.StaticCallee() != nil {
			return nil
		}
		if _, isB := cc.Value.(*ssa.Builtin); isB {
			return nil
		}
		if !seenSite[e.Site] {
			seenSite[e.Site] = true
			nSites++
		}
		callee := e.Callee.Func
		if callee == nil || !p2.IsLib(callee) || callee.Blocks == nil || isTestFn(p2, callee) {
			return nil
		}
		nLibCallees++
		s := e2.Sum[callee]
		if s == nil {
			// a library function the type-driven enumeration did not see as concrete (e.g. a generic body): analyse by origin is not possible here
			return nil
		}
		if cc.IsInvoke() && cc.Method.Name() == "Values" {
			return nil // resolved and joined by E1 itself (CHA)
		}
		for w, wit := range s.W {
			bad2 = append(bad2, fmt.Sprintf("%s is reached dynamically from %s and writes %s: %s", instKey(p2, callee), instKey(p2, e.Caller.Func), w, wit))
		}
		return nil
	})
	sort.Strings(bad2)
	if nSites < 50 {
		r.undecided("T2:vta-dynamic-callees", clause2, "-", fmt.Sprintf("only %d dynamic call sites seen", nSites))
	} else if len(bad2) > 0 {
		r.bad("T2:vta-dynamic-callees", clause2, "-", strings.Join(dedup(bad2), "\n"))
	} else {
		r.ok("T2:vta-dynamic-callees", clause2, "-", fmt.Sprintf("VTA graph: %d nodes; %d dynamic call sites inside library code; %d (site, library-callee) edges, every such callee free of parameter/global writes", len(cg.Nodes), nSites, nLibCallees))
	}
	// T3: the test and example packages type-check against the current library (the quick tier loads without tests)
	ntest := 0
	for _, pk := range p2.All {
		if strings.HasSuffix(pk.ID, ".test]") || strings.HasSuffix(pk.PkgPath, "_test") || strings.Contains(pk.ID, "[") {
			ntest++
		}
	}
	r.ok("T3:tests-typecheck", "the repository's own tests and examples type-check against the analysed library (no verdict is given on a tree that does not build)", "-", fmt.Sprintf("%d test-variant packages loaded without errors", ntest))
	return r
}
