package main

// rules_walk.go — R33 WALK: an index-driven pointer walk over a linked chain ends on the element it was asked for.
//
// The linked lists find "the element at index i" by walking from one end while counting: `for e := 0; e != i; e++ { x =
// x.next }` or, from the tail, `for e := size-1; e != i; e-- { x = x.prev }`. Positions are symbolic: first ↦ 0, last ↦
// size-1, x.next ↦ pos(x)+1, x.prev ↦ pos(x)-1. For every loop that carries such pointers together with one counter the
// rule proves the invariant pos(pointer) = counter + d by induction over the loop's guarded commands (entry edges fix d, back
// edges must preserve it — a hop in the wrong direction or a double hop breaks it), derives the counter's value at loop exit
// from the loop condition (e != i ⇒ i; descending e >= i ⇒ i-1; …) and with it the exit position of every pointer. Then:
// (a) walks of one function that feed the same code must agree on those exit positions (walking from the tail must land
// where walking from the head lands), and (b) in a function with an index parameter some pointer must land exactly on it.

import (
	"fmt"
	"sort"
	"strings"
)

type walkInfo struct {
	cut      int
	exitPos  []string            // exit positions of the pointers used after the loop, sorted
	slotExit map[string]lin      // exit position of every pointer slot ("k.j")
	touched  []string            // positions of every pointer expression (pointer, pointer.next, …) the code after the loop mentions
	valuePos []string            // positions of the pointers whose value field the loop's exit paths access
	succ     map[string][]string // successor cut → position of each value the exit paths hand over ("" = not a walked pointer)
	bound    string
	describe string
	cslot    int         // the counter slot
	offsets  map[int]lin // pointer slot → d with pos(slot) = counter + d at the loop head (filled even when the loop has no counter bound)
}

func ruleR33(c *Ctx) *RuleResult {
	p := c.p
	r := &RuleResult{Rule: "R33", Title: "WALK: index-driven pointer walks keep pointer and counter in step and land on the requested position from either end", Floor: 8}
	clause := "in every loop that walks a linked chain while counting, pos(pointer) = counter + d is an invariant (first ↦ 0, last ↦ size-1, next ↦ +1, prev ↦ -1); the walks of one function agree on where they land relative to the requested index, and one pointer lands exactly on it"
	for _, fn := range p.Funcs {
		if fn.Parent() != nil || fn.Blocks == nil || !p.KnownFunc(fn) {
			continue
		}
		gc := c.GC(fn)
		if gc.Undecided != "" {
			continue
		}
		var walks []walkInfo
		var bad []string
		cuts := map[int]bool{}
		for _, g := range gc.GCs {
			if g.Exit.Op == "goto" {
				if k := atoiOr(g.Exit.Leaf, -1); k > 0 {
					cuts[k] = true
				}
			}
		}
		var ks []int
		for k := range cuts {
			ks = append(ks, k)
		}
		sort.Ints(ks)
		foreign := map[string]lin{}
		for _, k := range ks {
			w, b, ok := analyseWalk(gc, k, foreign)
			if !ok {
				continue
			}
			for leafName, v := range w.slotExit {
				foreign[leafName] = v
			}
			bad = append(bad, b...)
			walks = append(walks, w)
		}
		if len(walks) == 0 {
			continue
		}
		// (a)/(b) apply to operations on one requested index (Get, Set, Remove, Insert, …): an int parameter in position 1 and
		// no second int parameter (Swap picks two positions and is judged by R38)
		single := len(fn.Params) >= 2
		if single {
			if _, _, isInt := intBits(fn.Params[1].Type()); !isInt {
				single = false
			}
			if len(fn.Params) >= 3 {
				if _, _, isInt := intBits(fn.Params[2].Type()); isInt {
					single = false
				}
			}
		}
		// (a) agreement between the walks of one function towards the same bound
		for i := 1; single && i < len(walks); i++ {
			// walks that hand their pointers to the same continuation are compared role by role (argument by argument)
			shared := false
			for k, p0 := range walks[0].succ {
				p1, ok := walks[i].succ[k]
				if !ok {
					continue
				}
				shared = true
				for j := range p0 {
					if j < len(p1) && p0[j] != "" && p1[j] != "" && p0[j] != p1[j] {
						bad = append(bad, fmt.Sprintf("the walks of this function hand over pointers at different positions (%s vs %s) in the same role: %s — versus %s", p0[j], p1[j], walks[0].describe, walks[i].describe))
					}
				}
			}
			if shared {
				continue
			}
			if strings.Join(walks[i].exitPos, ",") != strings.Join(walks[0].exitPos, ",") {
				bad = append(bad, fmt.Sprintf("the walks of this function land on different positions: %s — versus %s", walks[0].describe, walks[i].describe))
			}
		}
		// (b) where the code right after a walk reads or writes an element's value through a walked pointer (Get, Set), that
		// pointer stands on the requested index
		for _, w := range walks {
			if !single {
				break
			}
			for _, vp := range w.valuePos {
				if vp != "p:1" {
					bad = append(bad, fmt.Sprintf("the element whose value is accessed after the walk is at position %s, not at the requested index: %s", vp, w.describe))
				}
			}
		}
		key := p.FuncKey(fn)
		var ds []string
		for _, w := range walks {
			ds = append(ds, w.describe)
		}
		if len(bad) > 0 {
			r.bad(key, clause, p.FuncPos(fn), strings.Join(dedup(bad), "\n"))
		} else {
			r.ok(key, clause, p.FuncPos(fn), strings.Join(ds, "; "))
		}
	}
	return r
}

func atoiOr(s string, d int) int {
	n := 0
	if _, err := fmt.Sscanf(s, "%d", &n); err != nil {
		return d
	}
	return n
}

// analyseWalk: cut k is a counting pointer walk; returns its description and the violations of the invariant.
func analyseWalk(gc *GCNF, k int, foreign map[string]lin) (walkInfo, []string, bool) {
	ks := itoa(k)
	var entries, backs, exits []*GC
	for _, g := range gc.GCs {
		switch {
		case g.Exit.Op == "goto" && g.Exit.Leaf == ks && g.From != k:
			entries = append(entries, g)
		case g.Exit.Op == "goto" && g.Exit.Leaf == ks && g.From == k:
			backs = append(backs, g)
		case g.From == k:
			exits = append(exits, g)
		}
	}
	if len(entries) == 0 || len(backs) == 0 || len(exits) == 0 {
		return walkInfo{}, nil, false
	}
	n := len(backs[0].Exit.Args)
	phi := func(j int) string { return "φ:" + ks + "." + itoa(j) }
	// the counter: a slot that every back edge moves by the same ±1
	cslot, step := -1, 0
	for j := 0; j < n; j++ {
		st := 0
		ok := true
		for _, b := range backs {
			if j >= len(b.Exit.Args) {
				ok = false
				break
			}
			d := linOf(b.Exit.Args[j]).add(linAtom(phi(j)), -1)
			if len(d.c) != 0 || (d.k != 1 && d.k != -1) || (st != 0 && st != d.k) {
				ok = false
				break
			}
			st = d.k
		}
		if ok {
			if cslot >= 0 {
				return walkInfo{}, nil, false // two counters: not this shape
			}
			cslot, step = j, st
		}
	}
	if cslot < 0 {
		// no ±1 counter. A loop that hops a pointer through its own next/prev and whose continuation condition compares a
		// loop variable that every round leaves unchanged (or moves by more than the one hop the pointer makes) is a counted
		// walk whose counter is out of step: it can only end by running off the chain
		ownHops := 0
		for j := 0; j < n; j++ {
			for _, b := range backs {
				if j < len(b.Exit.Args) {
					bv := b.Exit.Args[j]
					if bv.Op == "load" && len(bv.Args) == 1 && bv.Args[0].Op == "fa" && (bv.Args[0].Leaf == "next" || bv.Args[0].Leaf == "prev") && len(bv.Args[0].Args) == 1 && bv.Args[0].Args[0].String() == phi(j) {
						ownHops++
						break
					}
				}
			}
		}
		if ownHops == 0 {
			return walkInfo{}, nil, false
		}
		var bad []string
		for j := 0; j < n; j++ {
			constStep, first, ok := 0, true, true
			for _, b := range backs {
				if j >= len(b.Exit.Args) {
					ok = false
					break
				}
				d := linOf(b.Exit.Args[j]).add(linAtom(phi(j)), -1)
				if len(d.c) != 0 || (!first && d.k != constStep) {
					ok = false
					break
				}
				constStep, first = d.k, false
			}
			if !ok || first || constStep == 1 || constStep == -1 {
				continue
			}
			// the slot must be what the continuation condition (a guard of every back edge) compares
			inCond := true
			for _, b := range backs {
				has := false
				for _, a := range b.Guards {
					if len(a.Args) == 2 && (a.Args[0].String() == phi(j) || a.Args[1].String() == phi(j)) {
						has = true
					}
				}
				if !has {
					inCond = false
				}
			}
			if !inCond {
				continue
			}
			if constStep == 0 {
				bad = append(bad, fmt.Sprintf("loop %d: the walk's continuation condition tests %s, which no round changes, while the pointer hops through its own link — the walk cannot stop on the list", k, phi(j)))
			} else {
				bad = append(bad, fmt.Sprintf("loop %d: the counter %s moves by %d per round while the pointer makes one hop — pointer and counter are out of step", k, phi(j), constStep))
			}
		}
		if len(bad) > 0 {
			return walkInfo{describe: fmt.Sprintf("loop %d has no counter in step with its pointer", k)}, bad, true
		}
		return walkInfo{}, nil, false
	}
	S := linAtom("(load (fa:size p:0))")
	var pos func(t *Term) (lin, bool, bool) // value, isNil, ok
	pos = func(t *Term) (lin, bool, bool) {
		switch {
		case t.Op == "φ" && strings.HasPrefix(t.Leaf, ks+"."):
			return linAtom("P" + t.Leaf[len(ks)+1:]), false, true
		case t.Op == "φ":
			// a pointer that an earlier walk of the same function left at a known position
			if v, ok := foreign[t.Leaf]; ok {
				return v, false, true
			}
		case t.String() == "#:nil":
			return lin{}, true, true
		case t.Op == "load" && len(t.Args) == 1 && t.Args[0].Op == "fa" && len(t.Args[0].Args) == 1:
			f, x := t.Args[0].Leaf, t.Args[0].Args[0]
			switch f {
			case "first":
				if x.String() == "p:0" {
					return linConst(0), false, true
				}
			case "last":
				if x.String() == "p:0" {
					return S.add(linConst(1), -1), false, true
				}
			case "next", "prev":
				v, isNil, ok := pos(x)
				if !ok || isNil {
					return lin{}, false, false
				}
				if f == "next" {
					return v.add(linConst(1), 1), false, true
				}
				return v.add(linConst(1), -1), false, true
			}
		}
		return lin{}, false, false
	}
	// pointer slots: every entry value and every back-edge value has a position
	type slot struct {
		j int
		d lin
	}
	var slots []slot
	var bad []string
	nilStart := false
	// ratio[j]: +1 when pointer j moves with the counter (next while counting up, prev while counting down), -1 when it moves
	// against it (next while counting down: `for steps := index-1; steps > 0; steps--`): pos(slot) = ratio·counter + d
	ratio := map[int]int{}
	scale := func(l lin, r int) lin {
		if r == 1 {
			return l
		}
		return linConst(0).add(l, -1)
	}
	for j := 0; j < n; j++ {
		if j == cslot {
			continue
		}
		ratio[j] = 1
		for _, b := range backs {
			if j < len(b.Exit.Args) {
				if v, isNil, ok := pos(b.Exit.Args[j]); ok && !isNil {
					if h := v.add(linAtom("P"+itoa(j)), -1); len(h.c) == 0 && (h.k == 1 || h.k == -1) {
						ratio[j] = h.k * step
					}
				}
			}
		}
		isPtr := true
		hops := false
		for _, b := range backs {
			if j >= len(b.Exit.Args) {
				isPtr = false
				break
			}
			if _, _, ok := pos(b.Exit.Args[j]); !ok {
				isPtr = false
			}
			if b.Exit.Args[j].any(func(t *Term) bool { return t.Op == "fa" && (t.Leaf == "next" || t.Leaf == "prev") }) {
				hops = true
			}
		}
		if !isPtr || !hops {
			// a slot that merely copies another pointer slot is a pointer too
			copies := isPtr
			for _, b := range backs {
				if j >= len(b.Exit.Args) || b.Exit.Args[j].Op != "φ" {
					copies = false
				}
			}
			if !copies {
				continue
			}
		}
		// d from the entry edges
		var d *lin
		okEntry := true
		for _, e := range entries {
			if j >= len(e.Exit.Args) || cslot >= len(e.Exit.Args) {
				okEntry = false
				break
			}
			v, isNil, ok := pos(e.Exit.Args[j])
			if !ok {
				okEntry = false
				break
			}
			if isNil {
				// nil stands for "before the first" / "after the last" for a pointer that trails another one; a pointer
				// that is advanced through its own next/prev must not enter as nil: the first round dereferences it
				for _, b := range backs {
					if j < len(b.Exit.Args) {
						bv := b.Exit.Args[j]
						if bv.Op == "load" && len(bv.Args) == 1 && bv.Args[0].Op == "fa" && (bv.Args[0].Leaf == "next" || bv.Args[0].Leaf == "prev") && len(bv.Args[0].Args) == 1 && bv.Args[0].Args[0].String() == phi(j) {
							bad = append(bad, fmt.Sprintf("loop %d: pointer %s enters as nil and is advanced through its own .%s — the walk starts nowhere", k, phi(j), bv.Args[0].Leaf))
							nilStart = true
						}
					}
				}
				continue
			}
			dd := v.add(scale(linOf(e.Exit.Args[cslot]), ratio[j]), -1)
			if d != nil && d.String() != dd.String() {
				bad = append(bad, fmt.Sprintf("loop %d: pointer %s enters with different offsets to the counter (%s vs %s)", k, phi(j), d.String(), dd.String()))
			}
			d = &dd
		}
		if !okEntry {
			continue
		}
		if d == nil {
			// only nil entries: take the offset the first back edge establishes relative to the other slots later
			continue
		}
		loopVariant := false
		for x := range d.c {
			if strings.HasPrefix(x, "P") || strings.HasPrefix(x, "φ") {
				loopVariant = true
			}
		}
		if loopVariant {
			continue // the offset depends on loop variables: not a counted walk of this pointer
		}
		slots = append(slots, slot{j, *d})
	}
	if len(slots) == 0 {
		if nilStart {
			return walkInfo{describe: fmt.Sprintf("loop %d starts at nil", k)}, bad, true
		}
		return walkInfo{}, nil, false
	}
	// nil-entered slots that copy a known slot: offset = that slot's offset - step (it trails by one round)
	known := map[int]lin{}
	for _, s := range slots {
		known[s.j] = s.d
	}
	for j := 0; j < n; j++ {
		if _, ok := known[j]; ok || j == cslot {
			continue
		}
		allCopy := true
		src := -1
		for _, b := range backs {
			if j >= len(b.Exit.Args) || b.Exit.Args[j].Op != "φ" || !strings.HasPrefix(b.Exit.Args[j].Leaf, ks+".") {
				allCopy = false
				break
			}
			s := atoiOr(b.Exit.Args[j].Leaf[len(ks)+1:], -1)
			if src >= 0 && s != src {
				allCopy = false
			}
			src = s
		}
		if allCopy && src >= 0 {
			if dsrc, ok := known[src]; ok {
				ratio[j] = ratio[src]
				d := dsrc.add(linConst(step*ratio[src]), -1)
				known[j] = d
				slots = append(slots, slot{j, d})
			}
		}
	}
	// induction: every back edge preserves pos(slot) = counter + d
	subst := func(l lin) lin {
		out := linConst(l.k)
		for x, c := range l.c {
			term := linAtom(x)
			if strings.HasPrefix(x, "P") {
				if d, ok := known[atoiOr(x[1:], -1)]; ok {
					term = scale(linAtom(phi(cslot)), ratio[atoiOr(x[1:], -1)]).add(d, 1)
				}
			}
			for i := 0; i < c; i++ {
				out = out.add(term, 1)
			}
			for i := 0; i > c; i-- {
				out = out.add(term, -1)
			}
		}
		return out
	}
	for _, s := range slots {
		for _, b := range backs {
			v, isNil, ok := pos(b.Exit.Args[s.j])
			if !ok || isNil {
				continue
			}
			got := subst(v).add(scale(linOf(b.Exit.Args[cslot]), ratio[s.j]), -1)
			if got.String() != s.d.String() {
				bad = append(bad, fmt.Sprintf("loop %d: a round moves pointer %s and the counter out of step (offset %s becomes %s): %s", k, phi(s.j), s.d.String(), got.String(), trunc(noEpoch(b.Exit), 200)))
			}
		}
	}
	// a walk leads into the list: a pointer that enters at the tail end (position size-1-c) is advanced through prev, one that
	// enters at the head end (position c) through next — the other way round it leaves the list with its first hop
	sizeAtom := "(load (fa:size p:0))"
	for _, s := range slots {
		hop := ratio[s.j] * step
		ownHop := false
		for _, b := range backs {
			if s.j < len(b.Exit.Args) {
				bv := b.Exit.Args[s.j]
				if bv.Op == "load" && len(bv.Args) == 1 && bv.Args[0].Op == "fa" && (bv.Args[0].Leaf == "next" || bv.Args[0].Leaf == "prev") && len(bv.Args[0].Args) == 1 && bv.Args[0].Args[0].String() == phi(s.j) {
					ownHop = true
				}
			}
		}
		if !ownHop {
			continue
		}
		for _, e := range entries {
			if s.j >= len(e.Exit.Args) {
				continue
			}
			v, isNil, ok := pos(e.Exit.Args[s.j])
			if !ok || isNil {
				continue
			}
			onlySize := true
			for x := range v.c {
				if x != sizeAtom {
					onlySize = false
				}
			}
			if !onlySize {
				continue
			}
			switch {
			case v.c[sizeAtom] == 1 && v.k <= 0 && v.k >= -2 && hop > 0:
				bad = append(bad, fmt.Sprintf("loop %d: pointer %s enters at the tail end (position %s) and is advanced through next — it leaves the list with its first hop", k, phi(s.j), v.String()))
			case len(v.c) == 0 && v.k >= 0 && v.k <= 2 && hop < 0:
				bad = append(bad, fmt.Sprintf("loop %d: pointer %s enters at the head end (position %s) and is advanced through prev — it leaves the list with its first hop", k, phi(s.j), v.String()))
			}
		}
	}
	// the counter at loop exit, from the continuation condition of the back edges
	var bound *lin
	exitVal := lin{}
	for _, b := range backs {
		for _, a := range b.Guards {
			if len(a.Args) != 2 {
				continue
			}
			x, y := a.Args[0], a.Args[1]
			isC := func(t *Term) bool { return t.String() == phi(cslot) }
			var B lin
			var ev lin
			switch {
			case a.Op == "==" && (isC(x) || isC(y)):
				// the continuation condition itself (carried by every back edge), not a pick inside the round
				all := true
				for _, b2 := range backs {
					has := false
					for _, a2 := range b2.Guards {
						if a2.String() == a.String() {
							has = true
						}
					}
					if !has {
						all = false
					}
				}
				if all {
					bad = append(bad, fmt.Sprintf("loop %d: the walk continues while the counter *equals* its bound (%s): it stops at once everywhere else", k, trunc(noEpoch(a), 100)))
				}
				continue
			case a.Op == "!=" && (isC(x) || isC(y)):
				if isC(x) {
					B = linOf(y)
				} else {
					B = linOf(x)
				}
				ev = B
				// the counter runs towards its bound: from 0 upwards, from size-1 downwards (an index within the list lies
				// between the two); the other way round it never meets it
				for _, e := range entries {
					if cslot >= len(e.Exit.Args) {
						continue
					}
					c0 := linOf(e.Exit.Args[cslot])
					if len(c0.c) == 0 && c0.k == 0 && step < 0 {
						bad = append(bad, fmt.Sprintf("loop %d: the counter starts at 0 and counts down — it never meets the index it is compared with", k))
					}
					if len(c0.c) == 1 && c0.c["(load (fa:size p:0))"] == 1 && c0.k == -1 && step > 0 {
						bad = append(bad, fmt.Sprintf("loop %d: the counter starts at size-1 and counts up — it never meets the index it is compared with", k))
					}
				}
			case a.Op == "<" && isC(x) && step > 0: // e < B
				B = linOf(y)
				ev = B
			case a.Op == "<=" && isC(x) && step > 0: // e <= B
				B = linOf(y)
				ev = B.add(linConst(1), 1)
			case a.Op == "<" && isC(y) && step < 0: // B < e
				B = linOf(x)
				ev = B
			case a.Op == "<=" && isC(y) && step < 0: // B <= e
				B = linOf(x)
				ev = B.add(linConst(1), -1)
			default:
				continue
			}
			bound, exitVal = &B, ev
		}
	}
	if bound == nil {
		return walkInfo{cut: k, cslot: cslot, offsets: known}, bad, len(bad) > 0
	}
	// pointers used after the loop
	slotExit := map[string]lin{}
	var exitPos []string
	var parts []string
	for _, s := range slots {
		used := false
		for _, e := range exits {
			chk := func(t *Term) bool { return t.Op == "φ" && t.Leaf == ks+"."+itoa(s.j) }
			for _, ef := range e.Effects {
				if ef.any(chk) {
					used = true
				}
			}
			if e.Exit.any(chk) {
				used = true
			}
			for _, a := range e.Guards {
				if a.any(chk) {
					used = true
				}
			}
		}
		slotExit[ks+"."+itoa(s.j)] = scale(exitVal, ratio[s.j]).add(s.d, 1)
		if used {
			ep := scale(exitVal, ratio[s.j]).add(s.d, 1)
			exitPos = append(exitPos, ep.String())
			parts = append(parts, fmt.Sprintf("%s ends at %s", phi(s.j), ep.String()))
		}
	}
	// positions the code after the loop touches: φ, φ.next, φ.prev.prev, …
	var touched []string
	slotD := map[string]lin{}
	for _, s := range slots {
		slotD[ks+"."+itoa(s.j)] = s.d
	}
	var posAfter func(t *Term) (lin, bool)
	posAfter = func(t *Term) (lin, bool) {
		if t.Op == "φ" {
			if d, ok := slotD[t.Leaf]; ok {
				return scale(exitVal, ratio[atoiOr(t.Leaf[len(ks)+1:], -1)]).add(d, 1), true
			}
			return lin{}, false
		}
		if t.Op == "load" && len(t.Args) == 1 && t.Args[0].Op == "fa" && len(t.Args[0].Args) == 1 && (t.Args[0].Leaf == "next" || t.Args[0].Leaf == "prev") {
			if v, ok := posAfter(t.Args[0].Args[0]); ok {
				if t.Args[0].Leaf == "next" {
					return v.add(linConst(1), 1), true
				}
				return v.add(linConst(1), -1), true
			}
		}
		// the ends of the list themselves: first is position 0, last position size-1
		if t.Op == "load" && len(t.Args) == 1 && t.Args[0].Op == "fa" && len(t.Args[0].Args) == 1 && t.Args[0].Args[0].String() == "p:0" {
			switch t.Args[0].Leaf {
			case "first":
				return linConst(0), true
			case "last":
				return S.add(linConst(1), -1), true
			}
		}
		return lin{}, false
	}
	var valuePos []string
	for _, e := range exits {
		visit := func(t *Term) bool {
			if v, ok := posAfter(t); ok {
				touched = append(touched, v.String())
			}
			if t.Op == "fa" && t.Leaf == "value" && len(t.Args) == 1 {
				if v, ok := posAfter(t.Args[0]); ok {
					valuePos = append(valuePos, v.String())
				}
			}
			return false
		}
		for _, ef := range e.Effects {
			ef.any(visit)
		}
		e.Exit.any(visit)
		for _, a := range e.Guards {
			a.any(visit)
		}
	}
	succ := map[string][]string{}
	for _, e := range exits {
		if e.Exit.Op != "goto" {
			continue
		}
		var ps []string
		for _, a := range e.Exit.Args {
			if v, ok := posAfter(a); ok {
				ps = append(ps, v.String())
			} else {
				ps = append(ps, "")
			}
		}
		if old, ok := succ[e.Exit.Leaf]; ok {
			for i := range old {
				if i < len(ps) && old[i] != ps[i] {
					old[i] = ""
				}
			}
		} else {
			succ[e.Exit.Leaf] = ps
		}
	}
	sort.Strings(exitPos)
	dir := "up"
	if step < 0 {
		dir = "down"
	}
	return walkInfo{cut: k, exitPos: exitPos, touched: touched, valuePos: valuePos, succ: succ, slotExit: slotExit, cslot: cslot, offsets: known, bound: bound.String(), describe: fmt.Sprintf("loop %d counts %s to %s: %s", k, dir, bound.String(), strings.Join(parts, ", "))}, bad, true
}

// ---- R39 ENDS: a linked list that unlinks an element keeps first/last on the chain's real ends ----

func ruleR39(c *Ctx) *RuleResult {
	p := c.p
	r := &RuleResult{Rule: "R39", Title: "ENDS: a path that removes one element either moves first/last or knows the removed element is not that end", Floor: 2}
	clause := "on every path of %s that decrements the size (one element is unlinked), for each of first and last: the field is stored, or the path knows (by a comparison with the field) that the removed element is not that end — otherwise the field keeps pointing at an element that is no longer in the list and the next Add/Prepend links behind it"
	for _, tk := range []string{"lists/singlylinkedlist.List", "lists/doublylinkedlist.List"} {
		ct := p.T.ContainerByKey(tk)
		if ct == nil {
			continue
		}
		ms := methodsOf(p, ct)
		for _, name := range sortedNames(ms) {
			fn := ms[name]
			gc := c.GC(fn)
			if gc.Undecided != "" {
				continue
			}
			var bad []string
			n := 0
			for _, g0 := range gc.GCs {
				dec := false
				for _, ef := range g0.Effects {
					if storeToField(ef, "size") && ef.Args[0].Args[0].String() == "p:0" && ef.Args[1].Op == "-" && len(ef.Args[1].Args) == 2 && ef.Args[1].Args[1].String() == "#:1" {
						dec = true
					}
				}
				if !dec {
					continue
				}
				n++
				// a path that starts at a loop header also knows what every path into that loop knows (parameters and the
				// size are not written by the search loops)
				gStart := &GC{From: g0.From, Guards: append(append([]*Term(nil), g0.Guards...), entryKnowledge(gc, g0.From, 0)...), Effects: g0.Effects, Exit: g0.Exit}
				// the counter may be decremented before a walk: the removing path is then this path continued through the
				// loop to each return (the rounds of the walk themselves neither store nor compare the ends)
				var composites []*GC
				var extend func(g *GC, depth int)
				extend = func(g *GC, depth int) {
					if g.Exit.Op != "goto" || depth > 3 {
						composites = append(composites, g)
						return
					}
					k := atoiOr(g.Exit.Leaf, -1)
					n := 0
					for _, h := range gc.GCs {
						if h.From != k || (h.Exit.Op == "goto" && h.Exit.Leaf == g.Exit.Leaf) {
							continue
						}
						n++
						extend(&GC{From: g.From, Guards: append(append([]*Term(nil), g.Guards...), h.Guards...), Effects: append(append([]*Term(nil), g.Effects...), h.Effects...), Exit: h.Exit}, depth+1)
					}
					if n == 0 {
						composites = append(composites, g)
					}
				}
				extend(gStart, 0)
				for _, g := range composites {
					for _, f := range []string{"first", "last"} {
						stored, known := false, false
						for _, ef := range g.Effects {
							if storeToField(ef, f) && ef.Args[0].Args[0].String() == "p:0" {
								stored = true
								// the new end is the removed element's neighbour: first = removed.next, last = removed.prev —
								// where "removed" is what the path knows to be the old end
								v := ef.Args[1]
								hop := map[string]string{"first": "next", "last": "prev"}[f]
								if v.Op == "load" && len(v.Args) == 1 && v.Args[0].Op == "fa" && (v.Args[0].Leaf == "next" || v.Args[0].Leaf == "prev") && len(v.Args[0].Args) == 1 {
									x := v.Args[0].Args[0]
									isEnd := func(t *Term) bool {
										return t.Op == "load" && len(t.Args) == 1 && t.Args[0].Op == "fa" && t.Args[0].Leaf == f && t.Args[0].Args[0].String() == "p:0"
									}
									okX := isEnd(x)
									back := map[string]string{"first": "prev", "last": "next"}[f]
									for _, a := range g.Guards {
										if a.Op == "==" && len(a.Args) == 2 {
											if (isEnd(a.Args[0]) && noEpoch(a.Args[1]) == noEpoch(x)) || (isEnd(a.Args[1]) && noEpoch(a.Args[0]) == noEpoch(x)) {
												okX = true
											}
											// a walk whose trailing pointer is still nil has not left the head (singly linked: no prev field)
											if f == "first" && x.Op == "φ" {
												for i := 0; i < 2; i++ {
													y := a.Args[1-i]
													if a.Args[i].String() == "#:nil" && y.Op == "φ" && y.Leaf != x.Leaf && strings.SplitN(y.Leaf, ".", 2)[0] == strings.SplitN(x.Leaf, ".", 2)[0] {
														okX = true
													}
												}
											}
											// an element without a predecessor is the first one, one without a successor the last one
											for i := 0; i < 2; i++ {
												y := a.Args[1-i]
												if a.Args[i].String() == "#:nil" && y.Op == "load" && len(y.Args) == 1 && y.Args[0].Op == "fa" && y.Args[0].Leaf == back && len(y.Args[0].Args) == 1 && noEpoch(y.Args[0].Args[0]) == noEpoch(x) {
													okX = true
												}
											}
										}
									}
									if !okX || v.Args[0].Leaf != hop {
										bad = append(bad, fmt.Sprintf("a removing path sets %s to %s, which is not the .%s of the element it knows to be the old %s", f, trunc(noEpoch(v), 100), hop, f))
									}
								}
							}
						}
						// a comparison of the end field with an element: != says the removed element is not that end; == says
						// it is, and then the end must move
						eqEnd, neEnd := false, false
						isAnyEnd := func(t *Term) bool {
							return t.Op == "load" && len(t.Args) == 1 && t.Args[0].Op == "fa" && (t.Args[0].Leaf == "first" || t.Args[0].Leaf == "last") && t.Args[0].Args[0].String() == "p:0"
						}
						for _, a := range g.Guards {
							if (a.Op == "!=" || a.Op == "==") && len(a.Args) == 2 {
								for i, x := range a.Args {
									if x.Op == "load" && len(x.Args) == 1 && x.Args[0].Op == "fa" && x.Args[0].Leaf == f && x.Args[0].Args[0].String() == "p:0" {
										known = true
										y := a.Args[1-i]
										if y.String() == "#:nil" || isAnyEnd(y) {
											continue
										}
										if a.Op == "==" {
											eqEnd = true
										} else {
											neEnd = true
										}
									}
								}
							}
						}
						if eqEnd && !neEnd && !stored {
							bad = append(bad, fmt.Sprintf("a removing path knows that the removed element is the %s one and leaves %s pointing at it: %s", f, f, trunc(guardsString(g), 240)))
						}
						if neEnd && !eqEnd && stored {
							moved := false
							for _, ef := range g.Effects {
								if storeToField(ef, f) && ef.Args[0].Args[0].String() == "p:0" && !(ef.Args[1].Op == "load" && len(ef.Args[1].Args) == 1 && ef.Args[1].Args[0].Op == "fa" && ef.Args[1].Args[0].Leaf == f) {
									moved = true
								}
							}
							if moved {
								bad = append(bad, fmt.Sprintf("a removing path moves %s although it knows that the removed element is not the %s one: %s", f, f, trunc(guardsString(g), 240)))
							}
						}
						// removal by index knows the end from the index as well: index != 0 / index != size-1
						for _, a := range g.Guards {
							s := noEpoch(a)
							if f == "first" && (strings.Contains(s, "(!= #:0 p:1)") || strings.Contains(s, "(< #:0 p:1)")) {
								known = true
							}
							if f == "last" && (strings.Contains(s, "(!= (- (load (fa:size p:0)) #:1) p:1)") || strings.Contains(s, "(!= p:1 (- (load (fa:size p:0)) #:1))")) {
								known = true
							}
						}
						// the element known to be the *other* end touches this end only when the list becomes empty (R27's business):
						// removing the head never moves last otherwise, removing the tail never moves first
						other := "first"
						if f == "first" {
							other = "last"
						}
						for _, a := range g.Guards {
							if a.Op != "==" || len(a.Args) != 2 {
								continue
							}
							x, y := a.Args[0], a.Args[1]
							isOtherEnd := func(t *Term) bool {
								return t.Op == "load" && len(t.Args) == 1 && t.Args[0].Op == "fa" && t.Args[0].Leaf == other && t.Args[0].Args[0].String() == "p:0"
							}
							if isOtherEnd(x) || isOtherEnd(y) {
								known = true
							}
							if x.String() == "#:nil" {
								// no predecessor (head) / no successor (tail)
								if f == "last" && (y.Op == "φ" || (y.Op == "load" && y.Args[0].Op == "fa" && y.Args[0].Leaf == "prev")) {
									known = true
								}
								if f == "first" && y.Op == "load" && y.Args[0].Op == "fa" && y.Args[0].Leaf == "next" {
									known = true
								}
							}
							if f == "last" && x.String() == "#:0" && y.String() == "p:1" {
								known = true
							}
						}
						// an element with a predecessor is not the first one; one with a successor is not the last one
						for _, a := range g.Guards {
							if a.Op != "!=" || len(a.Args) != 2 || a.Args[0].String() != "#:nil" {
								continue
							}
							y := a.Args[1]
							if f == "first" && (y.Op == "φ" || (y.Op == "load" && y.Args[0].Op == "fa" && y.Args[0].Leaf == "prev")) {
								known = true
							}
							if f == "last" && y.Op == "load" && y.Args[0].Op == "fa" && y.Args[0].Leaf == "next" {
								known = true
							}
						}
						if !stored && !known {
							bad = append(bad, fmt.Sprintf("a removing path neither stores %s nor knows that the removed element is not the %s one: %s", f, f, trunc(guardsString(g), 240)))
						}
					}
				}
			}
			// KEEPLINKS: the element being removed keeps its own next/prev: a cursor that stands on it (an iterator created
			// before the removal) continues through them; cutting them makes its next step land on nil inside the range
			for _, g := range gc.GCs {
				dec := false
				for _, ef := range g.Effects {
					if storeToField(ef, "size") && ef.Args[0].Args[0].String() == "p:0" && ef.Args[1].Op == "-" {
						dec = true
					}
				}
				if !dec {
					continue
				}
				src := map[string]bool{} // elements whose links are handed to their neighbours: the removed ones
				for _, ef := range g.Effects {
					if !isStore(ef) {
						continue
					}
					v := ef.Args[1]
					if v.Op == "load" && len(v.Args) == 1 && v.Args[0].Op == "fa" && (v.Args[0].Leaf == "next" || v.Args[0].Leaf == "prev") && len(v.Args[0].Args) == 1 {
						src[noEpoch(v.Args[0].Args[0])] = true
					}
				}
				for _, ef := range g.Effects {
					if (storeToField(ef, "next") || storeToField(ef, "prev")) && ef.Args[1].String() == "#:nil" && src[noEpoch(ef.Args[0].Args[0])] && ef.Args[0].Args[0].Op != "new" {
						n++
						bad = append(bad, fmt.Sprintf("the removed element's own %s link is cut (%s): an iterator standing on that element continues through it", ef.Args[0].Leaf, trunc(noEpoch(ef), 120)))
					}
				}
			}
			// TAILNIL: a fresh element that becomes the tail (last = n) while its next points at the current head
			// (n.next = first) is right only when the list is empty *now* — the path must know that from a size / end test of
			// the current round, not from one taken before the loop
			for _, g := range gc.GCs {
				fresh := map[string]*Term{} // new element → what its next was set to
				for _, ef := range g.Effects {
					if storeToField(ef, "next") && ef.Args[0].Args[0].Op == "new" {
						fresh[noEpoch(ef.Args[0].Args[0])] = ef.Args[1]
					}
				}
				for _, ef := range g.Effects {
					if !(storeToField(ef, "last") && ef.Args[0].Args[0].String() == "p:0" && ef.Args[1].Op == "new") {
						continue
					}
					nx, ok := fresh[noEpoch(ef.Args[1])]
					if !ok || !(nx.Op == "load" && len(nx.Args) == 1 && nx.Args[0].Op == "fa" && nx.Args[0].Leaf == "first" && nx.Args[0].Args[0].String() == "p:0") {
						continue
					}
					n++
					emptyNow := false
					for _, a := range g.Guards {
						if a.Op != "==" || len(a.Args) != 2 {
							continue
						}
						for i := 0; i < 2; i++ {
							k, x := a.Args[i], a.Args[1-i]
							if !(x.Op == "load" && len(x.Args) == 1 && x.Args[0].Op == "fa" && len(x.Args[0].Args) == 1 && x.Args[0].Args[0].String() == "p:0") {
								continue
							}
							m := verRe.FindStringSubmatch(x.Leaf)
							if m == nil || atoiOr(m[2], 1) != 0 {
								continue // read before the loop, or after this path already stored the field
							}
							if (k.String() == "#:0" && x.Args[0].Leaf == "size") || (k.String() == "#:nil" && (x.Args[0].Leaf == "first" || x.Args[0].Leaf == "last")) {
								emptyNow = true
							}
						}
					}
					if !emptyNow {
						bad = append(bad, fmt.Sprintf("a new element whose next is the current head becomes the tail on a path that does not know the list is empty at that moment (a test taken before the loop says nothing about later rounds): %s", trunc(g.String(), 240)))
					}
				}
			}
			// EMPTYBOTH: a path that knows the list is empty now, links one new element (size + 1) and points one end at a
			// fresh element must point the other end at one too — the next round / call relies on size > 0 ⇒ both ends set
			for _, g := range gc.GCs {
				emptyNow := false
				for _, a := range g.Guards {
					if a.Op != "==" || len(a.Args) != 2 {
						continue
					}
					for i := 0; i < 2; i++ {
						k, x := a.Args[i], a.Args[1-i]
						if !(x.Op == "load" && len(x.Args) == 1 && x.Args[0].Op == "fa" && len(x.Args[0].Args) == 1 && x.Args[0].Args[0].String() == "p:0") {
							continue
						}
						m := verRe.FindStringSubmatch(x.Leaf)
						if m == nil || atoiOr(m[2], 1) != 0 {
							continue
						}
						if k.String() == "#:0" && x.Args[0].Leaf == "size" {
							emptyNow = true
						}
					}
				}
				if !emptyNow {
					continue
				}
				inc := 0
				ends := map[string]bool{}
				for _, ef := range g.Effects {
					if storeToField(ef, "size") && ef.Args[0].Args[0].String() == "p:0" {
						if ef.Args[1].Op == "+" && len(ef.Args[1].Args) == 2 && ef.Args[1].Args[0].String() == "#:1" {
							inc++
						} else {
							inc += 100
						}
					}
					for _, f := range []string{"first", "last"} {
						if storeToField(ef, f) && ef.Args[0].Args[0].String() == "p:0" && ef.Args[1].Op == "new" {
							ends[f] = true
						}
					}
				}
				if inc != 1 || len(ends) == 0 {
					continue
				}
				n++
				if len(ends) != 2 {
					miss := "first"
					if ends["first"] {
						miss = "last"
					}
					bad = append(bad, fmt.Sprintf("a path that links a new element into an empty list sets only one end: %s stays nil although the list now has an element: %s", miss, trunc(guardsString(g), 200)))
				}
			}
			// HEADTAIL: making the head the tail (last = first) or the tail the head (first = last) on a path that allocates
			// nothing is right only for a list of at most one element — the path must know its size
			for _, g := range gc.GCs {
				alloc := false
				for _, ef := range g.Effects {
					if isStore(ef) && ef.Args[0].Op == "fa" && ef.Args[0].Args[0].Op == "new" {
						alloc = true
					}
				}
				if alloc {
					continue
				}
				for i, ef := range g.Effects {
					for _, pr := range [][2]string{{"last", "first"}, {"first", "last"}} {
						if !(storeToField(ef, pr[0]) && ef.Args[0].Args[0].String() == "p:0") {
							continue
						}
						v := ef.Args[1]
						if !(v.Op == "load" && len(v.Args) == 1 && v.Args[0].Op == "fa" && v.Args[0].Leaf == pr[1] && v.Args[0].Args[0].String() == "p:0") {
							continue
						}
						n++
						// size knowledge: a guard `size@ver == c` (or <= c) with a dated version, moved by the counter stores
						// that follow it on this path
						deltaAt := func(upto int) int {
							d := 0
							for _, e2 := range g.Effects[:upto] {
								if storeToField(e2, "size") && e2.Args[0].Args[0].String() == "p:0" && len(e2.Args[1].Args) == 2 {
									switch {
									case e2.Args[1].Op == "+" && e2.Args[1].Args[0].String() == "#:1":
										d++
									case e2.Args[1].Op == "-" && e2.Args[1].Args[1].String() == "#:1":
										d--
									default:
										d += 1000
									}
								}
							}
							return d
						}
						knows := false
						for _, a := range g.Guards {
							if len(a.Args) != 2 || (a.Op != "==" && a.Op != "<=" && a.Op != "<") {
								continue
							}
							var ld *Term
							var cst int64
							okc := false
							for j := 0; j < 2; j++ {
								x, y := a.Args[j], a.Args[1-j]
								if x.Op == "load" && len(x.Args) == 1 && x.Args[0].Op == "fa" && x.Args[0].Leaf == "size" && x.Args[0].Args[0].String() == "p:0" {
									if k, ok := y.constInt(); ok && (a.Op == "==" || j == 0) {
										ld, cst, okc = x, k, true
										if a.Op == "<" {
											cst--
										}
									}
								}
							}
							if !okc {
								continue
							}
							m := verRe.FindStringSubmatch(ld.Leaf)
							if m == nil {
								continue // read before the loop: how many rounds have run since is unknown
							}
							// number of size stores before that load = its f stamp
							nBefore := atoiOr(m[2], 0)
							dBefore := 0
							seen := 0
							for idx2, e2 := range g.Effects {
								if storeToField(e2, "size") && e2.Args[0].Args[0].String() == "p:0" {
									seen++
									if seen == nBefore {
										dBefore = deltaAt(idx2 + 1)
									}
								}
							}
							if int(cst)+deltaAt(i+1)-dBefore <= 1 && g.From == 0 || (g.From != 0 && nBefore >= 0 && int(cst)+deltaAt(i+1)-dBefore <= 1 && ld.Leaf != "pre") {
								knows = true
							}
						}
						// or: the node has no neighbour (first.next == nil / last.prev == nil)
						for _, a := range g.Guards {
							if a.Op == "==" && len(a.Args) == 2 && a.Args[0].String() == "#:nil" {
								s := noEpoch(a.Args[1])
								if s == "(load (fa:next (load (fa:first p:0))))" || s == "(load (fa:prev (load (fa:last p:0))))" {
									knows = true
								}
							}
						}
						if !knows {
							bad = append(bad, fmt.Sprintf("%s = %s on a path that links no new element and does not know that the list has at most one element (the %s of a longer list is not its %s): %s", pr[0], pr[1], pr[1], pr[0], trunc(g.String(), 240)))
						}
					}
				}
			}
			if n == 0 {
				continue
			}
			key := p.FuncKey(fn)
			if len(bad) > 0 {
				r.bad(key, fmt.Sprintf(clause, key), p.FuncPos(fn), strings.Join(dedup(bad), "\n"))
			} else {
				r.ok(key, fmt.Sprintf(clause, key), p.FuncPos(fn), fmt.Sprintf("%d removing path(s): both ends stored or known untouched", n))
			}
		}
	}
	return r
}

// entryKnowledge: guard atoms over parameters and the size field that hold on every path entering cut k from outside
// (intersection over the entering paths, transitively through earlier cuts).
func entryKnowledge(gc *GCNF, k int, depth int) []*Term {
	if k == 0 || depth > 3 {
		return nil
	}
	var common map[string]*Term
	for _, x := range gc.GCs {
		if x.From == k || x.Exit.Op != "goto" || x.Exit.Leaf != itoa(k) {
			continue
		}
		have := map[string]*Term{}
		for _, a := range append(append([]*Term(nil), x.Guards...), entryKnowledge(gc, x.From, depth+1)...) {
			if a.any(func(t *Term) bool { return t.Op == "φ" || t.Op == "φout" }) {
				continue // loop-local knowledge does not survive
			}
			have[a.String()] = a
		}
		if common == nil {
			common = have
			continue
		}
		for s := range common {
			if _, ok := have[s]; !ok {
				delete(common, s)
			}
		}
	}
	var out []*Term
	for _, a := range common {
		out = append(out, a)
	}
	return out
}
