package main

// rules_json.go — R8 LOADER, R9 CODEC, R6 MAPNONNIL (DESIGN §3).

import (
	"fmt"
	"go/constant"
	"go/token"
	"go/types"
	"sort"
	"strconv"
	"strings"

	"golang.org/x/tools/go/ssa"
)

// insertion method names (frozen): the exported operations through which elements enter a container.
var insertionNames = map[string]bool{"Add": true, "Append": true, "Prepend": true, "Insert": true, "Set": true, "Put": true, "Push": true, "Enqueue": true}

type jsonFn struct {
	ct      *types.Named
	fn      *ssa.Function
	fwd     *Forward    // forwarder to a field's same-named method
	decodes []*ssa.Call // json.Unmarshal calls
	encodes []*ssa.Call // json.Marshal calls
}

func classifyJSON(p *Prog, ct *types.Named, name string) *jsonFn {
	fn := methodsOf(p, ct)[name]
	if fn == nil {
		return nil
	}
	j := &jsonFn{ct: ct, fn: fn}
	if f := forwardInfo(fn); f != nil && f.Callee.Name() == name && f.ArgsThru {
		j.fwd = f
	}
	for _, c := range allCalls(fn) {
		call, ok := c.(*ssa.Call)
		if !ok {
			continue
		}
		switch stdCalleeName(p, c.Common()) {
		case "encoding/json.Unmarshal":
			j.decodes = append(j.decodes, call)
		case "encoding/json.Marshal", "encoding/json.MarshalIndent":
			j.encodes = append(j.encodes, call)
		}
	}
	return j
}

// receiverEffects lists the instructions of fn that write memory reachable from the receiver (from E1's recording pass).
func receiverEffects(e *Effects, fn *ssa.Function) []ssa.Instruction {
	a := e.fa[fn]
	var out []ssa.Instruction
	for _, b := range fn.Blocks {
		for _, in := range b.Instrs {
			for _, w := range a.instrW[in] {
				if w.Root.K == RParam && w.Root.I == 0 {
					out = append(out, in)
					break
				}
			}
		}
	}
	return out
}

func isErrNilTest(v ssa.Value, err ssa.Value) (isEq bool, ok bool) {
	b, isBin := v.(*ssa.BinOp)
	if !isBin || (b.Op != token.EQL && b.Op != token.NEQ) {
		return false, false
	}
	if (b.X == err && isNilConst(b.Y)) || (b.Y == err && isNilConst(b.X)) {
		return b.Op == token.EQL, true
	}
	return false, false
}

// guardedByErrNil: block b runs only when err == nil.
func guardedByErrNil(b *ssa.BasicBlock, err ssa.Value) bool {
	for _, g := range guardsOf(b) {
		v, flip := stripNot(g.If.Cond)
		pol := g.Polarity
		if flip {
			pol = !pol
		}
		if isEq, ok := isErrNilTest(v, err); ok && isEq == pol {
			return true
		}
	}
	return false
}

func instrDesc(p *Prog, in ssa.Instruction) string {
	switch x := in.(type) {
	case ssa.CallInstruction:
		if cal := StaticCallee(x.Common()); cal != nil {
			if p.IsLib(cal) {
				return "call " + p.FuncKey(cal)
			}
			full, _ := stdName(cal)
			return "call " + full
		}
		if b, ok := x.Common().Value.(*ssa.Builtin); ok {
			return "builtin " + b.Name()
		}
		return "dynamic call"
	case *ssa.Store:
		return "store to " + addrDesc(x.Addr)
	case *ssa.MapUpdate:
		return "map assignment to " + addrDesc2(x.Map)
	}
	return fmt.Sprintf("%T", in)
}

// plainMapPut: the type's Put is exactly `recv.F[key] = value` on a map field F (one path, one effect).
func plainMapPut(c *Ctx, ct *types.Named) (field int, ok bool) {
	put := methodsOf(c.p, ct)["Put"]
	if put == nil || len(put.Params) != 3 {
		return 0, false
	}
	gc := c.GC(put)
	if gc.Undecided != "" || len(gc.GCs) != 1 || len(gc.GCs[0].Effects) != 1 {
		return 0, false
	}
	ef := gc.GCs[0].Effects[0]
	if ef.Op != "mapset" || ef.Args[1].String() != "p:1" || ef.Args[2].String() != "p:2" {
		return 0, false
	}
	m := ef.Args[0]
	if !(m.Op == "load" && m.Args[0].Op == "fa" && m.Args[0].Args[0].String() == "p:0") {
		return 0, false
	}
	st := ct.Underlying().(*types.Struct)
	for i := 0; i < st.NumFields(); i++ {
		if fieldN(ct, i) == m.Args[0].Leaf {
			return i, true
		}
	}
	return 0, false
}

// ruleR8 — LOADER.
func ruleR8(c *Ctx) *RuleResult {
	p, e := c.p, c.E()
	r := &RuleResult{Rule: "R8", Title: "LOADER: FromJSON decodes into a temporary, checks the error, clears, re-inserts through the container's own insertion path", Floor: 21 + 14*4}
	clA := "R8a the decoder's target is a fresh temporary, never live container memory (atomic on error; replace, not merge)"
	clB := "R8b every write to the receiver is guarded by the decoder's err == nil"
	clC := "R8c the receiver's Clear must precede every insertion on the success path (no prior element survives)"
	clD := "R8d decoded elements enter the receiver only through its own exported insertion methods"
	clE := "R8e a FromJSON that forwards to a field is sound only if every insertion method of the type is a pure forwarder to the same field"
	clK := "every FromJSON is either a loader (json.Unmarshal into a temporary) or a forwarder to a field's FromJSON"
	nload, nfwd := 0, 0
	for _, ct := range p.T.Containers {
		j := classifyJSON(p, ct, "FromJSON")
		if j == nil {
			r.undecided("R8:"+p.TypeKey(ct)+".FromJSON", clK, p.Pos(ct.Obj().Pos()), "container has no FromJSON method")
			continue
		}
		fn := j.fn
		fk := p.FuncKey(fn)
		pos := p.FuncPos(fn)
		sub := func(rule string) string { return rule + ":" + fk }
		put := func(rule, clause string, st Status, facts string) {
			r.add(Obligation{Key: sub(rule), Rule: rule, Clause: clause, Pos: pos, Status: st, Facts: facts})
		}
		switch {
		case j.fwd != nil:
			nfwd++
			fname := fieldName(fn, j.fwd.Field)
			put("R8", clK, Discharged, "forwarder to field "+fname+" → "+p.FuncKey(j.fwd.Callee))
			// R8e
			var bad, good []string
			ms := exportedMethods(p, ct)
			for _, name := range sortedNames(ms) {
				if !insertionNames[name] {
					continue
				}
				f := forwardInfo(ms[name])
				if f == nil || f.Field != j.fwd.Field || !f.ArgsThru {
					bad = append(bad, fmt.Sprintf("%s is not a pure forwarder to field %s (it maintains an invariant of its own that loading through the field bypasses)", p.FuncKey(ms[name]), fname))
				} else {
					good = append(good, name+"→"+fname+"."+f.Callee.Name())
				}
			}
			if len(bad) > 0 {
				put("R8e", clE, Violated, strings.Join(bad, "\n"))
			} else if len(good) == 0 {
				put("R8e", clE, Undecided, "type has no recognised insertion method")
			} else {
				put("R8e", clE, Discharged, "insertion methods are pure forwarders: "+strings.Join(good, ", "))
			}
		case len(j.decodes) > 0:
			nload++
			put("R8", clK, Discharged, fmt.Sprintf("loader with %d json.Unmarshal call(s)", len(j.decodes)))
			a := e.fa[fn]
			// R8a
			var badA, factsA []string
			for _, d := range j.decodes {
				o := a.reach(a.get(d.Call.Args[1]))
				factsA = append(factsA, "target origins "+o.String())
				if !o.onlyFresh() {
					badA = append(badA, fmt.Sprintf("json.Unmarshal at %s decodes into memory with origins %s (live receiver state)", p.InstrPos(d), o))
				}
			}
			if len(badA) > 0 {
				put("R8a", clA, Violated, strings.Join(badA, "\n"))
			} else {
				put("R8a", clA, Discharged, strings.Join(factsA, "; "))
			}
			// R8b
			effs := receiverEffects(e, fn)
			var badB []string
			for _, in := range effs {
				if call, ok := in.(*ssa.Call); ok && stdCalleeName(p, &call.Call) == "encoding/json.Unmarshal" {
					continue // reported by R8a
				}
				for _, d := range j.decodes {
					if !guardedByErrNil(in.Block(), d) {
						badB = append(badB, fmt.Sprintf("%s at %s is not guarded by err == nil of the decode at %s", instrDesc(p, in), p.InstrPos(in), p.InstrPos(d)))
					}
				}
			}
			// an error that is not the decoder's own (whose non-nil case the guards above exclude) must not be returned once
			// the receiver has been written: "when it returns an error the container is exactly as it was"
			for _, b := range fn.Blocks {
				if len(b.Instrs) == 0 {
					continue
				}
				ret, ok := b.Instrs[len(b.Instrs)-1].(*ssa.Return)
				if !ok || len(ret.Results) == 0 {
					continue
				}
				ev := ret.Results[len(ret.Results)-1]
				if cst, isC := ev.(*ssa.Const); isC && cst.IsNil() {
					continue
				}
				isDecodeErr := func(v ssa.Value) bool {
					for _, d := range j.decodes {
						if v == ssa.Value(d) {
							return true
						}
						if ex, ok := v.(*ssa.Extract); ok && ex.Tuple == ssa.Value(d) {
							return true
						}
					}
					return false
				}
				var onlyDecode func(v ssa.Value, depth int) bool
				onlyDecode = func(v ssa.Value, depth int) bool {
					if depth > 4 {
						return false
					}
					if cst, isC := v.(*ssa.Const); isC && cst.IsNil() {
						return true
					}
					if isDecodeErr(v) {
						return true
					}
					if ph, ok := v.(*ssa.Phi); ok {
						for _, e2 := range ph.Edges {
							if !onlyDecode(e2, depth+1) {
								return false
							}
						}
						return true
					}
					return false
				}
				if onlyDecode(ev, 0) {
					continue
				}
				for _, in := range effs {
					if call, ok := in.(*ssa.Call); ok && stdCalleeName(p, &call.Call) == "encoding/json.Unmarshal" {
						continue
					}
					seen := map[*ssa.BasicBlock]bool{}
					var reach func(x *ssa.BasicBlock) bool
					reach = func(x *ssa.BasicBlock) bool {
						if x == b {
							return true
						}
						if seen[x] {
							return false
						}
						seen[x] = true
						for _, sx := range x.Succs {
							if reach(sx) {
								return true
							}
						}
						return false
					}
					if reach(in.Block()) {
						badB = append(badB, fmt.Sprintf("an error other than the decoder's is returned at %s after %s at %s has already written the receiver (not atomic on error)", p.InstrPos(ret), instrDesc(p, in), p.InstrPos(in)))
						break
					}
				}
			}
			if len(badB) > 0 {
				put("R8b", clB, Violated, strings.Join(badB, "\n"))
			} else {
				put("R8b", clB, Discharged, fmt.Sprintf("%d receiver-writing instructions, all edge-dominated by err == nil", len(effs)))
			}
			// R8c / R8d
			var clears, inserts []ssa.Instruction
			var badD []string
			// Clear() written out: the receiver's own Clear is nothing but stores of constants into receiver fields, and the
			// loader performs exactly those stores (same fields, same constants) in one block
			clearGroup := map[ssa.Instruction]bool{}
			var clearGroupList []ssa.Instruction
			if own := methodsOf(p, ct)["Clear"]; own != nil && own.Blocks != nil {
				constStores := func(f *ssa.Function) (map[int]string, bool) {
					out := map[int]string{}
					for _, in := range receiverEffects(e, f) {
						st, ok := in.(*ssa.Store)
						if !ok {
							return nil, false
						}
						fa, ok := stripChange(st.Addr).(*ssa.FieldAddr)
						cst, isC := st.Val.(*ssa.Const)
						if !ok || !isC || stripChange(fa.X) != ssa.Value(f.Params[0]) {
							return nil, false
						}
						out[fa.Field] = cst.String()
					}
					return out, len(out) > 0
				}
				if want, ok := constStores(own); ok {
					byBlock := map[*ssa.BasicBlock]map[int]ssa.Instruction{}
					for _, in := range effs {
						st, ok := in.(*ssa.Store)
						if !ok {
							continue
						}
						fa, ok := stripChange(st.Addr).(*ssa.FieldAddr)
						cst, isC := st.Val.(*ssa.Const)
						if !ok || !isC || stripChange(fa.X) != ssa.Value(fn.Params[0]) || want[fa.Field] != cst.String() {
							continue
						}
						if byBlock[in.Block()] == nil {
							byBlock[in.Block()] = map[int]ssa.Instruction{}
						}
						byBlock[in.Block()][fa.Field] = in
					}
					for _, grp := range byBlock {
						if len(grp) == len(want) {
							for _, in := range grp {
								clearGroup[in] = true
								clearGroupList = append(clearGroupList, in)
							}
						}
					}
				}
			}
			for _, in := range effs {
				if clearGroup[in] {
					continue
				}
				call, isCall := in.(*ssa.Call)
				if isCall && stdCalleeName(p, &call.Call) == "encoding/json.Unmarshal" {
					continue
				}
				if isCall {
					cal := StaticCallee(&call.Call)
					onRecv := len(call.Call.Args) > 0 && stripChange(call.Call.Args[0]) == ssa.Value(fn.Params[0])
					if cal != nil && onRecv && isMethodNamed(cal, ct, "Clear") {
						clears = append(clears, in)
						continue
					}
					if cal != nil && onRecv && recvNamed(cal) == ct.Origin() && token.IsExported(cal.Name()) && insertionNames[cal.Name()] {
						inserts = append(inserts, in)
						continue
					}
					// the inner container's insertion method, called on the field that one of the receiver's own insertion
					// methods purely forwards to with that same callee (Enqueue ≡ heap.Push): the same insertion path
					if cal != nil && len(call.Call.Args) > 0 && token.IsExported(cal.Name()) && insertionNames[cal.Name()] {
						if f, okf := recvField(fn, call.Call.Args[0]); okf {
							same := false
							for nm, m := range methodsOf(p, ct) {
								if !insertionNames[nm] || !token.IsExported(nm) {
									continue
								}
								if fw := forwardInfo(m); fw != nil && fw.Field == f && origin(fw.Callee) == origin(cal) {
									same = true
								}
							}
							if !same {
								// … or that one of the receiver's insertion methods does nothing to the receiver but call
								// that callee on that field (Add(items...) = tree.Put(item, …) per item)
								for nm, m := range methodsOf(p, ct) {
									if !insertionNames[nm] || !token.IsExported(nm) || m.Blocks == nil {
										continue
									}
									only, some := true, false
									for _, ein := range receiverEffects(e, m) {
										ec, isC := ein.(*ssa.Call)
										if !isC {
											only = false
											continue
										}
										ecal := StaticCallee(&ec.Call)
										ef, okef := recvField(m, ec.Call.Args[0])
										if ecal == nil || !okef || ef != f || origin(ecal) != origin(cal) {
											only = false
										} else {
											some = true
										}
									}
									if only && some {
										same = true
									}
								}
							}
							if same {
								inserts = append(inserts, in)
								continue
							}
						}
					}
					// Clear of that same field when the receiver's own Clear forwards to it
					if cal != nil && len(call.Call.Args) > 0 && cal.Name() == "Clear" {
						if f, okf := recvField(fn, call.Call.Args[0]); okf {
							if own := methodsOf(p, ct)["Clear"]; own != nil {
								if fw := forwardInfo(own); fw != nil && fw.Field == f && origin(fw.Callee) == origin(cal) {
									clears = append(clears, in)
									continue
								}
							}
						}
					}
				}
				// a container whose Put is nothing but recv.F[key] = value (decided from Put's own normal form) may be filled by
				// maps.Copy(recv.F, decoded) or by assigning into recv.F directly: the same map operation per entry
				if f, okp := plainMapPut(c, ct); okp {
					if isCall && stdCalleeName(p, &call.Call) == "maps.Copy" && len(call.Call.Args) == 2 {
						if ff, okf := recvField(fn, call.Call.Args[0]); okf && ff == f && derivedFromDecodeTarget(call.Call.Args[1], j.decodes) {
							inserts = append(inserts, in)
							continue
						}
					}
					if mu, isMU := in.(*ssa.MapUpdate); isMU {
						if ff, okf := recvField(fn, mu.Map); okf && ff == f {
							inserts = append(inserts, in)
							continue
						}
					}
				}
				// whole-state assignment idiom: single-field struct, stored value is the decoded temporary
				if st, ok := in.(*ssa.Store); ok {
					if s := structOf(fn.Signature.Recv().Type()); s != nil && s.NumFields() == 1 {
						if _, isRecvField := recvField(fn, st.Addr); isRecvField && derivedFromDecodeTarget(st.Val, j.decodes) {
							inserts = append(inserts, in)
							clears = append(clears, in) // replaces the whole state
							continue
						}
					}
				}
				inserts = append(inserts, in)
				badD = append(badD, fmt.Sprintf("%s at %s writes the receiver outside its exported insertion methods", instrDesc(p, in), p.InstrPos(in)))
			}
			var badC []string
			for _, ins := range inserts {
				ok := false
				for _, cl := range clears {
					if cl == ins || mustPrecede(cl, ins) {
						ok = true
					}
				}
				if !ok && len(clearGroupList) > 0 {
					all := true
					for _, cl := range clearGroupList {
						if !mustPrecede(cl, ins) {
							all = false
						}
					}
					ok = all
				}
				if !ok {
					badC = append(badC, fmt.Sprintf("%s at %s is not preceded on every path by a call to the receiver's Clear", instrDesc(p, ins), p.InstrPos(ins)))
				}
			}
			if len(badC) > 0 {
				put("R8c", clC, Violated, strings.Join(badC, "\n"))
			} else {
				put("R8c", clC, Discharged, fmt.Sprintf("%d Clear call(s) dominate %d insertion(s)", len(clears), len(inserts)))
			}
			if len(badD) > 0 {
				put("R8d", clD, Violated, strings.Join(badD, "\n"))
			} else {
				var names []string
				for _, ins := range inserts {
					names = append(names, instrDesc(p, ins))
				}
				put("R8d", clD, Discharged, "insertions: "+strings.Join(names, ", "))
			}
		default:
			put("R8", clK, Undecided, "FromJSON is neither a recognised loader (json.Unmarshal) nor a pure forwarder to a field's FromJSON")
		}
	}
	r.Analysed = append(r.Analysed, fmt.Sprintf("%d loaders, %d forwarders", nload, nfwd))
	return r
}

func derivedFromDecodeTarget(v ssa.Value, decodes []*ssa.Call) bool {
	v = stripChange(v)
	u, ok := v.(*ssa.UnOp)
	if !ok || u.Op != token.MUL {
		return false
	}
	for _, d := range decodes {
		t := stripChange(d.Call.Args[1])
		if mi, ok := t.(*ssa.MakeInterface); ok {
			t = stripChange(mi.X)
		}
		if t == u.X {
			return true
		}
	}
	return false
}

// ---- R9 CODEC ----

func isKeyValue(p *Prog, ct *types.Named) bool {
	put := methodsOf(p, ct)["Put"]
	return put != nil && len(put.Params) == 3
}

func marshalArg(call *ssa.Call) ssa.Value {
	v := stripChange(call.Call.Args[0])
	if mi, ok := v.(*ssa.MakeInterface); ok {
		v = stripChange(mi.X)
	}
	return v
}

func jsonKindOfType(t types.Type) string {
	t = types.Unalias(t)
	if pt, ok := t.Underlying().(*types.Pointer); ok {
		t = pt.Elem()
	}
	switch types.Unalias(t).Underlying().(type) {
	case *types.Slice, *types.Array:
		return "array"
	case *types.Map:
		return "object"
	}
	return "other"
}

// nonNil decides that a slice value can never be nil.
type nonNilCtx struct {
	p    *Prog
	memo map[*ssa.Function]int // 1 yes, 2 no, 3 in progress
	open map[*ssa.Phi]bool     // φ-nodes under evaluation: a loop-carried slice is non-nil when it enters non-nil and every round keeps it so
}

func (n *nonNilCtx) fnNonNil(fn *ssa.Function) bool {
	fn = origin(fn)
	switch n.memo[fn] {
	case 1:
		return true
	case 2, 3:
		return false
	}
	n.memo[fn] = 3
	ok := fn.Blocks != nil
	nret := 0
	for _, b := range fn.Blocks {
		if ret, isRet := b.Instrs[len(b.Instrs)-1].(*ssa.Return); isRet && len(ret.Results) > 0 {
			nret++
			if !n.value(ret.Results[0], 0) {
				ok = false
			}
		}
	}
	if nret == 0 {
		ok = false
	}
	if ok {
		n.memo[fn] = 1
	} else {
		n.memo[fn] = 2
	}
	return ok
}

func (n *nonNilCtx) value(v ssa.Value, depth int) bool {
	if depth > 10 {
		return false
	}
	v = stripChange(v)
	switch x := v.(type) {
	case *ssa.MakeSlice:
		return true
	case *ssa.Slice:
		if _, isPtr := types.Unalias(x.X.Type()).Underlying().(*types.Pointer); isPtr {
			return true // slicing an array
		}
		return n.value(x.X, depth+1)
	case *ssa.Phi:
		if n.open[x] {
			return true
		}
		if n.open == nil {
			n.open = map[*ssa.Phi]bool{}
		}
		n.open[x] = true
		defer delete(n.open, x)
		for _, e := range x.Edges {
			if !n.value(e, depth+1) {
				return false
			}
		}
		return true
	case *ssa.MakeInterface:
		return n.value(x.X, depth+1)
	case *ssa.Call:
		if args, ok := builtinCall(x, "append"); ok {
			return n.value(args[0], depth+1)
		}
		cal := StaticCallee(&x.Call)
		if cal == nil {
			return false
		}
		if n.p.IsLib(cal) {
			return n.fnNonNil(cal)
		}
		if full, _ := stdName(cal); full == "slices.Clone" || full == "slices.Insert" || full == "slices.Delete" || full == "slices.Grow" {
			return n.value(x.Call.Args[0], depth+1)
		}
	}
	return false
}

func constRune(v ssa.Value) (rune, bool) {
	c, ok := v.(*ssa.Const)
	if !ok || c.Value == nil {
		return 0, false
	}
	switch c.Value.Kind() {
	case constant.Int:
		i, _ := constant.Int64Val(c.Value)
		return rune(i), true
	case constant.String:
		s := constant.StringVal(c.Value)
		if len([]rune(s)) == 1 {
			return []rune(s)[0], true
		}
	}
	return 0, false
}

// ownIteratorCall: v is the result of calling method `name` on an iterator obtained from recv.Iterator() in fn.
func ownIteratorCall(p *Prog, fn *ssa.Function, v ssa.Value, names ...string) bool {
	v = stripChange(v)
	if mi, ok := v.(*ssa.MakeInterface); ok {
		v = stripChange(mi.X)
	}
	call, ok := v.(*ssa.Call)
	if !ok {
		return false
	}
	cal := StaticCallee(&call.Call)
	if cal == nil || !p.T.IsIterator(recvNamed(cal)) {
		return false
	}
	match := false
	for _, n := range names {
		if cal.Name() == n {
			match = true
		}
	}
	if !match || len(call.Call.Args) == 0 {
		return false
	}
	return isOwnIterator(p, fn, call.Call.Args[0], 0)
}

// isOwnIterator: v is (the address of a local holding) the result of recv.Iterator().
func isOwnIterator(p *Prog, fn *ssa.Function, v ssa.Value, depth int) bool {
	if depth > 6 {
		return false
	}
	v = stripChange(v)
	switch x := v.(type) {
	case *ssa.Call:
		cal := StaticCallee(&x.Call)
		return cal != nil && cal.Name() == "Iterator" && len(x.Call.Args) == 1 && stripChange(x.Call.Args[0]) == ssa.Value(fn.Params[0])
	case *ssa.Alloc:
		// local iterator variable: every store into it is an own iterator
		n := 0
		for _, ref := range *x.Referrers() {
			if st, ok := ref.(*ssa.Store); ok && st.Addr == x {
				n++
				if !isOwnIterator(p, fn, st.Val, depth+1) {
					return false
				}
			}
		}
		return n > 0
	case *ssa.Phi:
		for _, e := range x.Edges {
			if !isOwnIterator(p, fn, e, depth+1) {
				return false
			}
		}
		return len(x.Edges) > 0
	}
	return false
}

func ruleR9(c *Ctx) *RuleResult {
	p, e := c.p, c.E()
	_ = e
	r := &RuleResult{Rule: "R9", Title: "CODEC: writer and reader of the JSON form agree", Floor: 42 + 21 + 21 + 21 + 21}
	clA := "R9a MarshalJSON/UnmarshalJSON are pure forwarders to the same receiver's ToJSON/FromJSON (json.Marshal(container) ≡ ToJSON())"
	clB := "R9b ToJSON serialises the container's logical content (its Values()/iterator view), never physical storage whose meaning depends on other fields"
	clC := "R9c writer and reader use the same JSON kind, and it is the kind the property assigns (value container ↔ array, key-value ↔ object)"
	clD := "R9d an empty value container serialises as [] — the slice handed to json.Marshal is never nil"
	clE := "R9e a hand-written JSON object uses string-typed keys (json.Marshal of a non-string key yields a bare number: invalid JSON)"
	clF := "R9f the raw input of FromJSON is only handed to the JSON decoder (substring search over JSON text cannot tell a key from equal text in a value)"
	nn := &nonNilCtx{p: p, memo: map[*ssa.Function]int{}}
	for _, ct := range p.T.Containers {
		ms := methodsOf(p, ct)
		tk := p.TypeKey(ct)
		// R9a
		for _, pair := range [][2]string{{"MarshalJSON", "ToJSON"}, {"UnmarshalJSON", "FromJSON"}} {
			fn := ms[pair[0]]
			key := "R9a:" + tk + "." + pair[0]
			if fn == nil {
				r.add(Obligation{Key: key, Rule: "R9a", Clause: clA, Pos: p.Pos(ct.Obj().Pos()), Status: Undecided, Facts: "method missing"})
				continue
			}
			tgt := selfForward(fn)
			if tgt != nil && tgt == ms[pair[1]] {
				r.add(Obligation{Key: key, Rule: "R9a", Clause: clA, Pos: p.FuncPos(fn), Status: Discharged, Facts: "forwards to " + p.FuncKey(tgt)})
			} else if other := ms[pair[1]]; other != nil && sameNormalForm(c, fn, other) {
				r.add(Obligation{Key: key, Rule: "R9a", Clause: clA, Pos: p.FuncPos(fn), Status: Discharged, Facts: "not a call, but path for path the body of " + p.FuncKey(other) + " written out (equal normal forms)"})
			} else {
				r.add(Obligation{Key: key, Rule: "R9a", Clause: clA, Pos: p.FuncPos(fn), Status: Violated, Facts: pair[0] + " is not a pure forwarder to the receiver's " + pair[1]})
			}
		}
		to := classifyJSON(p, ct, "ToJSON")
		from := classifyJSON(p, ct, "FromJSON")
		if to == nil || from == nil {
			r.add(Obligation{Key: "R9b:" + tk + ".ToJSON", Rule: "R9b", Clause: clB, Pos: p.Pos(ct.Obj().Pos()), Status: Undecided, Facts: "ToJSON/FromJSON missing"})
			continue
		}
		tfk, ffk := p.FuncKey(to.fn), p.FuncKey(from.fn)
		kv := isKeyValue(p, ct)
		wantKind := "array"
		if kv {
			wantKind = "object"
		}
		// ---- R9b + writer kind + R9d + R9e
		writerKind := ""
		var stB Status = Undecided
		factsB := "ToJSON shape not recognised"
		var stD Status = Discharged
		factsD := ""
		handWritten := false
		switch {
		case to.fwd != nil:
			fname := fieldName(to.fn, to.fwd.Field)
			sameAsLoader := from.fwd != nil && from.fwd.Field == to.fwd.Field
			sizeFwd := false
			if sz := ms["Size"]; sz != nil {
				if f := forwardInfo(sz); f != nil && f.Field == to.fwd.Field && f.Callee.Name() == "Size" {
					sizeFwd = true
				}
			}
			if sameAsLoader {
				stB, factsB = Discharged, "ToJSON and FromJSON both forward to field "+fname
			} else if sizeFwd {
				stB, factsB = Discharged, "ToJSON forwards to field "+fname+", which Size() also forwards to (the field holds exactly this container's elements)"
			} else {
				stB, factsB = Violated, "ToJSON forwards to field "+fname+" but neither FromJSON nor Size() forward to it"
			}
			writerKind = "inherit:" + p.TypeKey(recvNamed(to.fwd.Callee))
			factsD = "inherits from " + p.FuncKey(to.fwd.Callee)
		case len(to.encodes) == 1 && !writesRune(p, to.fn, ':'):
			enc := to.encodes[0]
			x := marshalArg(enc)
			writerKind = jsonKindOfType(x.Type())
			a := e.fa[to.fn]
			if args, ok := builtinCall(x, "append"); ok {
				// append(fresh-non-nil, recv.F...) — a copy of field F
				if f, okf := recvField(to.fn, args[len(args)-1]); len(args) == 2 && okf && isLoadOfField(stripChange(args[1])) && len(fieldsReadBy(ms["Values"], f)) == 0 && readsField(ms["Values"], f) {
					stB, factsB = Discharged, "(iii) json.Marshal(copy of recv."+fieldName(to.fn, f)+"), and Values() reads only that field"
				} else {
					stB, factsB = Violated, "json.Marshal(append(...)) of something other than a whole storage field that Values() is a copy of"
				}
			} else if call, ok := x.(*ssa.Call); ok {
				cal := StaticCallee(&call.Call)
				if cal != nil && cal == ms["Values"] && len(call.Call.Args) == 1 && stripChange(call.Call.Args[0]) == ssa.Value(to.fn.Params[0]) {
					stB, factsB = Discharged, "(i) json.Marshal(recv.Values())"
				} else if fv := forwardInfo(ms["Values"]); cal != nil && fv != nil && origin(fv.Callee) == origin(cal) && len(call.Call.Args) == 1 && func() bool {
					f, ok := recvField(to.fn, call.Call.Args[0])
					return ok && f == fv.Field
				}() {
					stB, factsB = Discharged, "(i') json.Marshal(recv."+fieldName(to.fn, fv.Field)+"."+cal.Name()+"()), the very call Values() forwards to"
				} else {
					stB, factsB = Violated, "json.Marshal of a call result that is not the receiver's Values()"
				}
			} else if f, ok := recvField(to.fn, x); ok && isLoadOfField(x) {
				// (iii) protected field F with Values()/Keys() reading only F
				other := fieldsReadBy(ms["Values"], f)
				if len(other) == 0 && ms["Values"] != nil && readsField(ms["Values"], f) {
					stB, factsB = Discharged, "(iii) json.Marshal(recv."+fieldName(to.fn, f)+"), and Values() reads only that field"
				} else {
					stB, factsB = Violated, fmt.Sprintf("json.Marshal(recv.%s): physical storage whose logical view (Values()) also needs fields %v", fieldName(to.fn, f), other)
				}
			} else if o := a.reach(a.get(x)); o.onlyFresh() && len(o) > 0 && fedByOwnIterator(p, to.fn, x) {
				stB, factsB = Discharged, "(ii) fresh map filled from the receiver's own iterator (Key(), Value())"
			} else if o := a.reach(a.get(x)); o.onlyFresh() && len(o) > 0 && appendsValuesWalk(c, ms, to.fn) {
				stB, factsB = Discharged, "(i'') a fresh non-nil slice grown by one append per round of the very walk Values() makes (same first node, same step, same element term)"
			} else if o := a.reach(a.get(x)); o.onlyFresh() && len(o) > 0 && fedByNodeChain(c, ms, to.fn) {
				stB, factsB = Discharged, "(ii') fresh map filled by walking the nodes with the very calls the own iterator's Next() makes (first node, then successor until nil), storing each node's Key and Value"
			} else if _, isSlice := x.(*ssa.Slice); isSlice {
				stB, factsB = Violated, "json.Marshal of a re-sliced storage field: marshals physical storage (the logical view needs other fields such as start/size)"
			} else {
				stB, factsB = Violated, "value handed to json.Marshal is neither Values(), a whole storage field that Values() copies, nor a fresh map filled from the own iterator"
			}
			if !kv {
				if nn.value(x, 0) {
					factsD = "slice handed to json.Marshal is provably non-nil"
				} else {
					stD, factsD = Violated, "slice handed to json.Marshal at "+p.InstrPos(enc)+" may be nil (e.g. a freshly constructed empty container) → output \"null\", not an array"
				}
			}
		case writesRune(p, to.fn, ':'):
			handWritten = true
			writerKind = "other"
			if writesRune(p, to.fn, '{') && writesRune(p, to.fn, '}') {
				writerKind = "object"
			} else if writesRune(p, to.fn, '[') && writesRune(p, to.fn, ']') {
				writerKind = "array"
			}
			allOwn := len(to.encodes) > 0
			for _, enc := range to.encodes {
				if !ownIteratorCall(p, to.fn, enc.Call.Args[0], "Key", "Value") {
					allOwn = false
				}
			}
			if allOwn {
				stB, factsB = Discharged, "(vi) text assembled in a loop over the receiver's own iterator (every json.Marshal argument is it.Key()/it.Value())"
			} else {
				stB, factsB = Violated, "hand-written JSON whose marshalled pieces do not all come from the receiver's own iterator"
			}
		}
		// second chance on the path normal form (helpers the pinned tree does not know are expanded in place there): the
		// same accepted shapes, recognised on terms instead of on ToJSON's own instructions
		var tview *jsonTermView
		if stB != Discharged && to.fwd == nil {
			tview = jsonWriterTerms(c, ct, to.fn)
			if tview != nil && tview.ok {
				stB, factsB = Discharged, tview.facts
				if tview.handWritten {
					handWritten = true
					writerKind = tview.kind
				} else if writerKind == "" {
					writerKind = tview.kind
				}
				if !kv && !tview.handWritten {
					if tview.nonNil {
						stD, factsD = Discharged, "slice handed to json.Marshal is a make()d copy: never nil"
					}
				}
			}
		}
		// a container whose insertion path reorders its storage (the heap: Push sifts with Swap) reloads into the same layout —
		// and hence pops ties in the same order — only from its physical array: any other permutation of the contents
		// (e.g. the level-sorted Values()) is a different heap after Push(values...)
		if stB == Discharged && to.fwd == nil && insertionReorders(p, ct) {
			stB, factsB = Violated, "the container's insertion path reorders its storage (Swap during Push): only the backing array itself reloads into the same layout; serialising "+factsB+" changes the order in which equal-priority elements come out after a round trip"
		}
		r.add(Obligation{Key: "R9b:" + tfk, Rule: "R9b", Clause: clB, Pos: p.FuncPos(to.fn), Status: stB, Facts: factsB})
		if !kv {
			r.add(Obligation{Key: "R9d:" + tfk, Rule: "R9d", Clause: clD, Pos: p.FuncPos(to.fn), Status: stD, Facts: factsD})
		}
		// R9e
		if handWritten && tview != nil && tview.ok {
			if tview.keyIsString {
				r.add(Obligation{Key: "R9e:" + tfk, Rule: "R9e", Clause: clE, Pos: p.FuncPos(to.fn), Status: Discharged, Facts: "hand-written object with string-typed keys"})
			} else {
				r.add(Obligation{Key: "R9e:" + tfk, Rule: "R9e", Clause: clE, Pos: p.FuncPos(to.fn), Status: Violated, Facts: "object key is json.Marshal of the iterator's Key(), whose type " + tview.keyType + " is not a string type"})
			}
		} else if handWritten {
			var bad []string
			for _, enc := range to.encodes {
				if ownIteratorCall(p, to.fn, enc.Call.Args[0], "Key") {
					kt := marshalArg(enc).Type()
					if b, ok := types.Unalias(kt).Underlying().(*types.Basic); !ok || b.Info()&types.IsString == 0 {
						bad = append(bad, fmt.Sprintf("object key at %s is json.Marshal of a value of type %s, not a string type", p.InstrPos(enc), kt))
					}
				}
			}
			if len(bad) > 0 {
				r.add(Obligation{Key: "R9e:" + tfk, Rule: "R9e", Clause: clE, Pos: p.FuncPos(to.fn), Status: Violated, Facts: strings.Join(bad, "\n")})
			} else {
				r.add(Obligation{Key: "R9e:" + tfk, Rule: "R9e", Clause: clE, Pos: p.FuncPos(to.fn), Status: Discharged, Facts: "hand-written object with string-typed keys"})
			}
		} else {
			r.add(Obligation{Key: "R9e:" + tfk, Rule: "R9e", Clause: clE, Pos: p.FuncPos(to.fn), Status: Discharged, Facts: "not hand-written: encoding/json produces the object/array syntax"})
		}
		// ---- reader kind (R9c)
		readerKind := ""
		switch {
		case from.fwd != nil:
			readerKind = "inherit:" + p.TypeKey(recvNamed(from.fwd.Callee))
		case len(from.decodes) > 0:
			t := stripChange(from.decodes[0].Call.Args[1])
			if mi, ok := t.(*ssa.MakeInterface); ok {
				t = mi.X
			}
			readerKind = jsonKindOfType(t.Type())
		}
		stC := Discharged
		factsC := fmt.Sprintf("writer=%s reader=%s wanted=%s", writerKind, readerKind, wantKind)
		inh := func(k string) bool { return strings.HasPrefix(k, "inherit:") }
		switch {
		case writerKind == "" || readerKind == "":
			stC = Undecided
		case inh(writerKind) && inh(readerKind):
			if writerKind != readerKind {
				stC = Violated
			}
		case inh(writerKind):
			// writer inherits from a field container: its kind is that container's; compare via that container's key-valueness
			fk := isKeyValue(p, recvNamed(to.fwd.Callee))
			wk := "array"
			if fk {
				wk = "object"
			}
			factsC += " (writer field kind " + wk + ")"
			if wk != readerKind || wk != wantKind {
				stC = Violated
			}
		case inh(readerKind):
			stC = Violated
		default:
			if writerKind != readerKind || writerKind != wantKind {
				stC = Violated
			}
		}
		r.add(Obligation{Key: "R9c:" + tk, Rule: "R9c", Clause: clC, Pos: p.FuncPos(to.fn), Status: stC, Facts: factsC})
		// ---- R9f input taint
		var badF []string
		var taint func(data ssa.Value, depth int)
		taint = func(data ssa.Value, depth int) {
			if data.Referrers() == nil {
				return
			}
			for _, ref := range *data.Referrers() {
				switch x := ref.(type) {
				case *ssa.DebugRef:
				case ssa.CallInstruction:
					cc := x.Common()
					name := stdCalleeName(p, cc)
					if cal := StaticCallee(cc); cal != nil && p.IsLib(cal) && (cal.Name() == "FromJSON" || cal.Name() == "UnmarshalJSON") {
						continue
					}
					if (name == "encoding/json.Unmarshal" || name == "encoding/json.Valid" || name == "bytes.NewReader") && len(cc.Args) > 0 && cc.Args[0] == data {
						continue
					}
					// a library helper that receives the input: what it does with it counts as done here
					if cal := StaticCallee(cc); cal != nil && p.IsLib(cal) && cal.Blocks != nil && depth < 4 {
						for i, a := range cc.Args {
							if a == data && i < len(cal.Params) {
								taint(cal.Params[i], depth+1)
							}
						}
						continue
					}
					if name == "" {
						name = instrDesc(p, ref)
					}
					// a text search is identified by what it searches for as well: the marshalled key itself (the recorded
					// finding F7) is one construct, a needle built any other way is another
					if (name == "bytes.Index" || name == "bytes.Contains" || name == "bytes.LastIndex") && len(cc.Args) == 2 && cc.Args[0] == data {
						if d := needleDesc(p, cc.Args[1]); d != "" {
							name += "(needle:" + d + ")"
						}
					} else if strings.HasPrefix(name, "bytes.") && len(cc.Args) == 2 && cc.Args[1] == data {
						name += "(input as needle)"
					}
					badF = append(badF, fmt.Sprintf("→%s|raw input handed to %s at %s", name, name, p.InstrPos(ref)))
				default:
					badF = append(badF, fmt.Sprintf("→%T|raw input used by %T at %s", ref, ref, p.InstrPos(ref)))
				}
			}
		}
		taint(from.fn.Params[1], 0)
		if len(badF) == 0 {
			r.add(Obligation{Key: "R9f:" + ffk, Rule: "R9f", Clause: clF, Pos: p.FuncPos(from.fn), Status: Discharged, Facts: "data flows only to the JSON decoder / a forwarded FromJSON"})
		} else {
			sort.Strings(badF)
			seen := map[string]bool{}
			for _, b := range badF {
				parts := strings.SplitN(b, "|", 2)
				k := "R9f:" + ffk + parts[0]
				if seen[k] {
					continue
				}
				seen[k] = true
				r.add(Obligation{Key: k, Rule: "R9f", Clause: clF, Pos: p.FuncPos(from.fn), Status: Violated, Facts: parts[1]})
			}
		}
	}
	return r
}

// needleDesc: "" when v is exactly the first result of json.Marshal(·); otherwise how v is made (callee / builtin / kind).
func needleDesc(p *Prog, v ssa.Value) string {
	if ex, ok := v.(*ssa.Extract); ok && ex.Index == 0 {
		if call, ok := ex.Tuple.(*ssa.Call); ok && stdCalleeName(p, call.Common()) == "encoding/json.Marshal" {
			return ""
		}
	}
	switch x := v.(type) {
	case *ssa.Call:
		if b, ok := x.Call.Value.(*ssa.Builtin); ok {
			return b.Name()
		}
		if n := stdCalleeName(p, x.Common()); n != "" {
			return n
		}
		if cal := StaticCallee(x.Common()); cal != nil {
			return cal.Name()
		}
		return "call"
	case *ssa.Phi:
		return "phi"
	case *ssa.Slice:
		return "slice"
	case *ssa.Convert:
		return "convert"
	}
	return fmt.Sprintf("%T", v)
}

func isLoadOfField(v ssa.Value) bool {
	u, ok := stripChange(v).(*ssa.UnOp)
	if !ok || u.Op != token.MUL {
		return false
	}
	_, ok = stripChange(u.X).(*ssa.FieldAddr)
	return ok
}

func writesRune(p *Prog, fn *ssa.Function, want rune) bool {
	for _, c := range allCalls(fn) {
		name := stdCalleeName(p, c.Common())
		if !strings.Contains(name, ").Write") {
			continue
		}
		for _, a := range c.Common().Args[1:] {
			if rn, ok := constRune(a); ok && rn == want {
				return true
			}
			// WriteString("{") etc. with longer constants
			if cst, ok := a.(*ssa.Const); ok && cst.Value != nil && cst.Value.Kind() == constant.String && strings.ContainsRune(constant.StringVal(cst.Value), want) {
				return true
			}
		}
	}
	return false
}

// readsField / fieldsReadBy: which receiver fields a method reads (directly).
func readsField(fn *ssa.Function, f int) bool {
	if fn == nil {
		return false
	}
	for _, b := range fn.Blocks {
		for _, in := range b.Instrs {
			if fa, ok := in.(*ssa.FieldAddr); ok && fa.Field == f && stripChange(fa.X) == ssa.Value(fn.Params[0]) {
				return true
			}
		}
	}
	return false
}

// fieldsReadBy lists the names of receiver fields other than `except` that fn touches, directly or through same-type methods it calls.
func fieldsReadBy(fn *ssa.Function, except int) []string {
	if fn == nil {
		return []string{"<no Values()>"}
	}
	seen := map[*ssa.Function]bool{}
	set := map[string]bool{}
	var walk func(f *ssa.Function)
	walk = func(f *ssa.Function) {
		if seen[f] || f.Blocks == nil {
			return
		}
		seen[f] = true
		for _, b := range f.Blocks {
			for _, in := range b.Instrs {
				switch x := in.(type) {
				case *ssa.FieldAddr:
					if stripChange(x.X) == ssa.Value(f.Params[0]) && x.Field != except {
						set[fieldName(f, x.Field)] = true
					}
				case ssa.CallInstruction:
					if cal := StaticCallee(x.Common()); cal != nil && recvNamed(cal) != nil && recvNamed(cal) == recvNamed(fn) &&
						len(x.Common().Args) > 0 && stripChange(x.Common().Args[0]) == ssa.Value(f.Params[0]) {
						walk(cal)
					}
				}
			}
		}
	}
	walk(fn)
	var out []string
	for k := range set {
		out = append(out, k)
	}
	sort.Strings(out)
	return out
}

// fedByOwnIterator: every MapUpdate into the map (held in local x) takes key and value from the receiver's own iterator.
func fedByOwnIterator(p *Prog, fn *ssa.Function, x ssa.Value) bool {
	n := 0
	for _, b := range fn.Blocks {
		for _, in := range b.Instrs {
			mu, ok := in.(*ssa.MapUpdate)
			if !ok {
				continue
			}
			n++
			if !ownIteratorCall(p, fn, mu.Key, "Key") || !ownIteratorCall(p, fn, mu.Value, "Value") {
				return false
			}
		}
	}
	return n > 0
}

// appendsValuesWalk: ToJSON builds the slice it marshals itself — `vs := make([]T, 0, n); for x := first; x != nil; x = step(x) {
// vs = append(vs, elem(x)) }` — where first, step and elem are, term for term, those of the loop in the receiver's own Values()
// (which stores elem(x) into consecutive slots). The marshalled slice is then Values() written out; it enters the loop as a
// fresh make (non-nil, so an empty container still encodes as []).
func appendsValuesWalk(c *Ctx, ms map[string]*ssa.Function, fn *ssa.Function) bool {
	vals := ms["Values"]
	if vals == nil {
		return false
	}
	type walk struct{ first, step, elem string }
	find := func(f *ssa.Function, wantAppend bool) (walk, bool) {
		gc := c.GC(f)
		if gc.Undecided != "" || len(gc.GCs) != 3 {
			return walk{}, false
		}
		var entry, round, done *GC
		for _, g := range gc.GCs {
			switch {
			case g.From == 0:
				entry = g
			case g.Exit.Op == "goto":
				round = g
			default:
				done = g
			}
		}
		if entry == nil || round == nil || done == nil || entry.Exit.Op != "goto" || len(entry.Exit.Args) != 2 || len(round.Exit.Args) != 2 || round.Exit.Leaf != entry.Exit.Leaf || len(entry.Effects) != 0 {
			return walk{}, false
		}
		k := entry.Exit.Leaf
		// the node slot: the one whose entry value is a load through the receiver and whose round guard tests it against nil
		for j := 0; j < 2; j++ {
			phi := "φ:" + k + "." + itoa(j)
			other := "φ:" + k + "." + itoa(1-j)
			if len(round.Guards) != 1 || noEpoch(round.Guards[0]) != "(!= #:nil "+phi+")" || len(done.Guards) != 1 || noEpoch(done.Guards[0]) != "(== #:nil "+phi+")" {
				continue
			}
			w := walk{first: noEpoch(entry.Exit.Args[j]), step: noEpoch(round.Exit.Args[j])}
			if wantAppend {
				// other slot: the slice; enters as make(_, 0, _) and receives append(slice, elem)
				in := entry.Exit.Args[1-j]
				if !(in.Op == "makeslice" && len(in.Args) == 2 && in.Args[0].String() == "#:0") {
					return walk{}, false
				}
				var app *Term
				for _, ef := range round.Effects {
					if ef.Op == "builtin" && ef.Leaf == "append" && len(ef.Args) == 2 && ef.Args[0].String() == other {
						app = ef
					}
				}
				if app == nil || noEpoch(round.Exit.Args[1-j]) != "(res "+noEpoch(app)+")" {
					return walk{}, false
				}
				el := varargElem(round.Effects, len(round.Effects), app.Args[1])
				if el == nil {
					return walk{}, false
				}
				w.elem = noEpoch(el)
				// and that slice is what is marshalled
				if !done.Exit.any(func(t *Term) bool { return t.Op == "std" && t.Leaf == "encoding/json.Marshal" && len(t.Args) >= 2 && t.Args[len(t.Args)-1].String() == other }) {
					return walk{}, false
				}
			} else {
				// Values(): one slot store of elem per round
				n := 0
				for _, ef := range round.Effects {
					if isStore(ef) && ef.Args[0].Op == "ia" {
						n++
						w.elem = noEpoch(ef.Args[1])
					}
				}
				if n != 1 {
					return walk{}, false
				}
			}
			// normalise the slot number away
			w.step = strings.ReplaceAll(w.step, phi, "φ")
			w.elem = strings.ReplaceAll(w.elem, phi, "φ")
			return w, true
		}
		return walk{}, false
	}
	a, ok1 := find(fn, true)
	b, ok2 := find(vals, false)
	return ok1 && ok2 && a == b && strings.Contains(a.first, "p:0")
}

// fedByNodeChain: ToJSON fills its map in a loop `for n := first(recv); n != nil; n = succ(n) { m[n.Key] = n.Value }` where
// first and succ are, callee and constant arguments alike, the calls the own iterator's Next() stores into its node cursor.
func fedByNodeChain(c *Ctx, ms map[string]*ssa.Function, fn *ssa.Function) bool {
	p := c.p
	itf := ms["Iterator"]
	if itf == nil {
		return false
	}
	itNext := methodsOf(p, namedOf(itf.Signature.Results().At(0).Type()))["Next"]
	if itNext == nil {
		return false
	}
	gc := c.GC(fn)
	if gc.Undecided != "" || len(gc.GCs) != 3 {
		return false
	}
	sig := func(t *Term) string {
		if t.Op != "call" {
			return ""
		}
		s := t.Leaf
		for _, a := range t.Args {
			if a.Op == "#" {
				s += " " + a.String()
			}
		}
		return s
	}
	var first, succ string
	loopOK, exitOK := false, false
	for _, g := range gc.GCs {
		switch {
		case g.From == 0:
			if g.Exit.Op != "goto" || len(g.Exit.Args) != 1 || len(g.Guards) != 0 {
				return false
			}
			first = sig(g.Exit.Args[0])
			if !g.Exit.Args[0].any(func(t *Term) bool { return t.String() == "p:0" }) {
				return false
			}
		case g.Exit.Op == "goto":
			phi := "φ:" + g.Exit.Leaf + ".0"
			if len(g.Guards) != 1 || noEpoch(g.Guards[0]) != "(!= #:nil "+phi+")" || len(g.Effects) != 1 || g.Effects[0].Op != "mapset" || len(g.Effects[0].Args) != 3 || len(g.Exit.Args) != 1 {
				return false
			}
			if noEpoch(g.Effects[0].Args[1]) != "(load (fa:Key "+phi+"))" || noEpoch(g.Effects[0].Args[2]) != "(load (fa:Value "+phi+"))" {
				return false
			}
			succ = sig(g.Exit.Args[0])
			if !g.Exit.Args[0].any(func(t *Term) bool { return t.String() == phi }) {
				return false
			}
			loopOK = true
		default:
			if len(g.Effects) != 0 || len(g.Guards) != 1 || g.Guards[0].Op != "==" {
				return false
			}
			exitOK = true
		}
	}
	if !loopOK || !exitOK || first == "" || succ == "" {
		return false
	}
	hasFirst, hasSucc := false, false
	for _, g := range c.GC(itNext).GCs {
		for _, ef := range g.Effects {
			ef.any(func(t *Term) bool {
				if s := sig(t); s != "" {
					if s == first {
						hasFirst = true
					}
					if s == succ {
						hasSucc = true
					}
				}
				return false
			})
		}
	}
	return hasFirst && hasSucc
}

// sameNormalForm: two methods of one receiver type with the same parameters have, path for path, the same guarded commands
// (epochs stripped, allocation names canonicalised).
func sameNormalForm(c *Ctx, a, b *ssa.Function) bool {
	ga, gb := c.GC(a), c.GC(b)
	if ga.Undecided != "" || gb.Undecided != "" || len(ga.GCs) != len(gb.GCs) || len(ga.GCs) == 0 {
		return false
	}
	norm := func(g *GCNF) []string {
		var out []string
		for _, x := range g.GCs {
			y := canonAllocs(x)
			var gs, es []string
			for _, t := range y.Guards {
				gs = append(gs, noEpoch(t))
			}
			sort.Strings(gs)
			for _, t := range y.Effects {
				es = append(es, noEpoch(t))
			}
			out = append(out, fmt.Sprintf("%d|%s|%s|%s", y.From, strings.Join(gs, "&"), strings.Join(es, ";"), noEpoch(y.Exit)))
		}
		sort.Strings(out)
		return out
	}
	na, nb := norm(ga), norm(gb)
	for i := range na {
		if na[i] != nb[i] {
			return false
		}
	}
	return true
}

// ---- R6 MAPNONNIL ----

func ruleR6(c *Ctx) *RuleResult {
	p := c.p
	r := &RuleResult{Rule: "R6", Title: "MAPNONNIL: a Go-map field that is assigned to can never be nil", Floor: 4}
	clause := "assignment to an entry of a nil map panics: the field is initialised with make on every construction, only ever re-assigned a made map, and its address never reaches code that may store nil (json.Unmarshal)"
	type fld struct {
		st  *types.Named
		idx int
	}
	written := map[fld]bool{}
	// which (struct, field) pairs receive MapUpdate / delete / clear through a direct field load
	for _, fn := range p.Funcs {
		for _, b := range fn.Blocks {
			for _, in := range b.Instrs {
				var m ssa.Value
				if mu, ok := in.(*ssa.MapUpdate); ok {
					m = mu.Map
				}
				if m == nil {
					continue
				}
				if u, ok := stripChange(m).(*ssa.UnOp); ok && u.Op == token.MUL {
					if fa, ok := stripChange(u.X).(*ssa.FieldAddr); ok {
						if n := namedOf(fa.X.Type()); n != nil && p.T.Protected[n] {
							written[fld{n, fa.Field}] = true
						}
					}
				}
			}
		}
	}
	var flds []fld
	for f := range written {
		flds = append(flds, f)
	}
	sort.Slice(flds, func(i, j int) bool {
		return p.TypeKey(flds[i].st)+itoa(flds[i].idx) < p.TypeKey(flds[j].st)+itoa(flds[j].idx)
	})
	var nonNilMap func(v ssa.Value, f fld, depth int) bool
	nonNilMap = func(v ssa.Value, f fld, depth int) bool {
		if depth > 8 {
			return false
		}
		v = stripChange(v)
		switch x := v.(type) {
		case *ssa.MakeMap:
			return true
		case *ssa.Phi:
			for _, e := range x.Edges {
				if !nonNilMap(e, f, depth+1) {
					return false
				}
			}
			return true
		case *ssa.UnOp:
			// the same field of another object of the same type is non-nil by induction
			if fa, ok := stripChange(x.X).(*ssa.FieldAddr); ok && x.Op == token.MUL {
				if n := namedOf(fa.X.Type()); n == f.st && fa.Field == f.idx {
					return true
				}
			}
		}
		return false
	}
	for _, f := range flds {
		key := p.TypeKey(f.st) + "." + fieldN(f.st, f.idx)
		var bad []string
		nstores, nallocs := 0, 0
		for _, fn := range p.Funcs {
			for _, b := range fn.Blocks {
				for _, in := range b.Instrs {
					switch x := in.(type) {
					case *ssa.FieldAddr:
						if n := namedOf(x.X.Type()); n != f.st || x.Field != f.idx {
							continue
						}
						for _, ref := range *x.Referrers() {
							switch y := ref.(type) {
							case *ssa.DebugRef:
							case *ssa.UnOp:
								if y.Op != token.MUL {
									bad = append(bad, fmt.Sprintf("address of the field used by %s at %s", y.Op, p.InstrPos(y)))
								}
							case *ssa.Store:
								if y.Addr != ssa.Value(x) {
									bad = append(bad, "address of the field stored elsewhere at "+p.InstrPos(y))
								} else {
									nstores++
									if !nonNilMap(y.Val, f, 0) {
										bad = append(bad, fmt.Sprintf("store of a possibly-nil map into the field at %s (in %s)", p.InstrPos(y), p.FuncKey(fn)))
									}
								}
							default:
								bad = append(bad, fmt.Sprintf("address of the field escapes to %s at %s (in %s) — the callee may store nil (json.Unmarshal does for the input null)", instrDesc(p, ref), p.InstrPos(ref), p.FuncKey(fn)))
							}
						}
					case *ssa.Alloc:
						if n := namedOf(x.Type()); n != nil && n != f.st && p.libPkg[n.Obj().Pkg()] {
							// a struct holding f.st by value: each such field must be initialised from a constructed instance
							if outer, ok := n.Underlying().(*types.Struct); ok {
								for fi := 0; fi < outer.NumFields(); fi++ {
									if nt, isNamed := types.Unalias(outer.Field(fi).Type()).(*types.Named); !isNamed || nt.Origin() != f.st {
										continue
									}
									nallocs++
									init := false
									for _, ref := range *x.Referrers() {
										if fa, ok := ref.(*ssa.FieldAddr); ok && fa.Field == fi {
											for _, r2 := range *fa.Referrers() {
												if s, ok := r2.(*ssa.Store); ok && s.Addr == ssa.Value(fa) && s.Block() == x.Block() {
													if u, ok := stripChange(s.Val).(*ssa.UnOp); ok && u.Op == token.MUL && namedOf(u.X.Type()) == f.st {
														init = true
													}
												}
											}
										}
									}
									if !init {
										bad = append(bad, fmt.Sprintf("%s constructs a %s at %s whose embedded %s is not copied from a constructed instance", p.FuncKey(fn), p.TypeKey(n), p.InstrPos(x), p.TypeKey(f.st)))
									}
								}
							}
							continue
						}
						if n := namedOf(x.Type()); n != f.st {
							continue
						}
						if _, isPtrToStruct := types.Unalias(x.Type()).Underlying().(*types.Pointer); !isPtrToStruct {
							continue
						}
						nallocs++
						// every construction initialises the field: a store to FieldAddr(alloc, f) dominating all uses that leave the function
						init := false
						for _, ref := range *x.Referrers() {
							if fa, ok := ref.(*ssa.FieldAddr); ok && fa.Field == f.idx {
								for _, r2 := range *fa.Referrers() {
									if s, ok := r2.(*ssa.Store); ok && s.Addr == ssa.Value(fa) && s.Block() == x.Block() {
										init = true
									}
								}
							}
						}
						// whole-struct initialisation by copy of another instance (non-nil by induction)
						for _, ref := range *x.Referrers() {
							if s, ok := ref.(*ssa.Store); ok && s.Addr == ssa.Value(x) {
								if u, ok := stripChange(s.Val).(*ssa.UnOp); ok && u.Op == token.MUL && namedOf(u.X.Type()) == f.st {
									init = true
								}
							}
						}
						if !init {
							bad = append(bad, fmt.Sprintf("%s constructs a %s at %s without initialising the map field in the same block", p.FuncKey(fn), p.TypeKey(f.st), p.InstrPos(x)))
						}
					}
				}
			}
		}
		sort.Strings(bad)
		pos := p.Pos(f.st.Underlying().(*types.Struct).Field(f.idx).Pos())
		if len(bad) > 0 {
			r.bad(key, clause, pos, strings.Join(bad, "\n"))
		} else {
			r.ok(key, clause, pos, fmt.Sprintf("%d construction site(s) initialise it with make; %d store(s), all of made maps; address never escapes", nallocs, nstores))
		}
	}
	return r
}

// insertionReorders: an exported insertion method of the type (transitively, within the type's own methods) calls Swap on a field.
func insertionReorders(p *Prog, ct *types.Named) bool {
	ms := methodsOf(p, ct)
	seen := map[*ssa.Function]bool{}
	var walk func(fn *ssa.Function) bool
	walk = func(fn *ssa.Function) bool {
		if fn == nil || seen[fn] {
			return false
		}
		seen[fn] = true
		for _, c := range allCalls(fn) {
			cal := StaticCallee(c.Common())
			if cal == nil || !p.IsLib(cal) {
				continue
			}
			if fnName(cal) == "Swap" && len(c.Common().Args) > 0 {
				if _, ok := recvField(fn, c.Common().Args[0]); ok {
					return true
				}
			}
			if recvNamed(cal) == ct.Origin() && walk(cal) {
				return true
			}
		}
		return false
	}
	for name, fn := range ms {
		if insertionNames[name] && token.IsExported(name) && walk(fn) {
			return true
		}
	}
	return false
}

// ---- ToJSON on the path normal form ----

type jsonTermView struct {
	ok          bool
	facts       string
	kind        string // array / object / other
	handWritten bool
	nonNil      bool
	keyIsString bool
	keyType     string
}

func runesOfConst(t *Term) []rune {
	if t.Op != "#" {
		return nil
	}
	l := t.Leaf
	if strings.HasPrefix(l, "\"") {
		if s, err := strconv.Unquote(l); err == nil {
			return []rune(s)
		}
		return nil
	}
	if i := strings.IndexByte(l, ':'); i >= 0 {
		l = l[:i]
	}
	if n, err := strconv.Atoi(l); err == nil && n > 0 && n < 0x110000 {
		return []rune{rune(n)}
	}
	return nil
}

// jsonWriterTerms recognises, on the normal form of ToJSON, (ii) a fresh map filled in a loop over the receiver's own
// iterator with (Key(), Value()) and marshalled, (iii) a make+copy of a whole storage field that Values() copies, and (vi)
// text assembled in a loop over the own iterator where every json.Marshal argument is it.Key()/it.Value().
func jsonWriterTerms(c *Ctx, ct *types.Named, fn *ssa.Function) *jsonTermView {
	p := c.p
	gc := c.GC(fn)
	if gc.Undecided != "" {
		return nil
	}
	v := &jsonTermView{}
	ms := methodsOf(p, ct)
	itf := ms["Iterator"]
	var itType *types.Named
	if itf != nil {
		itType = namedOf(itf.Signature.Results().At(0).Type())
	}
	// marshal arguments and written runes
	margs := map[string]*Term{}
	runes := map[rune]bool{}
	var its []*Term
	visit := func(t *Term) bool {
		if t.Op == "std" && (t.Leaf == "encoding/json.Marshal" || t.Leaf == "encoding/json.MarshalIndent") && len(t.Args) >= 2 {
			margs[noEpoch(t.Args[1])] = t.Args[1]
		}
		return false
	}
	for _, g := range gc.GCs {
		for _, a := range g.Guards {
			a.any(visit)
		}
		g.Exit.any(visit)
		for _, ef := range g.Effects {
			ef.any(visit)
			if ef.Op == "stddo" && strings.Contains(ef.Leaf, ").Write") {
				for _, a := range ef.Args[1:] {
					for _, rn := range runesOfConst(a) {
						runes[rn] = true
					}
				}
			}
			if ef.Op == "do" && strings.HasSuffix(ef.Leaf, ").Next") && len(ef.Args) == 1 {
				its = append(its, ef.Args[0])
			}
		}
	}
	if len(margs) == 0 {
		return nil
	}
	// the own iterator (at most one)
	var IT *Term
	for _, it := range its {
		if op, ok := ownIteratorTerm(gc, it); !ok || op != "0" {
			return nil
		}
		if IT != nil && IT.String() != it.String() {
			return nil
		}
		IT = it
	}
	keyT, valT := "", ""
	if IT != nil && itType != nil {
		keyT = iterMethodTerm(c, fn, itType, "Key", IT)
		valT = iterMethodTerm(c, fn, itType, "Value", IT)
	}
	if runes[':'] {
		// (vi) hand-written
		v.handWritten = true
		v.kind = "other"
		if runes['{'] && runes['}'] {
			v.kind = "object"
		} else if runes['['] && runes[']'] {
			v.kind = "array"
		}
		if IT == nil {
			return v
		}
		for s := range margs {
			if s != keyT && s != valT {
				return v
			}
		}
		if km := methodsOf(p, itType)["Key"]; km != nil {
			kt := km.Signature.Results().At(0).Type()
			v.keyType = kt.String()
			if b, ok := types.Unalias(kt).Underlying().(*types.Basic); ok && b.Info()&types.IsString != 0 {
				v.keyIsString = true
			}
		}
		v.ok = true
		v.facts = "(vi) text assembled in a loop over the receiver's own iterator (every json.Marshal argument, also inside helpers, is it.Key()/it.Value())"
		return v
	}
	if len(margs) != 1 {
		return nil
	}
	var arg *Term
	for _, a := range margs {
		arg = a
	}
	// through the address of a local cell
	cell := ""
	if arg.Op == "new" {
		cell = arg.String()
		var held *Term
		for _, g := range gc.GCs {
			for _, ef := range g.Effects {
				if isStore(ef) && ef.Args[0].String() == cell {
					if held != nil && noEpoch(held) != noEpoch(ef.Args[1]) {
						return nil
					}
					held = ef.Args[1]
				}
			}
		}
		if held == nil {
			return nil
		}
		arg = held
	}
	switch arg.Op {
	case "makemap":
		// (ii) every write into the map is m[it.Key()] = it.Value() of the own iterator, and nothing else writes it
		v.kind = "object"
		if IT == nil {
			return v
		}
		n := 0
		for _, g := range gc.GCs {
			for _, ef := range g.Effects {
				if ef.Op != "mapset" {
					continue
				}
				n++
				tgt := noEpoch(ef.Args[0])
				if tgt != noEpoch(arg) && tgt != "(load "+cell+")" {
					return v
				}
				if noEpoch(ef.Args[1]) != keyT || noEpoch(ef.Args[2]) != valT {
					return v
				}
			}
		}
		if n == 0 {
			return v
		}
		v.ok, v.facts = true, "(ii) fresh map filled from the receiver's own iterator (Key(), Value()), also through a helper"
		return v
	case "makeslice":
		// (iii) make([]T, len(F)) + copy(_, F) of a whole storage field F that Values() is a copy of
		v.kind = "array"
		v.nonNil = true
		if len(arg.Args) < 1 || arg.Args[0].Op != "len" {
			return v
		}
		F := arg.Args[0].Args[0]
		if !(F.Op == "load" && F.Args[0].Op == "fa" && F.Args[0].Args[0].String() == "p:0") {
			return v
		}
		copied := false
		for _, g := range gc.GCs {
			for _, ef := range g.Effects {
				if ef.Op == "builtin" && ef.Leaf == "copy" && len(ef.Args) == 2 && noEpoch(ef.Args[0]) == noEpoch(arg) && noEpoch(ef.Args[1]) == noEpoch(F) {
					copied = true
				} else if ef.Op == "builtin" || isStore(ef) || ef.Op == "do" {
					return v
				}
			}
		}
		if !copied {
			return v
		}
		fname := F.Args[0].Leaf
		st := ct.Underlying().(*types.Struct)
		fidx := -1
		for i := 0; i < st.NumFields(); i++ {
			if fieldN(ct, i) == fname {
				fidx = i
			}
		}
		if fidx < 0 || len(fieldsReadBy(ms["Values"], fidx)) != 0 || !readsField(ms["Values"], fidx) {
			return v
		}
		v.ok, v.facts = true, "(iii) json.Marshal(make+copy of recv."+fname+"), and Values() reads only that field"
		return v
	}
	return nil
}
