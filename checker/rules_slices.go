package main

// rules_slices.go — R32 SLICESURGERY: the two hand-written slice idioms of the library keep their indices consistent.
//
//   GAP        s = append(s, zero); copy(s[i+1:], s[i:]); s[i] = x      (open a gap at i, fill it)
//              copy(s[i:], s[i+1:]); s[len-1] = zero; s = s[:len-1]     (close the gap at i, drop the last slot)
//   PARTITION  left = copy(src[:k]); right = copy(src[k+1:]); up = src[k]   (entries: the separator leaves the node)
//              left = copy(ch[:j]);  right = copy(ch[j:]),  j = k+1        (children: none lost, none duplicated)
//
// Both are decided with linear forms over the index terms of one path, for every library function (GAP) and for every
// function that builds two nodes out of one (PARTITION: the B-tree splits).

import (
	"fmt"
	"go/types"
	"regexp"
	"strconv"
	"strings"
)

func linOf(t *Term) lin {
	if t == nil || t.Op == "_" {
		return linConst(0)
	}
	if k, ok := t.constInt(); ok {
		return linConst(int(k))
	}
	switch {
	case t.Op == "+" && len(t.Args) == 2:
		return linOf(t.Args[0]).add(linOf(t.Args[1]), 1)
	case t.Op == "-" && len(t.Args) == 2:
		return linOf(t.Args[0]).add(linOf(t.Args[1]), -1)
	}
	return linAtom(noEpoch(t))
}

func ruleR32(c *Ctx) *RuleResult {
	p := c.p
	r := &RuleResult{Rule: "R32", Title: "SLICESURGERY: shift-and-fill / shift-and-truncate keep one index; a split partitions entries and children exactly", Floor: 0} // an idiom-discipline rule: it binds wherever the idiom occurs; a tree that uses slices.Insert/Delete instead has nothing to check (regression of the matcher is guarded by the variants c01-btree-*, c07-btree-split*)
	clGap := "a copy that shifts a slice by one within itself opens a gap that the same path fills at exactly that index after growing the slice by one, or closes a gap after which the same path truncates the slice by one"
	clPart := "when a node is split, the left part is src[:k], the right part src[k+1:] and src[k] moves up (entries); the children are divided at k+1 with none lost or duplicated"
	for _, fn := range p.Funcs {
		if fn.Parent() != nil || fn.Blocks == nil || !p.KnownFunc(fn) {
			continue // helpers the pinned tree does not know are seen expanded in their callers' paths
		}
		gc := c.GC(fn)
		if gc.Undecided != "" {
			continue
		}
		var badG, badP []string
		ngap, npart := 0, 0
		for _, g := range gc.GCs {
			// ---- GAP
			for i, ef := range g.Effects {
				if !(ef.Op == "builtin" && ef.Leaf == "copy" && len(ef.Args) == 2) {
					continue
				}
				D, S := ef.Args[0], ef.Args[1]
				if D.Op != "slice" || S.Op != "slice" || noEpoch(D.Args[0]) != noEpoch(S.Args[0]) {
					continue
				}
				X := noEpoch(D.Args[0])
				a, b := linOf(D.Args[1]), linOf(S.Args[1])
				d := a.add(b, -1)
				if len(d.c) != 0 {
					continue
				}
				switch d.k {
				case 1:
					ngap++
					// filled at b later, grown by one earlier
					filled := false
					for _, e2 := range g.Effects[i+1:] {
						if isStore(e2) && e2.Args[0].Op == "ia" && noEpoch(e2.Args[0].Args[0]) == X && linOf(e2.Args[0].Args[1]).String() == b.String() {
							filled = true
						}
					}
					grown := false
					for j, e2 := range g.Effects[:i] {
						if e2.Op == "builtin" && e2.Leaf == "append" && len(e2.Args) == 2 && noEpoch(e2.Args[0]) == X && varargElem(g.Effects, j, e2.Args[1]) != nil {
							grown = true
						}
					}
					if !filled {
						badG = append(badG, fmt.Sprintf("a gap is opened at index %s of %s but the path stores the new element elsewhere (or nowhere)", b.String(), trunc(X, 80)))
					}
					if !grown {
						badG = append(badG, fmt.Sprintf("%s is shifted right by one without having been grown by one on this path (the last element is lost)", trunc(X, 80)))
					}
				case -1:
					ngap++
					trunced := false
					for _, e2 := range g.Effects[i+1:] {
						if isStore(e2) && e2.Args[0].Op == "fa" && e2.Args[1].Op == "slice" && noEpoch(e2.Args[1].Args[0]) == X && e2.Args[1].Args[1].Op == "_" {
							hi := linOf(e2.Args[1].Args[2])
							want := linAtom("(len "+X+")").add(linConst(1), -1)
							if hi.String() == want.String() {
								trunced = true
							}
						}
					}
					if !trunced {
						badG = append(badG, fmt.Sprintf("the gap at index %s of %s is closed but the slice is not truncated by exactly one afterwards", a.String(), trunc(X, 80)))
					}
				case 0:
				default:
					badG = append(badG, fmt.Sprintf("%s is shifted within itself by %d positions", trunc(X, 80), d.k))
				}
			}
			// ---- PARTITION: copies of a prefix and a suffix of one source slice on one path
			type part struct {
				hasLo, hasHi bool
				lo, hi       lin
			}
			groups := map[string][]part{}
			var order []string
			for _, ef := range g.Effects {
				if !(ef.Op == "builtin" && ef.Leaf == "append" && len(ef.Args) == 2 && ef.Args[0].String() == "#:nil" && ef.Args[1].Op == "slice") {
					continue
				}
				sl := ef.Args[1]
				src := noEpoch(sl.Args[0])
				pt := part{hasLo: sl.Args[1].Op != "_", hasHi: sl.Args[2].Op != "_", lo: linOf(sl.Args[1]), hi: linOf(sl.Args[2])}
				if _, ok := groups[src]; !ok {
					order = append(order, src)
				}
				groups[src] = append(groups[src], pt)
			}
			var kEntries *lin
			for _, src := range order {
				ps := groups[src]
				if len(ps) != 2 {
					continue
				}
				var pre, suf *part
				for i := range ps {
					if ps[i].hasHi && !ps[i].hasLo {
						pre = &ps[i]
					}
					if ps[i].hasLo && !ps[i].hasHi {
						suf = &ps[i]
					}
				}
				if pre == nil || suf == nil {
					continue
				}
				gap := suf.lo.add(pre.hi, -1)
				switch {
				case strings.Contains(src, "fa:Entries"):
					npart++
					if gap.String() != "1" {
						badP = append(badP, fmt.Sprintf("entries are split into [:%s] and [%s:]: the two parts must leave out exactly the one separator", pre.hi.String(), suf.lo.String()))
					}
					k := pre.hi
					kEntries = &k
					// the separator src[k] is read on this path
					used := false
					chk := func(t *Term) bool {
						if t.Op == "load" && len(t.Args) == 1 && t.Args[0].Op == "ia" && noEpoch(t.Args[0].Args[0]) == src && linOf(t.Args[0].Args[1]).String() == k.String() {
							used = true
						}
						return false
					}
					for _, ef := range g.Effects {
						ef.any(chk)
					}
					if !used {
						badP = append(badP, fmt.Sprintf("the separator entry at index %s is not moved up on this path", k.String()))
					}
				case strings.Contains(src, "fa:Children"):
					npart++
					if gap.String() != "0" {
						badP = append(badP, fmt.Sprintf("children are split into [:%s] and [%s:]: a child is lost or duplicated", pre.hi.String(), suf.lo.String()))
					}
					if kEntries != nil && pre.hi.add(*kEntries, -1).String() != "1" {
						badP = append(badP, fmt.Sprintf("entries are split at %s but children at %s (must be one past)", kEntries.String(), pre.hi.String()))
					}
				}
			}
		}
		key := p.FuncKey(fn)
		if ngap > 0 {
			if len(badG) > 0 {
				r.bad("gap:"+key, clGap, p.FuncPos(fn), strings.Join(dedup(badG), "\n"))
			} else {
				r.ok("gap:"+key, clGap, p.FuncPos(fn), fmt.Sprintf("%d shift site-paths, each with its matching grow+fill / truncate", ngap))
			}
		}
		if npart > 0 {
			if len(badP) > 0 {
				r.bad("partition:"+key, clPart, p.FuncPos(fn), strings.Join(dedup(badP), "\n"))
			} else {
				r.ok("partition:"+key, clPart, p.FuncPos(fn), fmt.Sprintf("%d partition site-paths", npart))
			}
		}
	}
	return r
}

// ---- R36 EXTREME: B-tree descents to an extreme leaf, and the in-order predecessor taken from it ----

func ruleR36(c *Ctx) *RuleResult {
	p := c.p
	r := &RuleResult{Rule: "R36", Title: "EXTREME: B-tree descents hop through the first / last child (or a search result); an internal entry is replaced by the last entry of the right-most leaf to its left", Floor: 3}
	clHop := "a loop that descends node := node.Children[i] uses i = 0, i = len(node.Children)-1 (of that same node) or the index the tree's own search returned for that node"
	clPred := "delete replaces an entry of an internal node by the last entry of the right-most leaf below the child to its left (or the first entry of the left-most leaf below the child to its right) and removes exactly that entry from that leaf"
	for _, fn := range p.Funcs {
		if fn.Parent() != nil || fn.Blocks == nil || fn.Pkg == nil || p.RelPkg(fn.Pkg.Pkg.Path()) != "trees/btree" || !p.KnownFunc(fn) {
			continue
		}
		gc := c.GC(fn)
		if gc.Undecided != "" {
			continue
		}
		var bad []string
		nhop := 0
		for _, g := range gc.GCs {
			if g.Exit.Op != "goto" {
				continue
			}
			for j, a := range g.Exit.Args {
				phi := "φ:" + g.Exit.Leaf + "." + itoa(j)
				if !(a.Op == "load" && a.Args[0].Op == "ia" && noEpoch(a.Args[0].Args[0]) == "(load (fa:Children "+phi+"))") || itoa(g.From) != g.Exit.Leaf {
					continue
				}
				nhop++
				idx := a.Args[0].Args[1]
				is := noEpoch(idx)
				switch {
				case is == "#:0":
				case is == "(- (len (load (fa:Children "+phi+"))) #:1)":
				case idx.Op == "ext" && idx.Leaf == "0" && idx.Args[0].Op == "call" && strings.HasSuffix(idx.Args[0].Leaf, ").search") && strings.Contains(noEpoch(idx.Args[0]), phi):
				case idx.Op == "φ" || idx.Op == "load":
					// an index kept in a variable / field (iterators): judged by R29
				default:
					bad = append(bad, fmt.Sprintf("the descent hops through child %s of %s — neither the first, the last nor a search result", trunc(is, 120), phi))
				}
			}
		}
		// the same descent with the cursor kept in a field (iterators): `it.node = it.node.Children[len(it.node.Children)-1]`
		// in a loop — the length must be that of the node the round stands on (the same dated load), not of the node the
		// descent started from (a bound computed once before the loop)
		for _, g := range gc.GCs {
			if g.Exit.Op != "goto" || itoa(g.From) != g.Exit.Leaf || g.From == 0 {
				continue
			}
			for _, ef := range g.Effects {
				if !(isStore(ef) && ef.Args[0].Op == "fa" && len(ef.Args[0].Args) == 1 && ef.Args[0].Args[0].String() == "p:0") {
					continue
				}
				v := ef.Args[1]
				cur := "(load (fa:" + ef.Args[0].Leaf + " p:0))"
				if !(v.Op == "load" && len(v.Args) == 1 && v.Args[0].Op == "ia" && len(v.Args[0].Args) == 2 && noEpoch(v.Args[0].Args[0]) == "(load (fa:Children "+cur+"))") {
					continue
				}
				nhop++
				base, idx := v.Args[0].Args[0], v.Args[0].Args[1]
				if noEpoch(idx) == "(- (len (load (fa:Children "+cur+"))) #:1)" && idx.Args[0].Args[0].String() != base.String() {
					bad = append(bad, fmt.Sprintf("the descent hops through child len-1 where the length is that of %s as dated %s, not of the node this round stands on (%s): a bound computed before the loop", cur, idx.Args[0].Args[0].Leaf, base.Leaf))
				}
			}
		}
		if nhop > 0 {
			if len(bad) > 0 {
				r.bad("hop:"+p.FuncKey(fn), clHop, p.FuncPos(fn), strings.Join(dedup(bad), "\n"))
			} else {
				r.ok("hop:"+p.FuncKey(fn), clHop, p.FuncPos(fn), fmt.Sprintf("%d descent hop(s)", nhop))
			}
		}
	}
	// the predecessor hand-over in delete
	if ct := typeByKey(p, "trees/btree.Tree"); ct != nil {
		fn := methodsOf(p, ct)["delete"]
		key := "pred:trees/btree.Tree.delete"
		if fn == nil {
			r.undecided(key, clPred, "-", "anchored function not found")
			return r
		}
		gc := c.GC(fn)
		if gc.Undecided != "" {
			r.undecided(key, clPred, p.FuncPos(fn), gc.Undecided)
			return r
		}
		var bad []string
		n := 0
		for _, g := range gc.GCs {
			for ei, ef := range g.Effects {
				// node.Entries[index] = SRC.Entries[k]
				if !(isStore(ef) && ef.Args[0].Op == "ia" && noEpoch(ef.Args[0]) == "(ia (load (fa:Entries p:1)) p:2)") {
					continue
				}
				// (node, index) locate the entry as the tree stood when delete was entered: the replacement is stored before
				// the path rebalances (a merge or rotation through node moves its entries: a later store hits a stale slot)
				for _, e0 := range g.Effects[:ei] {
					if nm, _, ok := effDo(e0); ok && nm == "rebalance" {
						bad = append(bad, "the replacing entry is stored into node.Entries[index] after rebalance has run: the slot was located before the tree was restructured")
					}
				}
				v := ef.Args[1]
				if !(v.Op == "load" && v.Args[0].Op == "ia" && v.Args[0].Args[0].Op == "load" && v.Args[0].Args[0].Args[0].Op == "fa" && v.Args[0].Args[0].Args[0].Leaf == "Entries") {
					continue
				}
				n++
				N := v.Args[0].Args[0].Args[0].Args[0]
				ns := noEpoch(N)
				k := noEpoch(v.Args[0].Args[1])
				lastIdx := "(- (len (load (fa:Entries " + ns + "))) #:1)"
				leftChild := "(load (ia (load (fa:Children p:1)) p:2))"
				rightChild := "(load (ia (load (fa:Children p:1)) (+ #:1 p:2)))"
				pred := N.Op == "call" && strings.HasSuffix(N.Leaf, ").right") && len(N.Args) == 3 && noEpoch(N.Args[2]) == leftChild
				succ := N.Op == "call" && strings.HasSuffix(N.Leaf, ").left") && len(N.Args) == 3 && noEpoch(N.Args[2]) == rightChild
				if N.Op == "φ" {
					// a descent written out in place: its entry value and its hops decide which extreme it reaches
					var k0, j0 int
					fmt.Sscanf(N.Leaf, "%d.%d", &k0, &j0)
					entryOK, hopLast, hopFirst := false, true, true
					for _, h := range gc.GCs {
						if h.Exit.Op != "goto" || h.Exit.Leaf != itoa(k0) || j0 >= len(h.Exit.Args) {
							continue
						}
						a := h.Exit.Args[j0]
						if h.From != k0 {
							switch noEpoch(a) {
							case leftChild:
								entryOK = true
								hopFirst = false
							case rightChild:
								entryOK = true
								hopLast = false
							}
							continue
						}
						hs := noEpoch(a)
						if hs != "(load (ia (load (fa:Children "+N.String()+")) (- (len (load (fa:Children "+N.String()+"))) #:1)))" {
							hopLast = false
						}
						if hs != "(load (ia (load (fa:Children "+N.String()+")) #:0))" {
							hopFirst = false
						}
					}
					pred = entryOK && hopLast
					succ = entryOK && hopFirst
				}
				switch {
				case pred && k == lastIdx:
				case succ && k == "#:0":
				case pred || succ:
					bad = append(bad, "the entry taken from the extreme leaf is not its last (predecessor) / first (successor) entry: index "+trunc(k, 120))
				default:
					bad = append(bad, "the replacing entry does not come from the right-most leaf below the left child (nor the left-most below the right child): "+trunc(ns, 160))
				}
				// and exactly that entry leaves that leaf
				removed := false
				for _, e2 := range g.Effects {
					if nm, args, ok := effDo(e2); ok && nm == "deleteEntry" && len(args) == 3 && noEpoch(args[1]) == ns && noEpoch(args[2]) == k {
						removed = true
					}
				}
				if !removed {
					bad = append(bad, "the entry that moved up is not the one removed from the leaf")
				}
				// the key handed to rebalance locates the leaf among its parent's children: rebalance finds the siblings by
				// search(node.Parent, key). The predecessor's key, now the separator, resolves to the child on its left — the
				// leaf; the successor's key resolves to that same child, one short of the leaf when the leaf hangs directly
				// under the node.
				if succ && k == "#:0" {
					for _, e2 := range g.Effects {
						nm, args, ok := effDo(e2)
						if !ok || nm != "rebalance" || len(args) != 3 || noEpoch(args[1]) != ns {
							continue
						}
						moved := "(load (fa:Key (load (ia (load (fa:Entries " + ns + ")) #:0))))"
						if noEpoch(args[2]) == moved && callEpoch(args[2].Args[0].Args[0]) == callEpoch(v) && siblingsBySearch(c, ct) {
							bad = append(bad, "the key handed to rebalance is the successor's, which now is the separator on the leaf's left: leftSibling/rightSibling look the leaf up by search(node.Parent, key) and find the child on the other side of that separator")
						}
					}
				}
			}
		}
		if n == 0 {
			bad = append(bad, "no internal-node replacement path found in delete")
		}
		if len(bad) > 0 {
			r.bad(key, clPred, p.FuncPos(fn), strings.Join(dedup(bad), "\n"))
		} else {
			r.ok(key, clPred, p.FuncPos(fn), fmt.Sprintf("%d replacement path(s): last entry of right(Children[index]), removed from that leaf", n))
		}
	}
	return r
}

// ---- R37 SEPARATOR: B-tree borrow/merge address the separator between the node and the sibling they work with ----

func ruleR37(c *Ctx) *RuleResult {
	p := c.p
	r := &RuleResult{Rule: "R37", Title: "SEPARATOR: a B-tree borrow/merge uses the parent entry between the node and that sibling, the sibling's adjacent end entry, and removes what it moved", Floor: 1}
	clause := "in rebalance, a path that works with the left sibling (child i-1) addresses only parent entry i-1 = the index leftSibling returned, takes the sibling's last entry and deletes that one; with the right sibling (child i+1) only parent entry i = rightSibling's index - 1, the sibling's first entry; a merge deletes that same parent entry"
	ct := typeByKey(p, "trees/btree.Tree")
	if ct == nil {
		return r
	}
	fn := methodsOf(p, ct)["rebalance"]
	key := "trees/btree.Tree.rebalance"
	if fn == nil {
		r.undecided(key, clause, "-", "anchored function not found")
		return r
	}
	gc := c.GCTail(fn)
	if gc.Undecided != "" {
		r.undecided(key, clause, p.FuncPos(fn), gc.Undecided)
		return r
	}
	var bad []string
	narms := 0
	for _, g := range gc.GCs {
		// which sibling do the effects work with?
		var sib, sibIdx *Term
		side := ""
		for _, ef := range g.Effects {
			ef.any(func(t *Term) bool {
				if t.Op == "ext" && t.Leaf == "0" && len(t.Args) == 1 && t.Args[0].Op == "call" {
					switch {
					case strings.HasSuffix(t.Args[0].Leaf, ").leftSibling"):
						if side == "right" {
							side = "both"
						} else if side == "" {
							side, sib, sibIdx = "left", t, nodeL("ext", "1", t.Args[0])
						}
					case strings.HasSuffix(t.Args[0].Leaf, ").rightSibling"):
						if side == "left" {
							side = "both"
						} else if side == "" {
							side, sib, sibIdx = "right", t, nodeL("ext", "1", t.Args[0])
						}
					}
				}
				return false
			})
		}
		if side == "" {
			// merges reach the sibling through parent.Children[index]: classify by the index term in the effects
			for _, ef := range g.Effects {
				ef.any(func(t *Term) bool {
					if t.Op == "ext" && t.Leaf == "1" && len(t.Args) == 1 && t.Args[0].Op == "call" && side == "" {
						if strings.HasSuffix(t.Args[0].Leaf, ").leftSibling") {
							side, sibIdx = "left", t
						} else if strings.HasSuffix(t.Args[0].Leaf, ").rightSibling") {
							side, sibIdx = "right", t
						}
					}
					return false
				})
			}
		}
		if side == "" {
			continue
		}
		if side == "both" {
			bad = append(bad, "a path works with both siblings at once: "+trunc(guardsString(g), 200))
			continue
		}
		narms++
		wantSep := linOf(stripEpochs(sibIdx))
		wantEnd := ""
		if side == "right" {
			wantSep = wantSep.add(linConst(1), -1)
		}
		parentEntries := "(load (fa:Entries (load (fa:Parent p:1))))"
		var sibEntries string
		if sib != nil {
			sibEntries = "(load (fa:Entries " + noEpoch(sib) + "))"
			if side == "left" {
				wantEnd = linAtom("(len "+sibEntries+")").add(linConst(1), -1).String()
			} else {
				wantEnd = "0"
			}
		}
		chk := func(t *Term) bool {
			if t.Op == "ia" && len(t.Args) == 2 {
				base := noEpoch(t.Args[0])
				idx := linOf(stripEpochs(t.Args[1])).String()
				if base == parentEntries && idx != wantSep.String() {
					bad = append(bad, fmt.Sprintf("working with the %s sibling, the path addresses parent entry %s instead of %s (the separator between the node and that sibling)", side, idx, wantSep.String()))
				}
				if sibEntries != "" && base == sibEntries && idx != wantEnd {
					bad = append(bad, fmt.Sprintf("the %s sibling gives up entry %s instead of its adjacent end entry %s", side, idx, wantEnd))
				}
			}
			return false
		}
		for _, ef := range g.Effects {
			ef.any(chk)
			if nm, args, ok := effDo(ef); ok && nm == "deleteEntry" && len(args) == 3 {
				who := noEpoch(args[1])
				idx := linOf(stripEpochs(args[2])).String()
				switch {
				case who == "(load (fa:Parent p:1))":
					if idx != wantSep.String() {
						bad = append(bad, fmt.Sprintf("the merge with the %s sibling deletes parent entry %s instead of the separator %s", side, idx, wantSep.String()))
					}
				case sib != nil && who == noEpoch(sib):
					if idx != wantEnd {
						bad = append(bad, fmt.Sprintf("the %s sibling loses entry %s instead of the end entry %s it gave up", side, idx, wantEnd))
					}
				}
			}
		}
	}
	if narms < 4 {
		bad = append(bad, fmt.Sprintf("expected borrow-left, borrow-right, merge-left and merge-right paths, found %d sibling path(s)", narms))
	}
	if len(bad) > 0 {
		r.bad(key, clause, p.FuncPos(fn), strings.Join(dedup(bad), "\n"))
	} else {
		r.ok(key, clause, p.FuncPos(fn), fmt.Sprintf("%d sibling paths: separator and end-entry indices consistent", narms))
	}
	return r
}

var callEpochRe = regexp.MustCompile(`^c(\d+)\.`)

// callEpoch: how many calls precede the load on its path ("c<n>." of the load's stamp); -1 when the term is no load.
func callEpoch(t *Term) int {
	if t.Op != "load" {
		return -1
	}
	if m := callEpochRe.FindStringSubmatch(t.Leaf); m != nil {
		n, _ := strconv.Atoi(m[1])
		return n
	}
	return -1
}

// siblingsBySearch: the B-tree's leftSibling and rightSibling locate the node among its parent's children by searching the
// parent for the key they are handed.
func siblingsBySearch(c *Ctx, ct *types.Named) bool {
	ms := methodsOf(c.p, ct)
	for _, name := range []string{"leftSibling", "rightSibling"} {
		fn := ms[name]
		if fn == nil {
			return false
		}
		gc := c.GC(fn)
		if gc.Undecided != "" {
			return false
		}
		found := false
		for _, g := range gc.GCs {
			check := func(t *Term) bool {
				return t.any(func(x *Term) bool {
					return x.Op == "call" && strings.HasSuffix(x.Leaf, ").search") && len(x.Args) == 4 && noEpoch(x.Args[2]) == "(load (fa:Parent p:1))" && noEpoch(x.Args[3]) == "p:2"
				})
			}
			for _, a := range g.Guards {
				found = found || check(a)
			}
			for _, a := range g.Effects {
				found = found || check(a)
			}
			found = found || check(g.Exit)
		}
		if !found {
			return false
		}
	}
	return true
}
