package main

// rules_size.go — R12 SIZE: the cached size moves only with the structure; Empty/Full/Values agree with the one size term;
// plus the C15 clauses on Clear, configuration fields and String() (DESIGN §3 R12, §4 C15).

import (
	"fmt"
	"go/token"
	"go/types"
	"sort"
	"strconv"
	"strings"

	"golang.org/x/tools/go/ssa"
)

// ---- term queries ----

func (t *Term) any(pred func(*Term) bool) bool {
	if t == nil {
		return false
	}
	if pred(t) {
		return true
	}
	for _, a := range t.Args {
		if a.any(pred) {
			return true
		}
	}
	return false
}

func isStore(t *Term) bool { return t.Op == "store" && len(t.Args) == 2 }

// storeToField: effect is `store (fa:<field> X) V`.
func storeToField(t *Term, field string) bool {
	return isStore(t) && t.Args[0].Op == "fa" && t.Args[0].Leaf == field
}

func isNewTerm(t *Term) bool { return t.Op == "new" }

type counterField struct {
	st   *types.Named
	idx  int
	name string
}

// counterFields: int fields named "size" of container structs (the cached element counts).
func counterFields(p *Prog) []counterField {
	var out []counterField
	for _, ct := range p.T.Containers {
		st := ct.Underlying().(*types.Struct)
		for i := 0; i < st.NumFields(); i++ {
			f := st.Field(i)
			if fieldN(ct, i) == "size" && isIntType(f.Type()) {
				out = append(out, counterField{ct, i, fieldN(ct, i)})
			}
		}
	}
	return out
}

func isLoadOfSameField(v ssa.Value, fa *ssa.FieldAddr) bool {
	u, ok := stripChange(v).(*ssa.UnOp)
	if !ok || u.Op != token.MUL {
		return false
	}
	fb, ok := stripChange(u.X).(*ssa.FieldAddr)
	return ok && fb.Field == fa.Field && stripChange(fb.X) == stripChange(fa.X)
}

func isLenOfVariadic(fn *ssa.Function, v ssa.Value) bool {
	args, ok := builtinCall(stripChange(v), "len")
	if !ok || !fn.Signature.Variadic() || len(fn.Params) == 0 {
		return false
	}
	return args[0] == ssa.Value(fn.Params[len(fn.Params)-1])
}

type counterStore struct {
	fn    *ssa.Function
	store *ssa.Store
	fa    *ssa.FieldAddr
	form  string // "+1" "-1" "+len" "0" "recompute" "?"
}

func classifyCounterStores(p *Prog, e *Effects, cf counterField) []counterStore {
	var out []counterStore
	for _, fn := range p.Funcs {
		for _, b := range fn.Blocks {
			for _, in := range b.Instrs {
				st, ok := in.(*ssa.Store)
				if !ok {
					continue
				}
				fa, ok := stripChange(st.Addr).(*ssa.FieldAddr)
				if !ok || fa.Field != cf.idx || namedOf(fa.X.Type()) != cf.st {
					continue
				}
				cs := counterStore{fn: fn, store: st, fa: fa, form: "?"}
				v := stripChange(st.Val)
				if c, ok := constInt(v); ok && c == 0 {
					cs.form = "0"
				} else if bo, ok := v.(*ssa.BinOp); ok {
					one := func(x ssa.Value) bool { c, ok := constInt(x); return ok && c == 1 }
					switch {
					case bo.Op == token.ADD && ((isLoadOfSameField(bo.X, fa) && one(bo.Y)) || (isLoadOfSameField(bo.Y, fa) && one(bo.X))):
						cs.form = "+1"
					case bo.Op == token.SUB && isLoadOfSameField(bo.X, fa) && one(bo.Y):
						cs.form = "-1"
					case bo.Op == token.ADD && ((isLoadOfSameField(bo.X, fa) && isLenOfVariadic(fn, bo.Y)) || (isLoadOfSameField(bo.Y, fa) && isLenOfVariadic(fn, bo.X))):
						cs.form = "+len"
					}
					if cs.form == "?" {
						// the same forms spelled differently (`size += len(values) - 1 + 1`, `size = 1 + size`): as a linear form
						var lf func(x ssa.Value, depth int) lin
						lf = func(x ssa.Value, depth int) lin {
							x = stripChange(x)
							if c, ok := constInt(x); ok {
								return linConst(int(c))
							}
							if isLoadOfSameField(x, fa) {
								return linAtom("F")
							}
							if isLenOfVariadic(fn, x) {
								return linAtom("LEN")
							}
							if b2, ok := x.(*ssa.BinOp); ok && depth < 6 && (b2.Op == token.ADD || b2.Op == token.SUB) {
								sign := 1
								if b2.Op == token.SUB {
									sign = -1
								}
								return lf(b2.X, depth+1).add(lf(b2.Y, depth+1), sign)
							}
							return linAtom("?" + x.Name())
						}
						switch lf(v, 0).String() {
						case linAtom("F").add(linConst(1), 1).String():
							cs.form = "+1"
						case linAtom("F").add(linConst(1), -1).String():
							cs.form = "-1"
						case linAtom("F").add(linAtom("LEN"), 1).String():
							cs.form = "+len"
						}
					}
				} else if call, ok := v.(*ssa.Call); ok {
					cal := StaticCallee(&call.Call)
					if cal != nil && recvNamed(cal) == cf.st && len(call.Call.Args) == 1 && stripChange(call.Call.Args[0]) == stripChange(fa.X) {
						if s := e.Sum[cal]; s != nil && len(s.W) == 0 && len(s.Undecided) == 0 {
							cs.form = "recompute"
						}
					}
				}
				if cs.form == "?" && recomputedFromOtherFields(v, fa) {
					cs.form = "recompute" // written out in place: arithmetic over the receiver's other fields only
				}
				out = append(out, cs)
			}
		}
	}
	return out
}

// recomputedFromOtherFields: v is arithmetic (+ - * / %) over constants and loads of fields of the same object other than the
// counter itself, with at least one such load.
func recomputedFromOtherFields(v ssa.Value, counter *ssa.FieldAddr) bool {
	n := 0
	var ok func(v ssa.Value, depth int) bool
	ok = func(v ssa.Value, depth int) bool {
		if depth > 6 {
			return false
		}
		v = stripChange(v)
		switch x := v.(type) {
		case *ssa.Const:
			return true
		case *ssa.BinOp:
			switch x.Op {
			case token.ADD, token.SUB, token.MUL, token.QUO, token.REM:
				return ok(x.X, depth+1) && ok(x.Y, depth+1)
			}
		case *ssa.UnOp:
			if x.Op == token.MUL {
				if fa, isFA := stripChange(x.X).(*ssa.FieldAddr); isFA && stripChange(fa.X) == stripChange(counter.X) && fa.Field != counter.Field {
					n++
					return true
				}
			}
		}
		return false
	}
	return ok(v, 0) && n > 0
}

// successGuard: a recognised "the element exists" condition guarding a decrement.
func successGuard(p *Prog, b *ssa.BasicBlock) string {
	for _, g := range guardsOf(b) {
		v, flip := stripNot(g.If.Cond)
		pol := g.Polarity
		if flip {
			pol = !pol
		}
		switch x := v.(type) {
		case *ssa.Call:
			if cal := StaticCallee(&x.Call); cal != nil {
				if fnName(cal) == "withinRange" && pol {
					return "withinRange(index)"
				}
				if fnName(cal) == "Empty" && !pol {
					return "!Empty()"
				}
			}
		case *ssa.Extract:
			if _, isBool := types.Unalias(x.Type()).Underlying().(*types.Basic); isBool && pol {
				if _, ok := x.Tuple.(*ssa.Call); ok && x.Index > 0 {
					return "found/ok result of a lookup"
				}
			}
		case *ssa.BinOp:
			if (x.Op == token.NEQ && pol || x.Op == token.EQL && !pol) && (isNilConst(x.X) || isNilConst(x.Y)) {
				return "pointer != nil (the element was found)"
			}
			if x.Op == token.EQL && pol || x.Op == token.NEQ && !pol || x.Op == token.GEQ && pol || x.Op == token.LSS && !pol {
				// size == capacity (or size >= capacity) of a container whose capacity is at least 1 (the constructor's
				// documented panic, R4): the container is not empty
				fld := func(v ssa.Value) string {
					if u, ok := v.(*ssa.UnOp); ok && u.Op == token.MUL {
						if fa, ok := u.X.(*ssa.FieldAddr); ok {
							return fieldNameOf(fa)
						}
					}
					return ""
				}
				if fld(x.X) == "size" && fld(x.Y) == "maxSize" {
					return "size == capacity, and the capacity is at least 1"
				}
				if (x.Op == token.EQL || x.Op == token.NEQ) && fld(x.Y) == "size" && fld(x.X) == "maxSize" {
					return "size == capacity, and the capacity is at least 1"
				}
			}
			if x.Op == token.EQL && pol || x.Op == token.NEQ && !pol {
				// comparator result == 0
				for _, o := range []ssa.Value{x.X, x.Y} {
					if call, ok := o.(*ssa.Call); ok && StaticCallee(&call.Call) == nil && !call.Call.IsInvoke() {
						if c, ok := constInt(otherOperand(x, o)); ok && c == 0 {
							return "comparator(key, node.Key) == 0"
						}
					}
				}
			}
		}
	}
	return ""
}

func otherOperand(b *ssa.BinOp, o ssa.Value) ssa.Value {
	if b.X == o {
		return b.Y
	}
	return b.X
}

func gcHasAllocLink(g *GC) bool {
	for _, e := range g.Effects {
		// array-backed: a parameter value written into a slot of a slice field of the receiver is the new element
		if isStore(e) && e.Args[0].Op == "ia" && len(e.Args[0].Args) == 2 && e.Args[1].Op == "p" {
			if b := e.Args[0].Args[0]; b.Op == "load" && len(b.Args) == 1 && b.Args[0].Op == "fa" && len(b.Args[0].Args) == 1 && b.Args[0].Args[0].String() == "p:0" {
				return true
			}
		}
		if isStore(e) && isNewTerm(e.Args[1]) {
			// a fresh object stored into something that is not itself that fresh object's own field initialisation
			if !e.Args[0].any(isNewTerm) {
				return true
			}
		}
	}
	return false
}

func gcStoresField(g *GC, field string) bool {
	for _, e := range g.Effects {
		if storeToField(e, field) {
			return true
		}
	}
	return false
}

// phiAtom recognises a guard atom that tests a loop-header φ: a boolean flag (φ / !φ) or a pointer against nil
// ((!= φ nil) / (== φ nil)). want is the φ state the atom asserts: true = flag set / pointer non-nil.
func phiAtom(a *Term) (phi *Term, want bool, ok bool) {
	neg := false
	if a.Op == "!" && len(a.Args) == 1 {
		a, neg = a.Args[0], true
	}
	switch {
	case a.Op == "φ":
		return a, !neg, true
	case (a.Op == "==" || a.Op == "!=") && len(a.Args) == 2:
		x, y := a.Args[0], a.Args[1]
		if y.Op == "φ" {
			x, y = y, x
		}
		if x.Op == "φ" && y.String() == "#:nil" {
			return x, (a.Op == "!=") != neg, true
		}
	}
	return nil, false, false
}

// phiState: the state (set / non-nil) a term assigned to such a φ denotes, if it is evident.
func phiState(a *Term) (state bool, known bool) {
	if b, ok := a.constBool(); ok {
		return b, true
	}
	if a.String() == "#:nil" {
		return false, true
	}
	if a.Op == "new" {
		return true, true
	}
	return false, false
}

// predecessorsFor: guarded commands that `goto` cut k assigning φ k.j a value whose state (flag set / pointer non-nil) is want.
func predecessorsFor(g *GCNF, k, j int, want bool) (preds []*GC, complete bool) {
	complete = true
	for _, x := range g.GCs {
		if x.Exit.Op != "goto" || x.Exit.Leaf != itoa(k) || j >= len(x.Exit.Args) {
			continue
		}
		a := x.Exit.Args[j]
		if b, ok := phiState(a); ok {
			if b == want {
				preds = append(preds, x)
			}
			continue
		}
		if a.Op == "φ" && a.Leaf == fmt.Sprintf("%d.%d", k, j) && x.From == k {
			// pass-through: its own guard fixes the value
			known := false
			for _, gd := range x.Guards {
				if ph, _, ok := phiAtom(gd); ok && ph.Leaf == a.Leaf {
					known = true
				}
			}
			if known {
				continue // stays in the same state (or is excluded by it): its own predecessors are the ones that matter
			}
		}
		complete = false
	}
	return
}

func ruleR12(c *Ctx) *RuleResult {
	p, e := c.p, c.E()
	r := &RuleResult{Rule: "R12", Title: "SIZE: cached counters move only with the structure; Empty/Full/Values derive from the one size term", Floor: 18 + 5 + 51}
	clB := "R12b every store to a cached size has the form old+1, old-1, old+len(values), 0 or a recomputation from the other fields"
	clC := "R12c every decrement of a cached size is guarded by a success condition (element found / index in range / not empty): Size() never goes negative"
	clD := "R12d on the key-already-present path of Put only the key/value of the existing entry is replaced: no counter store, no link store, no rebalancing"
	clE := "R12e every increment of a cached size travels with allocating and linking exactly that element (or is guarded by the callee's 'inserted' result)"
	cfs := counterFields(p)
	for _, cf := range cfs {
		key := p.TypeKey(cf.st) + "." + cf.name
		pos := p.Pos(cf.st.Underlying().(*types.Struct).Field(cf.idx).Pos())
		stores := classifyCounterStores(p, e, cf)
		var badB, badC, badE, factsB, factsC, factsE []string
		for _, cs := range stores {
			where := p.FuncKey(cs.fn) + " at " + p.InstrPos(cs.store)
			factsB = append(factsB, cs.form+" in "+p.FuncKey(cs.fn))
			switch cs.form {
			case "?":
				badB = append(badB, "store of an unrecognised value to the counter in "+where)
			case "-1":
				if g := successGuard(p, cs.store.Block()); g != "" {
					factsC = append(factsC, p.FuncKey(cs.fn)+": guarded by "+g)
				} else if g, ok := callersGuard(p, cs.fn); ok {
					factsC = append(factsC, p.FuncKey(cs.fn)+": a helper the pinned tree does not know, every call of which is guarded by "+g)
				} else {
					badC = append(badC, "decrement in "+where+" is not guarded by a success condition")
				}
			case "+1", "+len":
				gc := c.GC(cs.fn)
				if gc.Undecided != "" {
					badE = append(badE, "normal form of "+p.FuncKey(cs.fn)+" not built: "+gc.Undecided)
					continue
				}
				n := 0
				for _, g := range gc.GCs {
					if !gcStoresField(g, cf.name) {
						continue
					}
					n++
					ok, why := incrementPaired(c, cs, gc, g)
					if ok {
						factsE = append(factsE, p.FuncKey(cs.fn)+": "+why)
					} else {
						badE = append(badE, "increment in "+where+": "+why+"\n  command: "+trunc(g.String(), 500))
					}
				}
				if n == 0 {
					badE = append(badE, "increment in "+where+" not found in the normal form")
				}
			}
		}
		sort.Strings(factsB)
		add := func(rule, clause string, bad, facts []string) {
			if len(bad) > 0 {
				r.add(Obligation{Key: rule + ":" + key, Rule: rule, Clause: clause, Pos: pos, Status: Violated, Facts: strings.Join(bad, "\n")})
			} else {
				r.add(Obligation{Key: rule + ":" + key, Rule: rule, Clause: clause, Pos: pos, Status: Discharged, Facts: strings.Join(dedup(facts), "; ")})
			}
		}
		add("R12b", clB, badB, factsB)
		add("R12c", clC, badC, factsC)
		add("R12e", clE, badE, factsE)
	}
	// R12d: replace-on-equal paths
	type putFn struct{ tk, name, kind string }
	for _, pf := range []putFn{
		{"trees/redblacktree.Tree", "Put", "cmp"}, {"trees/avltree.Tree", "put", "cmp"},
		{"trees/btree.Tree", "insertIntoLeaf", "found"}, {"trees/btree.Tree", "insertIntoInternal", "found"},
		{"maps/linkedhashmap.Map", "Put", "contains"},
	} {
		key := pf.tk + "." + pf.name
		fn := anchorFn(p, pf.tk, pf.name)
		if fn == nil {
			r.add(Obligation{Key: "R12d:" + key, Rule: "R12d", Clause: clD, Pos: "-", Status: Undecided, Facts: "anchored function not found"})
			continue
		}
		gc := c.GC(fn)
		if gc.Undecided != "" {
			r.add(Obligation{Key: "R12d:" + key, Rule: "R12d", Clause: clD, Pos: p.FuncPos(fn), Status: Undecided, Facts: gc.Undecided})
			continue
		}
		n := 0
		var bad []string
		// a loop variable that carries search's "found" result (the descent written as a loop)
		foundPhi := map[string]bool{}
		if pf.kind == "found" {
			for _, g := range gc.GCs {
				if g.Exit.Op != "goto" {
					continue
				}
				for j, a := range g.Exit.Args {
					if a.Op == "ext" && a.Leaf == "1" && len(a.Args) == 1 && a.Args[0].Op == "call" && strings.HasSuffix(a.Args[0].Leaf, ".search") {
						foundPhi["φ:"+g.Exit.Leaf+"."+itoa(j)] = true
					}
				}
			}
		}
		for _, g := range gc.GCs {
			isRep := isReplacePath(g, pf.kind)
			for _, a := range g.Guards {
				if a.Op == "φ" && foundPhi[a.String()] {
					isRep = true
				}
			}
			if !isRep {
				continue
			}
			n++
			for _, ef := range g.Effects {
				if !isReplaceEffect(ef, pf.kind) {
					bad = append(bad, "effect on the key-present path: "+trunc(ef.String(), 300))
				}
			}
			if pf.kind == "cmp" {
				// the entry takes the new key as well as the new value (keys that compare equal may be distinguishable: Keys()
				// lists the key of the most recent Put) — all three trees agree on this
				k, v := false, false
				for _, ef := range g.Effects {
					if storeToField(ef, "Key") {
						k = true
					}
					if storeToField(ef, "Value") {
						v = true
					}
				}
				if !k || !v {
					bad = append(bad, fmt.Sprintf("the key-present path stores key=%v value=%v of the existing entry (both are replaced by a Put)", k, v))
				}
			}
			if pf.kind == "found" {
				// the slot that takes the new entry is the very position the search reported (found ⇒ Entries[pos] holds
				// the key): an offset to it overwrites a neighbour or indexes past the node
				for _, ef := range g.Effects {
					if isStore(ef) && ef.Args[0].Op == "ia" && len(ef.Args[0].Args) == 2 {
						if idx := ef.Args[0].Args[1]; (idx.Op == "+" || idx.Op == "-") && idx.any(func(t *Term) bool { return t.Op == "call" && strings.HasSuffix(t.Leaf, ".search") }) {
							bad = append(bad, "the key-present path stores the entry at an offset from the position the search found the key at: "+trunc(noEpoch(idx), 200))
						}
					}
				}
			}
			if pf.kind != "cmp" && len(g.Effects) == 0 {
				bad = append(bad, "the key-present path stores nothing: the value of the most recent Put is lost")
			}
			// a boolean result means "a new entry was linked / the height changed": it must be false here
			if g.Exit.Op == "return" && len(g.Exit.Args) == 1 {
				if b, isBool := g.Exit.Args[0].constBool(); !isBool || b {
					bad = append(bad, "the key-present path returns "+trunc(g.Exit.Args[0].String(), 100)+" instead of false (the caller would count / rebalance for a node that was not added)")
				}
			}
		}
		switch {
		case n == 0:
			r.add(Obligation{Key: "R12d:" + key, Rule: "R12d", Clause: clD, Pos: p.FuncPos(fn), Status: Undecided, Facts: "no key-present path recognised"})
		case len(bad) > 0:
			r.add(Obligation{Key: "R12d:" + key, Rule: "R12d", Clause: clD, Pos: p.FuncPos(fn), Status: Violated, Facts: strings.Join(dedup(bad), "\n")})
		default:
			r.add(Obligation{Key: "R12d:" + key, Rule: "R12d", Clause: clD, Pos: p.FuncPos(fn), Status: Discharged, Facts: fmt.Sprintf("%d key-present path(s): only key/value of the existing entry are stored", n)})
		}
	}
	ruleR12dDescent(c, r)
	ruleR12found(c, r)
	ruleR12f(c, r)
	return r
}

// ruleR12found — the converse of R12c for the AVL tree's recursive remove: every path that found the key (the comparator
// answered 0 for a non-nil node) removes an entry — directly or by handing the successor's entry over — and so decrements the
// cached size, whatever the rebalancing below it reports (a decrement placed inside `if removeMin(…) {` is skipped whenever the
// right subtree keeps its height).
func ruleR12found(c *Ctx, r *RuleResult) {
	p := c.p
	clause := "R12g-found every path of the AVL remove that found the key decrements the size (the entry is gone whether or not the subtree below changed height)"
	fn := anchorFn(p, "trees/avltree.Tree", "remove")
	key := "R12c:trees/avltree.Tree.remove-found"
	if fn == nil {
		return
	}
	gc := c.GC(fn)
	if gc.Undecided != "" {
		return
	}
	var bad []string
	n := 0
	for _, g := range gc.GCs {
		found := false
		for _, a := range g.Guards {
			if a.Op == "==" && len(a.Args) == 2 && a.Args[0].String() == "#:0" && a.Args[1].Op == "dyn" && hasField(a.Args[1], "Comparator") {
				found = true
			}
		}
		if !found || g.Exit.Op != "return" {
			continue
		}
		n++
		dec := false
		for _, ef := range g.Effects {
			if storeToField(ef, "size") {
				if d := linOf(ef.Args[1]); d.k == -1 {
					dec = true
				}
			}
			// an unknown helper that was entered carries its stores on this path; a known callee that unlinks and counts
			// (none today) would be a call — not accepted here
		}
		if !dec {
			bad = append(bad, "a path that found the key returns without decrementing the size: "+trunc(guardsString(g), 240))
		}
	}
	// the same for the red-black Remove: a path that knows lookup(key) != nil and returns has decremented the size
	if rfn := anchorFn(p, "trees/redblacktree.Tree", "Remove"); rfn != nil {
		rgc := c.GC(rfn)
		var rbad []string
		rn := 0
		if rgc.Undecided == "" {
			for _, g := range rgc.GCs {
				if g.From != 0 || g.Exit.Op != "return" {
					continue
				}
				foundIt := false
				for _, a := range g.Guards {
					if a.Op == "!=" && len(a.Args) == 2 && a.Args[0].String() == "#:nil" && a.Args[1].Op == "call" && (strings.HasSuffix(a.Args[1].Leaf, ").lookup") || strings.HasSuffix(a.Args[1].Leaf, ").GetNode")) {
						foundIt = true
					}
				}
				if !foundIt {
					continue
				}
				rn++
				dec := false
				for _, ef := range g.Effects {
					if storeToField(ef, "size") {
						if d := linOf(ef.Args[1]); d.k == -1 {
							dec = true
						}
					}
				}
				if !dec {
					rbad = append(rbad, "a path that found the key returns without decrementing the size: "+trunc(guardsString(g), 240))
				}
			}
		}
		rkey := "R12c:trees/redblacktree.Tree.Remove-found"
		rcl := "R12g-found every path of the red-black Remove that found the key decrements the size (an early return after the unlinking skips the count)"
		if len(rbad) > 0 {
			r.add(Obligation{Key: rkey, Rule: "R12c", Clause: rcl, Pos: p.FuncPos(rfn), Status: Violated, Facts: strings.Join(dedup(rbad), "\n")})
		} else if rn > 0 {
			r.add(Obligation{Key: rkey, Rule: "R12c", Clause: rcl, Pos: p.FuncPos(rfn), Status: Discharged, Facts: fmt.Sprintf("%d found-paths, each decrements the size", rn)})
		}
	}
	switch {
	case n == 0:
		// the recursion was rewritten beyond this clause's reach: no verdict
	case len(bad) > 0:
		r.add(Obligation{Key: key, Rule: "R12c", Clause: clause, Pos: p.FuncPos(fn), Status: Violated, Facts: strings.Join(dedup(bad), "\n")})
	default:
		r.add(Obligation{Key: key, Rule: "R12c", Clause: clause, Pos: p.FuncPos(fn), Status: Discharged, Facts: fmt.Sprintf("%d found-paths, each decrements the size", n)})
	}
}

// ruleR12dDescent — B-tree: the insertion descent looks at the key it passes. `search(node, key)` answers (position, found);
// on the way down to a leaf the insertion side hands `node.Children[position]` on (to the next round or the next call) only
// on paths that know found == false — a key that sits in an internal node as a separator is replaced there, not inserted a
// second time below it (three independent seeds turned the recursion into a loop that dropped `found`).
func ruleR12dDescent(c *Ctx, r *RuleResult) {
	p := c.p
	clause := "R12d-descent the B-tree's insertion descent continues into Children[pos] of search(node, key) only on paths that know the key is not in node"
	ct := typeByKey(p, "trees/btree.Tree")
	if ct == nil {
		return
	}
	ms := methodsOf(p, ct)
	put := ms["Put"]
	if put == nil {
		r.add(Obligation{Key: "R12d:trees/btree.Tree.descent", Rule: "R12d", Clause: clause, Pos: "-", Status: Undecided, Facts: "Put not found"})
		return
	}
	reach := func(from *ssa.Function, stop map[*ssa.Function]bool) map[*ssa.Function]bool {
		seen := map[*ssa.Function]bool{}
		var walk func(f *ssa.Function)
		walk = func(f *ssa.Function) {
			if f == nil || seen[f] || stop[f] || f.Blocks == nil {
				return
			}
			seen[f] = true
			for _, cl := range allCalls(f) {
				if cal := StaticCallee(cl.Common()); cal != nil && p.IsLib(cal) {
					walk(origin(cal))
				}
			}
		}
		walk(from)
		return seen
	}
	stop := map[*ssa.Function]bool{}
	if sp := anchorFn(p, "trees/btree.Tree", "split"); sp != nil {
		stop = reach(sp, nil)
	}
	if se := ms["search"]; se != nil {
		stop[se] = true
	}
	fam := reach(put, stop)
	var bad []string
	n := 0
	var names []string
	for fn := range fam {
		names = append(names, p.FuncKey(fn))
	}
	sort.Strings(names)
	for _, name := range names {
		var fn *ssa.Function
		for f := range fam {
			if p.FuncKey(f) == name {
				fn = f
			}
		}
		gc := c.GC(fn)
		if gc.Undecided != "" {
			continue
		}
		// loop variables that carry search's results for the node another loop variable holds: on every edge into cut k,
		// slot j receives (ext:0 search(_, N, _)) and slot f (ext:1 of the same call), N being what slot n receives
		type carried struct{ node, found string }
		carry := map[string]carried{} // "φ:k.j" → node φ, found φ
		{
			type edgeInfo struct{ pos, fnd map[int]int }
			per := map[string][]edgeInfo{}
			for _, g := range gc.GCs {
				if g.Exit.Op != "goto" {
					continue
				}
				ei := edgeInfo{map[int]int{}, map[int]int{}}
				for j, a := range g.Exit.Args {
					if a.Op == "ext" && len(a.Args) == 1 && a.Args[0].Op == "call" && strings.HasSuffix(a.Args[0].Leaf, ".search") && len(a.Args[0].Args) >= 3 {
						for n2, b := range g.Exit.Args {
							if n2 != j && noEpoch(b) == noEpoch(a.Args[0].Args[2]) {
								if a.Leaf == "0" {
									ei.pos[j] = n2
								} else if a.Leaf == "1" {
									ei.fnd[j] = n2
								}
							}
						}
					}
				}
				per[g.Exit.Leaf] = append(per[g.Exit.Leaf], ei)
			}
			for k, eis := range per {
				for j, n2 := range eis[0].pos {
					all := true
					for _, e := range eis[1:] {
						if v, ok := e.pos[j]; !ok || v != n2 {
							all = false
						}
					}
					if !all {
						continue
					}
					for f, n3 := range eis[0].fnd {
						if n3 != n2 {
							continue
						}
						allF := true
						for _, e := range eis[1:] {
							if v, ok := e.fnd[f]; !ok || v != n2 {
								allF = false
							}
						}
						if allF {
							carry["φ:"+k+"."+itoa(j)] = carried{"φ:" + k + "." + itoa(n2), "φ:" + k + "." + itoa(f)}
						}
					}
				}
			}
		}
		for _, g := range gc.GCs {
			// Children[ext:0 search(N, …)] of the same node N, handed on
			type hop struct {
				call  *Term
				found string
			}
			var hops []hop
			see := func(t *Term) bool {
				if t.Op != "ia" || len(t.Args) != 2 {
					return false
				}
				ch := t.Args[0]
				if !(ch.Op == "load" && len(ch.Args) == 1 && ch.Args[0].Op == "fa" && ch.Args[0].Leaf == "Children" && len(ch.Args[0].Args) == 1) {
					return false
				}
				if t.Args[1].Op == "ext" && t.Args[1].Leaf == "0" && len(t.Args[1].Args) == 1 {
					if call := t.Args[1].Args[0]; call.Op == "call" && strings.HasSuffix(call.Leaf, ".search") && len(call.Args) >= 3 {
						if noEpoch(ch.Args[0].Args[0]) == noEpoch(call.Args[2]) {
							hops = append(hops, hop{call: call})
						}
					}
				}
				if t.Args[1].Op == "φ" {
					if cr, ok := carry[t.Args[1].String()]; ok && ch.Args[0].Args[0].String() == cr.node {
						hops = append(hops, hop{found: cr.found})
					}
				}
				return false
			}
			g.Exit.any(see)
			for _, ef := range g.Effects {
				if ef.Op == "do" || ef.Op == "call" {
					ef.any(see)
				}
			}
			for _, h := range hops {
				n++
				knowsAbsent := false
				for _, a := range g.Guards {
					if a.Op != "!" || len(a.Args) != 1 {
						continue
					}
					x := a.Args[0]
					if h.call != nil && x.Op == "ext" && x.Leaf == "1" && len(x.Args) == 1 && noEpoch(x.Args[0]) == noEpoch(h.call) {
						knowsAbsent = true
					}
					if h.call == nil && x.String() == h.found {
						knowsAbsent = true
					}
				}
				if !knowsAbsent {
					bad = append(bad, fmt.Sprintf("%s descends into Children[position] without knowing that the search did not find the key in the node: %s", name, trunc(guardsString(g), 200)))
				}
			}
		}
	}
	key := "R12d:trees/btree.Tree.descent"
	switch {
	case len(bad) > 0:
		r.add(Obligation{Key: key, Rule: "R12d", Clause: clause, Pos: p.FuncPos(put), Status: Violated, Facts: strings.Join(dedup(bad), "\n")})
	case n == 0:
		r.add(Obligation{Key: key, Rule: "R12d", Clause: clause, Pos: p.FuncPos(put), Status: Undecided, Facts: "no descent through Children[search position] found on the insertion side (" + strings.Join(names, ", ") + ")"})
	default:
		r.add(Obligation{Key: key, Rule: "R12d", Clause: clause, Pos: p.FuncPos(put), Status: Discharged, Facts: fmt.Sprintf("%d descending path(s) in %s, each knows found == false", n, strings.Join(names, ", "))})
	}
}

func dedup(xs []string) []string {
	seen := map[string]bool{}
	var out []string
	for _, x := range xs {
		if !seen[x] {
			seen[x] = true
			out = append(out, x)
		}
	}
	return out
}

func typeByKey(p *Prog, key string) *types.Named {
	for n := range p.T.Protected {
		if p.TypeKey(n) == key {
			return n
		}
	}
	for _, n := range p.T.Iterators {
		if p.TypeKey(n) == key {
			return n
		}
	}
	return nil
}

func isCmpEqualAtom(a *Term) bool {
	if a.Op != "==" || len(a.Args) != 2 {
		return false
	}
	z, ok := a.Args[0].constInt()
	return ok && z == 0 && a.Args[1].Op == "dyn"
}

func isReplacePath(g *GC, kind string) bool {
	for _, a := range g.Guards {
		switch kind {
		case "cmp":
			if isCmpEqualAtom(a) {
				return true
			}
		case "found":
			if a.Op == "ext" && a.Leaf == "1" && len(a.Args) == 1 && a.Args[0].Op == "call" && strings.HasSuffix(a.Args[0].Leaf, ".search") {
				return true
			}
		case "contains":
			// `_, contains := m.table[key]; contains` — a positive lookup-ok atom
			if a.Op == "ext" && a.Leaf == "1" && len(a.Args) == 1 && a.Args[0].Op == "lookup" {
				return true
			}
		}
	}
	return false
}

func isReplaceEffect(ef *Term, kind string) bool {
	switch kind {
	case "cmp":
		return storeToField(ef, "Key") || storeToField(ef, "Value")
	case "found":
		// node.Entries[pos] = entry
		return isStore(ef) && ef.Args[0].Op == "ia" && ef.Args[0].any(func(t *Term) bool { return t.Op == "fa" && t.Leaf == "Entries" })
	case "contains":
		return ef.Op == "mapset"
	}
	return false
}

// incrementPaired decides R12e for one guarded command that stores the counter.
func incrementPaired(c *Ctx, cs counterStore, gc *GCNF, g *GC) (bool, string) {
	if cs.form == "+len" {
		// one element is allocated and linked per iteration of every range loop over the variadic parameter
		fn := cs.fn
		vs := "p:" + itoa(len(fn.Params)-1)
		nloops := 0
		for _, x := range gc.GCs {
			isBody := false
			skipped := 0 // values[k:]: the first k values are handled before the loop
			for _, a := range x.Guards {
				if a.Op == "<" && a.Args[1].String() == "(len "+vs+")" {
					isBody = true
				}
				if a.Op == "<" && a.Args[1].Op == "len" && a.Args[1].Args[0].Op == "slice" && a.Args[1].Args[0].Args[0].String() == vs && a.Args[1].Args[0].Args[2].Op == "_" {
					if k, ok := a.Args[1].Args[0].Args[1].constInt(); ok && k > 0 {
						isBody, skipped = true, int(k)
					}
				}
			}
			if !isBody && x.Exit.Op == "goto" && x.Exit.Leaf == itoa(x.From) {
				// the same number of rounds counted down: a counter that enters at len(values) and runs while > 0, or enters at
				// len(values)-1 and runs while >= 0, one step down per round
				for j, a := range x.Exit.Args {
					phi := "φ:" + itoa(x.From) + "." + itoa(j)
					if d := linOf(a).add(linAtom(phi), -1); len(d.c) != 0 || d.k != -1 {
						continue
					}
					strictGT, nonStrict := false, false
					for _, gd := range x.Guards {
						if gd.Op == "<" && len(gd.Args) == 2 && gd.Args[0].String() == "#:0" && gd.Args[1].String() == phi {
							strictGT = true
						}
						if gd.Op == "<=" && len(gd.Args) == 2 && gd.Args[0].String() == "#:0" && gd.Args[1].String() == phi {
							nonStrict = true
						}
					}
					okEntry := true
					nEntry := 0
					for _, en := range gc.GCs {
						if en.Exit.Op != "goto" || en.Exit.Leaf != x.Exit.Leaf || en.From == x.From || j >= len(en.Exit.Args) {
							continue
						}
						nEntry++
						start := linOf(en.Exit.Args[j]).add(linAtom("(len "+vs+")"), -1)
						if len(start.c) != 0 || !((start.k == 0 && strictGT) || (start.k == -1 && nonStrict)) {
							okEntry = false
						}
					}
					if okEntry && nEntry > 0 {
						isBody = true
					}
				}
			}
			if !isBody || x.Exit.Op != "goto" {
				continue
			}
			if skipped > 0 {
				// the paths that enter this loop must have allocated exactly the skipped values' elements
				for _, en := range gc.GCs {
					if en.Exit.Op != "goto" || en.Exit.Leaf != x.Exit.Leaf || en.From == x.From {
						continue
					}
					seen := map[string]bool{}
					cnt := func(t *Term) bool {
						if isNewTerm(t) && strings.HasPrefix(t.Leaf, "complit") {
							seen[t.Leaf] = true
						}
						return false
					}
					for _, ef := range en.Effects {
						ef.any(cnt)
					}
					en.Exit.any(cnt)
					if len(seen) != skipped {
						return false, fmt.Sprintf("the loop runs over values[%d:] but the path into it allocates %d element(s)", skipped, len(seen))
					}
				}
			}
			nloops++
			nnew := 0
			for _, ef := range x.Effects {
				if isStore(ef) && isNewTerm(ef.Args[1]) && !ef.Args[0].any(isNewTerm) {
					nnew++
				}
			}
			for _, a := range x.Exit.Args {
				if isNewTerm(a) {
					nnew++ // the new element is carried to the next round (chain under construction, spliced in afterwards)
				}
			}
			if nnew < 1 {
				return false, "a loop iteration over the variadic values links no new element while the counter grows by len(values)"
			}
		}
		if nloops == 0 {
			return false, "counter grows by len(values) but no range loop over the values allocates elements"
		}
		return true, fmt.Sprintf("+len(values): every iteration of the %d range-loop path(s) allocates and links an element", nloops)
	}
	if gcHasAllocLink(g) {
		return true, "+1 on a path that allocates and links a new element"
	}
	if allPathsAllocLink(gc)[g.From] {
		return true, "+1 after a loop that every path enters only after allocating and linking a new element"
	}
	// guarded by the callee's boolean result (frozen exception: btree.Put ← insert)
	for _, a := range g.Guards {
		if a.Op == "res" && len(a.Args) == 1 && a.Args[0].Op == "do" && strings.HasSuffix(a.Args[0].Leaf, ".insert") {
			return true, "+1 guarded by the boolean 'inserted' result of insert (the leaf does the linking)"
		}
	}
	// flag-controlled loop exit: all predecessors that set the flag allocate and link
	for _, a := range g.Guards {
		phi, want, isPhi := phiAtom(a)
		if !isPhi {
			continue
		}
		var k, j int
		if _, err := fmt.Sscanf(phi.Leaf, "%d.%d", &k, &j); err != nil || k != g.From {
			continue
		}
		preds, complete := predecessorsFor(gc, k, j, want)
		if !complete || len(preds) == 0 {
			continue
		}
		all := true
		for _, pr := range preds {
			if !gcHasAllocLink(pr) {
				all = false
			}
		}
		if all {
			return true, fmt.Sprintf("+1 after a flag-controlled loop exit: all %d path(s) that set the flag allocate and link the new node", len(preds))
		}
	}
	return false, "the counter is incremented on a path that links no new element"
}

// allPathsAllocLink: for every cut point, whether every path from the function entry to it has allocated and linked a new
// element (greatest fixpoint over the guarded commands that lead to the cut).
func allPathsAllocLink(gc *GCNF) map[int]bool {
	A := map[int]bool{}
	for _, g := range gc.GCs {
		A[g.From] = true
		if g.Exit.Op == "goto" {
			A[atoiOr(g.Exit.Leaf, 0)] = true
		}
	}
	A[0] = false
	for changed := true; changed; {
		changed = false
		for _, g := range gc.GCs {
			if g.Exit.Op != "goto" {
				continue
			}
			k := atoiOr(g.Exit.Leaf, 0)
			if A[k] && !(gcHasAllocLink(g) || A[g.From]) {
				A[k] = false
				changed = true
			}
		}
	}
	return A
}

// ---- R12f ----

func returnTerm(g *GCNF) *Term {
	if g.Undecided != "" || len(g.GCs) != 1 || g.GCs[0].Exit.Op != "return" || len(g.GCs[0].Exit.Args) != 1 || len(g.GCs[0].Effects) != 0 {
		return nil
	}
	return stripEpochs(g.GCs[0].Exit.Args[0])
}

func ruleR12f(c *Ctx, r *RuleResult) {
	p := c.p
	clF := "R12f Empty() ≡ Size()==0, Full() ≡ Size()==capacity, and the slice allocated by Values()/Keys() has length Size(): all derive from one size term"
	for _, ct := range p.T.Containers {
		ms := methodsOf(p, ct)
		tk := p.TypeKey(ct)
		size := ms["Size"]
		if size == nil {
			continue
		}
		ts := returnTerm(c.GC(size))
		if ts == nil {
			r.add(Obligation{Key: "R12f:" + tk + ".Size", Rule: "R12f", Clause: clF, Pos: p.FuncPos(size), Status: Undecided, Facts: "Size() is not a single expression"})
			continue
		}
		// Empty
		if em := ms["Empty"]; em != nil {
			te := returnTerm(c.GC(em))
			want := mkBin(token.EQL, intConst(0, ""), ts)
			key := "R12f:" + p.FuncKey(em)
			switch {
			case te == nil:
				r.add(Obligation{Key: key, Rule: "R12f", Clause: clF, Pos: p.FuncPos(em), Status: Undecided, Facts: "Empty() is not a single expression"})
			case te.String() == want.String():
				r.add(Obligation{Key: key, Rule: "R12f", Clause: clF, Pos: p.FuncPos(em), Status: Discharged, Facts: "Empty() = " + trunc(te.String(), 200)})
			default:
				r.add(Obligation{Key: key, Rule: "R12f", Clause: clF, Pos: p.FuncPos(em), Status: Violated, Facts: "Empty() = " + trunc(te.String(), 300) + "\nbut Size()==0 is " + trunc(want.String(), 300)})
			}
		}
		if fu := ms["Full"]; fu != nil {
			te := returnTerm(c.GC(fu))
			key := "R12f:" + p.FuncKey(fu)
			ok := te != nil && te.Op == "==" && (te.Args[0].String() == ts.String() || te.Args[1].String() == ts.String())
			capOK := ok && te.any(func(t *Term) bool { return t.Op == "fa" && t.Leaf == "maxSize" })
			if capOK {
				r.add(Obligation{Key: key, Rule: "R12f", Clause: clF, Pos: p.FuncPos(fu), Status: Discharged, Facts: "Full() = " + trunc(te.String(), 200)})
			} else {
				r.add(Obligation{Key: key, Rule: "R12f", Clause: clF, Pos: p.FuncPos(fu), Status: Violated, Facts: "Full() is not Size() == maxSize: " + trunc(fmt.Sprint(te), 300)})
			}
		}
		for _, name := range []string{"Values", "Keys"} {
			fn := ms[name]
			if fn == nil {
				continue
			}
			key := "R12f:" + p.FuncKey(fn)
			st, facts := valuesLength(c, ct, fn, ts, 0)
			r.add(Obligation{Key: key, Rule: "R12f", Clause: clF, Pos: p.FuncPos(fn), Status: st, Facts: facts})
		}
	}
}

// valuesLength: the slice returned by Values()/Keys() has length Size().
func valuesLength(c *Ctx, ct *types.Named, fn *ssa.Function, sizeTerm *Term, depth int) (Status, string) {
	p := c.p
	if depth > 4 {
		return Undecided, "forwarding chain too deep"
	}
	// which value is returned?
	var rets []ssa.Value
	for _, b := range fn.Blocks {
		if ret, ok := b.Instrs[len(b.Instrs)-1].(*ssa.Return); ok && len(ret.Results) == 1 {
			rets = append(rets, stripChange(ret.Results[0]))
		}
	}
	if len(rets) != 1 {
		return Undecided, "more than one return"
	}
	st := &pstate{b: &gcBuilder{p: p, e: c.E(), fn: fn, cutIdx: map[string]int{}, out: &GCNF{Fn: fn}}, env: map[ssa.Value]*Term{}, onPath: map[string]bool{}, inl: true}
	switch x := rets[0].(type) {
	case *ssa.MakeSlice:
		lt := stripEpochs(st.term(x.Len))
		if lt.String() == sizeTerm.String() {
			return Discharged, "make([]T, n) with n = " + trunc(lt.String(), 160) + " = Size()"
		}
		// n = len(inner.Values()) / len(inner.Keys()): that length is the inner container's Size() (its own R12f obligation)
		if lt.Op == "len" && len(lt.Args) == 1 && lt.Args[0].Op == "call" && (strings.HasSuffix(lt.Args[0].Leaf, ").Values") || strings.HasSuffix(lt.Args[0].Leaf, ").Keys")) && len(lt.Args[0].Args) == 2 {
			if inner := byFuncKey(p, lt.Args[0].Leaf); inner != nil && inner.Signature.Recv() != nil {
				if it := namedOf(inner.Signature.Recv().Type()); it != nil {
					if sz := methodsOf(p, it)["Size"]; sz != nil {
						st2 := &pstate{b: &gcBuilder{p: p, e: c.E(), fn: fn, cutIdx: map[string]int{}, out: &GCNF{Fn: fn}}, env: map[ssa.Value]*Term{}, onPath: map[string]bool{}, inl: true}
						if t2, ok := st2.inline(sz, []*Term{lt.Args[0].Args[1]}); ok && stripEpochs(t2).String() == sizeTerm.String() {
							return Discharged, "make([]T, n) with n = len(" + lastIdent(lt.Args[0].Leaf) + "()) of the inner container whose Size() is this container's Size()"
						}
					}
				}
			}
		}
		return Violated, "the result is make([]T, n) with n = " + trunc(lt.String(), 300) + "\nbut Size() = " + trunc(sizeTerm.String(), 300)
	case *ssa.Call:
		if full := stdCalleeName(p, &x.Call); full == "slices.Clone" {
			lt := stripEpochs(node("len", st.term(x.Call.Args[0])))
			if lt.String() == sizeTerm.String() {
				return Discharged, "slices.Clone(F) with len(F) = Size()"
			}
			return Violated, "clone of a slice whose length " + trunc(lt.String(), 200) + " is not Size() = " + trunc(sizeTerm.String(), 200)
		}
		cal := StaticCallee(&x.Call)
		if cal != nil && p.IsLib(cal) && (cal.Name() == "Values" || cal.Name() == "Keys") && len(x.Call.Args) == 1 {
			inner := recvNamed(cal)
			if f, ok := recvField(fn, x.Call.Args[0]); ok && inner != nil {
				// Size() of this container must be the inner container's Size() on that field
				innerSize := methodsOf(p, inner)["Size"]
				if innerSize == nil {
					return Undecided, "inner container without Size()"
				}
				recvT := st.term(x.Call.Args[0])
				it, ok2 := st.inline(innerSize, []*Term{recvT})
				if ok2 && stripEpochs(it).String() == sizeTerm.String() {
					// and the inner Values()/Keys() itself has length inner.Size()
					ist := returnTerm(c.GC(innerSize))
					if ist == nil {
						return Undecided, "inner Size() is not a single expression"
					}
					s2, f2 := valuesLength(c, inner, cal, ist, depth+1)
					if s2 == Discharged {
						return Discharged, fmt.Sprintf("forwards to %s.%s() and Size() forwards to the same field's Size(); inner: %s", fieldName(fn, f), cal.Name(), f2)
					}
					return s2, "inner " + p.FuncKey(cal) + ": " + f2
				}
				// frozen exception (DESIGN R12f): BidiMap.Values() = inverse.Keys() while Size() reads the forward map — equal by the one-to-one invariant (R16)
				if strings.HasSuffix(p.TypeKey(ct), "bidimap.Map") && fn.Name() == "Values" && fieldName(fn, f) == "inverseMap" {
					return Discharged, "frozen exception: Values() = inverseMap.Keys(); its length equals Size() (forward map) by the one-to-one invariant decided by R16"
				}
				return Violated, fmt.Sprintf("forwards to %s.%s() but Size() = %s is not that field's Size()", fieldName(fn, f), cal.Name(), trunc(sizeTerm.String(), 200))
			}
		}
	}
	if ok, facts := appendPerRound(c, ct, fn); ok {
		return Discharged, facts
	}
	return Undecided, fmt.Sprintf("result of %s is neither make([]T, n), slices.Clone(F), a forwarded Values()/Keys() nor one append per round of a loop over the receiver's own content", p.FuncKey(fn))
}

// appendPerRound recognises the other common way of building Values()/Keys(): an initially empty slice to which every
// round of one loop over the receiver's own content (range over a field of the receiver, or the receiver's own iterator —
// also through Each) appends exactly one element; the slice is returned when the loop is exhausted. Its length is the
// number of elements the iteration visits.
func appendPerRound(c *Ctx, ct *types.Named, fn *ssa.Function) (bool, string) {
	p := c.p
	gc := c.GCWith(fn, BuildOpts{Tag: "R12f", Inline: func(callee *ssa.Function) bool {
		rt := recvNamed(callee)
		return rt != nil && p.TypeKey(rt) == p.TypeKey(ct) && fnName(callee) == "Each"
	}})
	if gc.Undecided != "" {
		return false, ""
	}
	// the accumulator: a loop-carried value φ:k.j initialised with make(_, 0, _), or a local cell
	var entry *GC
	for _, g := range gc.GCs {
		if g.From == 0 {
			if entry != nil {
				return false, ""
			}
			entry = g
		}
	}
	if entry == nil || entry.Exit.Op != "goto" {
		return false, ""
	}
	k := entry.Exit.Leaf
	isEmptyMake := func(t *Term) bool {
		if t.Op != "makeslice" || len(t.Args) != 2 {
			return false
		}
		z, ok := t.Args[0].constInt()
		return ok && z == 0
	}
	acc := ""     // how a round reads the accumulator
	carried := -1 // index of the φ, or -1 for a cell
	for j, a := range entry.Exit.Args {
		if isEmptyMake(a) {
			if acc != "" {
				return false, ""
			}
			acc, carried = "φ:"+k+"."+itoa(j), j
		}
	}
	for _, ef := range entry.Effects {
		switch {
		case isStore(ef) && ef.Args[0].Op == "new" && isEmptyMake(ef.Args[1]):
			if acc != "" {
				return false, ""
			}
			acc = "(load " + ef.Args[0].String() + ")"
		case isStore(ef) && ef.Args[0].Op == "new":
		default:
			return false, ""
		}
	}
	if acc == "" {
		return false, ""
	}
	nstep, ndone := 0, 0
	driver := ""
	for _, g := range gc.GCs {
		if g == entry {
			continue
		}
		if strconv.Itoa(g.From) != k || len(g.Effects) == 0 {
			return false, ""
		}
		first := g.Effects[0]
		var stepRes string
		switch {
		case first.Op == "advance" && first.Args[0].Op == "range":
			// range over a field of the receiver
			src := first.Args[0].Args[0]
			if !(src.Op == "load" && src.Args[0].Op == "fa" && src.Args[0].Args[0].String() == "p:0") {
				return false, ""
			}
			stepRes = noEpoch(nodeL("ext", "0", nodeL("next", "", first.Args[0])))
		case first.Op == "do" && strings.HasSuffix(first.Leaf, ").Next") && len(first.Args) == 1:
			if op, ok := ownIteratorTerm(gc, first.Args[0]); !ok || op != "0" {
				return false, ""
			}
			stepRes = noEpoch(nodeL("res", "", first))
		default:
			return false, ""
		}
		if driver == "" {
			driver = noEpoch(first)
		} else if driver != noEpoch(first) {
			return false, ""
		}
		stepped := 0
		for _, a := range g.Guards {
			x, pol := a, true
			if x.Op == "!" {
				x, pol = x.Args[0], false
			}
			if noEpoch(x) == stepRes {
				if pol {
					stepped = 1
				} else {
					stepped = -1
				}
			}
		}
		switch stepped {
		case -1:
			ndone++
			if len(g.Effects) != 1 || g.Exit.Op != "return" || len(g.Exit.Args) != 1 || noEpoch(g.Exit.Args[0]) != acc {
				return false, ""
			}
		case 1:
			nstep++
			// exactly one append of exactly one element to the accumulator, carried on
			var app *Term
			for i, ef := range g.Effects[1:] {
				switch {
				case ef.Op == "builtin" && ef.Leaf == "append":
					if app != nil || len(ef.Args) != 2 || noEpoch(ef.Args[0]) != acc || varargElem(g.Effects, i+1, ef.Args[1]) == nil {
						return false, ""
					}
					app = ef
				case isStore(ef) && ef.Args[0].Op == "ia" && ef.Args[0].Args[0].Op == "new":
				case isStore(ef) && ef.Args[0].Op == "new" && carried < 0 && app != nil && ef.Args[1].Op == "res" && ef.Args[1].Args[0].String() == app.String():
				default:
					return false, ""
				}
			}
			if app == nil || g.Exit.Op != "goto" || g.Exit.Leaf != k {
				return false, ""
			}
			if carried >= 0 {
				if carried >= len(g.Exit.Args) {
					return false, ""
				}
				nx := g.Exit.Args[carried]
				if nx.Op != "res" || nx.Args[0].String() != app.String() {
					return false, ""
				}
			} else {
				stored := false
				for _, ef := range g.Effects {
					if isStore(ef) && "(load "+ef.Args[0].String()+")" == acc && ef.Args[1].Op == "res" && ef.Args[1].Args[0].String() == app.String() {
						stored = true
					}
				}
				if !stored {
					return false, ""
				}
			}
		default:
			return false, ""
		}
	}
	if nstep != 1 || ndone != 1 {
		return false, ""
	}
	return true, "starts empty and every round of the loop over the receiver's own content (" + trunc(driver, 120) + ") appends exactly one element; returned when the loop is exhausted"
}

// ---- C15 extras: Clear, configuration fields, String() ----

var configFieldNames = map[string]bool{"Comparator": true, "m": true, "maxSize": true}

func ruleR12g(c *Ctx) *RuleResult {
	p := c.p
	r := &RuleResult{Rule: "R12g", Title: "Clear/configuration/String(): Clear empties and keeps the configuration; String() starts with the container's name", Floor: 7 + 21 + 21}
	clCfg := "configuration fields (comparator, B-tree order, ring capacity) are written only while constructing a fresh container: Clear and every other operation keep them"
	clClr := "Clear() resets what Size() and the traversal start from (counter → 0, storage emptied, root/first → nil) and forwards to Clear of every contained container"
	clStr := "String() begins with the container's documented name"
	// configuration fields
	for _, ct := range p.T.Containers {
		st := ct.Underlying().(*types.Struct)
		for i := 0; i < st.NumFields(); i++ {
			f := st.Field(i)
			fname := fieldN(ct, i)
			if !configFieldNames[fname] {
				continue
			}
			if fname == "m" && p.TypeKey(ct) != "trees/btree.Tree" {
				continue
			}
			key := p.TypeKey(ct) + "." + fname
			var bad []string
			n := 0
			for _, fn := range p.Funcs {
				for _, b := range fn.Blocks {
					for _, in := range b.Instrs {
						fa, ok := in.(*ssa.FieldAddr)
						if !ok || fa.Field != i || namedOf(fa.X.Type()) != ct {
							continue
						}
						for _, ref := range *fa.Referrers() {
							switch y := ref.(type) {
							case *ssa.Store:
								if y.Addr != ssa.Value(fa) {
									bad = append(bad, "address stored at "+p.InstrPos(y))
									continue
								}
								n++
								if _, isAlloc := stripChange(fa.X).(*ssa.Alloc); !isAlloc || fn.Signature.Recv() != nil {
									bad = append(bad, fmt.Sprintf("written outside construction in %s at %s", p.FuncKey(fn), p.InstrPos(y)))
								}
							case *ssa.UnOp, *ssa.DebugRef:
							default:
								bad = append(bad, fmt.Sprintf("address escapes to %s in %s at %s", instrDesc(p, ref), p.FuncKey(fn), p.InstrPos(ref)))
							}
						}
					}
				}
			}
			if len(bad) > 0 {
				r.add(Obligation{Key: "R12cfg:" + key, Rule: "R12cfg", Clause: clCfg, Pos: p.Pos(f.Pos()), Status: Violated, Facts: strings.Join(bad, "\n")})
			} else {
				r.add(Obligation{Key: "R12cfg:" + key, Rule: "R12cfg", Clause: clCfg, Pos: p.Pos(f.Pos()), Status: Discharged, Facts: fmt.Sprintf("%d store(s), all into a freshly allocated container inside a constructor", n)})
			}
		}
	}
	// Clear
	for _, ct := range p.T.Containers {
		ms := methodsOf(p, ct)
		clr := ms["Clear"]
		key := "R12clear:" + p.TypeKey(ct)
		if clr == nil {
			continue
		}
		gc := c.GC(clr)
		if gc.Undecided != "" || len(gc.GCs) != 1 {
			r.add(Obligation{Key: key, Rule: "R12clear", Clause: clClr, Pos: p.FuncPos(clr), Status: Undecided, Facts: "Clear() is not a single straight-line path"})
			continue
		}
		g := gc.GCs[0]
		st := ct.Underlying().(*types.Struct)
		var bad, facts []string
		// contained containers
		for i := 0; i < st.NumFields(); i++ {
			f := st.Field(i)
			fname := fieldN(ct, i)
			inner := namedOf(f.Type())
			if inner == nil || !p.T.IsContainer(inner) {
				continue
			}
			ok := false
			for _, ef := range g.Effects {
				if ef.Op == "do" && strings.HasSuffix(ef.Leaf, ").Clear") && len(ef.Args) == 1 && ef.Args[0].any(func(t *Term) bool { return t.Op == "fa" && t.Leaf == fname }) {
					ok = true
				}
				if storeToField(ef, fname) && (ef.Args[1].Op == "res" || ef.Args[1].Op == "new") {
					ok = true // replaced by a freshly constructed container
				}
			}
			if ok {
				facts = append(facts, fname+".Clear()")
			} else {
				bad = append(bad, "contained container "+fname+" is not cleared")
			}
		}
		// fields Size() reads directly + frozen traversal roots
		need := map[string]bool{}
		if sz := ms["Size"]; sz != nil {
			for _, b := range sz.Blocks {
				for _, in := range b.Instrs {
					if fa, ok := in.(*ssa.FieldAddr); ok && stripChange(fa.X) == ssa.Value(sz.Params[0]) {
						fi := st.Field(fa.Field)
						if inner := namedOf(fi.Type()); inner == nil || !p.T.IsContainer(inner) {
							need[fieldN(ct, fa.Field)] = true
						}
					}
				}
			}
		}
		for i := 0; i < st.NumFields(); i++ {
			if n := fieldN(ct, i); n == "Root" || n == "first" {
				need[n] = true
			}
		}
		var names []string
		for n := range need {
			names = append(names, n)
		}
		sort.Strings(names)
		for _, n := range names {
			ok := false
			for _, ef := range g.Effects {
				if storeToField(ef, n) {
					v := ef.Args[1]
					if z, isInt := v.constInt(); isInt && z == 0 {
						ok = true
					}
					if v.Op == "#" && v.Leaf == "nil" {
						ok = true
					}
					if v.Op == "makemap" || v.Op == "makeslice" {
						ok = true
					}
					if v.Op == "slice" && len(v.Args) == 4 {
						if z, isInt := v.Args[2].constInt(); isInt && z == 0 {
							ok = true // s[:0]
						}
					}
				}
				if ef.Op == "builtin" && ef.Leaf == "clear" && ef.any(func(t *Term) bool { return t.Op == "fa" && t.Leaf == n }) {
					if _, isMap := fieldByPinnedName(ct, n).Type().Underlying().(*types.Map); isMap {
						ok = true
					}
				}
			}
			if ok {
				facts = append(facts, n+" reset")
			} else {
				bad = append(bad, "field "+n+" (read by Size() / start of traversal) is not reset by Clear()")
			}
		}
		// a ring is empty exactly when start == end (and not full): Clear must leave the two indices equal
		if fieldByPinnedName(ct, "start") != nil && fieldByPinnedName(ct, "end") != nil {
			var sv, ev string
			for _, ef := range g.Effects {
				if storeToField(ef, "start") && ef.Args[0].Args[0].String() == "p:0" {
					sv = noEpoch(ef.Args[1])
				}
				if storeToField(ef, "end") && ef.Args[0].Args[0].String() == "p:0" {
					ev = noEpoch(ef.Args[1])
				}
			}
			switch {
			case sv != "" && sv == ev:
				facts = append(facts, "start = end = "+sv)
			case sv == "" && ev == "":
				bad = append(bad, "Clear() resets neither ring index: after clearing a partially filled ring start != end while Size() is 0")
			default:
				bad = append(bad, fmt.Sprintf("Clear() leaves the ring indices unequal (start := %q, end := %q): the next Enqueue recomputes a wrong size from them", sv, ev))
			}
		}
		if len(bad) > 0 {
			r.add(Obligation{Key: key, Rule: "R12clear", Clause: clClr, Pos: p.FuncPos(clr), Status: Violated, Facts: strings.Join(bad, "\n")})
		} else if len(facts) == 0 {
			r.add(Obligation{Key: key, Rule: "R12clear", Clause: clClr, Pos: p.FuncPos(clr), Status: Undecided, Facts: "nothing recognised to reset"})
		} else {
			r.add(Obligation{Key: key, Rule: "R12clear", Clause: clClr, Pos: p.FuncPos(clr), Status: Discharged, Facts: strings.Join(facts, ", ")})
		}
	}
	// String()
	names := map[string]string{
		"lists/arraylist.List": "ArrayList", "lists/singlylinkedlist.List": "SinglyLinkedList", "lists/doublylinkedlist.List": "DoublyLinkedList",
		"sets/hashset.Set": "HashSet", "sets/treeset.Set": "TreeSet", "sets/linkedhashset.Set": "LinkedHashSet",
		"stacks/arraystack.Stack": "ArrayStack", "stacks/linkedliststack.Stack": "LinkedListStack",
		"queues/arrayqueue.Queue": "ArrayQueue", "queues/linkedlistqueue.Queue": "LinkedListQueue", "queues/circularbuffer.Queue": "CircularBuffer",
		"queues/priorityqueue.Queue": "PriorityQueue", "maps/hashmap.Map": "HashMap", "maps/treemap.Map": "TreeMap", "maps/linkedhashmap.Map": "LinkedHashMap",
		"maps/hashbidimap.Map": "HashBidiMap", "maps/treebidimap.Map": "TreeBidiMap", "trees/redblacktree.Tree": "RedBlackTree", "trees/avltree.Tree": "AVLTree",
		"trees/btree.Tree": "BTree", "trees/binaryheap.Heap": "BinaryHeap",
	}
	for _, ct := range p.T.Containers {
		tk := p.TypeKey(ct)
		fn := methodsOf(p, ct)["String"]
		want, known := names[tk]
		key := "R12str:" + tk
		if fn == nil {
			continue
		}
		if !known {
			r.add(Obligation{Key: key, Rule: "R12str", Clause: clStr, Pos: p.FuncPos(fn), Status: Discharged, Facts: "container not in the documented-name table (new type): not judged"})
			continue
		}
		gc := c.GC(fn)
		if gc.Undecided != "" {
			r.add(Obligation{Key: key, Rule: "R12str", Clause: clStr, Pos: p.FuncPos(fn), Status: Undecided, Facts: gc.Undecided})
			continue
		}
		first, found := stringStart(gc)
		if !found {
			r.add(Obligation{Key: key, Rule: "R12str", Clause: clStr, Pos: p.FuncPos(fn), Status: Undecided, Facts: "could not determine the text String() starts with"})
		} else if strings.HasPrefix(first, want) && (len(first) == len(want) || !isIdentChar(first[len(want)])) {
			r.add(Obligation{Key: key, Rule: "R12str", Clause: clStr, Pos: p.FuncPos(fn), Status: Discharged, Facts: fmt.Sprintf("the result starts with the constant %q", first)})
		} else {
			r.add(Obligation{Key: key, Rule: "R12str", Clause: clStr, Pos: p.FuncPos(fn), Status: Violated, Facts: fmt.Sprintf("the result starts with %q, expected it to begin with %q", first, want)})
		}
	}
	return r
}

func isIdentChar(b byte) bool {
	return b == '_' || (b >= '0' && b <= '9') || (b >= 'a' && b <= 'z') || (b >= 'A' && b <= 'Z')
}

func fieldByPinnedName(ct *types.Named, n string) *types.Var {
	st := ct.Underlying().(*types.Struct)
	for i := 0; i < st.NumFields(); i++ {
		if fieldN(ct, i) == n {
			return st.Field(i)
		}
	}
	return nil
}

// startOfTerm: the constant a string term starts with (through concatenation, TrimRight and loop-carried φs).
func startOfTerm(gc *GCNF, t *Term, depth int) (string, bool) {
	if depth > 6 {
		return "", false
	}
	for {
		if t.Op == "concat" {
			t = t.Args[0]
			continue
		}
		if t.Op == "std" && (t.Leaf == "strings.TrimRight" || t.Leaf == "strings.TrimSuffix" || t.Leaf == "strings.TrimRightFunc") && len(t.Args) >= 2 {
			t = t.Args[1]
			continue
		}
		if t.Op == "std" && t.Leaf == "fmt.Sprintf" && len(t.Args) >= 2 {
			// the literal text of a constant format up to its first verb
			if f, ok := strConst(t.Args[1]); ok {
				if i := strings.IndexByte(f, '%'); i > 0 {
					return f[:i], true
				} else if i < 0 {
					return f, true
				}
			}
			return "", false
		}
		break
	}
	if s, ok := strConst(t); ok {
		return s, true
	}
	if t.Op == "φ" {
		var k, j int
		if _, err := fmt.Sscanf(t.Leaf, "%d.%d", &k, &j); err != nil {
			return "", false
		}
		res, set := "", false
		for _, g := range gc.GCs {
			if g.Exit.Op != "goto" || g.Exit.Leaf != itoa(k) || j >= len(g.Exit.Args) {
				continue
			}
			a := g.Exit.Args[j]
			inner := a
			for inner.Op == "concat" {
				inner = inner.Args[0]
			}
			if inner.Op == "φ" && inner.Leaf == t.Leaf {
				continue // str += …: keeps its start
			}
			s, ok := startOfTerm(gc, a, depth+1)
			if !ok || (set && s != res) {
				return "", false
			}
			res, set = s, true
		}
		return res, set
	}
	return "", false
}

func strConst(t *Term) (string, bool) {
	if t.Op == "#" && strings.HasPrefix(t.Leaf, "\"") {
		if u, err := strconv.Unquote(t.Leaf); err == nil {
			return u, true
		}
	}
	return "", false
}

// stringStart: the constant text every returned string starts with — the leftmost operand of the returned
// concatenation, or (when the text is built in a local / a buffer) the first constant written on the entry path.
func stringStart(gc *GCNF) (string, bool) {
	res := ""
	set := false
	for _, g := range gc.GCs {
		if g.Exit.Op != "return" || len(g.Exit.Args) != 1 {
			continue
		}
		s, ok := startOfTerm(gc, g.Exit.Args[0], 0)
		if !ok {
			// built in a local or a buffer: first constant stored/written on a path from the entry
			for _, h := range gc.GCs {
				if h.From != 0 || ok {
					continue
				}
				for _, ef := range h.Effects {
					if ef.Op == "store" || ef.Op == "stddo" {
						for _, a := range ef.Args {
							for a.Op == "concat" {
								a = a.Args[0]
							}
							if c, isC := strConst(a); isC {
								s, ok = c, true
								break
							}
						}
					}
					if ok {
						break
					}
				}
			}
		}
		if !ok {
			return "", false
		}
		if set && s != res {
			return "", false
		}
		res, set = s, true
	}
	return res, set
}

// byFuncKey: the library function with this key.
func byFuncKey(p *Prog, key string) *ssa.Function {
	for _, f := range p.Funcs {
		if f.Parent() == nil && p.FuncKey(f) == key {
			return f
		}
	}
	return nil
}

// callersGuard: fn is a helper the pinned tree does not know (an extracted piece of a known function); every call of it in its
// package stands under a success condition.
func callersGuard(p *Prog, fn *ssa.Function) (string, bool) {
	if p.KnownFunc(fn) {
		return "", false
	}
	theProg = p
	n := 0
	var gs []string
	for _, caller := range callersInPackage(fn) {
		for _, b := range caller.Blocks {
			for _, in := range b.Instrs {
				call, ok := in.(*ssa.Call)
				if !ok {
					continue
				}
				cal := StaticCallee(&call.Call)
				if cal == nil || (cal != fn && cal.Origin() != fn && origin(cal) != origin(fn)) {
					continue
				}
				n++
				g := successGuard(p, b)
				if g == "" {
					return "", false
				}
				gs = append(gs, g)
			}
		}
	}
	if n == 0 {
		return "", false
	}
	return strings.Join(dedup(gs), " / "), true
}
