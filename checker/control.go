package main

// control.go — positive controls (DESIGN §2.5): the rules whose expected violation count on the real tree is zero are
// run, on every check, against a tiny embedded module (testdata/positive) that violates each of them on purpose.
// A rule that no longer reports its seeded violation there has silently stopped matching: the check fails.

import (
	"fmt"
	"os"
	"strings"
)

type controlExpect struct {
	rule string // rule family that must fire
	key  string // obligation key that must be reported as violated on the control module
}

var controlExpectations = []controlExpect{
	{"R1", "R1:box.(*Box).Get"},
	{"R1", "R1:box.(*Box).Iterator"},
	{"R1", "R1:box.(*Iterator).Next"},
	{"R1", "R1:containers.GetSortedValues"},
	{"R1b", "R1b:box.(*Box).Contains:func:parameter f#1"},
	{"R1c", "R1c:box.Box"},
	{"R2a", "R2a:box.(*Box).Values"},
	{"R2b", "R2b:box.New:values"},
	{"R2c", "R2c:containers.GetSortedValues"},
	{"R2d", "R2d:box.(*Box).Select"},
	{"R3", "R3:box.(*Box).Peek→fmt.Println"},
	{"R3", "R3:box.(*Box).Peek→os.Stderr"},
	{"R4", "R4:box.(*Box).Size:panic#1"},
	{"R6", "R6:box.Box.index"},
	{"R7", "R7:box.(*Box).Add"},
	{"R8", "R8a:box.(*Box).FromJSON"},
	{"R35", "R35:box.(*Box).Relink"},
}

func (c *Ctx) controlCtx() *Ctx {
	if c.ctl != nil {
		return c.ctl
	}
	dir := c.opts.controlDir
	if _, err := os.Stat(dir); err != nil {
		infraFail("positive-control module not found at %s: %v", dir, err)
	}
	p := LoadWith(dir, true)
	c.ctl = newCtx(p, c.opts)
	return c.ctl
}

// controlFor returns one obligation per seeded violation of the given rule families: discharged iff the rule reports it.
func controlFor(c *Ctx, rules ...string) *RuleResult {
	cc := c.controlCtx()
	want := map[string]bool{}
	for _, r := range rules {
		want[r] = true
	}
	run := map[string]func(*Ctx) *RuleResult{
		"R1": ruleR1, "R1b": ruleR1b, "R1c": ruleR1c, "R2a": ruleR2a, "R2b": ruleR2b, "R2c": ruleR2c, "R2d": ruleR2d,
		"R3": ruleR3, "R4": ruleR4, "R6": ruleR6, "R7": ruleR7, "R8": ruleR8, "R35": ruleR35,
	}
	out := &RuleResult{Rule: "R0", Title: "CONTROL: each zero-expected rule still fires on the embedded positive example (" + strings.Join(rules, ", ") + ")"}
	clause := "the rule reports the violation seeded in checker/testdata/positive (a rule that matches nothing passes vacuously forever)"
	for _, ex := range controlExpectations {
		if !want[ex.rule] {
			continue
		}
		out.Floor++
		rr := cc.rule(ex.rule, run[ex.rule])
		fired := false
		for _, o := range rr.Obs {
			if o.Key == ex.key && o.Status == Violated {
				fired = true
			}
		}
		key := "control:" + ex.key
		if fired {
			out.ok(key, clause, "checker/testdata/positive", "reported as expected")
		} else {
			var near []string
			for _, o := range rr.Obs {
				if o.Status != Discharged {
					near = append(near, o.Key)
				}
			}
			out.undecided(key, clause, "checker/testdata/positive", fmt.Sprintf("rule %s did NOT report the seeded violation %s on the positive control (it reported: %s)", ex.rule, ex.key, strings.Join(near, ", ")))
		}
	}
	return out
}
