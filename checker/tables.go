package main

// tables.go — repository tables derived from types (DESIGN §1.2): container types, iterator types,
// protected (container + node) types. Each derived set has a floor confirmed by reading.

import (
	"go/types"
	"sort"
)

type Kind uint8

const (
	KOther Kind = iota // not a library container / node / iterator object (or unknown)
	KIter              // an iterator object
	KProt              // container or node memory ("protected")
)

func (k Kind) String() string { return [...]string{"other", "iterator", "protected"}[k] }

type Tables struct {
	p          *Prog
	Containers []*types.Named // 21
	Iterators  []*types.Named // 18
	RevIters   []*types.Named // 15
	IndexIters map[*types.Named]bool
	KeyIters   map[*types.Named]bool
	Protected  map[*types.Named]bool // containers + every library struct reachable from them
	Nodes      []*types.Named        // Protected minus Containers
	isCont     map[*types.Named]bool
	isIter     map[*types.Named]bool
	// by type key: the same library type can be represented by several *types.Named objects when test variants of a
	// package are loaded (thorough tier)
	contKey, iterKey, protKey map[string]bool
	// R1c: library struct types reachable from a container (or declared as package variables) that contain an iterator type
	IterInShared []string
}

const (
	floorContainers = 21
	floorIterators  = 18
	floorRevIters   = 15
	floorNodes      = 6
)

func hasMethod(ms *types.MethodSet, name string, nparams, nresults int) bool {
	sel := ms.Lookup(nil, name)
	if sel == nil {
		// unexported lookup needs a package; exported names only here
		for i := 0; i < ms.Len(); i++ {
			if ms.At(i).Obj().Name() == name {
				sel = ms.At(i)
				break
			}
		}
	}
	if sel == nil {
		return false
	}
	sig, ok := sel.Type().(*types.Signature)
	if !ok {
		return false
	}
	return sig.Params().Len() == nparams && sig.Results().Len() == nresults
}

func buildTables(p *Prog) *Tables {
	t := &Tables{p: p, IndexIters: map[*types.Named]bool{}, KeyIters: map[*types.Named]bool{},
		Protected: map[*types.Named]bool{}, isCont: map[*types.Named]bool{}, isIter: map[*types.Named]bool{}}
	var libNamed []*types.Named
	for _, pk := range p.Lib {
		scope := pk.Types.Scope()
		for _, name := range scope.Names() {
			tn, ok := scope.Lookup(name).(*types.TypeName)
			if !ok {
				continue
			}
			named, ok := types.Unalias(tn.Type()).(*types.Named)
			if !ok {
				continue
			}
			if _, isStruct := named.Underlying().(*types.Struct); !isStruct {
				continue
			}
			libNamed = append(libNamed, named)
		}
	}
	for _, named := range libNamed {
		ms := types.NewMethodSet(types.NewPointer(named))
		isContainer := hasMethod(ms, "Empty", 0, 1) && hasMethod(ms, "Size", 0, 1) && hasMethod(ms, "Clear", 0, 0) &&
			hasMethod(ms, "Values", 0, 1) && hasMethod(ms, "String", 0, 1)
		isIterBase := hasMethod(ms, "Next", 0, 1) && hasMethod(ms, "Value", 0, 1) && hasMethod(ms, "Begin", 0, 0) &&
			hasMethod(ms, "First", 0, 1) && hasMethod(ms, "NextTo", 1, 1)
		if isContainer && !isIterBase {
			t.Containers = append(t.Containers, named)
			t.isCont[named] = true
		}
		if isIterBase {
			idx, key := hasMethod(ms, "Index", 0, 1), hasMethod(ms, "Key", 0, 1)
			if idx || key {
				t.Iterators = append(t.Iterators, named)
				t.isIter[named] = true
				if idx {
					t.IndexIters[named] = true
				}
				if key {
					t.KeyIters[named] = true
				}
				if hasMethod(ms, "Prev", 0, 1) && hasMethod(ms, "End", 0, 0) && hasMethod(ms, "Last", 0, 1) && hasMethod(ms, "PrevTo", 1, 1) {
					t.RevIters = append(t.RevIters, named)
				}
			}
		}
	}
	// protected closure: library struct types reachable from container types through fields
	var visit func(ty types.Type, from *types.Named, seen map[types.Type]bool)
	visit = func(ty types.Type, from *types.Named, seen map[types.Type]bool) {
		ty = types.Unalias(ty)
		if seen[ty] {
			return
		}
		seen[ty] = true
		switch u := ty.(type) {
		case *types.Named:
			o := u.Origin()
			if o.Obj().Pkg() == nil || !p.libPkg[o.Obj().Pkg()] {
				return
			}
			if st, ok := o.Underlying().(*types.Struct); ok {
				if t.isIter[o] {
					t.IterInShared = append(t.IterInShared, p.TypeKey(from)+" reaches iterator type "+p.TypeKey(o))
					return
				}
				if !t.Protected[o] {
					t.Protected[o] = true
					for i := 0; i < st.NumFields(); i++ {
						visit(st.Field(i).Type(), o, seen)
					}
				}
			} else {
				visit(o.Underlying(), from, seen)
			}
		case *types.Pointer:
			visit(u.Elem(), from, seen)
		case *types.Slice:
			visit(u.Elem(), from, seen)
		case *types.Array:
			visit(u.Elem(), from, seen)
		case *types.Map:
			visit(u.Key(), from, seen)
			visit(u.Elem(), from, seen)
		case *types.Chan:
			visit(u.Elem(), from, seen)
		case *types.Struct:
			for i := 0; i < u.NumFields(); i++ {
				visit(u.Field(i).Type(), from, seen)
			}
		}
	}
	for _, c := range t.Containers {
		visit(c, c, map[types.Type]bool{})
	}
	// package-level variables must not hold iterators either
	for _, pk := range p.Lib {
		scope := pk.Types.Scope()
		for _, name := range scope.Names() {
			if v, ok := scope.Lookup(name).(*types.Var); ok {
				if containsIter(t, v.Type(), map[types.Type]bool{}) {
					t.IterInShared = append(t.IterInShared, "package variable "+p.RelPkg(pk.PkgPath)+"."+name+" holds an iterator type")
				}
			}
		}
	}
	for n := range t.Protected {
		if !t.isCont[n] {
			t.Nodes = append(t.Nodes, n)
		}
	}
	byKey := func(s []*types.Named) {
		sort.Slice(s, func(i, j int) bool { return p.TypeKey(s[i]) < p.TypeKey(s[j]) })
	}
	byKey(t.Containers)
	byKey(t.Iterators)
	byKey(t.RevIters)
	byKey(t.Nodes)
	sort.Strings(t.IterInShared)
	t.contKey, t.iterKey, t.protKey = map[string]bool{}, map[string]bool{}, map[string]bool{}
	for n := range t.isCont {
		t.contKey[p.TypeKey(n)] = true
	}
	for n := range t.isIter {
		t.iterKey[p.TypeKey(n)] = true
	}
	for n := range t.Protected {
		t.protKey[p.TypeKey(n)] = true
	}
	return t
}

func containsIter(t *Tables, ty types.Type, seen map[types.Type]bool) bool {
	ty = types.Unalias(ty)
	if seen[ty] {
		return false
	}
	seen[ty] = true
	switch u := ty.(type) {
	case *types.Named:
		if t.isIter[u.Origin()] {
			return true
		}
		return containsIter(t, u.Underlying(), seen)
	case *types.Pointer:
		return containsIter(t, u.Elem(), seen)
	case *types.Slice:
		return containsIter(t, u.Elem(), seen)
	case *types.Array:
		return containsIter(t, u.Elem(), seen)
	case *types.Map:
		return containsIter(t, u.Key(), seen) || containsIter(t, u.Elem(), seen)
	case *types.Struct:
		for i := 0; i < u.NumFields(); i++ {
			if containsIter(t, u.Field(i).Type(), seen) {
				return true
			}
		}
	}
	return false
}

// KindOfStruct classifies the struct type owning a written field.
func (t *Tables) KindOfStruct(ty types.Type) Kind {
	n := namedOf(ty)
	if n == nil {
		return KOther
	}
	if t.isIter[n] {
		return KIter
	}
	if t.Protected[n] {
		return KProt
	}
	if n.Obj().Pkg() != nil && t.p.libPkg[n.Obj().Pkg()] {
		k := t.p.TypeKey(n)
		if t.iterKey[k] {
			return KIter
		}
		if t.protKey[k] {
			return KProt
		}
	}
	return KOther
}

func (t *Tables) IsContainer(n *types.Named) bool {
	return n != nil && (t.isCont[n.Origin()] || t.contKey[t.p.TypeKey(n.Origin())])
}
func (t *Tables) IsIterator(n *types.Named) bool {
	return n != nil && (t.isIter[n.Origin()] || t.iterKey[t.p.TypeKey(n.Origin())])
}

// ContainerByKey finds a container type by its key ("lists/arraylist.List").
func (t *Tables) ContainerByKey(key string) *types.Named {
	for _, c := range t.Containers {
		if t.p.TypeKey(c) == key {
			return c
		}
	}
	return nil
}

// tableFloors returns floor violations of the derived tables (each is an "instance floor not met" failure).
func (t *Tables) floorProblems() []string {
	var out []string
	chk := func(name string, got, floor int) {
		if got < floor {
			out = append(out, name+": derived "+itoa(got)+" < floor "+itoa(floor))
		}
	}
	chk("container types", len(t.Containers), floorContainers)
	chk("iterator types", len(t.Iterators), floorIterators)
	chk("reverse iterator types", len(t.RevIters), floorRevIters)
	chk("node types", len(t.Nodes), floorNodes)
	return out
}
