package main

// rules_api.go — R38 LISTOPS: small operations of the three lists whose meaning is visible in their shape.
//
//   Swap      exchanges the two requested positions crosswise (both values read before either store)
//   Prepend   keeps the passed order: head insertion runs over the values from the last to the first
//   Insert    (array list) splices at exactly the requested index into exactly the old contents
//   IndexOf   reports the position at which it found the value (and -1 otherwise)
//
// and R20b: wrappers that unpack a found node (TreeMap Min/Max/Floor/Ceiling) return that node's key and value with true and
// the zero triple with false.

import (
	"fmt"
	"strings"
)

func ruleR38(c *Ctx) *RuleResult {
	p := c.p
	r := &RuleResult{Rule: "R38", Title: "LISTOPS: Swap exchanges crosswise, Prepend keeps the passed order, Insert splices at the index, IndexOf reports where it found the value", Floor: 12}
	for _, tk := range []string{"lists/arraylist.List", "lists/singlylinkedlist.List", "lists/doublylinkedlist.List"} {
		ct := p.T.ContainerByKey(tk)
		if ct == nil {
			continue
		}
		ms := methodsOf(p, ct)
		// ---- Swap
		if fn := ms["Swap"]; fn != nil {
			clause := tk + ".Swap(i, j) stores the value of position j into position i and the value of position i into position j, both read before either store"
			gc := c.GC(fn)
			var bad []string
			n := 0
			if gc.Undecided != "" {
				r.undecided("swap:"+tk, clause, p.FuncPos(fn), gc.Undecided)
			} else {
				for _, g := range gc.GCs {
					var st []*Term
					for _, ef := range g.Effects {
						if isStore(ef) {
							st = append(st, ef)
						}
					}
					if len(st) == 0 {
						continue
					}
					n++
					if len(st) != 2 {
						bad = append(bad, fmt.Sprintf("a path of Swap has %d stores (expected the two of an exchange)", len(st)))
						continue
					}
					a1, v1, a2, v2 := st[0].Args[0], st[0].Args[1], st[1].Args[0], st[1].Args[1]
					if !(v1.Op == "load" && v2.Op == "load" && noEpoch(v1.Args[0]) == noEpoch(a2) && noEpoch(v2.Args[0]) == noEpoch(a1)) {
						bad = append(bad, "the two stores are not crosswise: "+trunc(noEpoch(st[0]), 120)+" ; "+trunc(noEpoch(st[1]), 120))
						continue
					}
					if v1.Leaf != v2.Leaf {
						bad = append(bad, "the second value is read after the first store (one value ends up in both positions)")
					}
					if noEpoch(a1) == noEpoch(a2) {
						bad = append(bad, "both stores go to the same position")
					}
					// array list: the positions are the requested indices
					if a1.Op == "ia" {
						i1, i2 := noEpoch(a1.Args[1]), noEpoch(a2.Args[1])
						if !((i1 == "p:1" && i2 == "p:2") || (i1 == "p:2" && i2 == "p:1")) {
							bad = append(bad, "the exchanged slots are not the two requested indices: "+i1+", "+i2)
						}
					}
					// linked lists: the exchanged elements are the ones the walk picked at counter == i and counter == j
					if a1.Op == "fa" && a1.Args[0].Op == "φ" {
						if pb := swapPickOK(gc, a1.Args[0], a2.Args[0]); len(pb) > 0 {
							// not the pick-while-counting form: decide by where counted walks leave the two pointers
							if !swapWalkOK(gc, a1.Args[0], a2.Args[0]) {
								bad = append(bad, pb...)
							}
						}
					}
				}
				if n == 0 {
					bad = append(bad, "no exchanging path found")
				}
				if len(bad) > 0 {
					r.bad("swap:"+tk, clause, p.FuncPos(fn), strings.Join(dedup(bad), "\n"))
				} else {
					r.ok("swap:"+tk, clause, p.FuncPos(fn), fmt.Sprintf("%d exchanging path(s), crosswise, both values read before the stores", n))
				}
			}
		}
		// ---- Prepend
		if fn := ms["Prepend"]; fn != nil {
			clause := tk + ".Prepend(values...) keeps the passed order: inserting each value at the head runs over the values from the last to the first"
			gc := c.GC(fn)
			var bad []string
			n := 0
			if gc.Undecided != "" {
				r.undecided("prepend:"+tk, clause, p.FuncPos(fn), gc.Undecided)
			} else {
				vs := "p:" + itoa(len(fn.Params)-1)
				for _, g := range gc.GCs {
					head := false
					var idx *Term
					for _, ef := range g.Effects {
						if storeToField(ef, "first") && ef.Args[0].Args[0].String() == "p:0" && ef.Args[1].Op == "new" {
							head = true
						}
						if storeToField(ef, "value") && ef.Args[1].Op == "load" && ef.Args[1].Args[0].Op == "ia" && ef.Args[1].Args[0].Args[0].String() == vs {
							idx = ef.Args[1].Args[0].Args[1]
						}
					}
					if !head {
						continue
					}
					n++
					if idx == nil || idx.Op != "φ" || g.Exit.Op != "goto" {
						bad = append(bad, "a head insertion that does not take values[i] of the loop's own index")
						continue
					}
					// the index must descend: next = i-1, starting from len(values)-1
					var k, j int
					fmt.Sscanf(idx.Leaf, "%d.%d", &k, &j)
					if j >= len(g.Exit.Args) || linOf(g.Exit.Args[j]).add(linAtom(idx.String()), -1).String() != "-1" {
						bad = append(bad, "head insertion while the index over the values ascends: the values end up in reverse order")
					}
					for _, e := range gc.GCs {
						if e.From != k && e.Exit.Op == "goto" && e.Exit.Leaf == itoa(k) && j < len(e.Exit.Args) {
							if linOf(e.Exit.Args[j]).String() != linAtom("(len "+vs+")").add(linConst(1), -1).String() {
								bad = append(bad, "the descending loop does not start at the last value: "+trunc(noEpoch(e.Exit.Args[j]), 80))
							}
						}
					}
				}
				if n == 0 {
					// not head insertion (e.g. builds a chain in passed order): nothing to decide here
					r.ok("prepend:"+tk, clause, p.FuncPos(fn), "no head-insertion loop (order decided elsewhere)")
				} else if len(bad) > 0 {
					r.bad("prepend:"+tk, clause, p.FuncPos(fn), strings.Join(dedup(bad), "\n"))
				} else {
					r.ok("prepend:"+tk, clause, p.FuncPos(fn), fmt.Sprintf("%d head-insertion path(s), index descending from len(values)-1", n))
				}
			}
		}
		// ---- IndexOf
		if fn := ms["IndexOf"]; fn != nil {
			clause := tk + ".IndexOf(value) returns the position whose element it compared equal to value, and -1 when none matched"
			gc := c.GC(fn)
			var bad []string
			n := 0
			if gc.Undecided != "" {
				r.undecided("indexof:"+tk, clause, p.FuncPos(fn), gc.Undecided)
			} else {
				for _, g := range gc.GCs {
					if g.Exit.Op != "return" || len(g.Exit.Args) != 1 {
						continue
					}
					res := g.Exit.Args[0]
					if res.Op == "std" && res.Leaf == "slices.Index" && len(res.Args) == 3 {
						n++
						own := res.Args[1].Op == "load" && res.Args[1].Args[0].Op == "fa" && res.Args[1].Args[0].Args[0].String() == "p:0"
						if res.Args[1].Op == "call" && strings.HasSuffix(res.Args[1].Leaf, ").Values") && len(res.Args[1].Args) == 2 && res.Args[1].Args[1].String() == "p:0" {
							own = true // the list's own Values(): the same sequence, position by position
						}
						if !own || res.Args[2].String() != "p:1" {
							bad = append(bad, "slices.Index is not applied to the receiver's storage and the requested value")
						}
						continue
					}
					// a match path: some guard compares storage[X] (or element.value) with p:1 for equality; the result must be X
					matched := false
					for _, a := range g.Guards {
						if a.Op != "==" || len(a.Args) != 2 {
							continue
						}
						var el *Term
						if a.Args[1].String() == "p:1" {
							el = a.Args[0]
						} else if a.Args[0].String() == "p:1" {
							el = a.Args[1]
						}
						if el != nil && el.Op == "load" && el.Args[0].Op == "fa" && el.Args[0].Leaf == "value" && len(el.Args[0].Args) == 1 && el.Args[0].Args[0].Op == "φ" && g.From > 0 {
							// a counted walk over the chain: the matched node's position is counter + d by the walk invariant (R33)
							x := el.Args[0].Args[0]
							w, wbad, _ := analyseWalk(gc, g.From, map[string]lin{})
							pre := itoa(g.From) + "."
							if len(wbad) == 0 && w.offsets != nil && strings.HasPrefix(x.Leaf, pre) {
								if d, ok := w.offsets[atoiOr(x.Leaf[len(pre):], -1)]; ok {
									matched = true
									n++
									want := linAtom("φ:" + pre + itoa(w.cslot)).add(d, 1)
									if got := linOf(res); got.String() != want.String() {
										bad = append(bad, fmt.Sprintf("the match at position %s is reported as %s", want.String(), trunc(noEpoch(res), 60)))
									}
								}
							}
							continue
						}
						if el == nil || el.Op != "load" || el.Args[0].Op != "ia" {
							continue
						}
						matched = true
						n++
						if noEpoch(res) != noEpoch(el.Args[0].Args[1]) {
							bad = append(bad, fmt.Sprintf("the match at position %s is reported as %s", trunc(noEpoch(el.Args[0].Args[1]), 60), trunc(noEpoch(res), 60)))
						}
					}
					if !matched && res.String() != "#:-1" {
						bad = append(bad, "a path without a match returns "+trunc(noEpoch(res), 60)+" instead of -1")
					}
					// answering -1 straight from the entry, without a search: only for the empty list
					if !matched && g.From == 0 && res.String() == "#:-1" {
						for n1 := 1; n1 <= 8; n1++ {
							sat, constrained := true, false
							for _, a := range g.Guards {
								if len(a.Args) != 2 {
									continue
								}
								isSize := func(t *Term) bool {
									s := noEpoch(t)
									return s == "(load (fa:size p:0))" || s == "(len (load (fa:elements p:0)))"
								}
								var lhs, rhs int
								cx, okx := termConstInt(a.Args[0])
								cy, oky := termConstInt(a.Args[1])
								switch {
								case isSize(a.Args[0]) && oky:
									lhs, rhs = n1, cy
								case isSize(a.Args[1]) && okx:
									lhs, rhs = cx, n1
								default:
									continue
								}
								constrained = true
								switch a.Op {
								case "<":
									sat = sat && lhs < rhs
								case "<=":
									sat = sat && lhs <= rhs
								case "==":
									sat = sat && lhs == rhs
								case "!=":
									sat = sat && lhs != rhs
								}
							}
							if constrained && sat {
								bad = append(bad, fmt.Sprintf("answers -1 without searching a list of %d element(s): %s", n1, trunc(guardsString(g), 160)))
								break
							}
						}
					}
				}
				if n == 0 {
					r.undecided("indexof:"+tk, clause, p.FuncPos(fn), "no match path recognised")
				} else if len(bad) > 0 {
					r.bad("indexof:"+tk, clause, p.FuncPos(fn), strings.Join(dedup(bad), "\n"))
				} else {
					r.ok("indexof:"+tk, clause, p.FuncPos(fn), fmt.Sprintf("%d match path(s) report their own position", n))
				}
			}
		}
	}
	// ---- array list Insert
	if ct := p.T.ContainerByKey("lists/arraylist.List"); ct != nil {
		if fn := methodsOf(p, ct)["Insert"]; fn != nil {
			clause := "lists/arraylist.List.Insert(index, values...) splices the values at exactly the requested index into exactly the old contents"
			gc := c.GC(fn)
			var bad []string
			n := 0
			for _, g := range gc.GCs {
				for _, ef := range g.Effects {
					if ef.Op == "stddo" && ef.Leaf == "slices.Insert" && len(ef.Args) == 3 {
						n++
						if ef.Args[1].String() != "p:1" {
							bad = append(bad, "slices.Insert at "+trunc(noEpoch(ef.Args[1]), 60)+" instead of the requested index")
						}
						if ef.Args[2].String() != "p:2" {
							bad = append(bad, "slices.Insert of something other than the passed values")
						}
						s := ef.Args[0]
						if s.Op == "slice" && s.Args[2].Op != "_" {
							// elements[:l] — l must be the length before the list was grown
							hi := s.Args[2]
							if !(hi.Op == "len" && hi.Args[0].Op == "load" && strings.HasPrefix(hi.Args[0].Leaf, "c0.f0")) {
								bad = append(bad, "the old contents are cut at "+trunc(noEpoch(hi), 60)+", not at the length before growing")
							}
						}
					}
				}
			}
			switch {
			case n == 0:
				r.ok("insert:lists/arraylist.List", clause, p.FuncPos(fn), "no slices.Insert site (decided by R30 / R32 forms)")
			case len(bad) > 0:
				r.bad("insert:lists/arraylist.List", clause, p.FuncPos(fn), strings.Join(dedup(bad), "\n"))
			default:
				r.ok("insert:lists/arraylist.List", clause, p.FuncPos(fn), fmt.Sprintf("%d slices.Insert site(s): (old contents, index, values)", n))
			}
		}
	}
	// ---- R20b: TreeMap unpacking wrappers
	if ct := p.T.ContainerByKey("maps/treemap.Map"); ct != nil {
		ms := methodsOf(p, ct)
		for _, name := range []string{"Min", "Max", "Floor", "Ceiling"} {
			fn := ms[name]
			if fn == nil {
				continue
			}
			clause := "maps/treemap.Map." + name + " returns the found node's own key and value with true, and the zero triple with false when the tree found nothing"
			gc := c.GC(fn)
			var bad []string
			nf, nn := 0, 0
			for _, g := range gc.GCs {
				if g.Exit.Op != "return" || len(g.Exit.Args) != 3 {
					bad = append(bad, "unexpected result shape")
					continue
				}
				k, v, ok := g.Exit.Args[0], g.Exit.Args[1], g.Exit.Args[2]
				if b, isB := ok.constBool(); isB && b {
					nf++
					if !(k.Op == "load" && k.Args[0].Op == "fa" && k.Args[0].Leaf == "Key" && v.Op == "load" && v.Args[0].Op == "fa" && v.Args[0].Leaf == "Value" && noEpoch(k.Args[0].Args[0]) == noEpoch(v.Args[0].Args[0])) {
						bad = append(bad, "the found path does not return Key and Value of one and the same node")
						continue
					}
					node := noEpoch(k.Args[0].Args[0])
					if !strings.Contains(node, "(call:trees/redblacktree.(*Tree).") {
						bad = append(bad, "the returned node is not the tree operation's result")
					}
					// the path must know the node was found
					known := false
					for _, a := range g.Guards {
						s := noEpoch(a)
						if strings.HasPrefix(s, "(!= #:nil "+node) || (strings.HasPrefix(s, "(ext:1 ") && strings.Contains(node, s[len("(ext:1 "):len(s)-1])) {
							known = true
						}
					}
					if !known {
						bad = append(bad, "true is returned on a path that does not know the node was found")
					}
				} else if isB && !b {
					nn++
					if !isConstTerm(k) || !isConstTerm(v) {
						bad = append(bad, "the not-found path returns a key or value")
					}
				} else {
					bad = append(bad, "the ok result is not a constant decided by the path")
				}
			}
			if nf == 0 || nn == 0 {
				bad = append(bad, fmt.Sprintf("expected found and not-found paths, found %d/%d", nf, nn))
			}
			if len(bad) > 0 {
				r.bad("unpack:maps/treemap.Map."+name, clause, p.FuncPos(fn), strings.Join(dedup(bad), "\n"))
			} else {
				r.ok("unpack:maps/treemap.Map."+name, clause, p.FuncPos(fn), "found ⇒ (node.Key, node.Value, true); otherwise (zero, zero, false)")
			}
		}
	}
	return r
}

// swapPickOK: in the linked lists' Swap the two elements are picked by one walk: slot A is assigned the current element
// exactly when the counter equals i, slot B exactly when it equals j, and current/counter start at first/0 and advance
// together.
func swapPickOK(gc *GCNF, A, B *Term) []string {
	var bad []string
	var k, ja, jb int
	fmt.Sscanf(A.Leaf, "%d.%d", &k, &ja)
	fmt.Sscanf(B.Leaf, "%d.%d", &k, &jb)
	ks := itoa(k)
	for _, g := range gc.GCs {
		if g.Exit.Op != "goto" || g.Exit.Leaf != ks || g.From != k {
			continue
		}
		for _, sl := range []struct {
			j    int
			want string
		}{{ja, "p:1"}, {jb, "p:2"}} {
			if sl.j >= len(g.Exit.Args) {
				continue
			}
			a := g.Exit.Args[sl.j]
			if a.Op == "φ" && a.Leaf == ks+"."+itoa(sl.j) {
				continue // unchanged
			}
			// assigned: must be another loop slot (the current element) under a guard counter == want
			okGuard := false
			for _, at := range g.Guards {
				if at.Op == "==" && len(at.Args) == 2 && ((at.Args[0].String() == sl.want && at.Args[1].Op == "φ") || (at.Args[1].String() == sl.want && at.Args[0].Op == "φ")) {
					okGuard = true
				}
			}
			if a.Op != "φ" || !okGuard {
				bad = append(bad, fmt.Sprintf("the element for %s is picked on a path that does not know the counter equals %s", sl.want, sl.want))
			}
		}
	}
	// the walk ends when both elements are picked; unless one round can pick both, equal indices leave the second one
	// unpicked for ever (the walk runs off the end): every path into the loop must know i != j
	both := false
	for _, g := range gc.GCs {
		if g.Exit.Op != "goto" || g.Exit.Leaf != ks || g.From != k || ja >= len(g.Exit.Args) || jb >= len(g.Exit.Args) {
			continue
		}
		ua := g.Exit.Args[ja].Op == "φ" && g.Exit.Args[ja].Leaf == ks+"."+itoa(ja)
		ub := g.Exit.Args[jb].Op == "φ" && g.Exit.Args[jb].Leaf == ks+"."+itoa(jb)
		if !ua && !ub {
			both = true
		}
	}
	if !both {
		for _, g := range gc.GCs {
			if g.Exit.Op != "goto" || g.Exit.Leaf != ks || g.From == k {
				continue
			}
			distinct := false
			for _, at := range g.Guards {
				s := noEpoch(at)
				if s == "(!= p:1 p:2)" || s == "(!= p:2 p:1)" || s == "(< p:1 p:2)" || s == "(< p:2 p:1)" {
					distinct = true
				}
			}
			if !distinct {
				bad = append(bad, "the pick-while-counting walk is entered without knowing that the two indices differ: with i == j only one element is ever picked and the walk runs off the end of the list")
			}
		}
	}
	return bad
}


// swapWalkOK: the two exchanged elements are where counted walks (R33's analysis) leave their pointers, and those positions
// are the two requested indices — as {i, j} or as {min(i,j), max(i,j)}.
func swapWalkOK(gc *GCNF, A, B *Term) bool {
	cuts := map[int]bool{}
	for _, g := range gc.GCs {
		if g.Exit.Op == "goto" {
			if k := atoiOr(g.Exit.Leaf, -1); k > 0 {
				cuts[k] = true
			}
		}
	}
	foreign := map[string]lin{}
	for k := 1; k <= 64; k++ {
		if !cuts[k] {
			continue
		}
		w, bad, ok := analyseWalk(gc, k, foreign)
		if !ok {
			continue
		}
		if len(bad) > 0 {
			return false
		}
		for l, v := range w.slotExit {
			foreign[l] = v
		}
	}
	pa, okA := foreign[A.Leaf]
	pb, okB := foreign[B.Leaf]
	if !okA || !okB {
		return false
	}
	got := []string{pa.String(), pb.String()}
	if got[0] > got[1] {
		got[0], got[1] = got[1], got[0]
	}
	for _, want := range [][2]string{{"p:1", "p:2"}, {"(max p:1 p:2)", "(min p:1 p:2)"}} {
		if got[0] == want[0] && got[1] == want[1] {
			return true
		}
	}
	return false
}
