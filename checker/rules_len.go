package main

// rules_len.go — R30 LENGTH: containers whose size *is* the length of a slice field (Size() ≡ len(recv.F): the array list).
// Every method is replayed path by path over a symbolic length: stores to F (re-slice, slices.Delete/Insert, append, make)
// and calls to the type's own length-changing helpers move it; the outcome of every path must be one of the outcomes the
// operation's meaning allows (Add: +len(values), Remove: -1 or unchanged, shrink/Sort/Swap/Set-in-range: unchanged, …).
// Assume/guarantee: a call to a sibling method moves the length by that sibling's own (deterministic) allowed outcome.

import (
	"fmt"
	"go/types"
	"regexp"
	"sort"
	"strconv"
	"strings"

	"golang.org/x/tools/go/ssa"
)

// lin is a linear form over symbolic atoms.
type lin struct {
	c map[string]int
	k int
}

func linConst(k int) lin { return lin{c: map[string]int{}, k: k} }
func linAtom(a string) lin { return lin{c: map[string]int{a: 1}} }
func (a lin) add(b lin, sign int) lin {
	out := lin{c: map[string]int{}, k: a.k + sign*b.k}
	for x, n := range a.c {
		out.c[x] += n
	}
	for x, n := range b.c {
		out.c[x] += sign * n
	}
	for x, n := range out.c {
		if n == 0 {
			delete(out.c, x)
		}
	}
	return out
}
func (a lin) String() string {
	var ks []string
	for x := range a.c {
		ks = append(ks, x)
	}
	sort.Strings(ks)
	var parts []string
	for _, x := range ks {
		switch n := a.c[x]; n {
		case 1:
			parts = append(parts, x)
		default:
			parts = append(parts, fmt.Sprintf("%d*%s", n, x))
		}
	}
	if a.k != 0 || len(parts) == 0 {
		parts = append(parts, strconv.Itoa(a.k))
	}
	return strings.Join(parts, " + ")
}

var verRe = regexp.MustCompile(`^c(\d+)\.f(\d+)`)

type lenReplay struct {
	field    string
	byVer    map[string]lin // "c<calls>.f<stores>" → length of recv.F at that version
	calls, f int
	cur      lin
	effects  []*Term
	unknown  string
}

func (r *lenReplay) isF(t *Term) bool {
	return t.Op == "load" && len(t.Args) == 1 && t.Args[0].Op == "fa" && t.Args[0].Leaf == r.field && t.Args[0].Args[0].String() == "p:0"
}

func (r *lenReplay) lenOfF(t *Term) lin {
	if m := verRe.FindStringSubmatch(t.Leaf); m != nil {
		if l, ok := r.byVer["c"+m[1]+".f"+m[2]]; ok {
			return l
		}
	}
	if t.Leaf == "pre" {
		return r.byVer["c0.f0"]
	}
	return r.cur
}

// sliceLen: the length of a slice-valued term.
func (r *lenReplay) sliceLen(t *Term, upto int) lin {
	switch {
	case r.isF(t):
		return r.lenOfF(t)
	case t.Op == "p":
		return linAtom("(len " + t.String() + ")")
	case t.Op == "slice" && len(t.Args) == 4:
		if t.Args[0].Op == "new" && strings.HasPrefix(t.Args[0].Leaf, "varargs") {
			n := 0
			for _, ef := range r.effects[:upto] {
				if isStore(ef) && ef.Args[0].Op == "ia" && ef.Args[0].Args[0].String() == t.Args[0].String() {
					n++
				}
			}
			return linConst(n)
		}
		lo := linConst(0)
		if t.Args[1].Op != "_" {
			lo = r.intVal(t.Args[1], upto)
		}
		if t.Args[2].Op != "_" {
			return r.intVal(t.Args[2], upto).add(lo, -1)
		}
		return r.sliceLen(t.Args[0], upto).add(lo, -1)
	case t.Op == "makeslice" && len(t.Args) == 2:
		return r.intVal(t.Args[0], upto)
	case t.Op == "res" && len(t.Args) == 1:
		e := t.Args[0]
		switch {
		case e.Op == "stddo" && e.Leaf == "slices.Delete" && len(e.Args) == 3:
			return r.sliceLen(e.Args[0], upto).add(r.intVal(e.Args[2], upto).add(r.intVal(e.Args[1], upto), -1), -1)
		case e.Op == "stddo" && e.Leaf == "slices.Insert" && len(e.Args) == 3:
			return r.sliceLen(e.Args[0], upto).add(r.sliceLen(e.Args[2], upto), 1)
		case e.Op == "stddo" && (e.Leaf == "slices.Grow" || e.Leaf == "slices.Clip") && len(e.Args) >= 1:
			return r.sliceLen(e.Args[0], upto)
		case e.Op == "builtin" && e.Leaf == "append" && len(e.Args) == 2:
			return r.sliceLen(e.Args[0], upto).add(r.sliceLen(e.Args[1], upto), 1)
		}
	case t.Op == "std" && t.Leaf == "slices.Clone" && len(t.Args) == 2:
		return r.sliceLen(t.Args[1], upto)
	case t.Op == "load" && t.Args[0].Op == "new":
		return linAtom("(len " + noEpoch(t) + ")")
	}
	return linAtom("(len " + noEpoch(t) + ")")
}

// intVal: the value of an int-valued term as a linear form.
func (r *lenReplay) intVal(t *Term, upto int) lin {
	if k, ok := t.constInt(); ok {
		return linConst(int(k))
	}
	switch {
	case t.Op == "len" && len(t.Args) == 1:
		return r.sliceLen(t.Args[0], upto)
	case t.Op == "+" && len(t.Args) == 2:
		return r.intVal(t.Args[0], upto).add(r.intVal(t.Args[1], upto), 1)
	case t.Op == "-" && len(t.Args) == 2:
		return r.intVal(t.Args[0], upto).add(r.intVal(t.Args[1], upto), -1)
	}
	return linAtom(noEpoch(t))
}

func (r *lenReplay) mark() { r.byVer[fmt.Sprintf("c%d.f%d", r.calls, r.f)] = r.cur }

// siblingEffect: how a call recv.<name>(args) moves the length (deterministic siblings only).
func (r *lenReplay) siblingEffect(name string, args []*Term, upto int) bool {
	switch name {
	case "growBy":
		r.cur = r.cur.add(r.intVal(args[1], upto), 1)
	case "resize":
		r.cur = r.intVal(args[1], upto)
	case "shrink", "Sort", "Swap":
	case "Add", "Append":
		r.cur = r.cur.add(r.sliceLen(args[1], upto), 1)
	case "Prepend":
		r.cur = r.cur.add(r.sliceLen(args[1], upto), 1)
	case "Clear":
		r.cur = linConst(0)
	case "FromJSON", "UnmarshalJSON":
		r.cur = linAtom("(len decoded)")
	default:
		return false
	}
	return true
}

// replay runs one guarded command; returns false when an effect could not be interpreted.
func (r *lenReplay) replay(g *GC) {
	r.effects = g.Effects
	for i, ef := range g.Effects {
		switch {
		case isStore(ef) && ef.Args[0].Op == "fa" && ef.Args[0].Leaf == r.field && ef.Args[0].Args[0].String() == "p:0":
			r.cur = r.sliceLen(ef.Args[1], i)
			r.f++
			r.mark()
		case ef.Op == "do":
			nm, args, _ := effDo(ef)
			if len(args) > 0 && args[0].String() == "p:0" {
				if !r.siblingEffect(nm, args, i) {
					// a method of the receiver with no deterministic length outcome
					r.unknown = "call to " + nm + " on the receiver (no deterministic length outcome)"
				}
			} else {
				for _, a := range args {
					if a.any(func(t *Term) bool { return t.Op == "fa" && t.Leaf == r.field && t.Args[0].String() == "p:0" }) && a.Op != "load" {
						r.unknown = "the address of " + r.field + " is handed to " + nm
					}
				}
			}
			r.calls++
			r.mark()
		case ef.Op == "stddo" || ef.Op == "builtin" || ef.Op == "invoke":
			// in-place library calls keep the length; the address of the field must not escape to them
			for _, a := range ef.Args {
				if a.Op == "fa" && a.Leaf == r.field {
					r.unknown = "the address of " + r.field + " is handed to " + ef.Leaf
				}
			}
			r.calls++
			r.mark()
		}
	}
}

func ruleR30(c *Ctx) *RuleResult {
	p := c.p
	r := &RuleResult{Rule: "R30", Title: "LENGTH: where Size() is the length of a slice field, every operation moves that length exactly as its meaning says", Floor: 25}
	for _, ct := range p.T.Containers {
		ms := methodsOf(p, ct)
		size := ms["Size"]
		if size == nil {
			continue
		}
		ts := returnTerm(c.GC(size))
		if ts == nil || ts.Op != "len" || ts.Args[0].Op != "load" || ts.Args[0].Args[0].Op != "fa" || ts.Args[0].Args[0].Args[0].String() != "p:0" {
			continue
		}
		field := ts.Args[0].Args[0].Leaf
		st := ct.Underlying().(*types.Struct)
		isSlice := false
		for i := 0; i < st.NumFields(); i++ {
			if fieldN(ct, i) == field {
				_, isSlice = types.Unalias(st.Field(i).Type()).Underlying().(*types.Slice)
			}
		}
		if !isSlice {
			continue
		}
		tk := p.TypeKey(ct)
		for _, name := range sortedNames(ms) {
			fn := ms[name]
			key := p.FuncKey(fn)
			np := len(fn.Params)
			last := "p:" + itoa(np-1)
			L0 := linAtom("L0")
			// allowed outcomes
			var allowed []lin
			variadic := fn.Signature.Variadic()
			switch name {
			case "Add", "Append", "Prepend":
				allowed = []lin{L0.add(linAtom("(len "+last+")"), 1)}
			case "Insert":
				allowed = []lin{L0, L0.add(linAtom("(len "+last+")"), 1)}
			case "Remove":
				allowed = []lin{L0, L0.add(linConst(1), -1)}
			case "Set":
				allowed = []lin{L0, L0.add(linConst(1), 1)}
			case "Clear":
				allowed = []lin{linConst(0)}
			case "growBy":
				allowed = []lin{L0.add(linAtom("p:1"), 1)}
			case "resize":
				allowed = []lin{linAtom("p:1")}
			case "FromJSON", "UnmarshalJSON":
				allowed = nil // any length read from the decoded input, or unchanged
			default:
				allowed = []lin{L0}
			}
			_ = variadic
			clause := fmt.Sprintf("%s.%s leaves len(%s) — the container's Size() — at one of: %s", tk, name, field, func() string {
				if allowed == nil {
					return "unchanged, or the length of the decoded input"
				}
				var xs []string
				for _, a := range allowed {
					xs = append(xs, a.String())
				}
				return strings.Join(xs, " | ")
			}())
			gc := c.GC(fn)
			if gc.Undecided != "" {
				r.undecided(key, clause, p.FuncPos(fn), gc.Undecided)
				continue
			}
			var bad, facts []string
			und := ""
			for _, g := range gc.GCs {
				rp := &lenReplay{field: field, byVer: map[string]lin{}, cur: L0}
				rp.mark()
				rp.replay(g)
				if g.From != 0 {
					// loop rounds must not move the length
					if rp.unknown != "" || rp.cur.String() != L0.String() {
						und = "a loop round changes len(" + field + "): " + trunc(g.String(), 200)
					}
					continue
				}
				if rp.unknown != "" {
					und = rp.unknown
					continue
				}
				got := rp.cur
				ok := false
				if allowed == nil {
					ok = got.String() == L0.String() || got.c["L0"] == 0
				}
				for _, a := range allowed {
					if a.String() == got.String() {
						ok = true
					}
				}
				if ok {
					facts = append(facts, got.String())
				} else {
					bad = append(bad, fmt.Sprintf("a path leaves len(%s) = %s: %s", field, got.String(), trunc(g.String(), 300)))
				}
			}
			switch {
			case len(bad) > 0:
				r.bad(key, clause, p.FuncPos(fn), strings.Join(dedup(bad), "\n"))
			case und != "":
				r.undecided(key, clause, p.FuncPos(fn), und)
			default:
				r.ok(key, clause, p.FuncPos(fn), "path outcomes: "+strings.Join(dedup(facts), " | "))
			}
		}
	}
	return r
}

// ---- R31 RAWINPUT: the byte string given to FromJSON/UnmarshalJSON is arbitrary; library code must not index or slice it ----

func ruleR31(c *Ctx) *RuleResult {
	p := c.p
	r := &RuleResult{Rule: "R31", Title: "RAWINPUT: the raw bytes given to a loader are only handed to the standard library, never indexed or sliced by library code", Floor: 40}
	clause := "FromJSON/UnmarshalJSON accept any byte string: the input (and anything sliced from it) is only passed to standard-library functions or to other loaders; the library itself never indexes it or slices it with computed bounds (no bound on such an index can be proved for arbitrary input)"
	for _, ct := range p.T.Containers {
		ms := methodsOf(p, ct)
		for _, name := range []string{"FromJSON", "UnmarshalJSON"} {
			fn := ms[name]
			if fn == nil || len(fn.Params) < 2 {
				continue
			}
			var bad []string
			seen := map[ssa.Value]bool{}
			var follow func(v ssa.Value, depth int)
			follow = func(v ssa.Value, depth int) {
				if seen[v] || depth > 6 || v.Referrers() == nil {
					return
				}
				seen[v] = true
				for _, ref := range *v.Referrers() {
					switch x := ref.(type) {
					case *ssa.DebugRef:
					case *ssa.Slice:
						if x.X != v {
							continue
						}
						for _, b := range []ssa.Value{x.Low, x.High, x.Max} {
							if b == nil {
								continue
							}
							if cst, ok := b.(*ssa.Const); ok && cst.Value != nil && cst.Int64() == 0 {
								continue
							}
							bad = append(bad, fmt.Sprintf("the raw input is sliced with a computed bound in %s at %s", p.FuncKey(x.Parent()), p.InstrPos(x)))
						}
						follow(x, depth)
					case *ssa.IndexAddr:
						if x.X == v {
							bad = append(bad, fmt.Sprintf("the raw input is indexed in %s at %s", p.FuncKey(x.Parent()), p.InstrPos(x)))
						}
					case *ssa.Index:
						if x.X == v {
							bad = append(bad, fmt.Sprintf("the raw input is indexed in %s at %s", p.FuncKey(x.Parent()), p.InstrPos(x)))
						}
					case *ssa.Lookup:
						if x.X == v {
							bad = append(bad, fmt.Sprintf("the raw input is indexed in %s at %s", p.FuncKey(x.Parent()), p.InstrPos(x)))
						}
					case *ssa.Phi, *ssa.ChangeType, *ssa.Convert, *ssa.MakeInterface, *ssa.ChangeInterface:
						follow(x.(ssa.Value), depth)
					case ssa.CallInstruction:
						cc := x.Common()
						cal := StaticCallee(cc)
						if cal != nil && p.IsLib(cal) && cal.Blocks != nil {
							for i, a := range cc.Args {
								if a == v && i < len(cal.Params) {
									follow(cal.Params[i], depth+1)
								}
							}
							continue
						}
						// standard library / builtin: a result that is again a byte slice or string may alias the input
						if val, ok := x.(ssa.Value); ok {
							if isBytesOrString(val.Type()) {
								follow(val, depth)
							}
						}
					}
				}
			}
			follow(fn.Params[1], 0)
			key := p.FuncKey(fn)
			if len(bad) > 0 {
				r.bad(key, clause, p.FuncPos(fn), strings.Join(dedup(bad), "\n"))
			} else {
				r.ok(key, clause, p.FuncPos(fn), fmt.Sprintf("%d values derived from the input: passed to the standard library / other loaders only", len(seen)))
			}
		}
	}
	return r
}

func isBytesOrString(t types.Type) bool {
	switch u := types.Unalias(t).Underlying().(type) {
	case *types.Basic:
		return u.Info()&types.IsString != 0
	case *types.Slice:
		b, ok := types.Unalias(u.Elem()).Underlying().(*types.Basic)
		return ok && b.Kind() == types.Uint8
	case *types.Tuple:
		for i := 0; i < u.Len(); i++ {
			if isBytesOrString(u.At(i).Type()) {
				return true
			}
		}
	}
	return false
}
