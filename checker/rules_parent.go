package main

// rules_parent.go — R11 PARENTLINK: every child-link store is paired with the matching parent-link store (DESIGN §3 R11).
// Iterators climb Parent; replaceNode, sibling lookup, rebalance and split navigate by it: one stale parent pointer
// corrupts a later operation while every content test still passes.

import (
	"fmt"
	"go/types"
	"sort"
	"strings"

	"golang.org/x/tools/go/ssa"
)

var replacers = map[string]bool{"rotate": true, "singlerot": true, "doublerot": true}

type linkSite struct {
	fn    *ssa.Function
	g     *GC
	idx   int    // index of the effect
	form  string // "field" "root" "array" "linkptr" "elem" "slice"
	owner *Term  // nil for root / link pointer
	child *Term
	desc  string
}

func isNodePtrParam(fn *ssa.Function, leafIdx string) bool {
	var i int
	if _, err := fmt.Sscanf(leafIdx, "%d", &i); err != nil || i >= len(fn.Params) {
		return false
	}
	pt, ok := types.Unalias(fn.Params[i].Type()).(*types.Pointer)
	if !ok {
		return false
	}
	_, ok = types.Unalias(pt.Elem()).(*types.Pointer)
	return ok
}

// knownNil: the path establishes that t is nil.
func knownNil(g *GC, t *Term) bool {
	if t.String() == "#:nil" {
		return true
	}
	s := noEpoch(t)
	for _, a := range g.Guards {
		if a.Op == "==" && a.Args[0].String() == "#:nil" && noEpoch(a.Args[1]) == s {
			return true
		}
	}
	return false
}

// sameValue: two terms denote the same value — identical including load versions, or identical up to versions when they
// contain no load of a link field that is stored on this path (re-reading x.Left after `x.Left = y` is a different value).
func sameValue(g *GC, a, b *Term) bool {
	if a.String() == b.String() {
		return true
	}
	if noEpoch(a) != noEpoch(b) {
		return false
	}
	stored := map[string]bool{}
	for _, ef := range g.Effects {
		if isStore(ef) && ef.Args[0].Op == "fa" {
			stored[ef.Args[0].Leaf] = true
		}
		if isStore(ef) && ef.Args[0].Op == "ia" {
			stored["[]"] = true
		}
	}
	clean := true
	chk := func(t *Term) bool {
		if t.Op == "load" && len(t.Args) == 1 {
			if t.Args[0].Op == "fa" && stored[t.Args[0].Leaf] {
				clean = false
			}
			if t.Args[0].Op == "ia" && stored["[]"] {
				clean = false
			}
		}
		return false
	}
	a.any(chk)
	b.any(chk)
	return clean
}

func parentStore(g *GC, child, owner *Term, ownerNil bool) bool {
	for _, ef := range g.Effects {
		if !storeToField(ef, "Parent") || !sameValue(g, ef.Args[0].Args[0], child) {
			continue
		}
		if ownerNil {
			if knownNil(g, ef.Args[1]) {
				return true
			}
			continue
		}
		if noEpoch(ef.Args[1]) == noEpoch(owner) {
			return true
		}
	}
	return false
}

func ruleR11(c *Ctx) *RuleResult {
	p := c.p
	r := &RuleResult{Rule: "R11", Title: "PARENTLINK: every child-link store travels with the matching parent-link store", Floor: 26}
	clause := "whenever a node becomes the child of another node (or the root), its Parent field is set to that node (nil for the root) on the same path — directly, through setParent, or because it is the result of a rotation helper that re-parents it"
	pkgs := map[string]bool{"trees/redblacktree": true, "trees/avltree": true, "trees/btree": true}
	type siteKey struct{ fn, desc string }
	bySite := map[siteKey][]string{} // → list of problems ("" = discharged path)
	sitePos := map[siteKey]string{}
	var order []siteKey
	note := func(fn *ssa.Function, desc, problem string) {
		k := siteKey{p.FuncKey(fn), desc}
		if _, ok := bySite[k]; !ok {
			order = append(order, k)
			sitePos[k] = p.FuncPos(fn)
		}
		bySite[k] = append(bySite[k], problem)
	}
	for _, fn := range p.Funcs {
		root := fn
		for root.Parent() != nil {
			root = root.Parent()
		}
		if root.Pkg == nil || !pkgs[p.RelPkg(root.Pkg.Pkg.Path())] {
			continue
		}
		gc := c.GC(fn)
		if gc.Undecided != "" {
			// only functions that store links matter
			continue
		}
		for _, g := range gc.GCs {
			for i, ef := range g.Effects {
				if !isStore(ef) {
					continue
				}
				addr, val := ef.Args[0], ef.Args[1]
				var site *linkSite
				switch {
				case addr.Op == "fa" && (addr.Leaf == "Left" || addr.Leaf == "Right"):
					site = &linkSite{form: "field", owner: addr.Args[0], child: val, desc: addr.Leaf + "="}
				case addr.Op == "fa" && addr.Leaf == "Root":
					site = &linkSite{form: "root", child: val, desc: "Root="}
				case addr.Op == "ia" && addr.Args[0].Op == "fa" && addr.Args[0].Leaf == "Children":
					site = &linkSite{form: "array", owner: addr.Args[0].Args[0], child: val, desc: "Children[" + addr.Args[1].String() + "]="}
				case addr.Op == "p" && isNodePtrParam(fn, addr.Leaf):
					site = &linkSite{form: "linkptr", child: val, desc: "*" + fn.Params[atoi(addr.Leaf)].Name() + "="}
				case addr.Op == "ia" && addr.Args[0].Op == "load" && addr.Args[0].Args[0].Op == "fa" && addr.Args[0].Args[0].Leaf == "Children":
					site = &linkSite{form: "elem", owner: addr.Args[0].Args[0].Args[0], child: val, desc: "Children[i]="}
				case addr.Op == "fa" && addr.Leaf == "Children":
					site = &linkSite{form: "slice", owner: addr.Args[0], child: val, desc: "Children="}
				case addr.Op == "φ" && isLinkCursor(gc, addr):
					site = &linkSite{form: "linkcursor", child: val, desc: "*link="}
				}
				if site == nil {
					continue
				}
				site.fn, site.g, site.idx = fn, g, i
				desc := site.desc + shortTerm(val)
				problem := checkLinkSite(c, gc, site)
				note(fn, desc, problem)
			}
		}
	}
	for _, k := range order {
		var bad []string
		for _, pr := range bySite[k] {
			if pr != "" {
				bad = append(bad, pr)
			}
		}
		key := k.fn + ":" + k.desc
		if len(bad) > 0 {
			r.bad(key, clause, sitePos[k], strings.Join(dedup(bad), "\n"))
		} else {
			r.ok(key, clause, sitePos[k], fmt.Sprintf("paired on all %d path(s)", len(bySite[k])))
		}
	}
	// the rotation helpers re-parent their result: result.Parent = argument.Parent
	for _, nm := range []string{"rotate"} {
		fn := p.FuncByName("trees/avltree", nm)
		key := "replacer:trees/avltree." + nm
		if fn == nil {
			r.undecided(key, clause, "-", "anchored function not found")
			continue
		}
		ok := true
		for _, g := range c.GC(fn).GCs {
			if g.Exit.Op != "return" || len(g.Exit.Args) != 1 {
				ok = false
				continue
			}
			res := g.Exit.Args[0]
			found := false
			for _, ef := range g.Effects {
				if storeToField(ef, "Parent") && noEpoch(ef.Args[0].Args[0]) == noEpoch(res) && ef.Args[1].Op == "load" && ef.Args[1].Args[0].Op == "fa" && ef.Args[1].Args[0].Leaf == "Parent" && ef.Args[1].Args[0].Args[0].String() == "p:1" {
					found = true
				}
			}
			if !found {
				ok = false
			}
		}
		if ok {
			r.ok(key, clause, p.FuncPos(fn), "result.Parent = argument.Parent on every path")
		} else {
			r.bad(key, clause, p.FuncPos(fn), "the rotation helper does not give its result the parent of the node it replaces")
		}
	}
	for _, nm := range []string{"singlerot", "doublerot"} {
		fn := p.FuncByName("trees/avltree", nm)
		key := "replacer:trees/avltree." + nm
		if fn == nil {
			r.undecided(key, clause, "-", "anchored function not found")
			continue
		}
		ok := true
		for _, g := range c.GC(fn).GCs {
			res := g.Exit.Args[0]
			if !(res.Op == "res" && res.Args[0].Op == "do" && lastIdent(res.Args[0].Leaf) == "rotate" && len(res.Args[0].Args) == 2 && res.Args[0].Args[1].String() == "p:1") {
				ok = false
			}
		}
		if ok {
			r.ok(key, clause, p.FuncPos(fn), "returns rotate(·, s): re-parented by rotate")
		} else {
			r.bad(key, clause, p.FuncPos(fn), "does not return the result of rotating its argument")
		}
	}
	// AVL call sites handing out a link pointer must hand out the matching owner
	{
		var bad []string
		n := 0
		for _, fn := range p.Funcs {
			if fn.Pkg == nil || p.RelPkg(fn.Pkg.Pkg.Path()) != "trees/avltree" {
				continue
			}
			for _, g := range c.GC(fn).GCs {
				for _, ef := range g.Effects {
					nm, args, ok := effDo(ef)
					if !ok || nm != "put" || len(args) != 5 {
						continue
					}
					n++
					owner, link := args[3], args[4]
					switch {
					case link.Op == "fa" && link.Leaf == "Root" && owner.String() == "#:nil":
					case link.Op == "ia" && link.Args[0].Op == "fa" && link.Args[0].Leaf == "Children" && noEpoch(link.Args[0].Args[0]) == noEpoch(owner):
					default:
						bad = append(bad, fmt.Sprintf("%s passes link %s with owner %s", p.FuncKey(fn), trunc(noEpoch(link), 100), trunc(noEpoch(owner), 100)))
					}
				}
			}
		}
		if n == 0 {
			bad = append(bad, "no call to put found")
		}
		sort.Strings(bad)
		if len(bad) > 0 {
			r.bad("linkowner:trees/avltree.put", clause, "-", strings.Join(dedup(bad), "\n"))
		} else {
			r.ok("linkowner:trees/avltree.put", clause, "-", fmt.Sprintf("%d call path(s): &tree.Root with owner nil, &q.Children[a] with owner q", n))
		}
	}
	return r
}

func atoi(s string) int {
	var i int
	fmt.Sscanf(s, "%d", &i)
	return i
}

func shortTerm(t *Term) string {
	s := noEpoch(t)
	s = strings.ReplaceAll(s, "(load ", "(")
	return trunc(s, 70)
}

// checkLinkSite returns "" when the site is paired on this path, else the problem.
func checkLinkSite(c *Ctx, gc *GCNF, s *linkSite) string {
	if r := checkLinkSite1(c, gc, s); r == "" {
		return ""
	} else if s.form == "field" || s.form == "array" || s.form == "elem" {
		// the child may be named by re-reading the link that was just stored (s.Children[a] = x; if s.Children[a] != nil { s.Children[a].Parent = s })
		if parentStoreOfReread(s) {
			return ""
		}
		return r
	} else {
		return r
	}
}

func checkLinkSite1(c *Ctx, gc *GCNF, s *linkSite) string {
	g, y := s.g, s.child
	where := fmt.Sprintf("%s stores %s without the matching parent link on the path: %s", s.desc, shortTerm(y), trunc(guardsString(g), 200))
	if knownNil(g, y) {
		return ""
	}
	// the result of a rotation helper is re-parented by the helper
	if y.Op == "res" && y.Args[0].Op == "do" && replacers[lastIdent(y.Args[0].Leaf)] {
		return ""
	}
	switch s.form {
	case "field", "array", "elem":
		if parentStore(g, y, s.owner, false) {
			return ""
		}
		// rbt.Put: the parent link of the new node is set after the flag-controlled loop
		if y.Op == "new" && g.Exit.Op == "goto" {
			if flagLoopParent(gc, g, y, s) {
				return ""
			}
		}
		return where
	case "root":
		if parentStore(g, y, nil, true) {
			return ""
		}
		if y.Op == "new" && !storesParentOf(g, y) {
			return "" // a freshly allocated root: Parent is the zero value nil
		}
		return where
	case "linkptr":
		// owner = whatever owns the slot: the new occupant takes the parent the caller named (put) or the old occupant's parent
		q := nodeL("load", "", leaf("p", s.child0(s.fn)))
		_ = q
		cs := noEpoch(y)
		for _, ef := range g.Effects {
			if !storeToField(ef, "Parent") || noEpoch(ef.Args[0].Args[0]) != cs {
				continue
			}
			v := ef.Args[1]
			if v.Op == "p" {
				return "" // the owner parameter that travels with the link pointer (checked at the call sites)
			}
			if v.Op == "load" && v.Args[0].Op == "fa" && v.Args[0].Leaf == "Parent" && v.Args[0].Args[0].Op == "load" && v.Args[0].Args[0].Args[0].String() == linkParam(s) {
				return "" // old occupant's parent
			}
		}
		return where
	case "slice":
		return checkChildrenSlice(c, gc, s)
	case "linkcursor":
		// a descent that carries the address of the link it follows (link := &tree.Root; … link = &node.Left) next to the
		// node that owns it: the new occupant's Parent is the owner variable, and on every entry into / round of the loop
		// the two are assigned together
		link := g.Effects[s.idx].Args[0]
		cs := noEpoch(y)
		for _, ef := range g.Effects {
			if !storeToField(ef, "Parent") || noEpoch(ef.Args[0].Args[0]) != cs {
				continue
			}
			v := ef.Args[1]
			if v.Op != "φ" {
				continue
			}
			var k1, j1, k2, j2 int
			fmt.Sscanf(link.Leaf, "%d.%d", &k1, &j1)
			fmt.Sscanf(v.Leaf, "%d.%d", &k2, &j2)
			if k1 != k2 {
				continue
			}
			if why := linkCursorPairs(gc, k1, j1, j2); why != "" {
				return s.desc + shortTerm(y) + ": " + why
			}
			return ""
		}
		return where
	}
	return "unrecognised link form " + s.form
}

func (s *linkSite) child0(fn *ssa.Function) string { return "0" }

func linkParam(s *linkSite) string { return s.g.Effects[s.idx].Args[0].String() }

func guardsString(g *GC) string {
	var xs []string
	for _, a := range g.Guards {
		xs = append(xs, noEpoch(a))
	}
	return strings.Join(xs, " ∧ ")
}

func storesParentOf(g *GC, y *Term) bool {
	cs := noEpoch(y)
	for _, ef := range g.Effects {
		if storeToField(ef, "Parent") && noEpoch(ef.Args[0].Args[0]) == cs {
			return true
		}
	}
	return false
}

// flagLoopParent: rbt.Put links the new node inside the loop and sets its Parent after the loop:
// the path continues with (inserted := the new child, parent := owner, flag := false) and the flag-false exit stores inserted.Parent = parent.
func flagLoopParent(gc *GCNF, g *GC, y *Term, s *linkSite) bool {
	k := atoi(g.Exit.Leaf)
	ci, oi := -1, -1
	for i, a := range g.Exit.Args {
		// the child travels as the freshly stored link (a load of the same address) or as the new object itself
		addr := g.Effects[s.idx].Args[0]
		if a.Op == "load" && noEpoch(a.Args[0]) == noEpoch(addr) || noEpoch(a) == noEpoch(y) {
			ci = i
		}
		if noEpoch(a) == noEpoch(s.owner) {
			oi = i
		}
	}
	if ci < 0 || oi < 0 {
		return false
	}
	// every path leaving cut k (with a return) must store φk.ci.Parent = φk.oi unless it is a path that does not follow an insertion
	want := fmt.Sprintf("(store (fa:Parent φ:%d.%d) φ:%d.%d)", k, ci, k, oi)
	found := false
	for _, x := range gc.GCs {
		if x.From != k || x.Exit.Op != "return" {
			continue
		}
		for _, ef := range x.Effects {
			if ef.String() == want {
				found = true
			}
		}
	}
	return found
}

// checkChildrenSlice: `X.Children = S`.
func checkChildrenSlice(c *Ctx, gc *GCNF, s *linkSite) string {
	g, S, X := s.g, s.child, s.owner
	xs := noEpoch(X)
	// S is a (re)slice of X's own children, or of a fresh empty literal: no new child
	base := S
	for base.Op == "slice" {
		base = base.Args[0]
	}
	if base.Op == "load" && base.Args[0].Op == "fa" && base.Args[0].Leaf == "Children" && noEpoch(base.Args[0].Args[0]) == xs {
		return ""
	}
	// which children may S contain?
	var sources []*Term
	var collect func(t *Term) bool
	collect = func(t *Term) bool {
		switch {
		case t.Op == "res" && len(t.Args) == 1 && t.Args[0].Op == "builtin" && t.Args[0].Leaf == "append":
			for _, a := range t.Args[0].Args {
				if !collect(a) {
					return false
				}
			}
			return true
		case t.Op == "res" && len(t.Args) == 1 && (t.Args[0].Op == "stddo" || t.Args[0].Op == "std") && t.Args[0].Leaf == "slices.Insert" && len(t.Args[0].Args) >= 3:
			// slices.Insert(S, i, vs...): the elements of S and the inserted values
			args := t.Args[0].Args
			if len(args) > 0 && args[0].Op == "@" {
				args = args[1:]
			}
			if len(args) < 3 || !collect(args[0]) {
				return false
			}
			for _, a := range args[2:] {
				if !collect(a) {
					return false
				}
			}
			return true
		case t.Op == "slice":
			return collect(t.Args[0])
		case t.String() == "#:nil":
			return true
		case t.Op == "new":
			// a literal array: its elements are the stores into it on this path
			for _, ef := range g.Effects {
				if isStore(ef) && ef.Args[0].Op == "ia" && ef.Args[0].Args[0].String() == t.String() {
					sources = append(sources, nodeL("elem", "", ef.Args[1]))
				}
			}
			return true
		case t.Op == "load" && t.Args[0].Op == "fa" && t.Args[0].Leaf == "Children":
			sources = append(sources, t)
			return true
		case t.Op == "load" || t.Op == "φ" || t.Op == "res":
			sources = append(sources, t)
			return true
		}
		return false
	}
	if !collect(S) {
		return "Children= an unrecognised slice expression " + shortTerm(S)
	}
	for _, src := range sources {
		switch {
		case src.Op == "elem":
			y := src.Args[0]
			if knownNil(g, y) || parentStore(g, y, X, false) {
				continue
			}
			return fmt.Sprintf("Children= gains the child %s without setting its Parent to the node", shortTerm(y))
		case src.Op == "load" && src.Args[0].Op == "fa" && src.Args[0].Leaf == "Children" && noEpoch(src.Args[0].Args[0]) == xs:
			continue // the node's own children
		default:
			// a whole slice of foreign children: setParent(thatSlice | node.Children, node) must run on this path,
			// or the caller does it (appendChildren / prependChildren: setParent(fromNode.Children, toNode))
			ok := false
			for _, ef := range g.Effects {
				if nm, args, isDo := effDo(ef); isDo && nm == "setParent" && len(args) == 2 && noEpoch(args[1]) == xs {
					a0 := noEpoch(args[0])
					if a0 == noEpoch(src) || a0 == "(load (fa:Children "+xs+"))" || strings.Contains(noEpoch(src), a0) || strings.Contains(a0, baseChildrenOf(src)) {
						ok = true
					}
				}
			}
			if !ok {
				return fmt.Sprintf("Children= gains the children %s without setParent(…, the node)", shortTerm(src))
			}
		}
	}
	return ""
}

func baseChildrenOf(t *Term) string {
	s := ""
	t.any(func(x *Term) bool {
		if s == "" && x.Op == "load" && len(x.Args) == 1 && x.Args[0].Op == "fa" && x.Args[0].Leaf == "Children" {
			s = noEpoch(x)
		}
		return false
	})
	if s == "" {
		return "\x00"
	}
	return s
}

// ---- R25 DLINK: next/prev pairing in the doubly linked list ----

func ruleR25(c *Ctx) *RuleResult {
	p := c.p
	r := &RuleResult{Rule: "R25", Title: "DLINK: in the doubly linked list every next-link store travels with the matching prev-link store", Floor: 4}
	clause := "x.next = y (y not nil) is paired on the same path with y.prev = x, and y.prev = x (x not nil) with x.next = y: Get/Set/Remove/Insert and reverse iteration walk prev from the tail, so one stale prev pointer misdirects them while Values() and forward iteration stay correct"
	ct := p.T.ContainerByKey("lists/doublylinkedlist.List")
	if ct == nil {
		r.undecided("lists/doublylinkedlist", clause, "-", "anchored type not found")
		return r
	}
	ms := methodsOf(p, ct)
	for _, name := range sortedNames(ms) {
		fn := ms[name]
		gc := c.GC(fn)
		if gc.Undecided != "" {
			continue
		}
		var bad []string
		n := 0
		for _, g := range gc.GCs {
			newPrev := map[string]string{} // new element -> its initial prev
			for _, ef := range g.Effects {
				if storeToField(ef, "prev") && ef.Args[0].Args[0].Op == "new" {
					newPrev[noEpoch(ef.Args[0].Args[0])] = noEpoch(ef.Args[1])
				}
			}
			// reading a link field of a fresh element back gives what this path stored there (`n.prev = e.prev; n.prev.next = n`)
			fresh := map[string]*Term{}
			dup := map[string]bool{}
			for _, ef := range g.Effects {
				if (storeToField(ef, "prev") || storeToField(ef, "next")) && ef.Args[0].Args[0].Op == "new" {
					k := "(load " + noEpoch(ef.Args[0]) + ")"
					if _, seen := fresh[k]; seen {
						dup[k] = true
					}
					fresh[k] = ef.Args[1]
				}
			}
			rb := func(t *Term) string {
				return noEpoch(rewriteTerm(t, func(x *Term) *Term {
					if x.Op == "load" {
						if v, ok := fresh[noEpoch(x)]; ok && !dup[noEpoch(x)] {
							return v
						}
					}
					return nil
				}))
			}
			has := func(field string, obj, val *Term) bool {
				for _, ef := range g.Effects {
					if storeToField(ef, field) && rb(ef.Args[0].Args[0]) == rb(obj) && rb(ef.Args[1]) == rb(val) {
						return true
					}
				}
				return false
			}
			// on a path that knows the list is empty, list.first and list.last are nil (representation invariant, see R27)
			emptyEnds := func(t *Term) bool {
				if !(t.Op == "load" && t.Args[0].Op == "fa" && (t.Args[0].Leaf == "first" || t.Args[0].Leaf == "last") && t.Args[0].Args[0].String() == "p:0") {
					return false
				}
				for _, a := range g.Guards {
					if a.Op == "==" && a.Args[0].String() == "#:0" && a.Args[1].Op == "load" && a.Args[1].Args[0].Op == "fa" && a.Args[1].Args[0].Leaf == "size" && a.Args[1].Args[0].Args[0].String() == "p:0" {
						return true
					}
				}
				return false
			}
			for _, ef := range g.Effects {
				if (storeToField(ef, "next") || storeToField(ef, "prev")) && emptyEnds(ef.Args[1]) {
					continue
				}
				switch {
				case storeToField(ef, "next"):
					x, y := ef.Args[0].Args[0], ef.Args[1]
					if knownNil(g, y) || x.Op == "new" && y.String() == "#:nil" || knownNil(g, nodeL("load", "", nodeL("fa", "next", x))) {
						continue // (the last form: the path read the field back and found nil)
					}
					n++
					if !has("prev", y, x) {
						bad = append(bad, fmt.Sprintf("%s.next = %s without %s.prev = %s on the path: %s", shortTerm(x), shortTerm(y), shortTerm(y), shortTerm(x), trunc(guardsString(g), 160)))
					}
				case storeToField(ef, "prev"):
					y, x := ef.Args[0].Args[0], ef.Args[1]
					if knownNil(g, x) || knownNil(g, nodeL("load", "", nodeL("fa", "prev", y))) {
						continue
					}
					n++
					if !has("next", x, y) {
						bad = append(bad, fmt.Sprintf("%s.prev = %s without %s.next = %s on the path: %s", shortTerm(y), shortTerm(x), shortTerm(x), shortTerm(y), trunc(guardsString(g), 160)))
					}
				}
			}
		}
		if n == 0 {
			continue
		}
		key := p.FuncKey(fn)
		if len(bad) > 0 {
			r.bad(key, clause, p.FuncPos(fn), strings.Join(dedup(bad), "\n"))
		} else {
			r.ok(key, clause, p.FuncPos(fn), fmt.Sprintf("%d link store(s), each with its twin on the same path", n))
		}
	}
	return r
}

// ---- R27 EMPTYINV: pointer-emptiness predicates are backed by the operations that empty the list ----

func ruleR27(c *Ctx) *RuleResult {
	p := c.p
	r := &RuleResult{Rule: "R27", Title: "EMPTYINV: a linked list that tests or uses first/last as 'empty ⇒ nil' has every emptying path establish it", Floor: 2}
	clause := "if some operation relies on 'list empty ⇒ %s == nil' (tests the field against nil, or links it into a new element while size == 0), then every path that can leave the list empty (size := 0, Clear, or size-1 without knowing size != 1) stores nil into that field — the two sites must agree (each edit alone is harmless, together they corrupt the list)"
	for _, tk := range []string{"lists/singlylinkedlist.List", "lists/doublylinkedlist.List"} {
		ct := p.T.ContainerByKey(tk)
		if ct == nil {
			r.undecided(tk, fmt.Sprintf(clause, "first/last"), "-", "anchored type not found")
			continue
		}
		ms := methodsOf(p, ct)
		isListField := func(t *Term, f string) bool {
			return t.Op == "load" && len(t.Args) == 1 && t.Args[0].Op == "fa" && t.Args[0].Leaf == f && t.Args[0].Args[0].String() == "p:0"
		}
		atomIs := func(a *Term, op, cst string) bool {
			return a.Op == op && len(a.Args) == 2 && a.Args[0].String() == cst && isListField(a.Args[1], "size")
		}
		var curGC *GCNF
		var sizeIs func(g *GC, op, cst string) bool
		sizeIs = func(g *GC, op, cst string) bool {
			for _, a := range g.Guards {
				if atomIs(a, op, cst) {
					return true
				}
			}
			// a path that starts at a loop header also knows what every path entering that loop from outside knows
			// (the size is not written inside the search loops)
			if g.From != 0 && curGC != nil {
				n, all := 0, true
				for _, x := range curGC.GCs {
					if x.From != g.From && x.Exit.Op == "goto" && x.Exit.Leaf == itoa(g.From) {
						n++
						if x.From > g.From || !sizeIs(x, op, cst) {
							all = false
						}
					}
				}
				return n > 0 && all
			}
			return false
		}
		// reliance set
		req := map[string]string{}
		for _, name := range sortedNames(ms) {
			curGC = c.GC(ms[name])
			for _, g := range c.GC(ms[name]).GCs {
				for _, f := range []string{"first", "last"} {
					for _, a := range g.Guards {
						if (a.Op == "==" || a.Op == "!=") && len(a.Args) == 2 && a.Args[0].String() == "#:nil" && isListField(a.Args[1], f) {
							if _, ok := req[f]; !ok {
								req[f] = name + " tests list." + f + " against nil"
							}
						}
					}
					if sizeIs(g, "==", "#:0") {
						for _, ef := range g.Effects {
							if (storeToField(ef, "next") || storeToField(ef, "prev")) && isListField(ef.Args[1], f) {
								if _, ok := req[f]; !ok {
									req[f] = name + " links list." + f + " into an element while size == 0"
								}
							}
						}
					}
				}
			}
		}
		var fields []string
		for f := range req {
			fields = append(fields, f)
		}
		sort.Strings(fields)
		r.ok(tk+":reliance", fmt.Sprintf(clause, "first/last"), p.Pos(ct.Obj().Pos()), fmt.Sprintf("fields relied upon as nil-when-empty: %v", fields))
		// does Clear itself establish nil for a field?
		clearSets := map[string]bool{}
		if clr := ms["Clear"]; clr != nil {
			for _, g := range c.GC(clr).GCs {
				for _, ef := range g.Effects {
					for _, f := range []string{"first", "last"} {
						if storeToField(ef, f) && ef.Args[0].Args[0].String() == "p:0" && ef.Args[1].String() == "#:nil" {
							clearSets[f] = true
						}
					}
				}
			}
		}
		for _, f := range fields {
			var bad []string
			n := 0
			for _, name := range sortedNames(ms) {
				curGC = c.GC(ms[name])
				for _, g := range c.GC(ms[name]).GCs {
					mayEmpty, viaClear := false, false
					for _, ef := range g.Effects {
						if storeToField(ef, "size") && ef.Args[0].Args[0].String() == "p:0" {
							v := ef.Args[1]
							if v.String() == "#:0" {
								mayEmpty = true
							}
							// size-1 can reach 0 only on a path that removes the head (it stores list.first): removing any other
							// element leaves the head in place
							storesFirst := false
							for _, e2 := range g.Effects {
								if storeToField(e2, "first") && e2.Args[0].Args[0].String() == "p:0" {
									storesFirst = true
									// a new head that the path knows to be non-nil: the list is not empty afterwards
									for _, a := range g.Guards {
										if a.Op == "!=" && len(a.Args) == 2 && a.Args[0].String() == "#:nil" && noEpoch(a.Args[1]) == noEpoch(e2.Args[1]) {
											storesFirst = false
										}
									}
								}
							}
							if v.Op == "-" && isListField(v.Args[0], "size") && v.Args[1].String() == "#:1" && storesFirst && !sizeIs(g, "!=", "#:1") && !sizeIs(g, "<", "#:1") {
								mayEmpty = true
							}
						}
						if nm, args, ok := effDo(ef); ok && nm == "Clear" && len(args) == 1 && args[0].String() == "p:0" {
							viaClear = true
						}
					}
					if !mayEmpty {
						continue
					}
					n++
					ok := viaClear && clearSets[f]
					for _, ef := range g.Effects {
						if storeToField(ef, f) && ef.Args[0].Args[0].String() == "p:0" {
							v := ef.Args[1]
							if knownNil(g, v) {
								ok = true
							}
							// moving an end along the chain: first = x.next / last = x.prev is a suffix / prefix of a nil-terminated
							// chain, hence nil when no element is left (chain invariant, maintained by R25 / the append paths)
							along := map[string]string{"first": "next", "last": "prev"}[f]
							if v.Op == "load" && v.Args[0].Op == "fa" && v.Args[0].Leaf == along {
								ok = true
							}
						}
					}
					if !ok {
						bad = append(bad, fmt.Sprintf("%s can leave the list empty without storing nil into list.%s (%s): %s", name, f, req[f], trunc(g.String(), 220)))
					}
				}
			}
			key := tk + "." + f
			if len(bad) > 0 {
				r.bad(key, fmt.Sprintf(clause, f), p.Pos(ct.Obj().Pos()), strings.Join(dedup(bad), "\n"))
			} else {
				r.ok(key, fmt.Sprintf(clause, f), p.Pos(ct.Obj().Pos()), fmt.Sprintf("relied upon because %s; %d emptying path(s), each stores nil", req[f], n))
			}
		}
	}
	return r
}

// parentStoreOfReread: after `ADDR = y`, a later `(load ADDR).Parent = owner` on the same path, with no other store to ADDR in between.
func parentStoreOfReread(s *linkSite) bool {
	g := s.g
	addr := noEpoch(g.Effects[s.idx].Args[0])
	// the re-read link is known nil: nothing to re-parent (versions of loads of ADDR that occur up to and including the
	// store are reads of the old occupant and do not count)
	pre := map[string]bool{}
	for i := 0; i <= s.idx; i++ {
		g.Effects[i].any(func(t *Term) bool {
			if t.Op == "load" && len(t.Args) == 1 && noEpoch(t.Args[0]) == addr {
				pre[t.Leaf] = true
			}
			return false
		})
	}
	for _, a := range g.Guards {
		if a.Op == "==" && a.Args[0].String() == "#:nil" && a.Args[1].Op == "load" && noEpoch(a.Args[1].Args[0]) == addr && !pre[a.Args[1].Leaf] {
			return true
		}
	}
	for i := s.idx + 1; i < len(g.Effects); i++ {
		ef := g.Effects[i]
		if isStore(ef) && noEpoch(ef.Args[0]) == addr {
			return false // the link was overwritten first
		}
		if storeToField(ef, "Parent") {
			obj := ef.Args[0].Args[0]
			if obj.Op == "load" && len(obj.Args) == 1 && noEpoch(obj.Args[0]) == addr && s.owner != nil && noEpoch(ef.Args[1]) == noEpoch(s.owner) {
				return true
			}
		}
	}
	return false
}

// isLinkCursor: the loop variable φ:k.j only ever holds the address of a child link or of the root link.
func isLinkCursor(gc *GCNF, phi *Term) bool {
	var k, j int
	if n, _ := fmt.Sscanf(phi.Leaf, "%d.%d", &k, &j); n != 2 {
		return false
	}
	n := 0
	for _, g := range gc.GCs {
		if g.Exit.Op != "goto" || g.Exit.Leaf != itoa(k) || j >= len(g.Exit.Args) {
			continue
		}
		a := g.Exit.Args[j]
		if a.String() == phi.String() {
			continue
		}
		if !isLinkAddr(a) {
			return false
		}
		n++
	}
	return n > 0
}

func isLinkAddr(a *Term) bool {
	switch {
	case a.Op == "fa" && (a.Leaf == "Left" || a.Leaf == "Right" || a.Leaf == "Root"):
		return true
	case a.Op == "ia" && len(a.Args) == 2 && a.Args[0].Op == "fa" && a.Args[0].Leaf == "Children":
		return true
	}
	return false
}

// linkCursorPairs: on every path into cut k the link variable (slot jl) and the owner variable (slot jo) are assigned
// together: (&tree.Root, nil), (&X.Left|Right, X), (&X.Children[i], X), or both carried over unchanged.
func linkCursorPairs(gc *GCNF, k, jl, jo int) string {
	for _, g := range gc.GCs {
		if g.Exit.Op != "goto" || g.Exit.Leaf != itoa(k) || jl >= len(g.Exit.Args) || jo >= len(g.Exit.Args) {
			continue
		}
		l, o := g.Exit.Args[jl], g.Exit.Args[jo]
		switch {
		case l.Op == "φ" && l.Leaf == fmt.Sprintf("%d.%d", k, jl) && o.Op == "φ" && o.Leaf == fmt.Sprintf("%d.%d", k, jo):
		case l.Op == "fa" && l.Leaf == "Root" && knownNil(g, o):
		case l.Op == "fa" && (l.Leaf == "Left" || l.Leaf == "Right") && sameValue(g, l.Args[0], o):
		case l.Op == "ia" && len(l.Args) == 2 && l.Args[0].Op == "fa" && l.Args[0].Leaf == "Children" && sameValue(g, l.Args[0].Args[0], o):
		default:
			return fmt.Sprintf("the descent continues through link %s with owner %s", trunc(noEpoch(l), 100), trunc(noEpoch(o), 100))
		}
	}
	return ""
}
