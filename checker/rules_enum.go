package main

// rules_enum.go — R17 ENUM (Each/Any/All/Find/Select/Map are loops over the receiver's own iterator) and
// R18 SETALG (Intersection/Union/Difference iterate the right operand and insert under the right membership test).

import (
	"fmt"
	"go/types"
	"strings"

	"golang.org/x/tools/go/ssa"
)

// iterMethodTerm: the epoch-free term of it.<name>() for the iterator term IT (inlined when it is an expression).
func iterMethodTerm(c *Ctx, fn *ssa.Function, itType *types.Named, name string, IT *Term) string {
	m := methodsOf(c.p, itType)[name]
	if m == nil {
		return ""
	}
	st := &pstate{b: &gcBuilder{p: c.p, e: c.E(), fn: fn, cutIdx: map[string]int{}, out: &GCNF{Fn: fn}}, env: map[ssa.Value]*Term{}, onPath: map[string]bool{}, inl: true}
	if t, ok := st.inline(m, []*Term{IT}); ok {
		return noEpoch(t)
	}
	return noEpoch(nodeL("call", c.p.FuncKey(m), leaf("@", ""), IT))
}

// ownIteratorTerm: IT denotes the receiver/operand p:<k>'s own iterator: `(call:<C>.Iterator @ p:k)` directly, or a local
// that the entry path initialises with it.
// ownIteratorTermAt: like ownIteratorTerm, for a loop at cut k — when the iterator variable is assigned on several paths
// (one loop written once over `smaller`, entered with either operand), the assignment on the paths entering this loop counts.
func ownIteratorTermAt(gc *GCNF, IT *Term, k int) (operand string, ok bool) {
	if IT.Op == "new" {
		found, n := "", 0
		for _, g := range gc.GCs {
			if g.From == k || g.Exit.Op != "goto" || g.Exit.Leaf != itoa(k) {
				continue
			}
			for _, ef := range g.Effects {
				if isStore(ef) && ef.Args[0].String() == IT.String() && ef.Args[1].Op == "call" && strings.HasSuffix(ef.Args[1].Leaf, ").Iterator") && len(ef.Args[1].Args) == 2 && ef.Args[1].Args[1].Op == "p" {
					if found != "" && found != ef.Args[1].Args[1].Leaf {
						return "", false
					}
					found = ef.Args[1].Args[1].Leaf
					n++
				}
			}
		}
		if n > 0 {
			return found, true
		}
	}
	return ownIteratorTerm(gc, IT)
}

func ownIteratorTerm(gc *GCNF, IT *Term) (operand string, ok bool) {
	isIterCall := func(t *Term) (string, bool) {
		if t.Op == "call" && strings.HasSuffix(t.Leaf, ").Iterator") && len(t.Args) == 2 && t.Args[1].Op == "p" {
			return t.Args[1].Leaf, true
		}
		return "", false
	}
	if k, ok := isIterCall(IT); ok {
		return k, true
	}
	if IT.Op == "viter" {
		return IT.Leaf, true
	}
	if IT.Op == "new" {
		found := ""
		n := 0
		for _, g := range gc.GCs {
			for _, ef := range g.Effects {
				if isStore(ef) && ef.Args[0].String() == IT.String() {
					n++
					if k, ok := isIterCall(ef.Args[1]); ok {
						found = k
					} else {
						return "", false
					}
				}
			}
		}
		if n >= 1 && found != "" {
			return found, true
		}
	}
	return "", false
}

// asIndexLoop recognises `for i := 0; i < Size(); i++ { … storage[i] … }` over the receiver: one loop variable that starts at
// 0 and advances by one, every round guarded by i < Size() (the container's own size term, re-read each round) and the
// exhausted path by Size() <= i. It returns the normal form rewritten as a loop over a virtual iterator (each round begins
// with `do:<Next> viter:0`, tested positively / negatively) together with the terms that stand for Index() and Value():
// the loop variable, and the iterator's own Value() expression with its index field read as the loop variable and its owner
// field as the receiver.
func asIndexLoop(c *Ctx, ct, itType *types.Named, fn *ssa.Function, gc *GCNF, ownNext string) (*GCNF, string, string, bool) {
	for _, g := range gc.GCs {
		for _, ef := range g.Effects {
			if ef.Op == "do" && strings.HasSuffix(ef.Leaf, ").Next") {
				return nil, "", "", false // a real iterator is used
			}
		}
	}
	var entry *GC
	for _, g := range gc.GCs {
		if g.From == 0 {
			if entry != nil {
				return nil, "", "", false
			}
			entry = g
		}
	}
	if entry == nil || entry.Exit.Op != "goto" {
		return nil, "", "", false
	}
	k := entry.Exit.Leaf
	// the loop variable: the φ that starts at 0 and is compared with the size
	sizeT := returnTerm(c.GC(methodsOf(c.p, ct)["Size"]))
	if sizeT == nil {
		return nil, "", "", false
	}
	S := sizeT.String()
	j := -1
	for i, a := range entry.Exit.Args {
		if a.String() == "#:0" {
			phi := "φ:" + k + "." + itoa(i)
			for _, g := range gc.GCs {
				for _, at := range g.Guards {
					if at.Op == "<" && len(at.Args) == 2 && at.Args[0].String() == phi && noEpoch(at.Args[1]) == S {
						j = i
					}
				}
			}
		}
	}
	if j < 0 {
		return nil, "", "", false
	}
	phi := "φ:" + k + "." + itoa(j)
	ownerF, _ := iterOwner(c.p, itType)
	if ownerF == "" || !hasIntField(itType, "index") {
		return nil, "", "", false
	}
	// Value() of the iterator with index := φ, owner := receiver
	vm := methodsOf(c.p, itType)["Value"]
	if vm == nil {
		return nil, "", "", false
	}
	stt := &pstate{b: &gcBuilder{p: c.p, e: c.E(), fn: fn, cutIdx: map[string]int{}, out: &GCNF{Fn: fn}}, env: map[ssa.Value]*Term{}, onPath: map[string]bool{}, inl: true}
	IT := leaf("ITER", "")
	vt, ok := stt.inline(vm, []*Term{IT})
	if !ok {
		return nil, "", "", false
	}
	vt = stripEpochs(vt)
	bad := false
	vt = rewriteTerm(vt, func(t *Term) *Term {
		if t.Op == "load" && len(t.Args) == 1 && t.Args[0].Op == "fa" && len(t.Args[0].Args) == 1 && t.Args[0].Args[0].Op == "ITER" {
			switch t.Args[0].Leaf {
			case "index":
				return leaf("φ", k+"."+itoa(j))
			case ownerF:
				return leaf("p", "0")
			}
			bad = true
		}
		return nil
	})
	if bad || vt.any(func(t *Term) bool { return t.Op == "ITER" }) {
		return nil, "", "", false
	}
	out := &GCNF{Fn: gc.Fn, NumPaths: gc.NumPaths, Cuts: gc.Cuts}
	vit := leaf("viter", "0")
	next := nodeL("do", ownNext, vit)
	for _, g := range gc.GCs {
		if g == entry {
			out.GCs = append(out.GCs, g)
			continue
		}
		if itoa(g.From) != k {
			return nil, "", "", false
		}
		n := &GC{From: g.From, Pos: g.Pos, Exit: g.Exit}
		stepped := 0
		for _, at := range g.Guards {
			switch {
			case at.Op == "<" && len(at.Args) == 2 && at.Args[0].String() == phi && noEpoch(at.Args[1]) == S:
				stepped = 1
			case at.Op == "<=" && len(at.Args) == 2 && noEpoch(at.Args[0]) == S && at.Args[1].String() == phi:
				stepped = -1
			default:
				n.Guards = append(n.Guards, at)
			}
		}
		switch stepped {
		case 1:
			n.Guards = append(n.Guards, nodeL("res", "", next))
			// the loop variable must advance by exactly one on a continuing round
			if g.Exit.Op == "goto" {
				if g.Exit.Leaf != k || j >= len(g.Exit.Args) || g.Exit.Args[j].String() != "(+ #:1 "+phi+")" {
					return nil, "", "", false
				}
			}
		case -1:
			n.Guards = append(n.Guards, node("!", nodeL("res", "", next)))
		default:
			return nil, "", "", false
		}
		n.Effects = append([]*Term{next}, g.Effects...)
		out.GCs = append(out.GCs, n)
	}
	return out, phi, vt.String(), true
}

func enumerableTypes(p *Prog) []*types.Named {
	var out []*types.Named
	for _, ct := range p.T.Containers {
		ms := methodsOf(p, ct)
		if ms["Each"] != nil && ms["Any"] != nil && ms["All"] != nil && ms["Find"] != nil {
			out = append(out, ct)
		}
	}
	return out
}

func isConstTerm(t *Term) bool { return t.Op == "#" }

func ruleR17(c *Ctx) *RuleResult {
	p := c.p
	r := &RuleResult{Rule: "R17", Title: "ENUM: enumerable functions are loops over the receiver's own iterator", Floor: 48}
	clause := "the function obtains one iterator of the receiver, calls Next() once per round, hands f exactly (Index()|Key(), Value()) of the current position and reacts as specified (Each: nothing; Any/All: first hit/miss decides; Find: returns the current pair; Select: inserts the current pair iff f; Map: inserts f's result) into a container built with the receiver's comparator(s)"
	for _, ct := range enumerableTypes(p) {
		ms := methodsOf(p, ct)
		itf := ms["Iterator"]
		if itf == nil {
			continue
		}
		itType := namedOf(itf.Signature.Results().At(0).Type())
		keyed := methodsOf(p, itType)["Key"] != nil && methodsOf(p, itType)["Index"] == nil
		keyName := "Index"
		if keyed {
			keyName = "Key"
		}
		for _, name := range []string{"Each", "Any", "All", "Find", "Select", "Map"} {
			fn := ms[name]
			if fn == nil {
				continue
			}
			key := p.FuncKey(fn)
			if name == "Select" {
				if facts, bad, ok := selectOverNextTo(c, ct, itType, fn, keyName, keyed); ok {
					if len(bad) > 0 {
						r.bad(key, clause, p.FuncPos(fn), strings.Join(dedup(bad), "\n"))
					} else {
						r.ok(key, clause, p.FuncPos(fn), facts)
					}
					continue
				}
			}
			if name != "Select" && name != "Map" {
				if facts, ok := delegatedEnumerable(c, ct, itType, fn, name, keyName); ok {
					r.ok(key, clause, p.FuncPos(fn), facts)
					continue
				}
			}
			// an enumerable function may be written in terms of the iterator's NextTo or of a sibling (All = !Any(!f)):
			// those bodies are expanded in place, so the rule still sees the loop that actually runs
			gc := c.GCWith(fn, BuildOpts{Tag: "R17", Inline: func(callee *ssa.Function) bool {
				recv := callee.Signature.Recv()
				if recv == nil {
					return false
				}
				switch rt := namedOf(recv.Type()); {
				case rt == nil:
					return false
				case p.TypeKey(rt) == p.TypeKey(itType):
					return callee.Name() == "NextTo"
				case p.TypeKey(rt) == p.TypeKey(ct):
					switch callee.Name() {
					case "Each", "Any", "All", "Find":
						return callee.Name() != name
					}
				}
				return false
			}})
			if gc.Undecided != "" {
				r.undecided(key, clause, p.FuncPos(fn), gc.Undecided)
				continue
			}
			bad := checkEnum(c, ct, itType, fn, gc, name, keyName, keyed)
			if len(bad) > 0 {
				r.bad(key, clause, p.FuncPos(fn), strings.Join(dedup(bad), "\n"))
			} else {
				r.ok(key, clause, p.FuncPos(fn), fmt.Sprintf("%d guarded commands match the canonical %s loop over the own iterator", len(gc.GCs), name))
			}
		}
	}
	return r
}

func checkEnum(c *Ctx, ct, itType *types.Named, fn *ssa.Function, gc *GCNF, name, keyName string, keyed bool) []string {
	p := c.p
	var bad []string
	ownNext := p.RelPkg(itType.Obj().Pkg().Path()) + ".(*" + itType.Obj().Name() + ").Next"
	var IT *Term
	var result *Term // the container under construction (Select/Map)
	// a container whose iterator is an index into storage may be enumerated by the same index loop written out
	// (`for i := 0; i < Size(); i++ { f(i, storage[i]) }`): read as a loop over a virtual own iterator
	vkT, vvT := "", ""
	if !keyed {
		if g2, k, v, ok := asIndexLoop(c, ct, itType, fn, gc, ownNext); ok {
			gc, vkT, vvT = g2, k, v
		}
	}
	// entry region
	nEntry := 0
	for _, g := range gc.GCs {
		if g.From != 0 {
			continue
		}
		nEntry++
		if g.Exit.Op != "goto" {
			bad = append(bad, "the entry path does not lead into the loop")
		}
		for _, ef := range g.Effects {
			if ef.Op == "dyn" || ef.Op == "do" {
				bad = append(bad, "work before the loop: "+trunc(ef.String(), 160))
			}
		}
	}
	if nEntry != 1 {
		bad = append(bad, fmt.Sprintf("expected one entry path, found %d", nEntry))
	}
	nDone, nStep := 0, 0
	for _, g := range gc.GCs {
		if g.From == 0 {
			continue
		}
		if len(g.Effects) == 0 || g.Effects[0].Op != "do" || g.Effects[0].Leaf != ownNext || len(g.Effects[0].Args) != 1 {
			bad = append(bad, "a loop round does not start with Next() of the container's iterator type")
			continue
		}
		if IT == nil {
			IT = g.Effects[0].Args[0]
			if op, ok := ownIteratorTerm(gc, IT); !ok || op != "0" {
				bad = append(bad, "the iterator is not obtained from the receiver's own Iterator(): "+trunc(IT.String(), 160))
			}
		} else if g.Effects[0].Args[0].String() != IT.String() {
			bad = append(bad, "two different iterators are advanced")
		}
		kT := iterMethodTerm(c, fn, itType, keyName, IT)
		vT := iterMethodTerm(c, fn, itType, "Value", IT)
		if IT.Op == "viter" {
			kT, vT = vkT, vvT
		}
		stepped := 0
		var called *Term
		calledPol := false
		for _, a := range g.Guards {
			x, pol := a, true
			if x.Op == "!" {
				x, pol = x.Args[0], false
			}
			if x.Op == "res" && x.Args[0].String() == g.Effects[0].String() {
				if pol {
					stepped = 1
				} else {
					stepped = -1
				}
			}
			if x.Op == "dyn" && x.Args[0].String() == "p:1" {
				called, calledPol = x, pol
			}
		}
		// calls to f and insertions on this round
		var dyns, inserts []*Term
		for _, ef := range g.Effects[1:] {
			switch {
			case ef.Op == "dyn":
				dyns = append(dyns, ef)
			case ef.Op == "do":
				inserts = append(inserts, ef)
			case isStore(ef) && ef.Args[0].Op == "ia" && ef.Args[0].Args[0].Op == "new":
				// varargs packing
			default:
				bad = append(bad, "unexpected effect in the loop: "+trunc(ef.String(), 160))
			}
		}
		argsOK := func(d *Term) {
			if len(d.Args) != 3 || d.Args[0].String() != "p:1" {
				bad = append(bad, "f is not called with exactly (index|key, value)")
				return
			}
			if noEpoch(d.Args[1]) != kT {
				bad = append(bad, "the first argument of f is not the iterator's current "+keyName+"(): "+trunc(noEpoch(d.Args[1]), 120))
			}
			if noEpoch(d.Args[2]) != vT {
				bad = append(bad, "the second argument of f is not the iterator's current Value(): "+trunc(noEpoch(d.Args[2]), 120))
			}
		}
		if stepped == -1 {
			nDone++
			if len(dyns) > 0 || len(inserts) > 0 {
				bad = append(bad, "f / an insertion runs after the iterator is exhausted")
			}
			if g.Exit.Op != "return" {
				bad = append(bad, "the loop does not return when the iterator is exhausted")
				continue
			}
			ra := g.Exit.Args
			switch name {
			case "Each":
				if len(ra) != 0 {
					bad = append(bad, "Each returns a value")
				}
			case "Any":
				if len(ra) != 1 || ra[0].String() != "#:false" {
					bad = append(bad, "Any must return false when no element matched")
				}
			case "All":
				if len(ra) != 1 || ra[0].String() != "#:true" {
					bad = append(bad, "All must return true when every element matched")
				}
			case "Find":
				if len(ra) != 2 || !isConstTerm(ra[0]) || !isConstTerm(ra[1]) || (!keyed && ra[0].String() != "#:-1") {
					bad = append(bad, "Find must return (-1|zero, zero) when nothing matched, found "+g.Exit.String())
				}
			case "Select", "Map":
				if len(ra) != 1 {
					bad = append(bad, name+" must return the new container")
				} else {
					result = ra[0]
				}
			}
			continue
		}
		if stepped != 1 {
			bad = append(bad, "a loop path does not test the result of Next()")
			continue
		}
		nStep++
		if !keyed {
			// after Next() returned true an index cursor is inside 0..n-1 (R14move): comparing Index() with the not-found
			// index -1 is decided (`Any = Find(f) index != -1`)
			g = rewriteGC(g, func(t *Term) *Term {
				if (t.Op == "!=" || t.Op == "==") && len(t.Args) == 2 {
					for _, pr := range [][2]*Term{{t.Args[0], t.Args[1]}, {t.Args[1], t.Args[0]}} {
						if pr[0].String() == "#:-1" && noEpoch(pr[1]) == kT {
							return boolConst(t.Op == "!=")
						}
					}
				}
				if t.Op == "!" && len(t.Args) == 1 && (t.Args[0].Op == "!=" || t.Args[0].Op == "==") && len(t.Args[0].Args) == 2 {
					in := t.Args[0]
					for _, pr := range [][2]*Term{{in.Args[0], in.Args[1]}, {in.Args[1], in.Args[0]}} {
						if pr[0].String() == "#:-1" && noEpoch(pr[1]) == kT {
							return boolConst(in.Op == "==")
						}
					}
				}
				return nil
			})
		}
		if len(dyns) != 1 {
			bad = append(bad, fmt.Sprintf("f is called %d times in one round", len(dyns)))
			continue
		}
		argsOK(dyns[0])
		hit := called != nil && calledPol
		miss := called != nil && !calledPol
		insertOK := func(want []string) {
			if len(inserts) != 1 {
				bad = append(bad, fmt.Sprintf("%d insertions in one round (expected 1)", len(inserts)))
				return
			}
			ins := inserts[0]
			nm, args, _ := effDo(ins)
			if (nm != "Add" && nm != "Put") || len(args) < 2 {
				bad = append(bad, "the new container is not filled through Add/Put: "+trunc(ins.String(), 120))
				return
			}
			var got []string
			if nm == "Add" {
				idx := 0
				for i, e := range g.Effects {
					if e == ins {
						idx = i
					}
				}
				el := varargElem(g.Effects, idx, args[1])
				if el == nil {
					bad = append(bad, "Add with more than the current element")
					return
				}
				got = []string{noEpoch(el)}
			} else {
				for _, a := range args[1:] {
					got = append(got, noEpoch(a))
				}
			}
			if strings.Join(got, " | ") != strings.Join(want, " | ") {
				bad = append(bad, fmt.Sprintf("%s inserts %s, expected %s", name, trunc(strings.Join(got, " | "), 200), trunc(strings.Join(want, " | "), 200)))
			}
			if result == nil {
				result = args[0]
			} else if noEpoch(args[0]) != noEpoch(result) {
				bad = append(bad, "insertion into something other than the returned container")
			}
		}
		if (name == "Each" || name == "Any" || name == "All" || name == "Find") && len(inserts) != 0 {
			bad = append(bad, name+" does more than call f in a round: "+trunc(inserts[0].String(), 160))
		}
		switch name {
		case "Each":
			if called != nil || g.Exit.Op != "goto" || len(inserts) != 0 {
				bad = append(bad, "Each must call f and continue unconditionally")
			}
		case "Any":
			if (hit && g.Exit.String() != "(return #:true)") || (miss && g.Exit.Op != "goto") || called == nil {
				bad = append(bad, "Any must return true at the first hit and continue otherwise")
			}
		case "All":
			if (miss && g.Exit.String() != "(return #:false)") || (hit && g.Exit.Op != "goto") || called == nil {
				bad = append(bad, "All must return false at the first miss and continue otherwise")
			}
		case "Find":
			if called == nil || (miss && g.Exit.Op != "goto") {
				bad = append(bad, "Find must continue after a miss")
			}
			if hit {
				if g.Exit.Op != "return" || len(g.Exit.Args) != 2 || noEpoch(g.Exit.Args[0]) != kT || noEpoch(g.Exit.Args[1]) != vT {
					bad = append(bad, "Find must return the iterator's current ("+keyName+"(), Value()) at the first hit")
				}
			}
		case "Select":
			if called == nil || g.Exit.Op != "goto" {
				bad = append(bad, "Select must test f and continue")
			}
			if hit {
				if keyed {
					insertOK([]string{kT, vT})
				} else {
					insertOK([]string{vT})
				}
			}
			if miss && len(inserts) != 0 {
				bad = append(bad, "Select inserts an element f rejected")
			}
		case "Map":
			if called != nil || g.Exit.Op != "goto" {
				bad = append(bad, "Map must insert f's result and continue unconditionally")
			}
			d := noEpoch(dyns[0])
			if keyed {
				insertOK([]string{"(ext:0 " + d + ")", "(ext:1 " + d + ")"})
			} else {
				insertOK([]string{d})
			}
		}
	}
	if nDone != 1 {
		bad = append(bad, fmt.Sprintf("expected one exhausted-iterator path, found %d", nDone))
	}
	if nStep == 0 {
		bad = append(bad, "no loop round found")
	}
	// the derived container is built with the receiver's comparator(s) in role order
	if (name == "Select" || name == "Map") && result != nil {
		bad = append(bad, checkDerivedConstructor(c, ct, gc, result)...)
	}
	return bad
}

// comparatorPaths: the receiver's comparator fields as terms, in the order the constructor takes them.
func comparatorPaths(p *Prog, ct *types.Named) []string {
	var out []string
	st := ct.Underlying().(*types.Struct)
	for i := 0; i < st.NumFields(); i++ {
		f := st.Field(i)
		inner := namedOf(f.Type())
		if inner == nil {
			continue
		}
		ist, ok := inner.Underlying().(*types.Struct)
		if !ok {
			continue
		}
		for j := 0; j < ist.NumFields(); j++ {
			if ist.Field(j).Name() == "Comparator" {
				_, isPtr := types.Unalias(f.Type()).(*types.Pointer)
				if isPtr {
					out = append(out, "(load (fa:Comparator (load (fa:"+fieldN(ct, i)+" p:0))))")
				} else {
					out = append(out, "(load (fa:Comparator (fa:"+fieldN(ct, i)+" p:0)))")
				}
			}
		}
	}
	return out
}

func checkDerivedConstructor(c *Ctx, ct *types.Named, gc *GCNF, result *Term) []string {
	p := c.p
	want := comparatorPaths(p, ct)
	// collect every comparator-typed argument that reaches the construction of `result`
	var got []string
	collectCall := func(t *Term) {
		if t.Op == "call" && (strings.HasSuffix(t.Leaf, ".NewWith") || strings.HasSuffix(t.Leaf, ".New")) {
			for _, a := range t.Args[1:] {
				s := noEpoch(a)
				if strings.Contains(s, "fa:Comparator") {
					got = append(got, s)
				}
			}
		}
	}
	if result.Op == "call" {
		collectCall(result)
	} else if result.Op == "new" {
		for _, g := range gc.GCs {
			for _, ef := range g.Effects {
				if isStore(ef) && ef.Args[0].Op == "fa" && ef.Args[0].Args[0].String() == result.String() {
					ef.Args[1].any(func(t *Term) bool { collectCall(t); return false })
				}
			}
		}
	} else {
		return []string{"the returned container is not freshly constructed: " + trunc(result.String(), 120)}
	}
	if len(want) == 0 {
		return nil
	}
	if strings.Join(got, " | ") != strings.Join(want, " | ") {
		return []string{fmt.Sprintf("the derived container is constructed with comparator(s) %s, expected the receiver's %s in this order", trunc(strings.Join(got, " | "), 260), strings.Join(want, " | "))}
	}
	return nil
}

// ---- R18 ----

type loopDesc struct {
	cut     int
	operand string // "0" / "1"
	elem    string
	// adds[membership] : "in", "notin", "untested" → does the round add the element?
	adds    map[string]bool
	bad     []string
	exits   []*GC // exhausted-iterator paths
}

func ruleR18(c *Ctx) *RuleResult {
	p := c.p
	r := &RuleResult{Rule: "R18", Title: "SETALG: Intersection/Union/Difference iterate the right operand and insert under the right membership test", Floor: 9}
	clause := "Intersection adds an element of the iterated operand iff the other operand contains it (both arms), Union adds every element of both operands, Difference adds an element of the receiver iff the argument does not contain it; the result is a fresh set (TreeSet: with the operands' comparator, and only after the comparators were found identical)"
	for _, ct := range p.T.Containers {
		ms := methodsOf(p, ct)
		if ms["Intersection"] == nil {
			continue
		}
		for _, name := range []string{"Intersection", "Union", "Difference"} {
			fn := ms[name]
			if fn == nil {
				continue
			}
			key := p.FuncKey(fn)
			gc := c.GC(fn)
			if gc.Undecided != "" {
				r.undecided(key, clause, p.FuncPos(fn), gc.Undecided)
				continue
			}
			bad, facts := checkSetAlg(c, ct, fn, gc, name)
			if len(bad) > 0 {
				r.bad(key, clause, p.FuncPos(fn), strings.Join(dedup(bad), "\n"))
			} else {
				r.ok(key, clause, p.FuncPos(fn), facts)
			}
		}
	}
	return r
}

// unrollOperandArray: `for _, s := range [2]*Set{a, b} { it := s.Iterator(); <inner loop over it> }` rewritten as the two
// consecutive loops it stands for. Recognised strictly: the entry path stores two parameters into a fresh array and enters
// outer cut A with counter -1; A's continuing path (guard counter+1 < 2) only creates the iterator from the array element
// at counter+1 and enters inner cut B; A's other path (2 <= counter+1) returns; every path that leaves B re-enters A with
// counter+1. The result has cut B twice (once per operand), the second entered from the first one's exhausted path and
// returning where A returned. Returns nil when the shape is not this.
func unrollOperandArray(gc *GCNF) *GCNF {
	var entry *GC
	var arr string
	elems := map[int]string{}
	for _, g := range gc.GCs {
		if g.From != 0 || g.Exit.Op != "goto" || len(g.Exit.Args) != 1 || g.Exit.Args[0].String() != "#:-1" {
			continue
		}
		n := 0
		for _, ef := range g.Effects {
			if isStore(ef) && ef.Args[0].Op == "ia" && ef.Args[0].Args[0].Op == "new" && strings.HasPrefix(ef.Args[0].Args[0].Leaf, "complit") && ef.Args[1].Op == "p" {
				if k, ok := ef.Args[0].Args[1].constInt(); ok {
					arr = ef.Args[0].Args[0].String()
					elems[int(k)] = ef.Args[1].String()
					n++
				}
			}
		}
		if n == 2 && len(elems) == 2 {
			entry = g
		}
	}
	if entry == nil || elems[0] == "" || elems[1] == "" || elems[0] == elems[1] {
		return nil
	}
	A := atoiOr(entry.Exit.Leaf, -1)
	phiA := "φ:" + itoa(A) + ".0"
	next := "(+ #:1 " + phiA + ")"
	var cont, ret *GC
	for _, g := range gc.GCs {
		if g.From != A {
			continue
		}
		switch {
		case len(g.Guards) == 1 && g.Guards[0].String() == "(< "+next+" #:2)" && g.Exit.Op == "goto" && g.Exit.Leaf != itoa(A):
			cont = g
		case len(g.Guards) == 1 && g.Guards[0].String() == "(<= #:2 "+next+")" && g.Exit.Op == "return" && len(g.Effects) == 0:
			ret = g
		default:
			return nil
		}
	}
	if cont == nil || ret == nil {
		return nil
	}
	B := atoiOr(cont.Exit.Leaf, -1)
	// the continuing path: only the iterator creation from the current array element (plus calls on that iterator)
	elemTerm := "(index (load " + arr + ") " + next + ")"
	for _, ef := range cont.Effects {
		if isStore(ef) && ef.Args[0].Op == "new" && ef.Args[1].Op == "call" && strings.HasSuffix(ef.Args[1].Leaf, ").Iterator") && len(ef.Args[1].Args) == 2 && noEpoch(ef.Args[1].Args[1]) == elemTerm {
			continue
		}
		if ef.Op == "do" && len(ef.Args) >= 1 && ef.Args[0].Op == "new" {
			continue
		}
		return nil
	}
	// nothing else may mention the outer counter or the array
	for _, g := range gc.GCs {
		if g.From == A || g == entry {
			continue
		}
		mentions := false
		chk := func(t *Term) bool {
			if (t.Op == "φ" && t.String() == phiA) || t.String() == arr {
				mentions = true
			}
			return false
		}
		for _, a := range g.Guards {
			a.any(chk)
		}
		for _, ef := range g.Effects {
			ef.any(chk)
		}
		if g.Exit.Op == "goto" && g.Exit.Leaf == itoa(A) {
			if g.From != B || len(g.Exit.Args) != 1 || noEpoch(g.Exit.Args[0]) != next {
				return nil
			}
		} else {
			g.Exit.any(chk)
		}
		if mentions {
			return nil
		}
	}
	inst := func(t *Term, i int) *Term {
		return rewriteTerm(t, func(x *Term) *Term {
			if x.Op == "index" && noEpoch(x) == elemTerm {
				return leaf("p", strings.TrimPrefix(elems[i], "p:"))
			}
			return nil
		})
	}
	out := &GCNF{Fn: gc.Fn, Cuts: gc.Cuts, NumPaths: gc.NumPaths}
	B2 := 90 // the second instance of the inner cut
	create := func(i int) []*Term {
		var efs []*Term
		for _, ef := range cont.Effects {
			efs = append(efs, inst(ef, i))
		}
		return efs
	}
	retarget := func(t *Term, from, to int) *Term { // goto:from → goto:to
		if t.Op == "goto" && t.Leaf == itoa(from) {
			return nodeL("goto", itoa(to), t.Args...)
		}
		return t
	}
	for _, g := range gc.GCs {
		switch {
		case g == entry:
			var efs []*Term
			for _, ef := range g.Effects {
				if isStore(ef) && ef.Args[0].Op == "ia" && ef.Args[0].Args[0].String() == arr {
					continue
				}
				efs = append(efs, ef)
			}
			out.GCs = append(out.GCs, &GC{From: 0, Guards: g.Guards, Effects: append(efs, create(0)...), Exit: nodeL("goto", itoa(B), cont.Exit.Args...), Pos: g.Pos})
		case g.From == A:
			// dissolved
		case g.From == B:
			for i, b := range []int{B, B2} {
				ng := &GC{From: b, Guards: g.Guards, Effects: g.Effects, Exit: g.Exit, Pos: g.Pos}
				if g.Exit.Op == "goto" && g.Exit.Leaf == itoa(A) {
					if i == 0 {
						ng.Effects = append(append([]*Term(nil), g.Effects...), create(1)...)
						ng.Exit = nodeL("goto", itoa(B2), cont.Exit.Args...)
					} else {
						ng.Exit = ret.Exit
					}
				} else {
					ng.Exit = retarget(g.Exit, B, b)
				}
				out.GCs = append(out.GCs, ng)
			}
		default:
			out.GCs = append(out.GCs, g)
		}
	}
	return out
}

func checkSetAlg(c *Ctx, ct *types.Named, fn *ssa.Function, gc *GCNF, name string) ([]string, string) {
	p := c.p
	if u := unrollOperandArray(gc); u != nil {
		gc = u
	}
	var bad []string
	itf := methodsOf(p, ct)["Iterator"]
	var itType *types.Named
	if itf != nil {
		itType = namedOf(itf.Signature.Results().At(0).Type())
	}
	// the inner operations that the set's own Add / Contains are (delegation table R20): calling them on the operand's /
	// the result's inner container directly is the same membership test / insertion
	innerAdd, innerHas := [2]string{}, [2]string{}
	for _, ro := range roleTable {
		if ro.tk == p.TypeKey(ct) && ro.field != "" {
			switch ro.method {
			case "Add":
				innerAdd = [2]string{ro.field, ro.callee}
			case "Contains":
				innerHas = [2]string{ro.field, ro.callee}
			}
		}
	}
	innerOn := func(recv *Term, field string) (*Term, bool) { // recv = (load (fa:<field> X)) → X
		if field != "" && recv.Op == "load" && len(recv.Args) == 1 && recv.Args[0].Op == "fa" && recv.Args[0].Leaf == field && len(recv.Args[0].Args) == 1 {
			return recv.Args[0].Args[0], true
		}
		return nil, false
	}
	// a set whose Add is one Go-map assignment per argument: the field it assigns into
	addMapField := ""
	if add := methodsOf(p, ct)["Add"]; add != nil {
		for _, g := range c.GC(add).GCs {
			for _, ef := range g.Effects {
				if ef.Op == "mapset" && len(ef.Args) == 3 {
					if ef.Args[0].Op == "load" && len(ef.Args[0].Args) == 1 && ef.Args[0].Args[0].Op == "fa" && ef.Args[0].Args[0].Args[0].String() == "p:0" {
						addMapField = ef.Args[0].Args[0].Leaf
					}
				} else if isStore(ef) || ef.Op == "do" {
					addMapField = "-" // Add does more than the map assignment (a linked set): writing the assignment out is not Add
				}
			}
		}
		if addMapField == "-" {
			addMapField = ""
		}
	}
	loops := map[int]*loopDesc{}
	var result string
	setResult := func(t *Term) {
		s := noEpoch(t)
		if result == "" {
			result = s
		} else if result != s {
			bad = append(bad, "more than one result object: "+trunc(s, 120)+" vs "+trunc(result, 120))
		}
	}
	for _, g := range gc.GCs {
		if g.From == 0 {
			continue
		}
		ld := loops[g.From]
		if ld == nil {
			ld = &loopDesc{cut: g.From, adds: map[string]bool{}}
			loops[g.From] = ld
		}
		if len(g.Effects) == 0 {
			ld.bad = append(ld.bad, "a loop round without a step")
			continue
		}
		// driver
		first := g.Effects[0]
		var elem string
		operand := ""
		var stepRes *Term
		switch {
		case first.Op == "advance" && first.Args[0].Op == "range":
			first.Args[0].any(func(t *Term) bool {
				if t.Op == "p" {
					operand = t.Leaf
				}
				return false
			})
			nx := nodeL("next", "", first.Args[0])
			elem = noEpoch(nodeL("ext", "1", nx))
			stepRes = nodeL("ext", "0", nx)
		case first.Op == "do" && strings.HasSuffix(first.Leaf, ").Next") && itType != nil:
			op, ok := ownIteratorTermAt(gc, first.Args[0], g.From)
			if !ok {
				// the iterator of the operand's inner container, which the set's own iterator wraps
				if op2, el2, ok2 := innerIteratorDriver(c, fn, ct, itType, first); ok2 {
					operand, elem, stepRes = op2, el2, nodeL("res", "", first)
					break
				}
				ld.bad = append(ld.bad, "the loop does not advance an operand's own iterator")
				continue
			}
			operand = op
			elem = iterMethodTerm(c, fn, itType, "Value", first.Args[0])
			stepRes = nodeL("res", "", first)
		default:
			ld.bad = append(ld.bad, "unrecognised loop driver "+trunc(first.String(), 120))
			continue
		}
		if ld.operand == "" {
			ld.operand, ld.elem = operand, elem
		} else if ld.operand != operand || ld.elem != elem {
			ld.bad = append(ld.bad, "inconsistent loop driver")
		}
		other := "1"
		if operand == "1" {
			other = "0"
		}
		// did the step succeed?
		stepped := 0
		member := "untested"
		for _, a := range g.Guards {
			x, pol := a, true
			if x.Op == "!" {
				x, pol = x.Args[0], false
			}
			if noEpoch(x) == noEpoch(stepRes) {
				if pol {
					stepped = 1
				} else {
					stepped = -1
				}
				continue
			}
			// membership of elem in the other operand
			isMember := false
			if x.Op == "ext" && x.Leaf == "1" && x.Args[0].Op == "lookup" {
				rc, k := lookupParts(x.Args[0])
				if rc.any(func(t *Term) bool { return t.Op == "p" && t.Leaf == other }) && noEpoch(k) == elem {
					isMember = true
				} else {
					ld.bad = append(ld.bad, "membership test on the wrong operand or element: "+trunc(noEpoch(x), 160))
				}
			}
			if x.Op == "call" && strings.HasSuffix(x.Leaf, ").Contains") && len(x.Args) == 3 {
				el := varargElemAll(g.Effects, x.Args[2])
				if x.Args[1].String() == "p:"+other && el != nil && noEpoch(el) == elem {
					isMember = true
				} else {
					ld.bad = append(ld.bad, "Contains on the wrong operand or element: "+trunc(noEpoch(x), 160))
				}
			}
			if x.Op == "ext" && x.Leaf == "1" && x.Args[0].Op == "call" && innerHas[1] != "" && strings.HasSuffix(x.Args[0].Leaf, ")."+innerHas[1]) && len(x.Args[0].Args) == 3 {
				if owner, ok := innerOn(x.Args[0].Args[1], innerHas[0]); ok {
					if owner.String() == "p:"+other && noEpoch(x.Args[0].Args[2]) == elem {
						isMember = true
					} else {
						ld.bad = append(ld.bad, "membership test on the wrong operand or element: "+trunc(noEpoch(x), 160))
					}
				}
			}
			if isMember {
				if pol {
					member = "in"
				} else {
					member = "notin"
				}
			}
		}
		if stepped == -1 {
			ld.exits = append(ld.exits, g)
			continue
		}
		if stepped != 1 {
			ld.bad = append(ld.bad, "a loop round does not test whether the step succeeded")
			continue
		}
		added := false
		for i, ef := range g.Effects {
			if ef.Op == "mapset" && len(ef.Args) == 3 && addMapField != "" && i > 0 {
				// the set's own Add is this map assignment (R24): writing it out is the same insertion
				if owner, ok := innerOn(ef.Args[0], addMapField); ok {
					if noEpoch(ef.Args[1]) != elem {
						ld.bad = append(ld.bad, "the loop adds something other than the current element")
					}
					setResult(owner)
					added = true
					continue
				}
			}
			if nm, args, ok := effDo(ef); ok && i > 0 {
				if nm == innerAdd[1] && innerAdd[1] != "" && len(args) >= 2 {
					if owner, ok := innerOn(args[0], innerAdd[0]); ok {
						if noEpoch(args[1]) != elem {
							ld.bad = append(ld.bad, "the loop adds something other than the current element")
						}
						setResult(owner)
						added = true
						continue
					}
				}
				if nm != "Add" || len(args) != 2 {
					ld.bad = append(ld.bad, "unexpected call in the loop: "+trunc(ef.String(), 120))
					continue
				}
				el := varargElem(g.Effects, i, args[1])
				if el == nil || noEpoch(el) != elem {
					ld.bad = append(ld.bad, "the loop adds something other than the current element")
				}
				setResult(args[0])
				added = true
			}
		}
		if prev, seen := ld.adds[member]; seen && prev != added {
			ld.bad = append(ld.bad, "the same membership outcome both adds and skips")
		}
		ld.adds[member] = added
		if g.Exit.Op != "goto" || g.Exit.Leaf != itoa(g.From) {
			ld.bad = append(ld.bad, "a loop round does not continue the same loop")
		}
	}
	var descs []string
	byOperand := map[string][]*loopDesc{}
	for _, ld := range loops {
		bad = append(bad, ld.bad...)
		byOperand[ld.operand] = append(byOperand[ld.operand], ld)
		descs = append(descs, fmt.Sprintf("loop over operand %s adds %v", ld.operand, ld.adds))
	}
	eq := func(m map[string]bool, want map[string]bool) bool {
		if len(m) != len(want) {
			return false
		}
		for k, v := range want {
			if mv, ok := m[k]; !ok || mv != v {
				return false
			}
		}
		return true
	}
	exitsTo := func(ld *loopDesc) (returns bool, gotos []string) {
		for _, g := range ld.exits {
			if g.Exit.Op == "return" {
				returns = true
				if len(g.Exit.Args) == 1 {
					setResult(g.Exit.Args[0])
				}
			} else {
				gotos = append(gotos, g.Exit.Leaf)
			}
			for _, ef := range g.Effects[1:] {
				// obtaining the next loop's iterator is the only thing allowed between the loops
				if isStore(ef) && ef.Args[0].Op == "new" && ef.Args[1].Op == "call" && strings.HasSuffix(ef.Args[1].Leaf, ").Iterator") {
					continue
				}
				bad = append(bad, "work after the iterator is exhausted: "+trunc(ef.String(), 120))
			}
		}
		return
	}
	loopFreeUnion := false
	symDelegation := false
	switch name {
	case "Intersection":
		// the operation is symmetric: `if recv is the strictly larger one { return another.Intersection(recv) }` followed by
		// the one arm over the receiver is the two written-out arms (the swapped call takes the loop: sizes are then <=)
		if len(loops) == 1 && len(byOperand["0"]) == 1 {
			selfKey := p.FuncKey(fn)
			swapped, straight := false, false
			for _, g := range gc.GCs {
				if g.From != 0 {
					continue
				}
				var strictOther, leOwn bool
				for _, a := range g.Guards {
					if len(a.Args) != 2 {
						continue
					}
					x, y := a.Args[0], a.Args[1]
					on := func(t *Term, prm string) bool {
						return t.any(func(u *Term) bool { return u.String() == prm }) && !t.any(func(u *Term) bool { return u.Op == "p" && u.String() != prm })
					}
					if a.Op == "<" && on(x, "p:1") && on(y, "p:0") {
						strictOther = true
					}
					if a.Op == "<=" && on(x, "p:0") && on(y, "p:1") {
						leOwn = true
					}
				}
				if g.Exit.Op == "return" && len(g.Exit.Args) == 1 && len(g.Effects) == 0 && strictOther {
					if r := g.Exit.Args[0]; r.Op == "call" && r.Leaf == selfKey && len(r.Args) == 3 && r.Args[1].String() == "p:1" && r.Args[2].String() == "p:0" {
						swapped = true
					}
				}
				if g.Exit.Op == "goto" && leOwn {
					straight = true
				}
			}
			if swapped && straight {
				symDelegation = true
				for _, ld := range loops {
					if !eq(ld.adds, map[string]bool{"in": true, "notin": false}) {
						bad = append(bad, fmt.Sprintf("the loop over operand %s must add an element iff the other operand contains it, found %v", ld.operand, ld.adds))
					}
					if ret, gotos := exitsTo(ld); !ret || len(gotos) > 0 {
						bad = append(bad, "the arm must return the result when its operand is exhausted")
					}
				}
				descs = append(descs, "one arm over the receiver; the strictly larger receiver hands over to the argument's Intersection (symmetric)")
				break
			}
		}
		if len(loops) != 2 || len(byOperand["0"]) != 1 || len(byOperand["1"]) != 1 {
			bad = append(bad, fmt.Sprintf("expected one loop over each operand, found %d loop(s)", len(loops)))
		}
		for _, ld := range loops {
			if !eq(ld.adds, map[string]bool{"in": true, "notin": false}) {
				bad = append(bad, fmt.Sprintf("the loop over operand %s must add an element iff the other operand contains it, found %v", ld.operand, ld.adds))
			}
			if ret, gotos := exitsTo(ld); !ret || len(gotos) > 0 {
				bad = append(bad, "each arm must return the result when its operand is exhausted")
			}
		}
		// the two arms are selected by a comparison of the two sizes
		nsel := 0
		for _, g := range gc.GCs {
			if g.From == 0 && g.Exit.Op == "goto" {
				for _, a := range g.Guards {
					if (a.Op == "<" || a.Op == "<=") && a.any(func(t *Term) bool { return t.Op == "p" && t.Leaf == "0" }) && a.any(func(t *Term) bool { return t.Op == "p" && t.Leaf == "1" }) {
						nsel++
					}
				}
			}
		}
		if nsel < 2 {
			bad = append(bad, "the two arms are not selected by comparing the operand sizes")
		}
	case "Union":
		if len(loops) == 0 && addMapField != "" {
			// maps.Copy(result.items, a.items); maps.Copy(result.items, b.items): every element of both operands
			n := 0
			seenOp := map[string]bool{}
			for _, g := range gc.GCs {
				if g.From != 0 || g.Exit.Op != "return" {
					continue
				}
				n++
				for _, ef := range g.Effects {
					if ef.Op == "stddo" && ef.Leaf == "maps.Copy" && len(ef.Args) == 2 {
						dst, ok1 := innerOn(ef.Args[0], addMapField)
						src, ok2 := innerOn(ef.Args[1], addMapField)
						if ok1 && ok2 && src.Op == "p" {
							setResult(dst)
							seenOp[src.Leaf] = true
							continue
						}
					}
					bad = append(bad, "unexpected effect in a loop-free Union: "+trunc(noEpoch(ef), 120))
				}
				if len(g.Exit.Args) == 1 {
					setResult(g.Exit.Args[0])
				}
			}
			if n == 0 || !seenOp["0"] || !seenOp["1"] {
				bad = append(bad, "a loop-free Union must copy the table of each operand into the result's table")
			}
			descs = append(descs, "maps.Copy of both operands' tables into the result")
			loopFreeUnion = true
			break
		}
		if len(loops) != 2 || len(byOperand["0"]) != 1 || len(byOperand["1"]) != 1 {
			bad = append(bad, fmt.Sprintf("expected one loop over each operand, found %d loop(s)", len(loops)))
		} else {
			for _, ld := range loops {
				if !eq(ld.adds, map[string]bool{"untested": true}) {
					bad = append(bad, fmt.Sprintf("the loop over operand %s must add every element, found %v", ld.operand, ld.adds))
				}
			}
			// both loops run on every path: exactly one of them returns, the other continues into it
			nret := 0
			for _, ld := range loops {
				ret, gotos := exitsTo(ld)
				if ret {
					nret++
				}
				if !ret && len(gotos) == 0 {
					bad = append(bad, "a loop has no exit")
				}
			}
			if nret != 1 {
				bad = append(bad, "the two loops must run one after the other (exactly the second one returns)")
			}
			for _, g := range gc.GCs {
				if g.From == 0 && g.Exit.Op == "return" && len(g.Exit.Args) == 1 {
					// only the comparator-mismatch early return is allowed (checked below)
				}
			}
		}
	case "Difference":
		if len(loops) == 0 && addMapField != "" {
			// maps.Copy(result.items, recv.items); maps.DeleteFunc(result.items, in-the-argument): the receiver's members minus
			// those the argument's table holds
			n := 0
			copied, deleted := false, false
			for _, g := range gc.GCs {
				if g.From != 0 || g.Exit.Op != "return" {
					continue
				}
				n++
				for _, ef := range g.Effects {
					if isStore(ef) && ef.Args[0].Op == "new" && ef.Args[1].Op == "p" {
						continue // a parameter captured by the predicate
					}
					if ef.Op == "stddo" && ef.Leaf == "maps.Copy" && len(ef.Args) == 2 && !deleted {
						dst, ok1 := innerOn(ef.Args[0], addMapField)
						src, ok2 := innerOn(ef.Args[1], addMapField)
						if ok1 && ok2 && src.String() == "p:0" {
							setResult(dst)
							copied = true
							continue
						}
					}
					if ef.Op == "stddo" && ef.Leaf == "maps.DeleteFunc" && len(ef.Args) == 2 && copied && ef.Args[1].Op == "closure" && len(ef.Args[1].Args) == 1 {
						if dst, ok1 := innerOn(ef.Args[0], addMapField); ok1 {
							setResult(dst)
							// the predicate: found-flag of a lookup of its key in the table of the captured *argument*
							captured := ef.Args[1].Args[0]
							isArg := false
							for _, e2 := range g.Effects {
								if isStore(e2) && e2.Args[0].String() == captured.String() && e2.Args[1].String() == "p:1" {
									isArg = true
								}
							}
							for _, an := range fn.AnonFuncs {
								if p.FuncKey(an) != ef.Args[1].Leaf {
									continue
								}
								ag := c.GC(an)
								if ag.Undecided == "" && len(ag.GCs) == 1 && len(ag.GCs[0].Guards) == 0 && len(ag.GCs[0].Effects) == 0 && ag.GCs[0].Exit.Op == "return" && len(ag.GCs[0].Exit.Args) == 1 {
									if m := ag.GCs[0].Exit.Args[0]; m.Op == "ext" && m.Leaf == "1" && len(m.Args) == 1 && m.Args[0].Op == "lookup" && len(m.Args[0].Args) == 2 && m.Args[0].Args[1].String() == "p:0" && hasField(m.Args[0].Args[0], addMapField) && m.Args[0].Args[0].any(func(t *Term) bool { return t.Op == "fv" }) && isArg {
										deleted = true
									}
								}
							}
							if deleted {
								continue
							}
						}
					}
					bad = append(bad, "unexpected effect in a loop-free Difference: "+trunc(noEpoch(ef), 120))
				}
				if len(g.Exit.Args) == 1 {
					setResult(g.Exit.Args[0])
				}
			}
			if n == 0 || !copied || !deleted {
				bad = append(bad, "a loop-free Difference must copy the receiver's table into the result and delete what the argument's table holds")
			}
			descs = append(descs, "maps.Copy of the receiver's table, maps.DeleteFunc of the argument's members")
			loopFreeUnion = true
			break
		}
		if len(loops) != 1 || len(byOperand["0"]) != 1 {
			bad = append(bad, fmt.Sprintf("expected exactly one loop, over the receiver; found %d loop(s)", len(loops)))
		}
		for _, ld := range loops {
			if !eq(ld.adds, map[string]bool{"in": false, "notin": true}) {
				bad = append(bad, fmt.Sprintf("the loop must add an element iff the argument does not contain it, found %v", ld.adds))
			}
			if ret, gotos := exitsTo(ld); !ret || len(gotos) > 0 {
				bad = append(bad, "the loop must return the result when the receiver is exhausted")
			}
		}
	}
	// entry region: only an optional comparator-identity early return, which must return the (empty) result
	hasCmp := len(comparatorPaths(p, ct)) > 0
	for _, g := range gc.GCs {
		if g.From != 0 || loopFreeUnion {
			continue
		}
		same, differ := false, false
		for _, a := range g.Guards {
			if (a.Op == "==" || a.Op == "!=") && strings.Contains(a.String(), "reflect.Value).Pointer") && strings.Contains(a.String(), "fa:Comparator") {
				if a.Op == "==" {
					same = true
				} else {
					differ = true
				}
			}
		}
		if g.Exit.Op == "return" {
			if symDelegation && len(g.Exit.Args) == 1 && g.Exit.Args[0].Op == "call" && g.Exit.Args[0].Leaf == p.FuncKey(fn) {
				continue // the symmetric hand-over accepted above
			}
			if !differ {
				bad = append(bad, "an early return that is not the comparator-mismatch case")
			}
			if len(g.Exit.Args) == 1 {
				setResult(g.Exit.Args[0])
			}
		} else if hasCmp && !same {
			bad = append(bad, "the loops are reachable without having established that both comparators are the same function")
		}
	}
	// the result object
	if result == "" {
		bad = append(bad, "no result object identified")
	} else if !strings.HasPrefix(result, "(call:"+p.RelPkg(ct.Obj().Pkg().Path())+".New") {
		bad = append(bad, "the result is not built by the set's constructor: "+trunc(result, 160))
	} else if hasCmp {
		if !strings.Contains(result, "(load (fa:Comparator (load (fa:tree p:0))))") && !strings.Contains(result, "(load (fa:Comparator (load (fa:tree p:1))))") {
			bad = append(bad, "the result set is not ordered by the operands' comparator: "+trunc(result, 200))
		}
	}
	return bad, strings.Join(descs, "; ") + "; result " + trunc(result, 120)
}

// varargElemAll: like varargElem but searching all effects (used for pure calls that appear only in guards).
func varargElemAll(effects []*Term, slice *Term) *Term {
	return varargElem(effects, len(effects), slice)
}

// innerIteratorDriver: the loop steps `X.Next()` where X = <operand>.<F>.Iterator() is the iterator of the operand's inner
// container — the very iterator the set's own iterator wraps: the own Iterator() stores <receiver>.<F>.Iterator() in a field G,
// the own Next() returns G.Next()'s result, and the own Value() is a term over G alone. The current element is then that
// term with G replaced by X.
func innerIteratorDriver(c *Ctx, fn *ssa.Function, ct, itType *types.Named, step *Term) (operand, elem string, ok bool) {
	p := c.p
	IT := step.Args[0]
	if !(IT.Op == "call" && strings.HasSuffix(IT.Leaf, ").Iterator") && len(IT.Args) == 2) {
		return "", "", false
	}
	recv := IT.Args[1]
	if !(recv.Op == "load" && len(recv.Args) == 1 && recv.Args[0].Op == "fa" && len(recv.Args[0].Args) == 1 && recv.Args[0].Args[0].Op == "p") {
		return "", "", false
	}
	F, operand := recv.Args[0].Leaf, recv.Args[0].Args[0].Leaf
	// the own Iterator() wraps <receiver>.<F>.Iterator() (same callee)
	itf := methodsOf(p, ct)["Iterator"]
	if itf == nil || itType == nil {
		return "", "", false
	}
	want := "(" + IT.Op + ":" + IT.Leaf + " @ (load (fa:" + F + " p:0)))"
	wraps := false
	igc := c.GC(itf)
	if igc.Undecided != "" {
		return "", "", false
	}
	wrapField := ""
	for _, g := range igc.GCs {
		if g.Exit.any(func(t *Term) bool { return noEpoch(t) == want }) {
			wraps = true
		}
		for _, ef := range g.Effects {
			if isStore(ef) && ef.Args[0].Op == "fa" && len(ef.Args[0].Args) == 1 && ef.Args[0].Args[0].Op == "new" && noEpoch(ef.Args[1]) == want {
				wraps, wrapField = true, ef.Args[0].Leaf
			}
		}
	}
	if !wraps {
		return "", "", false
	}
	// the own Next() hands back the wrapped iterator's Next(): find G
	next := methodsOf(p, itType)["Next"]
	if next == nil {
		return "", "", false
	}
	ngc := c.GC(next)
	if ngc.Undecided != "" || len(ngc.GCs) == 0 {
		return "", "", false
	}
	G := ""
	for _, g := range ngc.GCs {
		if g.Exit.Op != "return" || len(g.Exit.Args) != 1 {
			return "", "", false
		}
		r := g.Exit.Args[0]
		if !(r.Op == "res" && len(r.Args) == 1 && r.Args[0].Op == "do" && r.Args[0].Leaf == step.Leaf && len(r.Args[0].Args) == 1) {
			return "", "", false
		}
		w := r.Args[0].Args[0]
		if !(w.Op == "load" && len(w.Args) == 1 && w.Args[0].Op == "fa" && len(w.Args[0].Args) == 1 && w.Args[0].Args[0].String() == "p:0") {
			return "", "", false
		}
		if G != "" && G != w.Args[0].Leaf {
			return "", "", false
		}
		G = w.Args[0].Leaf
	}
	if wrapField != "" && wrapField != G {
		return "", "", false
	}
	// the own Value() over a stand-in for the own iterator, G replaced by X
	own := leaf("own", "")
	m := methodsOf(p, itType)["Value"]
	if m == nil {
		return "", "", false
	}
	st := &pstate{b: &gcBuilder{p: p, e: c.E(), fn: fn, cutIdx: map[string]int{}, out: &GCNF{Fn: fn}}, env: map[ssa.Value]*Term{}, onPath: map[string]bool{}, inl: true}
	vt, okv := st.inline(m, []*Term{own})
	if !okv {
		return "", "", false
	}
	var sub func(t *Term) *Term
	clean := true
	sub = func(t *Term) *Term {
		if t.Op == "load" && len(t.Args) == 1 && t.Args[0].Op == "fa" && t.Args[0].Leaf == G && len(t.Args[0].Args) == 1 && t.Args[0].Args[0].Op == "own" {
			return IT
		}
		if t.Op == "own" {
			clean = false
		}
		if len(t.Args) == 0 {
			return t
		}
		n := &Term{Op: t.Op, Leaf: t.Leaf, Args: make([]*Term, len(t.Args))}
		for i, a := range t.Args {
			n.Args[i] = sub(a)
		}
		return n
	}
	et := sub(vt)
	if !clean {
		return "", "", false
	}
	return operand, noEpoch(et), true
}

// ---- R17: an enumerable handed on to the inner container that carries the order ----

// transparentIteratorOver: the own iterator of ct is nothing but the iterator of the inner container in field F: Iterator()
// stores <recv>.F.Iterator() in the iterator's field G, Next() hands back G.Next(), and Value() / Index() (Key()) are, term
// for term, the inner iterator's methods read on G. Then a loop over the own iterator and a loop over F's iterator visit the
// same pairs in the same order.
func transparentIteratorOver(c *Ctx, ct, itType *types.Named, keyName string) (F string, inner *types.Named, ok bool) {
	p := c.p
	itf := methodsOf(p, ct)["Iterator"]
	if itf == nil || itType == nil {
		return "", nil, false
	}
	igc := c.GC(itf)
	if igc.Undecided != "" || len(igc.GCs) != 1 {
		return "", nil, false
	}
	G, innerIterLeaf := "", ""
	for _, ef := range igc.GCs[0].Effects {
		if isStore(ef) && ef.Args[0].Op == "fa" && len(ef.Args[0].Args) == 1 && ef.Args[0].Args[0].Op == "new" {
			v := ef.Args[1]
			if v.Op == "call" && strings.HasSuffix(v.Leaf, ").Iterator") && len(v.Args) == 2 {
				recv := v.Args[1]
				if recv.Op == "load" && len(recv.Args) == 1 && recv.Args[0].Op == "fa" && len(recv.Args[0].Args) == 1 && recv.Args[0].Args[0].String() == "p:0" {
					G, F, innerIterLeaf = ef.Args[0].Leaf, recv.Args[0].Leaf, v.Leaf
				}
			}
		}
	}
	if G == "" {
		return "", nil, false
	}
	// the inner container type: the enumerable type whose Iterator has that name
	var innerIt *types.Named
	for _, cand := range p.T.Containers {
		if f := methodsOf(p, cand)["Iterator"]; f != nil && p.FuncKey(f) == innerIterLeaf {
			inner = cand
			innerIt = namedOf(f.Signature.Results().At(0).Type())
		}
	}
	if inner == nil || innerIt == nil {
		return "", nil, false
	}
	recvForms := []string{"(fa:" + G + " p:0)", "(load (fa:" + G + " p:0))"}
	var substP0 func(t *Term, by *Term) *Term
	substP0 = func(t *Term, by *Term) *Term {
		if t.String() == "p:0" {
			return by
		}
		if len(t.Args) == 0 {
			return t
		}
		n := &Term{Op: t.Op, Leaf: t.Leaf, Args: make([]*Term, len(t.Args))}
		for i, a := range t.Args {
			n.Args[i] = substP0(a, by)
		}
		return n
	}
	for _, m := range []string{"Value", keyName} {
		own, in := methodsOf(p, itType)[m], methodsOf(p, innerIt)[m]
		if own == nil || in == nil {
			return "", nil, false
		}
		og, ig := c.GC(own), c.GC(in)
		if og.Undecided != "" || ig.Undecided != "" || len(og.GCs) != 1 || len(ig.GCs) != 1 || len(og.GCs[0].Effects) != 0 || len(ig.GCs[0].Effects) != 0 {
			return "", nil, false
		}
		same := false
		for _, rf := range recvForms {
			by := &Term{Op: "fa", Leaf: G, Args: []*Term{leaf("p", "0")}}
			if strings.HasPrefix(rf, "(load") {
				by = &Term{Op: "load", Args: []*Term{by}}
			}
			if noEpoch(og.GCs[0].Exit) == noEpoch(substP0(ig.GCs[0].Exit, by)) {
				same = true
			}
		}
		if !same {
			return "", nil, false
		}
	}
	next, inNext := methodsOf(p, itType)["Next"], methodsOf(p, innerIt)["Next"]
	if next == nil || inNext == nil {
		return "", nil, false
	}
	ng := c.GC(next)
	if ng.Undecided != "" || len(ng.GCs) != 1 || len(ng.GCs[0].Effects) != 1 {
		return "", nil, false
	}
	ef := ng.GCs[0].Effects[0]
	if ef.Op != "do" || ef.Leaf != p.FuncKey(inNext) || len(ef.Args) != 1 || (noEpoch(ef.Args[0]) != recvForms[0] && noEpoch(ef.Args[0]) != recvForms[1]) {
		return "", nil, false
	}
	ex := ng.GCs[0].Exit
	if ex.Op != "return" || len(ex.Args) != 1 || ex.Args[0].Op != "res" || len(ex.Args[0].Args) != 1 || noEpoch(ex.Args[0].Args[0]) != noEpoch(ef) {
		return "", nil, false
	}
	return F, inner, true
}

// delegatedEnumerable: fn (Each/Any/All/Find of ct) is a pure forwarder to the same-named function of the inner container
// whose iterator the own iterator transparently wraps, the callback handed on unchanged and the results handed back in order.
func delegatedEnumerable(c *Ctx, ct, itType *types.Named, fn *ssa.Function, name, keyName string) (string, bool) {
	p := c.p
	gc := c.GC(fn)
	if gc.Undecided != "" || len(gc.GCs) != 1 {
		return "", false
	}
	g := gc.GCs[0]
	if len(g.Guards) != 0 || len(g.Effects) != 1 || g.Exit.Op != "return" {
		return "", false
	}
	ef := g.Effects[0]
	if ef.Op != "do" || len(ef.Args) != 2 || ef.Args[1].String() != "p:1" {
		return "", false
	}
	F, inner, ok := transparentIteratorOver(c, ct, itType, keyName)
	if !ok {
		return "", false
	}
	innerFn := methodsOf(p, inner)[name]
	if innerFn == nil || ef.Leaf != p.FuncKey(innerFn) || noEpoch(ef.Args[0]) != "(load (fa:"+F+" p:0))" {
		return "", false
	}
	isEnum := false
	for _, et := range enumerableTypes(p) {
		if p.TypeKey(et) == p.TypeKey(inner) {
			isEnum = true
		}
	}
	if !isEnum {
		return "", false
	}
	// results handed back in order
	for i, a := range g.Exit.Args {
		x := a
		if x.Op == "ext" {
			if x.Leaf != itoa(i) || len(x.Args) != 1 {
				return "", false
			}
			x = x.Args[0]
		}
		if x.Op != "res" || len(x.Args) != 1 || noEpoch(x.Args[0]) != noEpoch(ef) {
			return "", false
		}
	}
	if len(g.Exit.Args) != fn.Signature.Results().Len() {
		return "", false
	}
	return fmt.Sprintf("forwards to %s of the inner container in field %s, whose iterator the own iterator wraps transparently (Next, Value, %s are the inner iterator's); the inner function is itself an R17 obligation", name, F, keyName), true
}

// selectOverNextTo: Select written as `for it := recv.Iterator(); it.NextTo(f); { result.Put(it.Key(), it.Value()) }` — NextTo
// (judged by R14to as the canonical search loop over Next) stops exactly at the next pair f accepts, so the loop inserts the
// accepted pairs in iteration order and nothing else. Shape, on the plain normal form: an entry that only builds the result,
// one path "NextTo failed → return the result", one path "NextTo succeeded → one insertion of the iterator's current
// (Key()|–, Value()) into the result → again".
func selectOverNextTo(c *Ctx, ct, itType *types.Named, fn *ssa.Function, keyName string, keyed bool) (string, []string, bool) {
	p := c.p
	gc := c.GC(fn)
	if gc.Undecided != "" || len(gc.GCs) != 3 {
		return "", nil, false
	}
	ownNextTo := p.RelPkg(itType.Obj().Pkg().Path()) + ".(*" + itType.Obj().Name() + ").NextTo"
	var entry, done, step *GC
	for _, g := range gc.GCs {
		switch {
		case g.From == 0:
			entry = g
		case g.Exit.Op == "return":
			done = g
		default:
			step = g
		}
	}
	if entry == nil || done == nil || step == nil || entry.Exit.Op != "goto" || step.Exit.Op != "goto" || step.Exit.Leaf != entry.Exit.Leaf || len(entry.Guards) != 0 {
		return "", nil, false
	}
	for _, ef := range entry.Effects {
		if ef.Op == "do" || ef.Op == "dyn" {
			return "", nil, false
		}
	}
	isNextTo := func(t *Term) bool {
		return t.Op == "do" && t.Leaf == ownNextTo && len(t.Args) == 2 && t.Args[1].String() == "p:1"
	}
	if len(done.Effects) != 1 || !isNextTo(done.Effects[0]) || len(done.Guards) != 1 || len(step.Effects) != 2 || !isNextTo(step.Effects[0]) || len(step.Guards) != 1 {
		return "", nil, false
	}
	nt := step.Effects[0]
	if noEpoch(done.Effects[0]) != noEpoch(nt) || noEpoch(done.Guards[0]) != "(! (res "+noEpoch(nt)+"))" || noEpoch(step.Guards[0]) != "(res "+noEpoch(nt)+")" {
		return "", nil, false
	}
	IT := nt.Args[0]
	if _, ok := ownIteratorTerm(gc, IT); !ok {
		return "", nil, false
	}
	ins := step.Effects[1]
	nm, args, ok := effDo(ins)
	if !ok || (nm != "Put" && nm != "Add") || len(args) < 2 {
		return "", nil, false
	}
	var bad []string
	kT, vT := iterMethodTerm(c, fn, itType, keyName, IT), iterMethodTerm(c, fn, itType, "Value", IT)
	var got, want []string
	if nm == "Add" {
		el := varargElem(step.Effects, 1, args[1])
		if el == nil {
			return "", nil, false
		}
		got = []string{noEpoch(el)}
	} else {
		for _, a := range args[1:] {
			got = append(got, noEpoch(a))
		}
	}
	if keyed {
		want = []string{kT, vT}
	} else {
		want = []string{vT}
	}
	if strings.Join(got, " | ") != strings.Join(want, " | ") {
		bad = append(bad, fmt.Sprintf("Select inserts %s, expected %s", trunc(strings.Join(got, " | "), 200), trunc(strings.Join(want, " | "), 200)))
	}
	if len(done.Exit.Args) != 1 || noEpoch(done.Exit.Args[0]) != noEpoch(args[0]) {
		bad = append(bad, "insertion into something other than the returned container")
	}
	bad = append(bad, checkDerivedConstructor(c, ct, gc, args[0])...)
	return "a loop on the own iterator's NextTo(f) (the canonical search loop, R14to) inserting the current pair after every success", bad, true
}
