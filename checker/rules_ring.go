package main

// R19b-step: the ring's Enqueue and Dequeue are replayed path by path with every helper of the ring expanded in place; the
// final values of start / end / full and the slot written are compared with the meant step:
//
//	Enqueue: the slot at the old end receives the value; end advances by one with its wrap; start advances by one with its
//	wrap exactly on the paths that know size == capacity (and stays otherwise); full ends true iff the path knows
//	end' == start'.
//	Dequeue: an empty ring (size == 0) is left alone and (zero,false) returned; otherwise the slot at the old start is
//	returned with true, start advances by one with its wrap and full ends false.
//
// Field loads are dated by the version stamps of the normal form (f<k> = after the k-th store to that field on the path), so
// the order in which a refactored method stores its fields does not matter. A verdict "ok" overrides the shape clauses
// R19b-evict / R19b-wrap / R19b-dequeue for that method (they describe one way of writing the step); "bad" is a violation;
// without a verdict the shape clauses decide.

import (
	"fmt"
	"go/types"
	"strconv"
	"strings"

	"golang.org/x/tools/go/ssa"
)

type ringFact struct {
	d  lin // the form the fact is about
	op string
	// op: ">=" (d >= k), "==" (d == 0), "!=" (d != 0)
	k int
}

type ringPath struct {
	stores map[string][]*Term // per field of p:0, in path order
	facts  []ringFact
	flags  map[string]bool // boolean facts about the initial `full`
	fail   string
}

func (rp *ringPath) fieldLoad(t *Term) (string, int, bool) {
	if t.Op == "load" && len(t.Args) == 1 && t.Args[0].Op == "fa" && len(t.Args[0].Args) == 1 && t.Args[0].Args[0].String() == "p:0" {
		if m := verRe.FindStringSubmatch(t.Leaf); m != nil {
			k, _ := strconv.Atoi(m[2])
			return t.Args[0].Leaf, k, true
		}
	}
	return "", 0, false
}

func (rp *ringPath) lin(t *Term, depth int) lin {
	if depth > 12 {
		rp.fail = "a value chain too long to date"
		return linConst(0)
	}
	if k, ok := t.constInt(); ok {
		return linConst(int(k))
	}
	if f, k, ok := rp.fieldLoad(t); ok {
		if k == 0 {
			return linAtom(f)
		}
		if k-1 < len(rp.stores[f]) {
			return rp.lin(rp.stores[f][k-1], depth+1)
		}
		rp.fail = "a load of " + f + " that no store on the path accounts for"
		return linConst(0)
	}
	switch {
	case t.Op == "+" && len(t.Args) == 2:
		return rp.lin(t.Args[0], depth+1).add(rp.lin(t.Args[1], depth+1), 1)
	case t.Op == "-" && len(t.Args) == 2:
		return rp.lin(t.Args[0], depth+1).add(rp.lin(t.Args[1], depth+1), -1)
	case t.Op == "%" && len(t.Args) == 2:
		return linAtom("(% " + rp.lin(t.Args[0], depth+1).String() + " | " + rp.lin(t.Args[1], depth+1).String() + ")")
	}
	return linAtom(noEpoch(t))
}

// boolean value of a `full` term: "true", "false", "F0" (the initial flag), "?" otherwise
func (rp *ringPath) flag(t *Term, depth int) string {
	switch t.String() {
	case "#:true":
		return "true"
	case "#:false":
		return "false"
	}
	if f, k, ok := rp.fieldLoad(t); ok && f == "full" && depth < 12 {
		if k == 0 {
			return "F0"
		}
		if k-1 < len(rp.stores[f]) {
			return rp.flag(rp.stores[f][k-1], depth+1)
		}
	}
	return "?"
}

func (rp *ringPath) addGuard(a *Term) {
	switch a.Op {
	case "<", "<=", "==", "!=":
		if len(a.Args) != 2 {
			return
		}
		d := rp.lin(a.Args[1], 0).add(rp.lin(a.Args[0], 0), -1) // rhs - lhs
		switch a.Op {
		case "<":
			rp.facts = append(rp.facts, ringFact{d: d, op: ">=", k: 1})
		case "<=":
			rp.facts = append(rp.facts, ringFact{d: d, op: ">=", k: 0})
		default:
			rp.facts = append(rp.facts, ringFact{d: d, op: a.Op})
		}
	}
}

func linEq(a, b lin) bool {
	d := a.add(b, -1)
	return len(d.c) == 0 && d.k == 0
}

func linNeg(a lin) lin { return linConst(0).add(a, -1) }

// knows q >= k
func (rp *ringPath) knowsGE(q lin, k int) bool {
	if len(q.c) == 0 {
		return q.k >= k
	}
	for _, f := range rp.facts {
		switch f.op {
		case ">=":
			d := q.add(f.d, -1)
			if len(d.c) == 0 && f.k+d.k >= k {
				return true
			}
		case "==":
			d := q.add(f.d, -1)
			if len(d.c) == 0 && d.k >= k {
				return true
			}
			d = q.add(f.d, 1)
			if len(d.c) == 0 && d.k >= k {
				return true
			}
		}
	}
	return false
}

func (rp *ringPath) knowsEq0(q lin) bool {
	if len(q.c) == 0 {
		return q.k == 0
	}
	for _, f := range rp.facts {
		if f.op == "==" && (linEq(f.d, q) || linEq(f.d, linNeg(q))) {
			return true
		}
	}
	return rp.knowsGE(q, 0) && rp.knowsGE(linNeg(q), 0)
}

func (rp *ringPath) knowsNe0(q lin) bool {
	if len(q.c) == 0 {
		return q.k != 0
	}
	for _, f := range rp.facts {
		if f.op == "!=" && (linEq(f.d, q) || linEq(f.d, linNeg(q))) {
			return true
		}
	}
	return rp.knowsGE(q, 1) || rp.knowsGE(linNeg(q), 1)
}

func (rp *ringPath) infeasible() bool {
	for _, f := range rp.facts {
		switch f.op {
		case ">=":
			if len(f.d.c) == 0 && f.d.k < f.k {
				return true
			}
			// d >= k together with -d >= k' where k + k' > 0
			for _, g := range rp.facts {
				if g.op == ">=" {
					if s := g.d.add(f.d, 1); len(s.c) == 0 && s.k < f.k+g.k {
						return true
					}
				}
				if g.op == "==" {
					if s := f.d.add(g.d, -1); len(s.c) == 0 && s.k < f.k {
						return true
					}
					if s := f.d.add(g.d, 1); len(s.c) == 0 && s.k < f.k {
						return true
					}
				}
			}
		case "==":
			if len(f.d.c) == 0 && f.d.k != 0 {
				return true
			}
			for _, g := range rp.facts {
				if g.op == "!=" && (linEq(g.d, f.d) || linEq(g.d, linNeg(f.d))) {
					return true
				}
			}
		case "!=":
			if len(f.d.c) == 0 && f.d.k == 0 {
				return true
			}
			if rp.knowsGE(f.d, 0) && rp.knowsGE(linNeg(f.d), 0) {
				return true // d <= 0 and d >= 0 from two orderings, yet d != 0
			}
		}
	}
	return false
}

// advanced: v is old+1 wrapped at the capacity, as far as the path knows
func (rp *ringPath) advanced(v lin, old string) (bool, string) {
	o1 := linAtom(old).add(linConst(1), 1)
	M := linAtom("maxSize")
	switch {
	case linEq(v, o1):
		if rp.knowsGE(M.add(o1, -1), 1) {
			return true, ""
		}
		return false, old + " is advanced without knowing that it stays below the capacity"
	case linEq(v, linConst(0)):
		if rp.knowsGE(o1.add(M, -1), 0) {
			return true, ""
		}
		return false, old + " is reset to 0 without knowing that it reached the capacity"
	case linEq(v, linAtom("(% "+o1.String()+" | "+M.String()+")")):
		return true, ""
	}
	return false, old + " ends as " + v.String() + " — neither old+1 nor its wrap"
}

// ringReplay: verdict "ok" | "bad" | "" (no verdict) and the reason.
func ringReplay(c *Ctx, ms map[string]*ssa.Function, name string) (string, string) {
	fn := ms[name]
	if fn == nil {
		return "", name + " not found"
	}
	// a ring without a `full` flag (size alone tells full from empty) has no flag clause
	hasFull := false
	if rn := recvNamed(fn); rn != nil {
		if st, ok := rn.Underlying().(*types.Struct); ok {
			for i := 0; i < st.NumFields(); i++ {
				if st.Field(i).Name() == "full" {
					hasFull = true
				}
			}
		}
	}
	own := map[*ssa.Function]bool{}
	for _, m := range ms {
		own[m] = true
	}
	gc := c.GCWith(fn, BuildOpts{Tag: "ring-step", Inline: func(cal *ssa.Function) bool {
		return own[cal] || (cal.Origin() != nil && own[cal.Origin()])
	}})
	if gc.Undecided != "" {
		return "", gc.Undecided
	}
	if len(gc.GCs) == 0 || len(gc.GCs) > 400 {
		return "", fmt.Sprintf("%d paths", len(gc.GCs))
	}
	npaths, nfull, nnon, nempty := 0, 0, 0, 0
	var bad []string
	for _, g := range gc.GCs {
		if g.From != 0 || g.Exit.Op != "return" {
			return "", "the method loops"
		}
		rp := &ringPath{stores: map[string][]*Term{}}
		var slotIdx []*Term
		var slotVal []*Term
		for _, ef := range g.Effects {
			switch {
			case isStore(ef) && ef.Args[0].Op == "fa" && len(ef.Args[0].Args) == 1 && ef.Args[0].Args[0].String() == "p:0":
				rp.stores[ef.Args[0].Leaf] = append(rp.stores[ef.Args[0].Leaf], ef.Args[1])
			case isStore(ef) && ef.Args[0].Op == "ia" && hasField(ef.Args[0].Args[0], "values"):
				slotIdx = append(slotIdx, ef.Args[0].Args[1])
				slotVal = append(slotVal, ef.Args[1])
			default:
				return "", "an effect the replay does not model: " + trunc(noEpoch(ef), 100)
			}
		}
		for _, a := range g.Guards {
			rp.addGuard(a)
		}
		if rp.fail != "" {
			return "", rp.fail
		}
		if rp.infeasible() {
			continue
		}
		final := func(f string) lin {
			if s := rp.stores[f]; len(s) > 0 {
				return rp.lin(s[len(s)-1], 0)
			}
			return linAtom(f)
		}
		finalFlag := "F0"
		if s := rp.stores["full"]; len(s) > 0 {
			finalFlag = rp.flag(s[len(s)-1], 0)
		}
		Z, M := linAtom("size"), linAtom("maxSize")
		st, en := final("start"), final("end")
		if rp.fail != "" {
			return "", rp.fail
		}
		where := trunc(guardsString(g), 240)
		npaths++
		switch name {
		case "Enqueue":
			isFull, notFull := rp.knowsEq0(M.add(Z, -1)), rp.knowsNe0(M.add(Z, -1))
			if isFull && rp.knowsEq0(Z) {
				continue // capacity 0: the slot write panics
			}
			if !isFull && !notFull {
				return "", "a path does not compare size with the capacity"
			}
			if len(slotIdx) != 1 {
				bad = append(bad, fmt.Sprintf("a path writes %d slots: %s", len(slotIdx), where))
				continue
			}
			if !linEq(rp.lin(slotIdx[0], 0), linAtom("end")) {
				bad = append(bad, "the value is written to slot "+rp.lin(slotIdx[0], 0).String()+", not to the old end: "+where)
			}
			if slotVal[0].String() != "p:1" {
				bad = append(bad, "the slot receives something other than the value: "+where)
			}
			if ok, why := rp.advanced(en, "end"); !ok {
				bad = append(bad, why+": "+where)
			}
			if isFull {
				nfull++
				ok, why := rp.advanced(st, "start")
				if !ok {
					// a full ring has start == end (the invariant the flag clause below maintains: full ⇔ end met start): a new
					// start written in terms of the old end is judged with end read as start, facts included
					sub := func(l lin) lin {
						out := linConst(l.k)
						for a, n := range l.c {
							if a == "end" {
								a = "start"
							}
							out = out.add(linAtom(a), n)
						}
						return out
					}
					rp2 := &ringPath{stores: rp.stores, flags: rp.flags}
					for _, f := range rp.facts {
						rp2.facts = append(rp2.facts, ringFact{d: sub(f.d), op: f.op, k: f.k})
					}
					if ok2, _ := rp2.advanced(sub(st), "start"); ok2 {
						ok = true
					}
				}
				if !ok {
					bad = append(bad, "full ring: "+why+" (the oldest element is not given up): "+where)
				}
			} else {
				nnon++
				if !linEq(st, linAtom("start")) {
					bad = append(bad, "a ring that is not full loses an element: start ends as "+st.String()+": "+where)
				}
			}
			diff := en.add(st, -1)
			switch {
			case !hasFull:
			case rp.knowsEq0(diff):
				// F0: the flag is left as it was — on a path that knows size == capacity it was true (the size is the capacity
				// only with end == start and the flag set)
				if finalFlag != "true" && !(isFull && finalFlag == "F0") {
					bad = append(bad, "end meets start but full ends "+finalFlag+": "+where)
				}
			case rp.knowsNe0(diff):
				if finalFlag != "false" && finalFlag != "F0" {
					bad = append(bad, "end does not meet start but full ends "+finalFlag+": "+where)
				}
			default:
				return "", "a path does not compare the new end with start"
			}
		case "Dequeue":
			empty, non := rp.knowsEq0(Z), rp.knowsNe0(Z)
			if !empty && !non {
				return "", "a path does not test emptiness by size"
			}
			if empty {
				nempty++
				for f, s := range rp.stores {
					if len(s) > 0 && !linEq(rp.lin(s[len(s)-1], 0), linAtom(f)) && !(f == "full" && (finalFlag == "F0" || finalFlag == "false")) {
						bad = append(bad, "Dequeue on an empty ring changes "+f+": "+where)
					}
				}
				if len(slotIdx) > 0 {
					bad = append(bad, "Dequeue on an empty ring writes a slot: "+where)
				}
				if len(g.Exit.Args) != 2 || g.Exit.Args[1].String() != "#:false" {
					bad = append(bad, "Dequeue on an empty ring does not return ok=false: "+where)
				}
				continue
			}
			nnon++
			if ok, why := rp.advanced(st, "start"); !ok {
				bad = append(bad, why+": "+where)
			}
			if !linEq(en, linAtom("end")) {
				bad = append(bad, "Dequeue moves end: "+where)
			}
			if hasFull && finalFlag != "false" {
				bad = append(bad, "after a removal full ends "+finalFlag+": "+where)
			}
			for i := range slotIdx {
				if !linEq(rp.lin(slotIdx[i], 0), linAtom("start")) || !strings.HasPrefix(slotVal[i].String(), "#:") {
					bad = append(bad, "Dequeue writes a slot other than clearing the one it removed: "+where)
				}
			}
			okRet := false
			if len(g.Exit.Args) == 2 && g.Exit.Args[1].String() == "#:true" {
				v := g.Exit.Args[0]
				if v.Op == "load" && len(v.Args) == 1 && v.Args[0].Op == "ia" && hasField(v.Args[0].Args[0], "values") && linEq(rp.lin(v.Args[0].Args[1], 0), linAtom("start")) {
					okRet = true
				}
			}
			if !okRet {
				bad = append(bad, "Dequeue on a non-empty ring does not return (values[old start], true): "+where)
			}
		}
		if rp.fail != "" {
			return "", rp.fail
		}
	}
	if len(bad) > 0 {
		return "bad", strings.Join(dedup(bad), "\n")
	}
	switch name {
	case "Enqueue":
		if nfull == 0 || nnon == 0 {
			return "", "full / not-full paths not both found"
		}
	case "Dequeue":
		if nempty == 0 || nnon == 0 {
			return "", "empty / non-empty paths not both found"
		}
	}
	return "ok", fmt.Sprintf("%d feasible paths replayed", npaths)
}
