module posctl

go 1.21
