// Package containers is part of the positive control: GetSortedValues over a container whose Values() aliases.
package containers

import (
	"cmp"
	"slices"
)

type Container[T any] interface {
	Empty() bool
	Size() int
	Clear()
	Values() []T
	String() string
}

func GetSortedValues[T cmp.Ordered](container Container[T]) []T {
	values := container.Values()
	slices.Sort(values) // R2c / R1: sorts the container's own backing array
	return values
}
