// Package box is the POSITIVE CONTROL of the static checker (never part of the library): a tiny container whose
// operations violate, on purpose, the rules whose expected violation count on the real tree is zero. Every check run
// analyses this package too and fails if a rule no longer reports its seeded violation here.
package box

import (
	"encoding/json"
	"fmt"
	"os"
)

type node[T comparable] struct {
	value T
	next  *node[T]
}

// Box satisfies the container interface shape (Empty/Size/Clear/Values/String).
type Box[T comparable] struct {
	elements []T
	index    map[T]int
	first    *node[T]
	last     *node[T] // cache written by a reader
	cursor   *Iterator[T]
	hits     int
}

var lastLookup int

func New[T comparable](values ...T) *Box[T] {
	b := &Box[T]{index: make(map[T]int)}
	b.elements = values // R2b: adopts the caller's slice
	return b
}

func (b *Box[T]) Empty() bool { return len(b.elements) == 0 }

func (b *Box[T]) Size() int {
	if b.hits < 0 {
		panic("negative hit counter") // R4: explicit panic outside the documented preconditions
	}
	return len(b.elements)
}

func (b *Box[T]) Clear() { b.elements = b.elements[:0] }

func (b *Box[T]) Values() []T { return b.elements } // R2a: hands out the backing array

func (b *Box[T]) String() string { return "Box" }

// Get is a "reader" that caches: R1 must report the stores.
func (b *Box[T]) Get(i int) (T, bool) {
	b.hits++        // R1: write to container memory
	lastLookup = i  // R1: write to a global
	var zero T
	if i < 0 || i >= len(b.elements) {
		return zero, false
	}
	return b.elements[i], true
}

// Peek prints: R3.
func (b *Box[T]) Peek() (T, bool) {
	fmt.Println("peek")
	fmt.Fprintln(os.Stderr, "peek")
	return b.Get(0)
}

// Contains hands a reference into container memory to a func value: R1b.
func (b *Box[T]) Contains(f func(n *node[T]) bool) bool { return f(b.first) }

// Select returns the receiver itself when nothing is filtered: R2d.
func (b *Box[T]) Select(f func(index int, value T) bool) *Box[T] {
	if f == nil {
		return b
	}
	out := New[T]()
	for i, v := range b.elements {
		if f(i, v) {
			out.elements = append(out.elements, v)
		}
	}
	return out
}

// FromJSON decodes straight into live state, unguarded, and lets the decoder nil the map: R6, R8a.
func (b *Box[T]) FromJSON(data []byte) error {
	if err := json.Unmarshal(data, &b.index); err != nil {
		return err
	}
	b.index[b.elements[0]] = 1
	return nil
}

func (b *Box[T]) Put(v T) { b.index[v] = len(b.index) }

// Add dereferences a loop-carried pointer after a range loop that may run zero times: R7.
func (b *Box[T]) Add(values ...T) {
	var tail *node[T]
	for _, v := range values {
		n := &node[T]{value: v}
		if tail != nil {
			tail.next = n
		}
		tail = n
	}
	tail.next = b.first
	b.first = tail
}

// Iterator is stored inside the container: R1c.
type Iterator[T comparable] struct {
	box   *Box[T]
	index int
}

func (b *Box[T]) Iterator() *Iterator[T] {
	it := &Iterator[T]{box: b, index: -1}
	b.cursor = it // R1: a reader writes container memory
	return it
}

func (it *Iterator[T]) Next() bool {
	it.index++
	it.box.hits++ // R1: an iterator mover writes container memory
	return it.index < len(it.box.elements)
}
func (it *Iterator[T]) Value() T   { return it.box.elements[it.index] }
func (it *Iterator[T]) Index() int { return it.index }
func (it *Iterator[T]) Begin()     { it.index = -1 }
func (it *Iterator[T]) First() bool {
	it.Begin()
	return it.Next()
}
func (it *Iterator[T]) NextTo(f func(index int, value T) bool) bool {
	for it.Next() {
		if f(it.Index(), it.Value()) {
			return true
		}
	}
	return false
}

// Relink moves the head's successor to o's head — in the wrong order: the field is cleared first and read back afterwards
// (R35: a value transfer that reads the constant it has just written).
func (b *Box[T]) Relink(o *Box[T]) {
	b.first.next = nil
	o.first.next = b.first.next
}
