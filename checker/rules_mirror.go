package main

// rules_mirror.go — R10 MIRROR: mirror halves are mirror images (DESIGN §3 R10).

import (
	"fmt"
	"go/types"
	"sort"
	"strings"
	"unicode/utf8"

	"golang.org/x/tools/go/ssa"
)

type gcCache struct {
	c *Ctx
	m map[*ssa.Function]*GCNF
}

func (c *Ctx) GC(fn *ssa.Function) *GCNF {
	if c.gcs == nil {
		c.gcs = map[*ssa.Function]*GCNF{}
	}
	if g, ok := c.gcs[fn]; ok {
		return g
	}
	g := tailRecHelperAsLoop(c, linkStackRecForm(c.p, BuildGCNF(c.p, c.E(), fn)))
	if fn.Name() == "NextTo" || fn.Name() == "PrevTo" {
		g = selfTailRecAsLoop(c.p, g)
	}
	c.gcs[fn] = g
	return g
}

// GCWith builds (and caches under opts.Tag) the normal form of fn with additional known callees expanded in place.
func (c *Ctx) GCWith(fn *ssa.Function, opts BuildOpts) *GCNF {
	if c.gcsOpt == nil {
		c.gcsOpt = map[string]*GCNF{}
	}
	k := opts.Tag + "|" + c.p.FuncKey(fn)
	if g, ok := c.gcsOpt[k]; ok {
		return g
	}
	g := BuildGCNFOpts(c.p, c.E(), fn, opts)
	c.gcsOpt[k] = g
	return g
}

// GCTail: the normal form of fn with a parameter loop read as tail recursion (tailRecForm).
func (c *Ctx) GCTail(fn *ssa.Function) *GCNF { return tailRecForm(c.p, c.GC(fn)) }

func gcStrings(gcs []*GC) []string {
	out := make([]string, len(gcs))
	for i, g := range gcs {
		out[i] = g.String()
	}
	return out
}

func trunc(s string, n int) string {
	if len(s) > n {
		for n > 0 && !utf8.RuneStart(s[n]) {
			n--
		}
		return s[:n] + "…"
	}
	return s
}

// twinCheck: GC(g) == μ(GC(f)).
// expandPure: additionally expand every pure, non-recursive library callee in place (second attempt of a mirror comparison:
// when one half was rewritten through a new helper and its twin calls a pinned one, both must be seen expanded).
func expandPure(c *Ctx) BuildOpts {
	e := c.E()
	return BuildOpts{Tag: "pure", Inline: func(callee *ssa.Function) bool {
		sum := e.Sum[callee]
		return sum != nil && len(sum.W) == 0 && sum.Out == nil && len(sum.Undecided) == 0 && len(sum.FreshInto) == 0 && len(sum.Keep) == 0 && len(callee.Blocks) <= 12
	}}
}

func twinCheck(c *Ctx, f, g *ssa.Function, mu *Mu) (ok bool, undecided bool, facts string) {
	ok, undecided, facts = twinCheckWith(c, f, g, mu, c.GC(f), c.GC(g))
	if !ok && !undecided {
		if ok2, und2, facts2 := twinCheckWith(c, f, g, mu, c.GCWith(f, expandPure(c)), c.GCWith(g, expandPure(c))); ok2 && !und2 {
			return true, false, facts2 + " (with pure callees expanded in place on both sides)"
		}
	}
	return
}

func twinCheckWith(c *Ctx, f, g *ssa.Function, mu *Mu, gf, gg *GCNF) (ok bool, undecided bool, facts string) {
	if gf.Undecided != "" || gg.Undecided != "" {
		return false, true, "normal form not built: " + gf.Undecided + gg.Undecided
	}
	var mapped, other []*GC
	for _, x := range gf.GCs {
		mapped = append(mapped, canonAllocs(mu.applyGC(x)))
	}
	for _, x := range gg.GCs {
		other = append(other, canonAllocs(x))
	}
	a, b := compareGCSets(gcStrings(mapped), gcStrings(other))
	if len(a) == 0 && len(b) == 0 {
		return true, false, fmt.Sprintf("%d guarded commands on each side are equal modulo μ (%d+%d paths)", len(gg.GCs), gf.NumPaths, gg.NumPaths)
	}
	var sb strings.Builder
	fmt.Fprintf(&sb, "the two halves are not mirror images: %d guarded command(s) of μ(%s) have no counterpart in %s and %d vice versa\n", len(a), c.p.FuncKey(f), c.p.FuncKey(g), len(b))
	if len(a) > 0 {
		sb.WriteString("  μ(first) only : " + trunc(a[0], 700) + "\n")
	}
	if len(b) > 0 {
		sb.WriteString("  second only   : " + trunc(b[0], 700))
	}
	return false, false, sb.String()
}

func isNegAtom(t *Term) bool { return t.Op == "!=" || t.Op == "!" }

func posAtoms(g *GC) map[string]bool {
	m := map[string]bool{}
	for _, a := range g.Guards {
		if !isNegAtom(a) {
			m[a.String()] = true
		}
	}
	return m
}

func subset(a, b map[string]bool) bool {
	for k := range a {
		if !b[k] {
			return false
		}
	}
	return true
}

func effectsExitString(g *GC) string {
	var es []string
	for _, e := range g.Effects {
		es = append(es, e.String())
	}
	return fmt.Sprintf("from=%d | %s | %s", g.From, strings.Join(es, " ; "), g.Exit)
}

// orientedOnly: the guarded command carries a strict comparator-sign atom (c<0 or 0<c).
func isOriented(g *GC) bool {
	for _, a := range g.Guards {
		if a.Op == "<" && len(a.Args) == 2 {
			if z, ok := a.Args[1].constInt(); ok && z == 0 && containsDyn(a.Args[0]) {
				return true
			}
			if z, ok := a.Args[0].constInt(); ok && z == 0 && containsDyn(a.Args[1]) {
				return true
			}
		}
	}
	return false
}

// selfCheck: GC(f) is closed under μ (DESIGN R10, arm pairs inside one function).
// Every guarded command's effects+exit must have their mirror image in the function; and for every class of
// commands sharing effects+exit, at least one command's guards must match a command of the mirror class, exactly or by
// else-arm subsumption (positive atoms of one ⊆ positive atoms of the other) — the second arm of an if/else chain
// legitimately omits atoms the first arm spells out (the side is implied by the tree invariants at that point).
// orientedOnly restricts the check to commands guarded by a comparator sign (the ==0 arm of a removal is asymmetric by design).
func selfCheck(c *Ctx, f *ssa.Function, mu *Mu, orientedOnly bool) (ok bool, undecided bool, facts string) {
	return selfCheckOpts(c, f, mu, orientedOnly, true)
}

// selfCheckOpts: with guardsToo == false only the closure of the effect classes under μ is required (every effect
// sequence has its mirror image somewhere in the function) — the reading for a function into which several cases were
// folded, whose paths accumulate the guards of all of them.
func selfCheckOpts(c *Ctx, f *ssa.Function, mu *Mu, orientedOnly, guardsToo bool) (ok bool, undecided bool, facts string) {
	gf := c.GC(f)
	if gf.Undecided != "" {
		return false, true, "normal form not built: " + gf.Undecided
	}
	classes := map[string][]*GC{}
	var order []string
	n := 0
	for _, x0 := range gf.GCs {
		x := canonAllocs(x0)
		if orientedOnly && !isOriented(x) {
			continue
		}
		n++
		k := effectsExitString(x)
		if _, ok := classes[k]; !ok {
			order = append(order, k)
		}
		classes[k] = append(classes[k], x)
	}
	if n == 0 {
		return false, true, "no guarded command to compare"
	}
	nexact, nsub := 0, 0
	for _, k := range order {
		xs := classes[k]
		mk := effectsExitString(canonAllocs(mu.applyGC(xs[0])))
		ys, ok := classes[mk]
		if !ok {
			return false, false, "the arms are not mirror images: the mirror image of these effects occurs nowhere in the function\n  command   : " + trunc(xs[0].String(), 700) + "\n  μ(effects): " + trunc(mk, 700)
		}
		matched := ""
		if !guardsToo {
			matched = "sub"
		}
		for _, x := range xs {
			if matched != "" {
				break
			}
			mx := canonAllocs(mu.applyGC(x))
			ms := mx.String()
			pm := posAtoms(mx)
			for _, y := range ys {
				if y.String() == ms {
					matched = "exact"
					break
				}
			}
			if matched != "" {
				break
			}
			for _, y := range ys {
				py := posAtoms(y)
				if subset(py, pm) || subset(pm, py) {
					matched = "sub"
				}
			}
			if matched != "" {
				break
			}
		}
		switch matched {
		case "exact":
			nexact++
		case "sub":
			nsub++
		default:
			return false, false, "the arms are not mirror images: the guards under which these effects run do not mirror the guards of the mirrored effects\n  command     : " + trunc(xs[0].String(), 700) + "\n  mirror class: " + trunc(ys[0].String(), 700)
		}
	}
	return true, false, fmt.Sprintf("%d guarded commands in %d effect classes closed under μ (%d classes matched exactly, %d by else-arm subsumption)", n, len(order), nexact, nsub)
}

var (
	muLR       = &Mu{Fields: swapMap("Left", "Right"), Names: swapMap("Left", "Right", "rotateLeft", "rotateRight", "left", "right")}
	muLRSign   = &Mu{Fields: swapMap("Left", "Right"), Names: swapMap("Left", "Right", "rotateLeft", "rotateRight"), FlipSign: true}
	muAVLSign  = &Mu{FlipIndex: "Children", FlipSign: true, NegArg: map[string]bool{"putFix": true, "removeFix": true}}
	muAVLArg   = &Mu{FlipIndex: "Children", FlipArg: map[string]bool{"bottom": true, "walk1": true}} // direction argument or, written out, the child index
	muIterTree = &Mu{Fields: swapMap("Left", "Right"), Names: swapMap("Left", "Right", "Next", "Prev", "Begin", "End"), Consts: swapMap("0:position", "2:position"),
		FlipIndex: "Children", FlipArg: map[string]bool{"bottom": true, "walk1": true}}
	muFirstLast  = &Mu{Names: swapMap("Begin", "End", "Next", "Prev", "First", "Last")}
	muNextPrevTo = &Mu{Names: swapMap("Next", "Prev", "NextTo", "PrevTo")}
	muNames      = &Mu{Names: swapMap("Left", "Right", "left", "right")}
)

func ruleR10(c *Ctx) *RuleResult {
	p := c.p
	r := &RuleResult{Rule: "R10", Title: "MIRROR: mirror halves (Left/Right, Floor/Ceiling, Next/Prev, rotations, fix-up arms) are mirror images", Floor: 50}
	clause := "the two halves implement one specification for the two directions: their guarded-command normal forms are equal modulo the involution μ (Left↔Right, <0↔>0, begin↔end, Next↔Prev, …)"
	typ := func(key string) *types.Named {
		for n := range p.T.Protected {
			if p.TypeKey(n) == key {
				return n
			}
		}
		for _, n := range p.T.Iterators {
			if p.TypeKey(n) == key {
				return n
			}
		}
		return nil
	}
	twin := func(tk, a, b string, mu *Mu) {
		n := typ(tk)
		key := tk + "." + a + "/" + b
		if n == nil {
			r.undecided(key, clause, "-", "anchored type not found")
			return
		}
		ms := methodsOf(p, n)
		f, g := ms[a], ms[b]
		if f == nil || g == nil {
			r.undecided(key, clause, p.Pos(n.Obj().Pos()), "anchored method not found")
			return
		}
		ok, und, facts := twinCheck(c, f, g, mu)
		switch {
		case und:
			r.undecided(key, clause, p.FuncPos(g), facts)
		case ok:
			r.ok(key, clause, p.FuncPos(g), facts)
		default:
			r.bad(key, clause, p.FuncPos(g), facts)
		}
	}
	self := func(tk, a string, mu *Mu, orientedOnly bool) {
		key := tk + "." + a
		var f *ssa.Function
		if n := typ(tk); n != nil {
			f = methodsOf(p, n)[a]
		}
		if f == nil {
			// a case of a fix-up chain that was folded into the chain's entry point: its two arms are arms of that
			// function now, and the whole function must be its own mirror image
			for _, fam := range chainFamilies {
				n := typ(tk)
				if n == nil || !strings.HasPrefix(a, fam.prefix) {
					continue
				}
				ms := methodsOf(p, n)
				if ms[fam.entry] == nil {
					continue
				}
				var names []string
				for nm := range ms {
					if strings.HasPrefix(nm, fam.prefix) {
						names = append(names, nm)
					}
				}
				sort.Strings(names)
				var all []string
				for _, nm := range names {
					ok, und, facts := selfCheckOpts(c, ms[nm], mu, orientedOnly, false)
					switch {
					case und:
						r.undecided(key, clause, p.FuncPos(ms[nm]), nm+": "+facts)
						return
					case !ok:
						r.bad(key, clause, p.FuncPos(ms[nm]), "(case "+a+" folded into the chain) "+nm+": "+facts)
						return
					}
					all = append(all, nm)
				}
				r.ok(key, clause, p.FuncPos(ms[fam.entry]), "case "+a+" is not a function of its own in this tree; in every remaining member of the chain every effect sequence has its mirror image (the conditions are the whole-chain skeleton's business): "+strings.Join(all, ", "))
				return
			}
		}
		if f == nil {
			r.undecided(key, clause, "-", "anchored method not found")
			return
		}
		ok, und, facts := selfCheck(c, f, mu, orientedOnly)
		switch {
		case und:
			r.undecided(key, clause, p.FuncPos(f), facts)
		case ok:
			r.ok(key, clause, p.FuncPos(f), facts)
		default:
			r.bad(key, clause, p.FuncPos(f), facts)
		}
	}
	const rbt, avl, bt = "trees/redblacktree", "trees/avltree", "trees/btree"
	twin(rbt+".Tree", "Floor", "Ceiling", muLRSign)
	twin(rbt+".Tree", "Left", "Right", muLR)
	twin(rbt+".Tree", "rotateLeft", "rotateRight", muLR)
	twin(rbt+".Iterator", "Next", "Prev", muIterTree)
	twin(avl+".Tree", "Floor", "Ceiling", muAVLSign)
	twin(avl+".Tree", "Left", "Right", muAVLArg)
	twin(avl+".Node", "Prev", "Next", muAVLArg)
	twin(avl+".Iterator", "Next", "Prev", muIterTree)
	twin(bt+".Tree", "Left", "Right", muNames)
	twin("maps/treemap.Map", "Min", "Max", muNames)
	for _, m := range []string{"insertCase4", "insertCase5", "deleteCase2", "deleteCase5", "deleteCase6", "replaceNode"} {
		self(rbt+".Tree", m, muLR, false)
	}
	self(rbt+".Node", "sibling", muLR, false)
	self(rbt+".Tree", "Put", muLRSign, false)
	self(rbt+".Tree", "lookup", muLRSign, false)
	self(avl+".Tree", "GetNode", muAVLSign, false)
	self(avl+".Tree", "put", muAVLSign, false)
	self(avl+".Tree", "remove", muAVLSign, true)
	for _, it := range p.T.RevIters {
		tk := p.TypeKey(it)
		// First/Last: when the two are not literal mirror images but each is (decided by symbolic evaluation, itersem.go) the
		// composition Begin;Next resp. End;Prev, they are mirror images because those parts are (their own obligations)
		if ms := methodsOf(p, it); ms["First"] != nil && ms["Last"] != nil {
			if ok, und, _ := twinCheck(c, ms["First"], ms["Last"], muFirstLast); !ok && !und {
				ownerF, ownerT := iterOwner(p, it)
				eq1, _ := firstIsComposition(c, it, ms["First"], ms["Begin"], ms["Next"], ownerF, ownerT)
				eq2, _ := firstIsComposition(c, it, ms["Last"], ms["End"], ms["Prev"], ownerF, ownerT)
				if eq1 && eq2 {
					r.ok(tk+".First/Last", clause, p.FuncPos(ms["Last"]), "First ≡ Begin;Next and Last ≡ End;Prev by symbolic evaluation; Begin/End and Next/Prev are mirror images by their own obligations")
					twin(tk, "NextTo", "PrevTo", muNextPrevTo)
					continue
				}
			}
		}
		twin(tk, "First", "Last", muFirstLast)
		twin(tk, "NextTo", "PrevTo", muNextPrevTo)
	}
	return r
}
