package main

// rules_guard.go — R5 RANGEGUARD, R7 ZEROTRIP (DESIGN §3).

import (
	"fmt"
	"go/token"
	"go/types"
	"sort"
	"strings"

	"golang.org/x/tools/go/ssa"
)

var indexedListMethods = []string{"Get", "Remove", "Insert", "Set", "Swap"}

// listTypes: containers that have all of Get/Remove/Insert/Set/Swap with a leading int parameter.
func listTypes(p *Prog) []*types.Named {
	var out []*types.Named
	for _, ct := range p.T.Containers {
		ms := methodsOf(p, ct)
		ok := true
		for _, n := range indexedListMethods {
			fn := ms[n]
			if fn == nil || len(fn.Params) < 2 || !isIntType(fn.Params[1].Type()) {
				ok = false
			}
		}
		if ok {
			out = append(out, ct)
		}
	}
	return out
}

func isIntType(t types.Type) bool {
	b, ok := types.Unalias(t).Underlying().(*types.Basic)
	return ok && b.Kind() == types.Int
}

// rangeCalls: the calls `recv.withinRange(prm)` in fn.
func rangeCalls(fn *ssa.Function, prm *ssa.Parameter) []*ssa.Call {
	var out []*ssa.Call
	for _, c := range allCalls(fn) {
		call, ok := c.(*ssa.Call)
		if !ok {
			continue
		}
		cal := StaticCallee(&call.Call)
		if cal == nil || fnName(cal) != "withinRange" || recvNamed(cal) != recvNamed(fn) || len(call.Call.Args) != 2 {
			continue
		}
		if stripChange(call.Call.Args[0]) == ssa.Value(fn.Params[0]) && call.Call.Args[1] == ssa.Value(prm) {
			out = append(out, call)
		}
	}
	return out
}

func guardedByAnyTrue(b *ssa.BasicBlock, calls []*ssa.Call) bool {
	for _, c := range calls {
		cc := c
		if guardedBy(b, func(v ssa.Value) bool { return v == ssa.Value(cc) }, true) {
			return true
		}
	}
	return false
}

// isSizeTermOf: v is the receiver's size term: recv.Size(), len(recv.<slice field>), or a load of an int field of recv named like a counter.
// (Used only to recognise the documented `index == size` append test; the equality of this term with Size() is R12f's business.)
func isSizeTermOf(p *Prog, fn *ssa.Function, v ssa.Value) bool {
	v = stripChange(v)
	if call, ok := v.(*ssa.Call); ok {
		if args, ok := builtinCall(call, "len"); ok {
			_, isF := recvField(fn, args[0])
			return isF
		}
		cal := StaticCallee(&call.Call)
		return cal != nil && fnName(cal) == "Size" && len(call.Call.Args) == 1 && stripChange(call.Call.Args[0]) == ssa.Value(fn.Params[0])
	}
	if _, ok := recvField(fn, v); ok && isLoadOfField(v) && isIntType(v.Type()) {
		return true
	}
	return false
}

func ruleR5(c *Ctx) *RuleResult {
	p, e := c.p, c.E()
	r := &RuleResult{Rule: "R5", Title: "RANGEGUARD: index parameters are range-checked before use; out-of-range is a no-op", Floor: 30}
	clA := "R5a every use of an index parameter (indexing, slicing, arithmetic, loop bounds, calls) happens only after withinRange(index) returned true"
	clB := "R5b with an out-of-range index the operation writes nothing, except the documented append (a call to Add guarded by index == size)"
	lts := listTypes(p)
	for _, lt := range lts {
		ms := methodsOf(p, lt)
		for _, name := range indexedListMethods {
			fn := ms[name]
			fk := p.FuncKey(fn)
			var idxParams []*ssa.Parameter
			for _, prm := range fn.Params[1:] {
				if isIntType(prm.Type()) {
					idxParams = append(idxParams, prm)
				}
			}
			// R5a
			var badA []string
			nuses := 0
			calls := map[*ssa.Parameter][]*ssa.Call{}
			for _, prm := range idxParams {
				rc := rangeCalls(fn, prm)
				calls[prm] = rc
				if len(rc) == 0 {
					badA = append(badA, "no call to withinRange("+prm.Name()+") found")
					continue
				}
				for _, ref := range *prm.Referrers() {
					switch x := ref.(type) {
					case *ssa.DebugRef:
						continue
					case *ssa.Call:
						isRC := false
						for _, q := range rc {
							if q == x {
								isRC = true
							}
						}
						if isRC {
							continue
						}
					case *ssa.BinOp:
						if x.Op == token.EQL || x.Op == token.NEQ {
							continue // comparisons cannot fault (append test, i != j, loop `e != index`)
						}
					}
					nuses++
					if !guardedByAnyTrue(ref.Block(), rc) {
						badA = append(badA, fmt.Sprintf("use of %s by %s at %s is not dominated by withinRange(%s) == true", prm.Name(), instrDesc(p, ref), p.InstrPos(ref), prm.Name()))
					}
				}
			}
			// second chance on the path normal form: the range test may be written out instead of calling withinRange
			gcA, gcB, gcFacts := false, false, ""
			if len(idxParams) > 0 {
				gcA, gcB, gcFacts = rangeGuardOnPaths(c, lt, fn, idxParams)
			}
			if len(badA) > 0 && gcA {
				badA = nil
			}
			if len(badA) > 0 {
				r.add(Obligation{Key: "R5a:" + fk, Rule: "R5a", Clause: clA, Pos: p.FuncPos(fn), Status: Violated, Facts: strings.Join(badA, "\n")})
			} else {
				r.add(Obligation{Key: "R5a:" + fk, Rule: "R5a", Clause: clA, Pos: p.FuncPos(fn), Status: Discharged, Facts: fmt.Sprintf("%d index parameter(s), %d guarded use(s)", len(idxParams), nuses)})
			}
			// R5b
			var badB []string
			effs := receiverEffects(e, fn)
			nappend := 0
			for _, in := range effs {
				all := true
				for _, prm := range idxParams {
					if !guardedByAnyTrue(in.Block(), calls[prm]) {
						all = false
					}
				}
				if all {
					continue
				}
				// the documented append: recv.Add(...) guarded by index == size-term
				if call, ok := in.(*ssa.Call); ok {
					cal := StaticCallee(&call.Call)
					if cal != nil && isMethodNamed(cal, lt, "Add") && stripChange(call.Call.Args[0]) == ssa.Value(fn.Params[0]) {
						okAppend := guardedBy(in.Block(), func(v ssa.Value) bool {
							b, isBin := v.(*ssa.BinOp)
							if !isBin || b.Op != token.EQL {
								return false
							}
							return (b.X == ssa.Value(idxParams[0]) && isSizeTermOf(p, fn, b.Y)) || (b.Y == ssa.Value(idxParams[0]) && isSizeTermOf(p, fn, b.X))
						}, true)
						if okAppend && (name == "Insert" || name == "Set") {
							nappend++
							continue
						}
					}
				}
				badB = append(badB, fmt.Sprintf("%s at %s can execute with an out-of-range index", instrDesc(p, in), p.InstrPos(in)))
			}
			if len(badB) > 0 && gcB {
				badB = nil
				_ = gcFacts
			}
			if len(badB) > 0 {
				r.add(Obligation{Key: "R5b:" + fk, Rule: "R5b", Clause: clB, Pos: p.FuncPos(fn), Status: Violated, Facts: strings.Join(badB, "\n")})
			} else {
				r.add(Obligation{Key: "R5b:" + fk, Rule: "R5b", Clause: clB, Pos: p.FuncPos(fn), Status: Discharged, Facts: fmt.Sprintf("%d receiver-writing instruction(s): all guarded by withinRange, %d documented append call(s)", len(effs), nappend)})
			}
		}
	}
	r.Analysed = append(r.Analysed, fmt.Sprintf("%d list types × %v", len(lts), indexedListMethods))
	return r
}

// rangeGuardOnPaths decides R5a/R5b on the guarded commands of fn: a path is "in range" for index parameter i when its
// guards (with what every path into its loop knows) imply 0 <= i and i < Size(); it is the documented append case when they
// contain i == Size(). R5a: the index occurs in an indexing / slicing position only on in-range paths. R5b: a path that is
// not in range for every index has no effect, except exactly one call of the receiver's Add on an append-case path.
func rangeGuardOnPaths(c *Ctx, lt *types.Named, fn *ssa.Function, idxParams []*ssa.Parameter) (okA, okB bool, facts string) {
	gc := c.GC(fn)
	if gc.Undecided != "" {
		return false, false, ""
	}
	sz := methodsOf(c.p, lt)["Size"]
	if sz == nil {
		return false, false, ""
	}
	st := returnTerm(c.GC(sz))
	if st == nil {
		return false, false, ""
	}
	S := st.String()
	okA, okB = true, true
	// Insert and Set document position == size as valid (append): a path that knows 0 <= i <= size may write, and may use
	// the index as a slice bound (slicing at the length is legal) — not as an element position
	appendOK := fnName(fn) == "Insert" || fnName(fn) == "Set"
	// a linked list that lets position == size into its splicing paths (instead of handing it to Add) is extending its tail
	// there: some path must then move `last` (the generic splice of an in-range position never does)
	inclusiveSplice, storesLast, hasLast := false, false, false
	if rn := recvNamed(fn); rn != nil {
		hasLast = hasFieldNamed(rn, "last")
	}
	for _, g0 := range gc.GCs {
		for _, ef := range g0.Effects {
			if isStore(ef) && ef.Args[0].Op == "fa" && ef.Args[0].Leaf == "last" && len(ef.Args[0].Args) == 1 && ef.Args[0].Args[0].String() == "p:0" {
				storesLast = true
			}
		}
	}
	defer func() {
		if hasLast && inclusiveSplice && !storesLast {
			okB = false
		}
	}()
	for _, g0 := range gc.GCs {
		guards := append(append([]*Term(nil), g0.Guards...), entryKnowledge(gc, g0.From, 0)...)
		allIn := true
		appendCase := false
		for _, prm := range idxParams {
			pi := -1
			for i, q := range fn.Params {
				if q == prm {
					pi = i
				}
			}
			P := "p:" + itoa(pi)
			lower, upper, le, ne := false, false, false, false
			for _, a := range guards {
				s := noEpoch(a)
				switch {
				case s == "(<= #:0 "+P+")" || s == "(< #:-1 "+P+")":
					lower = true
				case s == "(< "+P+" "+S+")":
					upper = true
				case s == "(<= "+P+" "+S+")":
					le = true
				case s == "(!= "+S+" "+P+")" || s == "(!= "+P+" "+S+")":
					ne = true
				case s == "(and (<= #:0 "+P+") (< "+P+" "+S+"))":
					lower, upper = true, true
				case s == "(== "+S+" "+P+")" || s == "(== "+P+" "+S+")":
					appendCase = true
				}
			}
			if le && ne {
				upper = true
			}
			in := lower && upper
			inclusive := appendOK && lower && (upper || le)
			if !in {
				if !inclusive {
					allIn = false
				} else {
					for _, ef := range g0.Effects {
						if isStore(ef) && ef.Args[0].Op == "fa" && (ef.Args[0].Leaf == "next" || ef.Args[0].Leaf == "first") {
							inclusiveSplice = true
						}
					}
				}
				// R5a: the index must not be used as a position on this path
				used := false
				chk := func(t *Term) bool {
					if (t.Op == "ia" || t.Op == "index") && len(t.Args) == 2 && t.Args[1].String() == P {
						used = true
					}
					if (t.Op == "ia" || t.Op == "index") && len(t.Args) == 2 && !inclusive && t.Args[1].any(func(x *Term) bool { return x.String() == P }) {
						used = true
					}
					if t.Op == "slice" && !inclusive {
						for _, b := range t.Args[1:] {
							if b.any(func(x *Term) bool { return x.String() == P }) {
								used = true
							}
						}
					}
					return false
				}
				for _, ef := range g0.Effects {
					ef.any(chk)
				}
				g0.Exit.any(chk)
				if used {
					okA = false
				}
			}
		}
		if !allIn {
			// R5b: no effect, except the documented append
			for _, ef := range g0.Effects {
				if nm, args, ok := effDo(ef); ok && nm == "Add" && len(args) >= 1 && args[0].String() == "p:0" && appendCase {
					continue
				}
				if isStore(ef) && ef.Args[0].Op == "ia" && ef.Args[0].Args[0].Op == "new" {
					continue // packing the variadic argument of that Add
				}
				okB = false
			}
			if g0.Exit.Op == "goto" {
				okB = false // enters a loop without knowing the index is in range
				okA = false
			}
		}
	}
	return okA, okB, "decided on the path normal form (range test written out)"
}

// ---- R7 ZEROTRIP ----

// evalAtZero evaluates a comparison between len(vs) and a constant for len == 0.
func evalLenCmpAtZero(b *ssa.BinOp, lens map[ssa.Value]bool) (bool, bool) {
	var cst int64
	var ok bool
	lenLeft := false
	if lens[b.X] {
		cst, ok = constInt(b.Y)
		lenLeft = true
	} else if lens[b.Y] {
		cst, ok = constInt(b.X)
	}
	if !ok {
		return false, false
	}
	l, rgt := int64(0), cst
	if !lenLeft {
		l, rgt = cst, 0
	}
	switch b.Op {
	case token.EQL:
		return l == rgt, true
	case token.NEQ:
		return l != rgt, true
	case token.LSS:
		return l < rgt, true
	case token.LEQ:
		return l <= rgt, true
	case token.GTR:
		return l > rgt, true
	case token.GEQ:
		return l >= rgt, true
	}
	return false, false
}

func mayBeNilViaPhis(v ssa.Value, seen map[ssa.Value]bool) bool {
	if seen[v] {
		return false
	}
	seen[v] = true
	if isNilConst(v) {
		return true
	}
	if ph, ok := v.(*ssa.Phi); ok {
		for _, e := range ph.Edges {
			if mayBeNilViaPhis(e, seen) {
				return true
			}
		}
	}
	return false
}

func derefsOf(v ssa.Value) []ssa.Instruction {
	var out []ssa.Instruction
	if v.Referrers() == nil {
		return nil // constants / globals have no referrer list
	}
	for _, ref := range *v.Referrers() {
		switch x := ref.(type) {
		case *ssa.FieldAddr:
			if x.X == v {
				out = append(out, x)
			}
		case *ssa.UnOp:
			if x.Op == token.MUL && x.X == v {
				out = append(out, x)
			}
		case *ssa.IndexAddr:
			if x.X == v {
				out = append(out, x)
			}
		case *ssa.Store:
			if x.Addr == v {
				out = append(out, x)
			}
		}
	}
	return out
}

func ruleR7(c *Ctx) *RuleResult {
	p := c.p
	r := &RuleResult{Rule: "R7", Title: "ZEROTRIP: an empty variadic list leaves no nil pointer to dereference", Floor: 30}
	clause := "after a range loop over a variadic parameter that ran zero times, a loop-carried pointer that may still be nil is not dereferenced (unless an emptiness / nil test or a dominating dereference guards it)"
	nloops, nphis := 0, 0
	for _, fn := range p.Funcs {
		if fn.Parent() != nil || !fn.Signature.Variadic() || len(fn.Params) == 0 {
			continue
		}
		vs := fn.Params[len(fn.Params)-1]
		lens := map[ssa.Value]bool{}
		for _, ref := range *vs.Referrers() {
			if call, ok := ref.(*ssa.Call); ok {
				if args, ok := builtinCall(call, "len"); ok && args[0] == ssa.Value(vs) {
					lens[call] = true
				}
			}
		}
		var bad, facts []string
		for _, h := range fn.Blocks {
			ifi, ok := h.Instrs[len(h.Instrs)-1].(*ssa.If)
			if !ok {
				continue
			}
			cond, ok := ifi.Cond.(*ssa.BinOp)
			if !ok || cond.Op != token.LSS || !lens[cond.Y] {
				continue
			}
			inc, ok := cond.X.(*ssa.BinOp)
			if !ok || inc.Op != token.ADD {
				continue
			}
			idx, ok := inc.X.(*ssa.Phi)
			if !ok || idx.Block() != h {
				continue
			}
			nloops++
			exit := h.Succs[1]
			for _, in := range h.Instrs {
				ph, ok := in.(*ssa.Phi)
				if !ok {
					break
				}
				if _, isPtr := types.Unalias(ph.Type()).Underlying().(*types.Pointer); !isPtr {
					continue
				}
				// entry operands: edges from predecessors outside the loop
				var entries []ssa.Value
				for i, pred := range h.Preds {
					if !h.Dominates(pred) {
						entries = append(entries, ph.Edges[i])
					}
				}
				maybeNil := false
				for _, en := range entries {
					if mayBeNilViaPhis(en, map[ssa.Value]bool{}) {
						maybeNil = true
					}
				}
				if !maybeNil {
					continue
				}
				nphis++
				for _, d := range derefsOf(ph) {
					if !(exit == d.Block() || exit.Dominates(d.Block())) {
						continue // in-loop dereference: not this rule
					}
					guarded := ""
					// (a) a dominating dereference of every entry operand
					allDeref := len(entries) > 0
					for _, en := range entries {
						found := false
						for _, ed := range derefsOf(en) {
							if ed.Block() != d.Block() && ed.Block().Dominates(d.Block()) && !h.Dominates(ed.Block()) {
								found = true
							}
						}
						if !found {
							allDeref = false
						}
					}
					if allDeref {
						guarded = "a dominating dereference of the entry value"
					}
					// (b) emptiness test on len(vs); (c) phi != nil test
					for _, g := range guardsOf(d.Block()) {
						v, flip := stripNot(g.If.Cond)
						pol := g.Polarity
						if flip {
							pol = !pol
						}
						if b, ok := v.(*ssa.BinOp); ok {
							if val, ok := evalLenCmpAtZero(b, lens); ok && val != pol {
								guarded = "an emptiness test on len(" + vs.Name() + ")"
							}
							if (b.Op == token.NEQ && pol || b.Op == token.EQL && !pol) && ((b.X == ssa.Value(ph) && isNilConst(b.Y)) || (b.Y == ssa.Value(ph) && isNilConst(b.X))) {
								guarded = "a nil test of the pointer"
							}
						}
					}
					if guarded == "" {
						bad = append(bad, fmt.Sprintf("%s (loop-carried %s) is dereferenced at %s after a range over %s that may run zero times while it is still nil", ph.Comment, ph.Type(), p.InstrPos(d), vs.Name()))
					} else {
						facts = append(facts, fmt.Sprintf("deref of %s at %s guarded by %s", ph.Comment, p.InstrPos(d), guarded))
					}
				}
			}
		}
		sort.Strings(bad)
		key := p.FuncKey(fn)
		if len(bad) > 0 {
			r.bad(key, clause, p.FuncPos(fn), strings.Join(bad, "\n"))
		} else {
			f := "no loop-carried pointer can be nil after a zero-trip range over " + vs.Name()
			if len(facts) > 0 {
				f = strings.Join(facts, "; ")
			}
			r.ok(key, clause, p.FuncPos(fn), f)
		}
	}
	r.Analysed = append(r.Analysed, fmt.Sprintf("%d range loops over variadic parameters, %d possibly-nil pointer φs examined", nloops, nphis))
	return r
}
