package main

// rootfx.go — E1: roots, effects, aliases (DESIGN §2 E1).
//
// A conservative, summary-based, flow-insensitive effect/alias analysis over go/ssa. For every
// library function it computes which regions (parameter k / global / fresh) it may write,
// what its results may be rooted at, which argument-derived references it retains, and whether
// it can reach an output routine or an explicit panic. Nothing is executed.

import (
	"fmt"
	"go/token"
	"go/types"
	"sort"
	"strings"

	"golang.org/x/tools/go/ssa"
)

type rootKind uint8

const (
	RParam rootKind = iota
	RFresh
	RGlobal
)

// Root is an abstract region. RParam: everything reachable from parameter I at entry (free variables of
// closures are numbered after the parameters). RFresh: the object(s) allocated at Site (I distinguishes
// the returned (0) from the stored-into-an-argument (1) pseudo-site of a call). RGlobal: a package variable.
type Root struct {
	K    rootKind
	I    int
	Site ssa.Value
}

var genericFresh = Root{K: RFresh}

func (r Root) String() string {
	switch r.K {
	case RParam:
		return fmt.Sprintf("P%d", r.I)
	case RGlobal:
		if g, ok := r.Site.(*ssa.Global); ok {
			return "Global(" + g.Pkg.Pkg.Name() + "." + g.Name() + ")"
		}
		return "Global"
	default:
		return "Fresh"
	}
}

type RootSet map[Root]struct{}

func (s RootSet) add(r Root) bool {
	if _, ok := s[r]; ok {
		return false
	}
	s[r] = struct{}{}
	return true
}
func (s RootSet) addAll(o RootSet) bool {
	ch := false
	for r := range o {
		if s.add(r) {
			ch = true
		}
	}
	return ch
}
func (s RootSet) has(r Root) bool { _, ok := s[r]; return ok }
func (s RootSet) String() string {
	var xs []string
	seenFresh := false
	for r := range s {
		if r.K == RFresh {
			if seenFresh {
				continue
			}
			seenFresh = true
		}
		xs = append(xs, r.String())
	}
	sort.Strings(xs)
	return "{" + strings.Join(xs, ",") + "}"
}
func (s RootSet) onlyFresh() bool {
	for r := range s {
		if r.K != RFresh {
			return false
		}
	}
	return true
}
func (s RootSet) hasFresh() bool {
	for r := range s {
		if r.K == RFresh {
			return true
		}
	}
	return false
}

type WEntry struct {
	Root Root // RParam or RGlobal
	Kind Kind
}

func (w WEntry) String() string { return "(" + w.Root.String() + "," + w.Kind.String() + ")" }

// Witness explains one summary fact: the instruction (or call chain) responsible.
type Witness struct {
	Pos  string
	Desc string
}

func (w *Witness) String() string {
	if w == nil {
		return ""
	}
	return w.Desc + " at " + w.Pos
}

type KeepEntry struct{ From, To Root } // a rooted value derived from region From is stored into region To

// Summary of one function.
type Summary struct {
	W         map[WEntry]*Witness
	Ret       []RootSet // per result; Fresh is the generic marker
	Keep      map[KeepEntry]*Witness
	FreshInto map[Root]bool // a callee-allocated object is stored into this (param/global) region
	Out       *Witness      // reaches stdout/stderr
	Panics    []*Witness    // explicit panics / exits reached (own or callees')
	Undecided map[string]*Witness
	ClosureEscapes []*Witness
}

func newSummary(nres int) *Summary {
	s := &Summary{W: map[WEntry]*Witness{}, Keep: map[KeepEntry]*Witness{}, FreshInto: map[Root]bool{}, Undecided: map[string]*Witness{}}
	s.Ret = make([]RootSet, nres)
	for i := range s.Ret {
		s.Ret[i] = RootSet{}
	}
	return s
}

func (s *Summary) size() int {
	n := len(s.W) + len(s.Keep) + len(s.FreshInto) + len(s.Panics) + len(s.Undecided) + len(s.ClosureEscapes)
	for _, r := range s.Ret {
		n += len(r)
	}
	if s.Out != nil {
		n++
	}
	return n
}

func (s *Summary) WString() string {
	var xs []string
	for w := range s.W {
		xs = append(xs, w.String())
	}
	sort.Strings(xs)
	return "{" + strings.Join(xs, " ") + "}"
}

// DynCall is a call through a func value or an interface method.
type DynCall struct {
	Fn       *ssa.Function
	Instr    ssa.CallInstruction
	Invoke   bool
	Rootless bool // every argument is rootless
	Desc     string
}

// Effects is the whole-program E1 result.
type Effects struct {
	p       *Prog
	Sum     map[*ssa.Function]*Summary
	fa      map[*ssa.Function]*fnAnalysis
	Dyn     []DynCall
	Rounds  int
	invokeImpl map[string][]*ssa.Function
}

type fnAnalysis struct {
	e        *Effects
	fn       *ssa.Function
	val      map[ssa.Value]RootSet
	tuple    map[ssa.Value][]RootSet
	contents map[Root]RootSet
	escapes  map[Root]RootSet // fresh site -> non-fresh regions it was stored into
	sum      *Summary
	changed  bool
	record   bool
	instrW   map[ssa.Instruction][]WEntry // filled in the recording pass
}

// ComputeEffects runs E1 to a fixpoint over all library functions.
func ComputeEffects(p *Prog) *Effects {
	e := &Effects{p: p, Sum: map[*ssa.Function]*Summary{}, fa: map[*ssa.Function]*fnAnalysis{}, invokeImpl: map[string][]*ssa.Function{}}
	for _, fn := range p.Funcs {
		e.Sum[fn] = newSummary(fn.Signature.Results().Len())
	}
	for round := 1; round <= 50; round++ {
		e.Rounds = round
		changed := false
		for _, fn := range p.Funcs {
			before := e.Sum[fn].size()
			a := e.analyze(fn, false)
			e.fa[fn] = a
			if a.sum.size() != before {
				changed = true
			}
		}
		if !changed {
			break
		}
		if round == 50 {
			infraFail("E1 did not reach a fixpoint in 50 rounds")
		}
	}
	// recording pass: per-instruction effects and dynamic call list
	for _, fn := range p.Funcs {
		e.fa[fn] = e.analyze(fn, true)
	}
	sort.Slice(e.Dyn, func(i, j int) bool { return e.Dyn[i].Desc < e.Dyn[j].Desc })
	return e
}

func isRootedType(t types.Type) bool { return rooted(t, map[types.Type]bool{}) }

func rooted(t types.Type, seen map[types.Type]bool) bool {
	t = types.Unalias(t)
	if seen[t] {
		return false
	}
	seen[t] = true
	switch u := t.(type) {
	case *types.TypeParam:
		return false // opaque element (assumption A1)
	case *types.Basic:
		return u.Kind() == types.UnsafePointer
	case *types.Pointer, *types.Slice, *types.Map, *types.Chan:
		return true
	case *types.Signature:
		return false
	case *types.Interface:
		return true
	case *types.Struct:
		for i := 0; i < u.NumFields(); i++ {
			if rooted(u.Field(i).Type(), seen) {
				return true
			}
		}
		return false
	case *types.Array:
		return rooted(u.Elem(), seen)
	case *types.Named:
		return rooted(u.Underlying(), seen)
	case *types.Tuple:
		for i := 0; i < u.Len(); i++ {
			if rooted(u.At(i).Type(), seen) {
				return true
			}
		}
		return false
	}
	return true
}

func (e *Effects) analyze(fn *ssa.Function, record bool) *fnAnalysis {
	a := &fnAnalysis{e: e, fn: fn, val: map[ssa.Value]RootSet{}, tuple: map[ssa.Value][]RootSet{}, contents: map[Root]RootSet{},
		escapes: map[Root]RootSet{}, sum: e.Sum[fn], record: false}
	for i, prm := range fn.Params {
		if isRootedType(prm.Type()) {
			a.val[prm] = RootSet{Root{K: RParam, I: i}: {}}
		}
	}
	for j, fv := range fn.FreeVars {
		// a free variable is the *address* of the captured variable (or the value for non-addressed captures)
		a.val[fv] = RootSet{Root{K: RParam, I: len(fn.Params) + j}: {}}
	}
	if in, name := refsOutputGlobal(fn); in != nil && a.sum.Out == nil {
		a.sum.Out = &Witness{Pos: a.pos(in), Desc: "reference to " + name}
	}
	for iter := 0; iter < 100; iter++ {
		a.changed = false
		for _, b := range fn.Blocks {
			for _, in := range b.Instrs {
				a.transfer(in)
			}
		}
		if !a.changed {
			break
		}
		if iter == 99 {
			infraFail("E1 intra-procedural fixpoint not reached in %s", e.p.FuncKey(fn))
		}
	}
	if record {
		a.record = true
		a.instrW = map[ssa.Instruction][]WEntry{}
		for _, b := range fn.Blocks {
			for _, in := range b.Instrs {
				a.transfer(in)
			}
		}
	}
	return a
}

func (a *fnAnalysis) get(v ssa.Value) RootSet {
	switch x := v.(type) {
	case *ssa.Const, *ssa.Function, *ssa.Builtin:
		return nil
	case *ssa.Global:
		return RootSet{Root{K: RGlobal, Site: x}: {}}
	}
	return a.val[v]
}

func (a *fnAnalysis) setVal(v ssa.Value, s RootSet) {
	if len(s) == 0 {
		return
	}
	cur := a.val[v]
	if cur == nil {
		cur = RootSet{}
		a.val[v] = cur
	}
	if cur.addAll(s) {
		a.changed = true
	}
}

func (a *fnAnalysis) addContents(r Root, s RootSet) {
	if len(s) == 0 {
		return
	}
	cur := a.contents[r]
	if cur == nil {
		cur = RootSet{}
		a.contents[r] = cur
	}
	if cur.addAll(s) {
		a.changed = true
	}
}

// reach is the closure of a root set under "contents".
func (a *fnAnalysis) reach(s RootSet) RootSet {
	out := RootSet{}
	var work []Root
	for r := range s {
		if out.add(r) {
			work = append(work, r)
		}
	}
	for len(work) > 0 {
		r := work[len(work)-1]
		work = work[:len(work)-1]
		for c := range a.contents[r] {
			if out.add(c) {
				work = append(work, c)
			}
		}
	}
	return out
}

// load models reading a value of type t through an address with origins o.
func (a *fnAnalysis) load(o RootSet, t types.Type) RootSet {
	if !isRootedType(t) {
		return nil
	}
	out := RootSet{}
	for r := range o {
		if r.K != RFresh {
			out.add(r)
		}
		out.addAll(a.contents[r])
	}
	return out
}

func (a *fnAnalysis) pos(in ssa.Instruction) string { return a.e.p.InstrPos(in) }

func (a *fnAnalysis) addW(in ssa.Instruction, r Root, k Kind, desc string) {
	if r.K == RFresh {
		return
	}
	w := WEntry{r, k}
	if a.record {
		a.instrW[in] = append(a.instrW[in], w)
		return
	}
	if _, ok := a.sum.W[w]; !ok {
		a.sum.W[w] = &Witness{Pos: a.pos(in), Desc: desc}
		a.changed = true
	}
}

func (a *fnAnalysis) addKeep(in ssa.Instruction, from, to Root, desc string) {
	if from == to || a.record {
		return
	}
	if to.K == RFresh {
		return
	}
	if from.K == RFresh {
		es := a.escapes[from]
		if es == nil {
			es = RootSet{}
			a.escapes[from] = es
		}
		if es.add(to) {
			a.changed = true
		}
		if !a.sum.FreshInto[to] {
			a.sum.FreshInto[to] = true
			a.changed = true
		}
		return
	}
	k := KeepEntry{from, to}
	if _, ok := a.sum.Keep[k]; !ok {
		a.sum.Keep[k] = &Witness{Pos: a.pos(in), Desc: desc}
		a.changed = true
	}
}

// storeInto models "a value with origins vo is stored into memory addressed by ao" (kind = kind of the written object).
func (a *fnAnalysis) storeInto(in ssa.Instruction, ao RootSet, kind Kind, vo RootSet, desc string) {
	for r := range ao {
		a.addW(in, r, kind, desc)
		if a.record {
			continue
		}
		a.addContents(r, vo)
		for o := range a.reach(vo) {
			a.addKeep(in, o, r, desc)
		}
	}
}

// writeOnly models a write that stores no rooted value (e.g. clear, sort, scalar store).
func (a *fnAnalysis) writeOnly(in ssa.Instruction, ao RootSet, kind Kind, desc string) {
	for r := range ao {
		a.addW(in, r, kind, desc)
	}
}

func (a *fnAnalysis) undecided(in ssa.Instruction, what string) {
	if a.record {
		return
	}
	if _, ok := a.sum.Undecided[what]; !ok {
		a.sum.Undecided[what] = &Witness{Pos: a.pos(in), Desc: what}
		a.changed = true
	}
}

func elemType(t types.Type) types.Type {
	switch u := types.Unalias(t).Underlying().(type) {
	case *types.Slice:
		return u.Elem()
	case *types.Array:
		return u.Elem()
	case *types.Pointer:
		return elemType(u.Elem())
	case *types.Map:
		return u.Elem()
	}
	return nil
}

// kindOf classifies the memory object v points to / into.
func (a *fnAnalysis) kindOf(v ssa.Value) Kind { return a.kindOfD(v, 0) }

func (a *fnAnalysis) kindOfD(v ssa.Value, depth int) Kind {
	if depth > 12 || v == nil {
		return KOther
	}
	T := a.e.p.T
	switch x := v.(type) {
	case *ssa.FieldAddr:
		// the written object is the struct owning the field
		if k := T.KindOfStruct(x.X.Type()); k != KOther {
			return k
		}
		return a.kindOfD(x.X, depth+1)
	}
	if pt, ok := types.Unalias(v.Type()).Underlying().(*types.Pointer); ok {
		if _, isPtr := types.Unalias(pt.Elem()).(*types.Pointer); !isPtr {
			if k := T.KindOfStruct(pt.Elem()); k != KOther {
				return k
			}
		}
	}
	switch x := v.(type) {
	case *ssa.IndexAddr:
		return a.kindOfD(x.X, depth+1)
	case *ssa.UnOp:
		return a.kindOfD(x.X, depth+1)
	case *ssa.Slice:
		return a.kindOfD(x.X, depth+1)
	case *ssa.Field:
		if k := T.KindOfStruct(x.X.Type()); k != KOther {
			return k
		}
		return a.kindOfD(x.X, depth+1)
	case *ssa.Index:
		return a.kindOfD(x.X, depth+1)
	case *ssa.Lookup:
		return a.kindOfD(x.X, depth+1)
	case *ssa.ChangeType:
		return a.kindOfD(x.X, depth+1)
	case *ssa.Convert:
		return a.kindOfD(x.X, depth+1)
	case *ssa.ChangeInterface:
		return a.kindOfD(x.X, depth+1)
	case *ssa.MakeInterface:
		return a.kindOfD(x.X, depth+1)
	case *ssa.TypeAssert:
		return a.kindOfD(x.X, depth+1)
	case *ssa.Extract:
		return a.kindOfD(x.Tuple, depth+1)
	case *ssa.Phi:
		k := KOther
		for _, e := range x.Edges {
			if ek := a.kindOfD(e, depth+1); ek > k {
				k = ek
			}
		}
		return k
	case *ssa.Call:
		// builtin append / slices.Insert etc. return (an alias of) their first argument
		if len(x.Call.Args) > 0 {
			if b, ok := x.Call.Value.(*ssa.Builtin); ok && b.Name() == "append" {
				return a.kindOfD(x.Call.Args[0], depth+1)
			}
			if c := StaticCallee(&x.Call); c != nil && !a.e.p.IsLib(c) {
				if sp, ok := stdSpec(c); ok && len(sp.retAlias) > 0 {
					return a.kindOfD(x.Call.Args[sp.retAlias[0]], depth+1)
				}
			}
		}
	}
	return KOther
}

func structFieldDesc(fa *ssa.FieldAddr) string {
	st, ok := types.Unalias(fa.X.Type()).Underlying().(*types.Pointer)
	if !ok {
		return "field"
	}
	s, ok := st.Elem().Underlying().(*types.Struct)
	if !ok {
		return "field"
	}
	tn := "struct"
	if n := namedOf(st.Elem()); n != nil {
		tn = n.Obj().Name()
	}
	return tn + "." + s.Field(fa.Field).Name()
}

func addrDesc(v ssa.Value) string {
	switch x := v.(type) {
	case *ssa.FieldAddr:
		return "field " + structFieldDesc(x)
	case *ssa.IndexAddr:
		return "element of " + addrDesc2(x.X)
	case *ssa.Global:
		return "global " + x.Name()
	case *ssa.Parameter:
		return "*" + x.Name()
	case *ssa.Alloc:
		return "local " + x.Comment
	}
	return "memory (" + v.Name() + ")"
}

func addrDesc2(v ssa.Value) string {
	switch x := v.(type) {
	case *ssa.UnOp:
		return addrDesc(x.X)
	case *ssa.Slice:
		return addrDesc2(x.X)
	case *ssa.Parameter:
		return x.Name()
	}
	return v.Name()
}

func isClosureValue(v ssa.Value, depth int) bool {
	if depth > 6 {
		return false
	}
	switch x := v.(type) {
	case *ssa.MakeClosure:
		return true
	case *ssa.Function:
		return x.Parent() != nil
	case *ssa.Phi:
		for _, e := range x.Edges {
			if isClosureValue(e, depth+1) {
				return true
			}
		}
	case *ssa.ChangeType:
		return isClosureValue(x.X, depth+1)
	case *ssa.MakeInterface:
		return isClosureValue(x.X, depth+1)
	}
	return false
}

func (a *fnAnalysis) transfer(in ssa.Instruction) {
	switch x := in.(type) {
	case *ssa.Alloc:
		a.setVal(x, RootSet{Root{K: RFresh, Site: x}: {}})
	case *ssa.MakeSlice:
		a.setVal(x, RootSet{Root{K: RFresh, Site: x}: {}})
	case *ssa.MakeMap:
		a.setVal(x, RootSet{Root{K: RFresh, Site: x}: {}})
	case *ssa.MakeChan:
		a.setVal(x, RootSet{Root{K: RFresh, Site: x}: {}})
	case *ssa.MakeClosure:
		s := RootSet{}
		for _, b := range x.Bindings {
			s.addAll(a.get(b))
		}
		a.setVal(x, s)
		// the closure body's effects are attributed to the creator (it, or a callee it hands the closure to, runs it)
		if cf, ok := x.Fn.(*ssa.Function); ok {
			cf = origin(cf)
			if cs := a.e.Sum[cf]; cs != nil {
				actual := func(j int) (RootSet, ssa.Value) {
					if j >= len(cf.Params) && j-len(cf.Params) < len(x.Bindings) {
						b := x.Bindings[j-len(cf.Params)]
						return a.get(b), b
					}
					return nil, nil
				}
				a.applySummary(in, cf, cs, actual, nil)
				for _, prm := range cf.Params {
					if isRootedType(prm.Type()) {
						a.undecided(in, "closure "+a.e.p.FuncKey(cf)+" takes a rooted parameter")
					}
				}
			}
		}
	case *ssa.FieldAddr:
		a.setVal(x, a.get(x.X))
	case *ssa.IndexAddr:
		a.setVal(x, a.get(x.X))
	case *ssa.Field:
		if isRootedType(x.Type()) {
			a.setVal(x, a.get(x.X))
		}
	case *ssa.Index:
		if isRootedType(x.Type()) {
			a.setVal(x, a.get(x.X))
		}
	case *ssa.Lookup:
		if _, isMap := types.Unalias(x.X.Type()).Underlying().(*types.Map); isMap {
			et := elemType(x.X.Type())
			r := a.load(a.get(x.X), et)
			if x.CommaOk {
				a.setTuple(x, 0, r)
			} else {
				a.setVal(x, r)
			}
		}
	case *ssa.UnOp:
		if x.Op == token.MUL || x.Op == token.ARROW {
			a.setVal(x, a.load(a.get(x.X), x.Type()))
		}
	case *ssa.Slice:
		if isRootedType(x.Type()) {
			a.setVal(x, a.get(x.X))
		}
	case *ssa.Phi:
		for _, e := range x.Edges {
			a.setVal(x, a.get(e))
		}
	case *ssa.ChangeType:
		a.setVal(x, a.get(x.X))
	case *ssa.ChangeInterface:
		a.setVal(x, a.get(x.X))
	case *ssa.MakeInterface:
		a.setVal(x, a.get(x.X))
	case *ssa.SliceToArrayPointer:
		a.setVal(x, a.get(x.X))
	case *ssa.MultiConvert:
		a.setVal(x, a.get(x.X))
	case *ssa.Convert:
		if isRootedType(x.Type()) {
			if isRootedType(x.X.Type()) {
				a.setVal(x, a.get(x.X))
			} else {
				a.setVal(x, RootSet{Root{K: RFresh, Site: x}: {}}) // []byte(string) etc.
			}
		}
	case *ssa.TypeAssert:
		r := a.get(x.X)
		if !isRootedType(x.AssertedType) {
			r = nil
		}
		if x.CommaOk {
			a.setTuple(x, 0, r)
		} else {
			a.setVal(x, r)
		}
	case *ssa.Extract:
		if ts := a.tuple[x.Tuple]; ts != nil && x.Index < len(ts) {
			if isRootedType(x.Type()) {
				a.setVal(x, ts[x.Index])
			}
		} else if isRootedType(x.Type()) {
			a.setVal(x, a.get(x.Tuple))
		}
	case *ssa.Range:
		a.setVal(x, a.get(x.X))
	case *ssa.Next:
		if !x.IsString {
			if it, ok := x.Iter.(*ssa.Range); ok {
				if mt, ok := types.Unalias(it.X.Type()).Underlying().(*types.Map); ok {
					o := a.get(x.Iter)
					a.setTuple(x, 1, a.load(o, mt.Key()))
					a.setTuple(x, 2, a.load(o, mt.Elem()))
				}
			}
		}
	case *ssa.BinOp, *ssa.DebugRef, *ssa.Jump, *ssa.If, *ssa.RunDefers:
		// no roots
	case *ssa.Select:
		a.undecided(in, "select statement")
	case *ssa.Store:
		vo := a.get(x.Val)
		if !isRootedType(x.Val.Type()) {
			vo = nil
		}
		if !a.record && isClosureValue(x.Val, 0) {
			for r := range a.get(x.Addr) {
				if r.K != RFresh {
					a.sum.ClosureEscapes = appendWitnessOnce(a.sum.ClosureEscapes, &Witness{Pos: a.pos(in), Desc: "closure stored into " + addrDesc(x.Addr)}, &a.changed)
				}
			}
		}
		a.storeInto(in, a.get(x.Addr), a.kindOf(x.Addr), vo, "store to "+addrDesc(x.Addr))
	case *ssa.MapUpdate:
		vo := RootSet{}
		if isRootedType(x.Key.Type()) {
			vo.addAll(a.get(x.Key))
		}
		if isRootedType(x.Value.Type()) {
			vo.addAll(a.get(x.Value))
		}
		a.storeInto(in, a.get(x.Map), a.kindOf(x.Map), vo, "map assignment to "+addrDesc2(x.Map))
	case *ssa.Send:
		a.storeInto(in, a.get(x.Chan), a.kindOf(x.Chan), a.get(x.X), "channel send")
	case *ssa.Return:
		if a.record {
			return
		}
		for i, r := range x.Results {
			if i >= len(a.sum.Ret) || !isRootedType(r.Type()) {
				continue
			}
			rs := a.summarizeRoots(a.reach(a.get(r)))
			if a.sum.Ret[i].addAll(rs) {
				a.changed = true
			}
		}
	case *ssa.Panic:
		if !a.record {
			a.sum.Panics = appendWitnessOnce(a.sum.Panics, &Witness{Pos: a.pos(in), Desc: "explicit panic in " + a.e.p.FuncKey(a.fn)}, &a.changed)
		}
	case *ssa.Call:
		a.call(in, x, &x.Call)
	case *ssa.Go:
		a.call(in, nil, &x.Call)
		a.undecided(in, "go statement")
	case *ssa.Defer:
		a.call(in, nil, &x.Call)
	default:
		a.undecided(in, fmt.Sprintf("unhandled SSA instruction %T", in))
	}
}

func appendWitnessOnce(ws []*Witness, w *Witness, changed *bool) []*Witness {
	for _, x := range ws {
		if x.Pos == w.Pos && x.Desc == w.Desc {
			return ws
		}
	}
	*changed = true
	return append(ws, w)
}

func (a *fnAnalysis) setTuple(v ssa.Value, idx int, s RootSet) {
	ts := a.tuple[v]
	if ts == nil {
		n := 3
		if tt, ok := v.Type().(*types.Tuple); ok {
			n = tt.Len()
		}
		ts = make([]RootSet, n)
		for i := range ts {
			ts[i] = RootSet{}
		}
		a.tuple[v] = ts
	}
	if idx < len(ts) && len(s) > 0 {
		if ts[idx].addAll(s) {
			a.changed = true
		}
	}
}

// summarizeRoots turns local roots into summary roots: a fresh site that escaped into a region is rooted there.
func (a *fnAnalysis) summarizeRoots(s RootSet) RootSet {
	out := RootSet{}
	for r := range s {
		if r.K == RFresh {
			if es := a.escapes[r]; len(es) > 0 {
				out.addAll(es)
			} else {
				out.add(genericFresh)
			}
		} else {
			out.add(r)
		}
	}
	return out
}

// applySummary maps a callee summary into the caller at instruction `in`. actual(j) gives the origins (and value) of
// the callee's j-th parameter (free variables are numbered after the parameters). res receives per-result origins.
func (a *fnAnalysis) applySummary(in ssa.Instruction, callee *ssa.Function, cs *Summary, actual func(j int) (RootSet, ssa.Value), res func(i int, s RootSet)) {
	ckey := a.e.p.FuncKey(callee)
	region := func(r Root) (RootSet, ssa.Value) {
		switch r.K {
		case RParam:
			o, v := actual(r.I)
			return a.reach(o), v
		case RGlobal:
			return RootSet{r: {}}, nil
		}
		return nil, nil
	}
	for w, wit := range cs.W {
		reg, av := region(w.Root)
		k := w.Kind
		if k == KOther && av != nil {
			k = a.kindOf(av)
		}
		for r := range reg {
			a.addW(in, r, k, "call "+ckey+" → "+wit.String())
		}
	}
	if !a.record {
		for ke, wit := range cs.Keep {
			from, _ := region(ke.From)
			to, _ := region(ke.To)
			for t := range to {
				a.addContents(t, from)
				for f := range from {
					a.addKeep(in, f, t, "call "+ckey+" → "+wit.String())
				}
			}
		}
		for r := range cs.FreshInto {
			to, _ := region(r)
			stored := Root{K: RFresh, I: 1, Site: instrValue(in)}
			for t := range to {
				a.addContents(t, RootSet{stored: {}})
				a.addKeep(in, stored, t, "call "+ckey+" stores a fresh object")
			}
		}
		if cs.Out != nil && a.sum.Out == nil {
			a.sum.Out = &Witness{Pos: a.pos(in), Desc: "call " + ckey + " → " + cs.Out.String()}
			a.changed = true
		}
		for _, pw := range cs.Panics {
			a.sum.Panics = appendWitnessOnce(a.sum.Panics, pw, &a.changed)
		}
		for _, cw := range cs.ClosureEscapes {
			a.sum.ClosureEscapes = appendWitnessOnce(a.sum.ClosureEscapes, cw, &a.changed)
		}
		for what, wit := range cs.Undecided {
			if _, ok := a.sum.Undecided[what]; !ok {
				a.sum.Undecided[what] = wit
				a.changed = true
			}
		}
	}
	if res != nil {
		for i, rs := range cs.Ret {
			out := RootSet{}
			for r := range rs {
				switch r.K {
				case RFresh:
					out.add(Root{K: RFresh, I: 0, Site: instrValue(in)})
				default:
					reg, _ := region(r)
					out.addAll(reg)
				}
			}
			res(i, out)
		}
	}
}

func instrValue(in ssa.Instruction) ssa.Value {
	if v, ok := in.(ssa.Value); ok {
		return v
	}
	return nil
}

func (a *fnAnalysis) setCallResult(v *ssa.Call, i int, s RootSet) {
	if v == nil {
		return
	}
	if tt, ok := v.Type().(*types.Tuple); ok {
		if i < tt.Len() && isRootedType(tt.At(i).Type()) {
			a.setTuple(v, i, s)
		} else {
			a.setTuple(v, i, nil)
		}
		return
	}
	if i == 0 && isRootedType(v.Type()) {
		a.setVal(v, s)
	}
}

func (a *fnAnalysis) call(in ssa.Instruction, v *ssa.Call, c *ssa.CallCommon) {
	p := a.e.p
	// builtins
	if b, ok := c.Value.(*ssa.Builtin); ok {
		a.builtin(in, v, b.Name(), c.Args)
		return
	}
	if c.IsInvoke() {
		a.invoke(in, v, c)
		return
	}
	callee := StaticCallee(c)
	if callee == nil {
		// call through a func value
		rootless := true
		for _, arg := range c.Args {
			if isRootedType(arg.Type()) && len(a.get(arg)) > 0 {
				rootless = false
			}
		}
		if a.record {
			a.e.Dyn = append(a.e.Dyn, DynCall{Fn: a.fn, Instr: in.(ssa.CallInstruction), Rootless: rootless,
				Desc: fmt.Sprintf("%s: call through func value %s at %s", p.FuncKey(a.fn), calleeValueDesc(c.Value), a.pos(in))})
		}
		if !rootless {
			a.undecided(in, "call through a func value with a rooted argument in "+p.FuncKey(a.fn))
			for _, arg := range c.Args {
				a.writeOnly(in, a.reach(a.get(arg)), a.kindOf(arg), "rooted argument handed to a func value")
			}
		}
		if v != nil && isRootedType(v.Type()) {
			a.undecided(in, "func value returns a rooted result in "+p.FuncKey(a.fn))
		}
		return
	}
	if mc, ok := c.Value.(*ssa.MakeClosure); ok {
		// immediately-invoked closure: bindings are the free variables
		_ = mc
	}
	if p.IsLib(callee) {
		cs := a.e.Sum[callee]
		if cs == nil {
			a.undecided(in, "library callee without a body: "+p.FuncKey(callee))
			return
		}
		actual := func(j int) (RootSet, ssa.Value) {
			if j < len(c.Args) {
				return a.get(c.Args[j]), c.Args[j]
			}
			if mc, ok := c.Value.(*ssa.MakeClosure); ok && j-len(c.Args) < len(mc.Bindings) {
				b := mc.Bindings[j-len(c.Args)]
				return a.get(b), b
			}
			return nil, nil
		}
		a.applySummary(in, callee, cs, actual, func(i int, s RootSet) { a.setCallResult(v, i, s) })
		return
	}
	a.stdlib(in, v, callee, c.Args)
}

func calleeValueDesc(v ssa.Value) string {
	switch x := v.(type) {
	case *ssa.UnOp:
		if fa, ok := x.X.(*ssa.FieldAddr); ok {
			return structFieldDesc(fa)
		}
	case *ssa.Parameter:
		return "parameter " + x.Name()
	case *ssa.Field:
		return "field"
	}
	return v.Name()
}

func (a *fnAnalysis) invoke(in ssa.Instruction, v *ssa.Call, c *ssa.CallCommon) {
	p := a.e.p
	name := c.Method.Name()
	impls := a.e.implementations(c)
	rootless := true
	for _, arg := range c.Args {
		if isRootedType(arg.Type()) && len(a.get(arg)) > 0 {
			rootless = false
		}
	}
	if a.record {
		a.e.Dyn = append(a.e.Dyn, DynCall{Fn: a.fn, Instr: in.(ssa.CallInstruction), Invoke: true, Rootless: rootless,
			Desc: fmt.Sprintf("%s: interface call %s resolved by CHA to %d library methods at %s", p.FuncKey(a.fn), name, len(impls), a.pos(in))})
	}
	if len(impls) == 0 {
		a.undecided(in, "interface call "+name+" with no library implementation in "+p.FuncKey(a.fn))
		return
	}
	for _, m := range impls {
		cs := a.e.Sum[m]
		actual := func(j int) (RootSet, ssa.Value) {
			if j == 0 {
				return a.get(c.Value), c.Value
			}
			if j-1 < len(c.Args) {
				return a.get(c.Args[j-1]), c.Args[j-1]
			}
			return nil, nil
		}
		a.applySummary(in, m, cs, actual, func(i int, s RootSet) { a.setCallResult(v, i, s) })
	}
}

// implementations resolves an interface method call by class hierarchy over library types.
func (e *Effects) implementations(c *ssa.CallCommon) []*ssa.Function {
	name := c.Method.Name()
	if r, ok := e.invokeImpl[name]; ok {
		return r
	}
	var out []*ssa.Function
	sig := c.Method.Type().(*types.Signature)
	for _, pk := range e.p.Lib {
		scope := pk.Types.Scope()
		for _, n := range scope.Names() {
			tn, ok := scope.Lookup(n).(*types.TypeName)
			if !ok {
				continue
			}
			named, ok := types.Unalias(tn.Type()).(*types.Named)
			if !ok {
				continue
			}
			if _, isIface := named.Underlying().(*types.Interface); isIface {
				continue
			}
			for i := 0; i < named.NumMethods(); i++ {
				m := named.Method(i)
				if m.Name() != name {
					continue
				}
				ms := m.Type().(*types.Signature)
				if ms.Params().Len() != sig.Params().Len() || ms.Results().Len() != sig.Results().Len() {
					continue
				}
				if fn := e.p.byObj[m]; fn != nil {
					out = append(out, fn)
				}
			}
		}
	}
	e.invokeImpl[name] = out
	return out
}

func (a *fnAnalysis) builtin(in ssa.Instruction, v *ssa.Call, name string, args []ssa.Value) {
	switch name {
	case "len", "cap", "min", "max", "real", "imag", "complex", "recover", "ssa:wrapnilchk":
		if name == "ssa:wrapnilchk" && v != nil && len(args) > 0 {
			a.setVal(v, a.get(args[0]))
		}
	case "append":
		dst := a.get(args[0])
		res := RootSet{Root{K: RFresh, Site: v}: {}}
		res.addAll(dst)
		if v != nil {
			a.setVal(v, res)
		}
		if len(args) > 1 {
			// element copies of the appended slice
			et := elemType(args[0].Type())
			var elems RootSet
			if et != nil && isRootedType(et) {
				elems = a.load(a.get(args[1]), et)
			}
			a.storeInto(in, res, a.kindOf(args[0]), elems, "append to "+addrDesc2(args[0]))
		}
	case "copy":
		et := elemType(args[0].Type())
		var elems RootSet
		if et != nil && isRootedType(et) {
			elems = a.load(a.get(args[1]), et)
		}
		a.storeInto(in, a.get(args[0]), a.kindOf(args[0]), elems, "copy into "+addrDesc2(args[0]))
	case "clear":
		a.writeOnly(in, a.get(args[0]), a.kindOf(args[0]), "clear of "+addrDesc2(args[0]))
	case "delete":
		a.writeOnly(in, a.get(args[0]), a.kindOf(args[0]), "delete from "+addrDesc2(args[0]))
	case "close":
		a.writeOnly(in, a.get(args[0]), a.kindOf(args[0]), "close")
	case "print", "println":
		if !a.record && a.sum.Out == nil {
			a.sum.Out = &Witness{Pos: a.pos(in), Desc: "builtin " + name + " writes to stderr"}
			a.changed = true
		}
	case "panic":
		// ssa.Panic instruction handles it
	default:
		a.undecided(in, "builtin "+name)
	}
}

// ---- closed table of standard-library summaries (DESIGN §1.3) ----

type stdSummary struct {
	mods     []int // argument indexes whose region may be written
	modsDeep bool  // writes everything reachable (json.Unmarshal)
	retFresh bool
	retAlias []int // results may alias these arguments
	elemsTo  [][2]int // element copies: from arg [0] into arg [1] (-1 = result)
	output   bool
	exit     bool
}

var stdTable = map[string]stdSummary{
	"slices.Clone":        {retFresh: true, elemsTo: [][2]int{{0, -1}}},
	"slices.Contains":     {},
	"slices.ContainsFunc": {},
	"slices.Index":        {},
	"slices.IndexFunc":    {},
	"slices.Equal":        {},
	"slices.Max":          {},
	"slices.Min":          {},
	"slices.BinarySearch": {},
	"slices.BinarySearchFunc": {},
	"slices.IsSorted":     {},
	"slices.IsSortedFunc": {},
	"slices.Sort":         {mods: []int{0}},
	"slices.SortFunc":     {mods: []int{0}},
	"slices.SortStableFunc": {mods: []int{0}},
	"slices.Reverse":      {mods: []int{0}},
	"slices.Insert":       {mods: []int{0}, retFresh: true, retAlias: []int{0}, elemsTo: [][2]int{{2, -1}, {2, 0}}},
	"slices.Delete":       {mods: []int{0}, retAlias: []int{0}},
	"slices.Grow":         {retFresh: true, retAlias: []int{0}, elemsTo: [][2]int{{0, -1}}},
	"slices.Clip":         {retAlias: []int{0}},
	"sort.Slice":          {mods: []int{0}},
	"sort.SliceStable":    {mods: []int{0}},
	"sort.Ints":           {mods: []int{0}},
	"sort.Strings":        {mods: []int{0}},
	"encoding/json.Marshal":       {retFresh: true},
	"encoding/json.MarshalIndent": {retFresh: true},
	"encoding/json.Valid":         {},
	"encoding/json.Unmarshal":     {mods: []int{1}, modsDeep: true},
	"fmt.Sprintf":  {},
	"fmt.Sprint":   {},
	"fmt.Sprintln": {},
	"fmt.Errorf":   {},
	"errors.New":   {},
	"fmt.Print":    {output: true},
	"fmt.Printf":   {output: true},
	"fmt.Println":  {output: true},
	"cmp.Compare":  {},
	"cmp.Less":     {},
	"reflect.ValueOf":         {retAlias: []int{0}},
	"(reflect.Value).Pointer": {},
	"(time.Time).After":       {},
	"(time.Time).Before":      {},
	"(time.Time).Equal":       {},
	"(time.Time).Compare":     {},
	"bytes.NewBuffer":         {retFresh: true, retAlias: []int{0}},
	"bytes.NewBufferString":   {retFresh: true},
	"bytes.NewReader":         {retFresh: true, retAlias: []int{0}},
	"(*bytes.Buffer).Write":       {mods: []int{0}},
	"(*bytes.Buffer).WriteString": {mods: []int{0}},
	"(*bytes.Buffer).WriteRune":   {mods: []int{0}},
	"(*bytes.Buffer).WriteByte":   {mods: []int{0}},
	"(*bytes.Buffer).String":      {},
	"(*bytes.Buffer).Len":         {},
	"(*bytes.Buffer).Bytes":       {retAlias: []int{0}},
	"(*strings.Builder).WriteString": {mods: []int{0}},
	"(*strings.Builder).WriteRune":   {mods: []int{0}},
	"(*strings.Builder).WriteByte":   {mods: []int{0}},
	"(*strings.Builder).Write":       {mods: []int{0}},
	"(*strings.Builder).Grow":        {mods: []int{0}},
	"(*strings.Builder).String":      {},
	"(*strings.Builder).Len":         {},
	"bytes.Index":    {},
	"bytes.Equal":    {},
	"bytes.Contains": {},
	"os.Exit":        {exit: true},
	// writers into a caller-supplied io.Writer (argument 0): a local builder/buffer is fresh memory, os.Stdout is a global
	"fmt.Fprintf":  {mods: []int{0}},
	"fmt.Fprint":   {mods: []int{0}},
	"fmt.Fprintln": {mods: []int{0}},
	"fmt.Appendf":  {retFresh: true, retAlias: []int{0}},
	"fmt.Append":   {retFresh: true, retAlias: []int{0}},
	"fmt.Appendln": {retFresh: true, retAlias: []int{0}},
	"io.WriteString": {mods: []int{0}},
	"(*bytes.Buffer).Grow":     {mods: []int{0}},
	"(*bytes.Buffer).Reset":    {mods: []int{0}},
	"(*bytes.Buffer).Truncate": {mods: []int{0}},
	"(*strings.Builder).Reset": {mods: []int{0}},
	"(*strings.Builder).Cap":   {},
	"(*bytes.Buffer).Cap":      {},
	"slices.Compact":       {mods: []int{0}, retAlias: []int{0}},
	"slices.CompactFunc":   {mods: []int{0}, retAlias: []int{0}},
	"slices.DeleteFunc":    {mods: []int{0}, retAlias: []int{0}},
	"slices.Replace":       {mods: []int{0}, retFresh: true, retAlias: []int{0}, elemsTo: [][2]int{{3, -1}, {3, 0}}},
	"slices.Compare":       {},
	"slices.CompareFunc":   {},
	"slices.EqualFunc":     {},
	"slices.MaxFunc":       {},
	"slices.MinFunc":       {},
	"sort.Sort":            {mods: []int{0}},
	"sort.Stable":          {mods: []int{0}},
	"sort.Float64s":        {mods: []int{0}},
	"sort.Search":          {},
	"sort.SearchInts":      {},
	"sort.SearchStrings":   {},
	"sort.IsSorted":        {},
	"sort.SliceIsSorted":   {},
	"errors.Is":            {},
	"errors.Unwrap":        {},
	"errors.As":            {mods: []int{1}},
	"bytes.IndexByte":      {},
	"bytes.LastIndex":      {},
	"bytes.LastIndexByte":  {},
	"bytes.IndexAny":       {},
	"bytes.HasPrefix":      {},
	"bytes.HasSuffix":      {},
	"bytes.Compare":        {},
	"bytes.Count":          {},
	"bytes.TrimSpace":      {retAlias: []int{0}},
	"bytes.TrimPrefix":     {retAlias: []int{0}},
	"bytes.TrimSuffix":     {retAlias: []int{0}},
	"bytes.Trim":           {retAlias: []int{0}},
	"maps.Clone":           {retFresh: true, elemsTo: [][2]int{{0, -1}}},
	"maps.Copy":            {mods: []int{0}, elemsTo: [][2]int{{1, 0}}},
	"maps.Equal":           {},
	"maps.EqualFunc":       {},
	"maps.DeleteFunc":      {mods: []int{0}},
	"encoding/json.NewDecoder":                {retFresh: true, retAlias: []int{0}},
	"(*encoding/json.Decoder).Decode":         {mods: []int{0, 1}, modsDeep: true},
	"(*encoding/json.Decoder).UseNumber":      {mods: []int{0}},
	"(*encoding/json.Decoder).More":           {},
	"(*encoding/json.Decoder).Token":          {mods: []int{0}, retFresh: true},
	"(*encoding/json.Decoder).InputOffset":    {},
	"encoding/json.NewEncoder":                {retFresh: true, retAlias: []int{0}},
	"(*encoding/json.Encoder).Encode":         {mods: []int{0}},
	"(*encoding/json.Encoder).SetEscapeHTML":  {mods: []int{0}},
	"encoding/json.Compact":                   {mods: []int{0}},
	"encoding/json.Indent":                    {mods: []int{0}},
	"runtime.Goexit": {exit: true},
}

// packages whose package-level functions are pure (scalar/string in, scalar/string out)
var purePkgs = map[string]bool{"strings": true, "strconv": true, "math": true, "math/bits": true, "unicode": true, "unicode/utf8": true, "cmp": true}

// output packages / functions
func isOutputCallee(full, pkg string) bool {
	if pkg == "log" || pkg == "log/slog" {
		return true
	}
	switch full {
	case "fmt.Print", "fmt.Printf", "fmt.Println", "os.NewFile", "syscall.Write":
		return true
	}
	return strings.HasPrefix(full, "(*os.File).")
}

func stdName(fn *ssa.Function) (full, pkg string) {
	fn = origin(fn)
	if o := fn.Object(); o != nil {
		if f, ok := o.(*types.Func); ok {
			full = f.FullName()
			if f.Pkg() != nil {
				pkg = f.Pkg().Path()
			}
			return
		}
	}
	return fn.String(), ""
}

func stdSpec(fn *ssa.Function) (stdSummary, bool) {
	full, pkg := stdName(fn)
	if sp, ok := stdTable[full]; ok {
		return sp, true
	}
	if isOutputCallee(full, pkg) {
		return stdSummary{output: true}, true
	}
	if strings.HasPrefix(full, "log.Fatal") || strings.HasPrefix(full, "log.Panic") {
		return stdSummary{output: true, exit: true}, true
	}
	if purePkgs[pkg] && fn.Signature.Recv() == nil {
		return stdSummary{}, true
	}
	return stdSummary{}, false
}

func (a *fnAnalysis) stdlib(in ssa.Instruction, v *ssa.Call, callee *ssa.Function, args []ssa.Value) {
	full, _ := stdName(callee)
	sp, ok := stdSpec(callee)
	if !ok {
		// unknown callee: assume the worst and mark the fact undecided
		a.undecided(in, "standard-library callee "+full+" is not in the closed summary table")
		all := RootSet{}
		for _, arg := range args {
			if isRootedType(arg.Type()) {
				r := a.reach(a.get(arg))
				a.writeOnly(in, r, a.kindOf(arg), "argument handed to unknown callee "+full)
				all.addAll(r)
			}
		}
		all.add(Root{K: RFresh, Site: v})
		if v != nil {
			n := 1
			if tt, ok := v.Type().(*types.Tuple); ok {
				n = tt.Len()
			}
			for i := 0; i < n; i++ {
				a.setCallResult(v, i, all)
			}
		}
		return
	}
	if sp.output && !a.record && a.sum.Out == nil {
		a.sum.Out = &Witness{Pos: a.pos(in), Desc: "call " + full + " (writes to standard output / error)"}
		a.changed = true
	}
	if sp.exit && !a.record {
		a.sum.Panics = appendWitnessOnce(a.sum.Panics, &Witness{Pos: a.pos(in), Desc: "call " + full + " in " + a.e.p.FuncKey(a.fn)}, &a.changed)
	}
	for _, m := range sp.mods {
		if m < len(args) {
			o := a.get(args[m])
			if sp.modsDeep {
				o = a.reach(o)
			}
			a.writeOnly(in, o, a.kindOf(args[m]), "call "+full+" writes its argument "+addrDesc2(args[m]))
		}
	}
	res := RootSet{}
	if sp.retFresh {
		res.add(Root{K: RFresh, Site: v})
	}
	for _, ai := range sp.retAlias {
		if ai < len(args) {
			res.addAll(a.get(args[ai]))
		}
	}
	if v != nil {
		a.setCallResult(v, 0, res)
	}
	for _, et := range sp.elemsTo {
		from, to := et[0], et[1]
		if from >= len(args) {
			continue
		}
		t := elemType(args[from].Type())
		if t == nil || !isRootedType(t) {
			continue
		}
		elems := a.load(a.get(args[from]), t)
		if to == -1 {
			for r := range res {
				a.addContents(r, elems)
			}
		} else if to < len(args) {
			a.storeInto(in, a.get(args[to]), a.kindOf(args[to]), elems, "call "+full+" copies elements")
		}
	}
}

// refsOutputGlobal reports a reference to os.Stdout / os.Stderr (etc.) anywhere in fn.
func refsOutputGlobal(fn *ssa.Function) (ssa.Instruction, string) {
	for _, b := range fn.Blocks {
		for _, in := range b.Instrs {
			for _, op := range in.Operands(nil) {
				if op == nil || *op == nil {
					continue
				}
				if g, ok := (*op).(*ssa.Global); ok && g.Pkg != nil && g.Pkg.Pkg.Path() == "os" {
					switch g.Name() {
					case "Stdout", "Stderr":
						return in, "os." + g.Name()
					}
				}
			}
		}
	}
	return nil, ""
}
