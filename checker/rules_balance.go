package main

// rules_balance.go — R21 HOOKS: the rebalancing machinery is wired on every path (DESIGN §4 C07).
// A tree that stops rebalancing still returns correct contents; these are the structural necessary conditions of
// "stays balanced" that are visible in the code: every structural change passes the fix-up entry point, every
// "height changed" signal is consumed, every over/under-full B-tree node is handed to split/rebalance.

import (
	"fmt"
	"sort"
	"strings"

	"golang.org/x/tools/go/ssa"
)

func effCallees(g *GC) []string {
	var out []string
	for _, ef := range g.Effects {
		if nm, _, ok := effDo(ef); ok {
			out = append(out, nm)
		}
	}
	return out
}

func containsStr(xs []string, x string) bool {
	for _, y := range xs {
		if y == x {
			return true
		}
	}
	return false
}

func ruleR21(c *Ctx) *RuleResult {
	p := c.p
	r := &RuleResult{Rule: "R21", Title: "HOOKS: rebalancing is wired on every path (fix-up entry points, height signals, split/rebalance)", Floor: 25}
	fnOf := func(tk, name string) *ssa.Function {
		return anchorFn(p, tk, name)
	}
	pkgFn := func(rel, name string) *ssa.Function { return p.FuncByName(rel, name) }
	add := func(key, clause string, fn *ssa.Function, bad []string, facts string) {
		pos := "-"
		if fn != nil {
			pos = p.FuncPos(fn)
		}
		if fn == nil {
			r.undecided(key, clause, pos, "anchored function not found")
		} else if len(bad) > 0 {
			r.bad(key, clause, pos, strings.Join(dedup(bad), "\n"))
		} else {
			r.ok(key, clause, pos, facts)
		}
	}
	const rbt, avl, bt = "trees/redblacktree.Tree", "trees/avltree.Tree", "trees/btree.Tree"

	// ---------- red-black ----------
	// one descent per operation: Put and Remove find their node once — neither calls itself or the other, and no path looks
	// the key up twice (a Remove that removes the predecessor by a second Remove(predKey) from the root costs
	// depth(node) + depth(pred) comparisons: past the logarithmic bound for a deep two-child node)
	for _, nm := range []string{"Put", "Remove"} {
		fn := fnOf(rbt, nm)
		var bad []string
		npaths := 0
		if fn != nil {
			for _, g := range c.GC(fn).GCs {
				npaths++
				lookups := map[string]bool{}
				see := func(t *Term) bool {
					if (t.Op == "do" || t.Op == "call") && (strings.HasSuffix(t.Leaf, "redblacktree.(*Tree).Put") || strings.HasSuffix(t.Leaf, "redblacktree.(*Tree).Remove")) {
						bad = append(bad, nm+" calls "+lastIdent(t.Leaf)+" on one of its paths (a second descent from the root): "+trunc(guardsString(g), 160))
					}
					if t.Op == "call" && (strings.HasSuffix(t.Leaf, ").lookup") || strings.HasSuffix(t.Leaf, ").GetNode") || strings.HasSuffix(t.Leaf, ").Get")) && strings.Contains(t.Leaf, "redblacktree") {
						lookups[noEpoch(t)] = true
					}
					return false
				}
				for _, ef := range g.Effects {
					ef.any(see)
				}
				for _, a := range g.Guards {
					a.any(see)
				}
				g.Exit.any(see)
				if len(lookups) > 1 {
					bad = append(bad, fmt.Sprintf("%s looks keys up %d times on one path", nm, len(lookups)))
				}
			}
		}
		add("rbt."+nm+".one-descent", "the red-black "+nm+" descends from the root once: it neither calls Put/Remove again nor looks a key up a second time", fn, bad, fmt.Sprintf("%d paths, at most one lookup each, no re-entry", npaths))
	}
	{
		fn := fnOf(rbt, "Put")
		var bad []string
		n := 0
		if fn != nil {
			for _, g := range c.GCTail(fn).GCs {
				if g.Exit.Op != "return" {
					continue
				}
				if isReplacePath(g, "cmp") {
					continue
				}
				n++
				if !containsStr(effCallees(g), "insertCase1") {
					bad = append(bad, "a path of Put that links a new node returns without insertCase1: "+trunc(g.String(), 260))
				}
			}
			if n == 0 {
				bad = append(bad, "no inserting path found")
			}
		}
		add("rbt.Put→insertCase1", "every Put path that adds a node runs the insertion fix-up before returning", fn, bad, fmt.Sprintf("%d inserting return paths, all through insertCase1", n))
	}
	{
		fn := fnOf(rbt, "Remove")
		var bad []string
		n := 0
		if fn != nil {
			for _, g := range c.GCTail(fn).GCs {
				cs := effCallees(g)
				if !containsStr(cs, "replaceNode") {
					continue
				}
				black := false
				for _, a := range g.Guards {
					if a.Op == "==" && a.Args[0].String() == "#:true:color" && a.Args[1].Op == "load" && a.Args[1].Args[0].Op == "fa" && a.Args[1].Args[0].Leaf == "color" {
						black = true
					}
				}
				if black {
					n++
					i1, i2 := -1, -1
					for i, nm := range cs {
						if nm == "deleteCase1" && i1 < 0 {
							i1 = i
						}
						if nm == "replaceNode" && i2 < 0 {
							i2 = i
						}
					}
					if i1 < 0 || i1 > i2 {
						bad = append(bad, "a black node is unlinked without running deleteCase1 first: "+trunc(g.String(), 260))
					}
				}
			}
			if n == 0 {
				bad = append(bad, "no black-node removal path found")
			}
			// after the splice the child is recoloured only when it became the root: anywhere else the missing black was
			// already repaired by deleteCase1 (or there was none), and blackening the child adds one
			for _, g := range c.GCTail(fn).GCs {
				var removed *Term
				for _, ef := range g.Effects {
					if nm, a, ok := effDo(ef); ok && nm == "replaceNode" && len(a) == 3 {
						removed = a[1]
						continue
					}
					if removed == nil || !storeToField(ef, "color") {
						continue
					}
					atRoot := false
					for _, a := range g.Guards {
						if a.Op == "==" && len(a.Args) == 2 && a.Args[0].String() == "#:nil" && a.Args[1].Op == "load" && len(a.Args[1].Args) == 1 && a.Args[1].Args[0].Op == "fa" && a.Args[1].Args[0].Leaf == "Parent" && noEpoch(a.Args[1].Args[0].Args[0]) == noEpoch(removed) {
							atRoot = true
						}
					}
					if !atRoot {
						bad = append(bad, "after splicing the child in, Remove recolours it on a path that does not know the removed node was the root: "+trunc(noEpoch(ef), 160))
					}
				}
			}
			// the converse: a child that becomes the root is made black (a red root under which the next insertion hangs a
			// red node has no grandparent for the fix-up to turn around); and every path that found the key (the size goes
			// down) unlinks a node
			for _, g := range c.GCTail(fn).GCs {
				var removed, child *Term
				at := -1
				dec := false
				for i, ef := range g.Effects {
					if nm, a, ok := effDo(ef); ok && nm == "replaceNode" && len(a) == 3 && removed == nil {
						removed, child, at = a[1], a[2], i
					}
					if storeToField(ef, "size") && ef.Args[1].Op == "-" {
						dec = true
					}
				}
				if dec && removed == nil {
					// not a path at all when it needs a child that the result of maximumNode / minimumNode never has
					infeasible := false
					for _, a := range g.Guards {
						if a.Op == "!=" && len(a.Args) == 2 && a.Args[0].String() == "#:nil" && a.Args[1].Op == "load" && len(a.Args[1].Args) == 1 && a.Args[1].Args[0].Op == "fa" && len(a.Args[1].Args[0].Args) == 1 && a.Args[1].Args[0].Args[0].Op == "call" {
							if cal := funcByKeyCached(p, a.Args[1].Args[0].Args[0].Leaf); cal != nil && postNilField(c, cal, a.Args[1].Args[0].Leaf) {
								infeasible = true
							}
						}
					}
					if !infeasible {
						bad = append(bad, "a path of Remove that found the key (it decrements the size) unlinks no node: "+trunc(guardsString(g), 240))
					}
				}
				if removed == nil {
					continue
				}
				atRoot, hasChild := false, false
				for _, a := range g.Guards {
					if a.Op == "==" && len(a.Args) == 2 && a.Args[0].String() == "#:nil" && a.Args[1].Op == "load" && len(a.Args[1].Args) == 1 && a.Args[1].Args[0].Op == "fa" && a.Args[1].Args[0].Leaf == "Parent" && noEpoch(a.Args[1].Args[0].Args[0]) == noEpoch(removed) {
						atRoot = true
					}
					if a.Op == "!=" && len(a.Args) == 2 && a.Args[0].String() == "#:nil" && noEpoch(a.Args[1]) == noEpoch(child) {
						hasChild = true
					}
				}
				if !atRoot || !hasChild {
					continue
				}
				blackened := false
				for _, ef := range g.Effects[at+1:] {
					if storeToField(ef, "color") && noEpoch(ef.Args[0].Args[0]) == noEpoch(child) && ef.Args[1].String() == "#:true:color" {
						blackened = true
					}
				}
				if !blackened {
					bad = append(bad, "the child that replaces the removed root is not made black: "+trunc(guardsString(g), 240))
				}
			}
		}
		add("rbt.Remove→deleteCase1", "removing a black node runs the deletion fix-up before the node is unlinked", fn, bad, fmt.Sprintf("%d black-node removal paths, all through deleteCase1 before replaceNode", n))
	}
	// case chains: allowed continuations per function; `stop` = the function may legitimately end the chain on some path
	type chain struct {
		fn   string
		next []string
		must []string // callees that must occur on some path
		stop bool
		all  string // callee that must occur on every path
	}
	for _, ch := range []chain{
		{"insertCase1", []string{"insertCase2"}, []string{"insertCase2"}, true, ""},
		{"insertCase2", []string{"insertCase3"}, []string{"insertCase3"}, true, ""},
		{"insertCase3", []string{"insertCase1", "insertCase4"}, []string{"insertCase1", "insertCase4"}, false, ""},
		{"insertCase4", []string{"insertCase5", "rotateLeft", "rotateRight"}, []string{"rotateLeft", "rotateRight"}, false, "insertCase5"},
		{"insertCase5", []string{"rotateLeft", "rotateRight"}, []string{"rotateLeft", "rotateRight"}, true, ""},
		{"deleteCase1", []string{"deleteCase2"}, []string{"deleteCase2"}, true, ""},
		{"deleteCase2", []string{"deleteCase3", "rotateLeft", "rotateRight"}, []string{"rotateLeft", "rotateRight"}, false, "deleteCase3"},
		{"deleteCase3", []string{"deleteCase1", "deleteCase4"}, []string{"deleteCase1", "deleteCase4"}, false, ""},
		{"deleteCase4", []string{"deleteCase5"}, []string{"deleteCase5"}, true, ""},
		{"deleteCase5", []string{"deleteCase6", "rotateLeft", "rotateRight"}, []string{"rotateLeft", "rotateRight"}, false, "deleteCase6"},
		{"deleteCase6", []string{"rotateLeft", "rotateRight"}, []string{"rotateLeft", "rotateRight"}, true, ""},
	} {
		fn := fnOf(rbt, ch.fn)
		var bad []string
		seen := map[string]bool{}
		// a case that is no longer a function of its own (folded into a neighbour or into a loop), or whose continuation
		// is: the hand-over between the cases is then not visible function by function — the whole-chain skeleton below
		// decides the same chain with every case expanded in place
		merged := fn == nil
		for _, nx := range ch.next {
			if strings.Contains(nx, "Case") && fnOf(rbt, nx) == nil {
				merged = true
			}
		}
		if merged {
			r.ok("rbt."+ch.fn, "the red-black fix-up cases hand over to each other as the algorithm requires (no path silently drops out of the chain)", "-", "this case or its continuation is not a function of its own in this tree: decided by the whole-chain skeleton (rbt.insert-skeleton / rbt.delete-skeleton)")
			continue
		}
		if fn != nil {
			for _, g := range c.GCTail(fn).GCs {
				cs := effCallees(g)
				for _, nm := range cs {
					seen[nm] = true
					if !containsStr(ch.next, nm) {
						bad = append(bad, ch.fn+" calls "+nm+", which is not a continuation of this case")
					}
				}
				if len(cs) == 0 && !ch.stop {
					bad = append(bad, "a path of "+ch.fn+" ends the fix-up chain without handing over to the next case: "+trunc(g.String(), 260))
				}
				if len(cs) == 0 && ch.stop {
					// a terminal path may only recolour
					for _, ef := range g.Effects {
						if !storeToField(ef, "color") {
							bad = append(bad, "a terminal path of "+ch.fn+" does more than recolouring: "+trunc(ef.String(), 160))
						}
					}
				}
				if ch.all != "" && !containsStr(cs, ch.all) {
					bad = append(bad, "a path of "+ch.fn+" does not continue with "+ch.all+": "+trunc(g.String(), 260))
				}
			}
			for _, m := range ch.must {
				if !seen[m] {
					bad = append(bad, ch.fn+" never calls "+m)
				}
			}
		}
		var sn []string
		for k := range seen {
			sn = append(sn, k)
		}
		sort.Strings(sn)
		add("rbt."+ch.fn, "the red-black fix-up cases hand over to each other as the algorithm requires (no path silently drops out of the chain)", fn, bad, "continuations: "+strings.Join(sn, ", "))
	}

	// whole-chain skeletons: the fix-up entry point with every case expanded in place (recursion on the entry point stays a
	// call; a loop over the node parameter is read as that recursion)
	for _, sk := range []struct{ entry, prefix string }{{"insertCase1", "insertCase"}, {"deleteCase1", "deleteCase"}} {
		fn := fnOf(rbt, sk.entry)
		key := "rbt.insert-skeleton"
		clause := "insertion fix-up, all cases expanded: a path stops without effect only knowing the parent black, recolours the node black only knowing it is the root, continues at the grandparent only knowing parent and uncle red, and rotates/recolours only knowing the parent red and the uncle not red"
		if sk.prefix == "deleteCase" {
			key = "rbt.delete-skeleton"
			clause = "deletion fix-up, all cases expanded: a path stops without effect only at the root, passes the deficit to the parent only knowing parent, sibling and both nephews black, absorbs it in a red parent only knowing sibling and both nephews black, and reaches the final recolour-and-rotate step only knowing a red node in the sibling's family"
		}
		if fn == nil {
			add(key, clause, nil, nil, "")
			continue
		}
		prefix := sk.prefix
		gc := tailRecForm(p, c.GCWith(fn, BuildOpts{Tag: "chain:" + prefix, Depth: 8, Inline: func(callee *ssa.Function) bool { return strings.HasPrefix(fnName(callee), prefix) }}))
		if gc.Undecided != "" {
			r.undecided(key, clause, p.FuncPos(fn), gc.Undecided)
			continue
		}
		const parent = "(load (fa:Parent p:1))"
		var bad []string
		classes := map[string]int{}
		for _, g := range gc.GCs {
			if g.Exit.Op != "return" {
				bad = append(bad, "the expanded chain still contains a loop that is not a walk over the node parameter: "+trunc(g.String(), 200))
				continue
			}
			root := false
			blacks, reds := map[string]bool{}, map[string]bool{}
			for _, a := range g.Guards {
				if subj, black, ok := colourAtom(a); ok {
					if black {
						blacks[subj] = true
					} else {
						reds[subj] = true
					}
				}
				if a.Op == "==" && len(a.Args) == 2 {
					for i := 0; i < 2; i++ {
						if a.Args[i].String() == "#:nil" {
							subj := noEpoch(a.Args[1-i])
							blacks[subj] = true // a nil node counts as black
							if subj == parent {
								root = true
							}
						}
					}
				}
			}
			cs := effCallees(g)
			self := containsStr(cs, sk.entry)
			rot := containsStr(cs, "rotateLeft") || containsStr(cs, "rotateRight")
			othersBlack, othersRed := 0, 0
			for s := range blacks {
				if s != parent {
					othersBlack++
				}
			}
			for s := range reds {
				if s != parent {
					othersRed++
				}
			}
			for _, nm := range cs {
				if nm != sk.entry && nm != "rotateLeft" && nm != "rotateRight" {
					bad = append(bad, "the expanded chain calls "+nm+", which is neither a case of the chain nor a rotation")
				}
			}
			show := trunc(g.String(), 300)
			if prefix == "insertCase" {
				switch {
				case root:
					classes["root"]++
					okv := len(g.Effects) == 1 && storeToField(g.Effects[0], "color") && g.Effects[0].Args[0].Args[0].String() == "p:1" && g.Effects[0].Args[1].String() == "#:true:color"
					if !okv {
						bad = append(bad, "at the root the fix-up does something other than colouring the node black: "+show)
					}
				case blacks[parent] && !reds[parent]:
					classes["parent-black"]++
					if len(g.Effects) != 0 {
						bad = append(bad, "under a black parent the fix-up changes the tree: "+show)
					}
				case self:
					classes["recolour-up"]++
					if !reds[parent] || othersRed == 0 {
						bad = append(bad, "the fix-up continues at the grandparent without knowing parent and uncle red: "+show)
					}
					if rot {
						bad = append(bad, "the fix-up rotates and continues upwards on the same path: "+show)
					}
					nb, nr := 0, 0
					for _, ef := range g.Effects {
						if storeToField(ef, "color") {
							if ef.Args[1].String() == "#:true:color" {
								nb++
							} else {
								nr++
							}
						}
					}
					if nb != 2 || nr != 1 {
						bad = append(bad, fmt.Sprintf("continuing at the grandparent recolours %d node(s) black and %d red (parent and uncle become black, the grandparent red): %s", nb, nr, show))
					}
				case len(g.Effects) == 0:
					bad = append(bad, "the fix-up stops without effect on a path that does not know the parent black: "+show)
				default:
					classes["restructure"]++
					if !reds[parent] || othersBlack == 0 {
						bad = append(bad, "the fix-up recolours/rotates without knowing the parent red and the uncle not red: "+show)
					}
					for _, ef := range g.Effects {
						if _, _, isDo := effDo(ef); !isDo && !storeToField(ef, "color") {
							bad = append(bad, "the fix-up writes something other than colours outside the rotations: "+trunc(ef.String(), 160))
						}
					}
					if containsStr(cs, "rotateLeft") {
						classes["rotL"]++
					}
					if containsStr(cs, "rotateRight") {
						classes["rotR"]++
					}
				}
				continue
			}
			// deletion
			sig6 := false
			for _, ef := range g.Effects {
				if storeToField(ef, "color") {
					if v := ef.Args[1].String(); v != "#:true:color" && v != "#:false:color" {
						sig6 = true
					}
				} else if _, _, isDo := effDo(ef); !isDo {
					bad = append(bad, "the fix-up writes something other than colours outside the rotations: "+trunc(ef.String(), 160))
				}
			}
			switch {
			case root:
				classes["root"]++
				if len(g.Effects) != 0 {
					bad = append(bad, "at the root the deletion fix-up changes the tree: "+show)
				}
			case self:
				classes["pass-up"]++
				if !blacks[parent] || othersBlack < 3 {
					bad = append(bad, "the deficit is passed to the parent without knowing parent, sibling and both nephews black: "+show)
				}
				if sig6 {
					bad = append(bad, "the final recolouring step and the hand-over to the parent happen on one path: "+show)
				}
			case sig6:
				classes["final"]++
				if othersRed == 0 {
					bad = append(bad, "the final recolour-and-rotate step is reached on a path that knows no red node in the sibling's family (an all-black family belongs to the pass-up / absorb cases): "+show)
				}
				if containsStr(cs, "rotateLeft") {
					classes["rotL"]++
				}
				if containsStr(cs, "rotateRight") {
					classes["rotR"]++
				}
			case len(g.Effects) == 0:
				bad = append(bad, "the deletion fix-up stops without effect away from the root: "+show)
			default:
				classes["absorb"]++
				if !reds[parent] || othersBlack < 3 {
					bad = append(bad, "the deficit is absorbed without knowing the parent red and sibling and both nephews black: "+show)
				}
			}
		}
		want := []string{"root", "parent-black", "recolour-up", "restructure", "rotL", "rotR"}
		if prefix == "deleteCase" {
			want = []string{"root", "pass-up", "absorb", "final", "rotL", "rotR"}
		}
		var facts []string
		for _, w := range want {
			if classes[w] == 0 {
				bad = append(bad, "the expanded chain has no "+w+" path")
			}
			facts = append(facts, fmt.Sprintf("%s:%d", w, classes[w]))
		}
		add(key, clause, fn, bad, fmt.Sprintf("%d paths with every case expanded; %s", len(gc.GCs), strings.Join(facts, " ")))
	}

	// ---------- AVL ----------
	{
		// balance factor written only by the fix/rot family
		allowed := map[string]bool{"putFix": true, "removeFix": true, "singlerot": true, "doublerot": true}
		var bad []string
		n := 0
		for _, fn := range p.Funcs {
			for _, b := range fn.Blocks {
				for _, in := range b.Instrs {
					st, ok := in.(*ssa.Store)
					if !ok {
						continue
					}
					fa, ok := stripChange(st.Addr).(*ssa.FieldAddr)
					if !ok || fieldNameOf(fa) != "b" || p.TypeKey(namedOf(fa.X.Type())) != "trees/avltree.Node" {
						continue
					}
					n++
					if !allowed[fnName(fn)] {
						bad = append(bad, fmt.Sprintf("%s writes a balance factor at %s", p.FuncKey(fn), p.InstrPos(st)))
					}
				}
			}
		}
		if n == 0 {
			bad = append(bad, "no balance-factor store found")
		}
		add("avl.balance-writers", "AVL balance factors are written only by putFix/removeFix/singlerot/doublerot", pkgFn("trees/avltree", "putFix"), bad, fmt.Sprintf("%d stores, all in the fix/rotation family", n))
	}
	for _, rec := range []struct {
		fn    *ssa.Function
		name  string
		fix   string
		qpIdx string // parameter holding the link pointer
	}{
		{fnOf(avl, "put"), "put", "putFix", "p:4"},
		{fnOf(avl, "remove"), "remove", "removeFix", "p:2"},
		{pkgFn("trees/avltree", "removeMin"), "removeMin", "removeFix", "p:0"},
	} {
		var bad []string
		nlink, nrec := 0, 0
		if rec.fn != nil {
			for _, g := range c.GC(rec.fn).GCs {
				// (b) a direct link store returns "height changed"
				direct := false
				for _, ef := range g.Effects {
					if isStore(ef) && ef.Args[0].String() == rec.qpIdx {
						direct = true
					}
				}
				// the height-changed signal is the function's last result (the only one, or the flag beside a returned node)
				lastRes := func() *Term {
					if g.Exit.Op == "return" && len(g.Exit.Args) > 0 {
						return g.Exit.Args[len(g.Exit.Args)-1]
					}
					return nil
				}
				if direct {
					nlink++
					if lr := lastRes(); lr == nil || lr.String() != "#:true" {
						bad = append(bad, rec.name+" links/unlinks a node directly but does not report the height change (return true): "+trunc(g.String(), 260))
					}
				}
				// (c) the recursive call's signal is consumed
				for i, ef := range g.Effects {
					nm, _, ok := effDo(ef)
					if !ok || (nm != "put" && nm != "remove" && nm != "removeMin") {
						continue
					}
					nrec++
					sig := 0
					for _, a := range g.Guards {
						x, pol := a, true
						if x.Op == "!" {
							x, pol = x.Args[0], false
						}
						if x.Op == "ext" && len(x.Args) == 1 && x.Args[0].Op == "res" {
							x = x.Args[0] // the flag among several results
						}
						if x.Op == "res" && x.Args[0].String() == ef.String() {
							if pol {
								sig = 1
							} else {
								sig = -1
							}
						}
					}
					switch sig {
					case 0:
						bad = append(bad, rec.name+": the height-changed result of the recursive "+nm+" is not tested")
					case -1:
						if lr := lastRes(); lr == nil || lr.String() != "#:false" {
							bad = append(bad, rec.name+": no height change below, yet the frame does not return false")
						}
					case 1:
						okFix := false
						for _, e2 := range g.Effects[i+1:] {
							if n2, a2, ok2 := effDo(e2); ok2 && n2 == rec.fix && len(a2) == 2 && a2[1].String() == rec.qpIdx {
								lr := lastRes()
								okFix = lr != nil && lr.Op == "res" && lr.Args[0].String() == e2.String()
							}
						}
						if !okFix {
							bad = append(bad, rec.name+": the subtree below changed height but "+rec.fix+" is not applied to this frame's link (and its result returned): "+trunc(g.String(), 300))
						}
					}
				}
			}
			if nlink == 0 || nrec == 0 {
				bad = append(bad, fmt.Sprintf("expected direct link stores and recursive calls, found %d/%d", nlink, nrec))
			}
		}
		add("avl."+rec.name, "AVL recursion: a direct link change reports 'height changed'; a reported change below is answered by "+rec.fix+" on this frame's link and its verdict is passed up", rec.fn, bad, fmt.Sprintf("%d direct link paths return true; %d recursive-call paths consume the signal", nlink, nrec))
	}
	{
		// putFix / removeFix / singlerot / doublerot: the rebuilt subtree is stored back through the link
		for _, nm := range []string{"putFix", "removeFix"} {
			fn := pkgFn("trees/avltree", nm)
			var bad []string
			n := 0
			if fn != nil {
				for _, g := range c.GCTail(fn).GCs {
					rot := ""
					for _, cs := range effCallees(g) {
						if cs == "singlerot" || cs == "doublerot" || cs == "rotate" {
							rot = cs
						}
					}
					if rot == "" {
						continue
					}
					n++
					stored := false
					for _, ef := range g.Effects {
						if isStore(ef) && ef.Args[0].String() == "p:1" {
							stored = true
						}
					}
					if !stored {
						bad = append(bad, nm+" rotates but does not store the new subtree root back through the link: "+trunc(g.String(), 260))
					}
				}
				if n == 0 {
					bad = append(bad, "no rotating path found in "+nm)
				}
			}
			add("avl."+nm, "after a rotation the new subtree root is stored back through the caller's link", fn, bad, fmt.Sprintf("%d rotating paths store *t", n))
		}
	}

	// ---------- B-tree ----------
	{
		// every growth of a node's Entries on the insert path is followed by split(that node)
		for _, nm := range []string{"insertIntoLeaf", "splitNonRoot"} {
			fn := fnOf(bt, nm)
			var bad []string
			n := 0
			if fn != nil {
				for _, g := range c.GCTail(fn).GCs {
					for i, ef := range g.Effects {
						if !(storeToField(ef, "Entries") && ef.Args[1].Op == "res" && (strings.Contains(ef.Args[1].String(), "builtin:append") || strings.Contains(ef.Args[1].String(), "stddo:slices.Insert"))) {
							continue
						}
						owner := noEpoch(ef.Args[0].Args[0])
						if strings.HasPrefix(owner, "new:") {
							continue // a node under construction
						}
						n++
						ok := false
						for _, e2 := range g.Effects[i+1:] {
							if n2, a2, ok2 := effDo(e2); ok2 && n2 == "split" && len(a2) == 2 && noEpoch(a2[1]) == owner {
								ok = true
							}
						}
						if !ok && callersSplit(c, bt, nm, ef.Args[0].Args[0]) {
							ok = true // the overflow check of the grown node is the caller's next step at every call site
						}
						if !ok {
							bad = append(bad, nm+" grows the entries of a node without handing that node to split: "+trunc(owner, 120))
						}
					}
				}
				if n == 0 {
					bad = append(bad, "no entry insertion found in "+nm)
				}
			}
			add("btree."+nm+"→split", "a B-tree node that gained an entry is checked for overflow (split) on every path", fn, bad, fmt.Sprintf("%d growth site(s), each followed by split of the same node", n))
		}
		fn := fnOf(bt, "split")
		var bad []string
		if fn != nil {
			seen := map[string]bool{}
			for _, g := range c.GCTail(fn).GCs {
				cs := effCallees(g)
				over := false
				for _, a := range g.Guards {
					if a.Op == "<" && strings.Contains(a.String(), "fa:m ") && strings.Contains(a.String(), "fa:Entries") {
						over = true
					}
				}
				if over && len(cs) == 0 {
					bad = append(bad, "split finds the node over-full but does nothing")
				}
				for _, x := range cs {
					seen[x] = true
				}
			}
			if !seen["splitRoot"] || !seen["splitNonRoot"] {
				bad = append(bad, "split does not dispatch to both splitRoot and splitNonRoot")
			}
		}
		add("btree.split", "an over-full node is split (root or non-root) on every path", fn, bad, "over-full ⇒ splitRoot / splitNonRoot")
	}
	{
		// every deleteEntry is followed by rebalance of the same node, unless the node is a lending sibling or the root collapses
		for _, nm := range []string{"delete", "rebalance"} {
			fn := fnOf(bt, nm)
			var bad []string
			n, nlend, ncollapse := 0, 0, 0
			if fn != nil {
				for _, g := range c.GCTail(fn).GCs {
					for i, ef := range g.Effects {
						n1, a1, ok := effDo(ef)
						if !ok || n1 != "deleteEntry" || len(a1) != 3 {
							continue
						}
						n++
						node := noEpoch(a1[1])
						follow := false
						for _, e2 := range g.Effects[i+1:] {
							if n2, a2, ok2 := effDo(e2); ok2 && n2 == "rebalance" && len(a2) == 3 && noEpoch(a2[1]) == node {
								follow = true
							}
						}
						if follow {
							continue
						}
						// lending sibling: the path knows len(node.Entries) > minEntries
						lend := false
						for _, a := range g.Guards {
							if a.Op == "<" && len(a.Args) == 2 && a.Args[1].Op == "len" && strings.Contains(noEpoch(a.Args[1]), "(fa:Entries "+node+")") && strings.Contains(a.Args[0].String(), "fa:m ") {
								lend = true
							}
						}
						if lend {
							nlend++
							continue
						}
						// root collapse: the path replaces the root and returns
						collapse := false
						for _, e2 := range g.Effects[i+1:] {
							if storeToField(e2, "Root") {
								collapse = true
							}
						}
						if collapse && g.Exit.Op == "return" {
							ncollapse++
							continue
						}
						bad = append(bad, nm+" removes an entry from a node and neither rebalances that node, nor is the node a lending sibling, nor does the root collapse: "+trunc(node, 140))
					}
				}
				if n == 0 {
					bad = append(bad, "no deleteEntry site found in "+nm)
				}
			}
			add("btree."+nm+"→rebalance", "a B-tree node that lost an entry is checked for underflow (rebalance) on every path", fn, bad, fmt.Sprintf("%d deleteEntry site-paths: followed by rebalance, %d lending siblings, %d root collapses", n, nlend, ncollapse))
		}
	}
	{
		// borrow / merge move the children together with the entries
		fn := fnOf(bt, "rebalance")
		var bad []string
		nb, nm := 0, 0
		if fn != nil {
			for _, g := range c.GCTail(fn).GCs {
				cs := effCallees(g)
				// merge arms
				if containsStr(cs, "appendChildren") || containsStr(cs, "prependChildren") {
					nm++
					if !containsStr(cs, "deleteChild") {
						bad = append(bad, "a merge moves the sibling's children but does not remove the sibling from the parent")
					}
				}
				// a merge is a path that deletes an entry of the parent
				for _, ef := range g.Effects {
					if n1, a1, ok := effDo(ef); ok && n1 == "deleteEntry" && len(a1) == 3 && strings.Contains(noEpoch(a1[1]), "(fa:Parent p:1)") {
						if !containsStr(cs, "appendChildren") && !containsStr(cs, "prependChildren") {
							bad = append(bad, "a merge takes the separator out of the parent without moving the sibling's children")
						}
						if !containsStr(cs, "deleteChild") {
							bad = append(bad, "a merge takes the separator out of the parent without removing the merged sibling from the parent's children")
						}
					}
				}
				// borrow arms: deleteEntry on a sibling; on the non-leaf edge the child must move too
				for _, ef := range g.Effects {
					n1, a1, ok := effDo(ef)
					if !ok || n1 != "deleteEntry" || len(a1) != 3 || !strings.Contains(a1[1].String(), "Sibling") {
						continue
					}
					nb++
					sib := noEpoch(a1[1])
					nonLeaf, leaf := false, false
					for _, a := range g.Guards {
						if (a.Op == "!=" || a.Op == "==" || a.Op == "<") && len(a.Args) == 2 && a.Args[0].String() == "#:0" && a.Args[1].Op == "len" && strings.Contains(noEpoch(a.Args[1]), "(fa:Children "+sib+")") {
							if a.Op == "==" {
								leaf = true
							} else {
								nonLeaf = true
							}
						}
					}
					if !leaf && !nonLeaf {
						bad = append(bad, "a borrow path does not distinguish a leaf sibling from an internal one (an internal sibling's child must move with the entry)")
					}
					if nonLeaf {
						movedChild, gaveUp := false, false
						for _, e2 := range g.Effects {
							if storeToField(e2, "Children") && e2.Args[0].Args[0].String() == "p:1" {
								movedChild = true
							}
							if n2, a2, ok2 := effDo(e2); ok2 && n2 == "deleteChild" && noEpoch(a2[1]) == sib {
								gaveUp = true
							}
						}
						if !movedChild || !gaveUp {
							bad = append(bad, "borrowing an entry from a non-leaf sibling does not move the adjoining child (node gains it, sibling gives it up)")
						}
					}
				}
			}
			if nb == 0 || nm == 0 {
				bad = append(bad, fmt.Sprintf("expected borrow and merge paths, found %d/%d", nb, nm))
			}
		}
		add("btree.rebalance-children", "B-tree borrow/merge move child pointers together with the entries (a node with k children keeps k-1 keys)", fn, bad, fmt.Sprintf("%d borrow paths, %d merge paths", nb, nm))
	}
	return r
}

// ---- R21 additions: AVL signal table, direction arguments, B-tree rebalance key and occupancy definitions ----

func isDirTerm(t *Term) bool {
	s := t.String()
	return s == "#:1" || s == "#:-1" || s == "p:0" || s == "(neg p:0)"
}

func isChildIdxTerm(t *Term, paramOK bool) bool {
	s := t.String()
	if s == "#:0" || s == "#:1" || (paramOK && t.Op == "p") {
		return true
	}
	if t.Op == "/" && len(t.Args) == 2 && t.Args[1].String() == "#:2" && t.Args[0].Op == "+" && t.Args[0].Args[0].String() == "#:1" && isDirTerm(t.Args[0].Args[1]) {
		return true
	}
	if t.Op == "^" && len(t.Args) == 2 && t.Args[0].String() == "#:1" {
		return isChildIdxTerm(t.Args[1], paramOK)
	}
	return false
}

func ruleR21b(c *Ctx) *RuleResult {
	p := c.p
	r := &RuleResult{Rule: "R21b", Title: "BALANCE-DEFS: AVL height signals and direction arguments, B-tree occupancy definitions and rebalance keys", Floor: 5}
	add := func(key, clause string, fn *ssa.Function, bad []string, facts string) {
		pos := "-"
		if fn != nil {
			pos = p.FuncPos(fn)
		}
		if fn == nil {
			r.undecided(key, clause, pos, "anchored function not found")
		} else if len(bad) > 0 {
			r.bad(key, clause, pos, strings.Join(dedup(bad), "\n"))
		} else {
			r.ok(key, clause, pos, facts)
		}
	}
	// --- AVL signal table
	type sig struct{ zero, opposite, rotZero, rot string }
	for nm, want := range map[string]sig{
		"putFix":    {zero: "#:true", opposite: "#:false", rotZero: "", rot: "#:false"},
		"removeFix": {zero: "#:false", opposite: "#:true", rotZero: "#:false", rot: "#:true"},
	} {
		fn := p.FuncByName("trees/avltree", nm)
		var bad []string
		n := 0
		if fn != nil {
			for _, g := range c.GCTail(fn).GCs {
				if g.Exit.Op != "return" || len(g.Exit.Args) != 1 {
					bad = append(bad, "unexpected exit")
					continue
				}
				got := g.Exit.Args[0].String()
				// a boolean expression that the path's own guards decide is that constant (`return child.b != 0` on the
				// path that knows child.b != 0)
				if _, isConst := g.Exit.Args[0].constBool(); !isConst {
					rs := noEpoch(g.Exit.Args[0])
					for _, a := range g.Guards {
						if noEpoch(a) == rs {
							got = "#:true"
						}
						for _, na := range atomsOf(a, false) { // the complement of the guard
							if noEpoch(na) == rs {
								got = "#:false"
							}
						}
					}
				}
				cs := effCallees(g)
				isZero, isOpp := false, false
				for _, a := range g.Guards {
					if a.Op == "==" && len(a.Args) == 2 {
						x, y := a.Args[0], a.Args[1]
						bOfS := func(t *Term) bool {
							return t.Op == "load" && t.Args[0].Op == "fa" && t.Args[0].Leaf == "b" && t.Args[0].Args[0].Op == "load" && t.Args[0].Args[0].Args[0].String() == "p:1"
						}
						if x.String() == "#:0" && bOfS(y) {
							isZero = true
						}
						if (bOfS(x) && y.String() == "(neg p:0)") || (bOfS(y) && x.String() == "(neg p:0)") {
							isOpp = true
						}
					}
				}
				n++
				switch {
				case isZero:
					if got != want.zero {
						bad = append(bad, fmt.Sprintf("%s: subtree was balanced (b == 0) — must return %s, returns %s", nm, want.zero, got))
					}
				case isOpp:
					if got != want.opposite {
						bad = append(bad, fmt.Sprintf("%s: subtree leaned the other way (b == -c) — must return %s, returns %s", nm, want.opposite, got))
					}
				case containsStr(cs, "rotate"):
					if want.rotZero == "" || got != want.rotZero {
						bad = append(bad, fmt.Sprintf("%s: plain rotation (taller child balanced) — the subtree height does not change, must return %s, returns %s", nm, want.rotZero, got))
					}
				case containsStr(cs, "singlerot") || containsStr(cs, "doublerot"):
					if got != want.rot {
						bad = append(bad, fmt.Sprintf("%s: single/double rotation — must return %s, returns %s", nm, want.rot, got))
					}
				default:
					bad = append(bad, nm+": a path matches none of the four cases: "+trunc(g.String(), 200))
				}
			}
			if n < 4 {
				bad = append(bad, fmt.Sprintf("expected at least 4 cases, found %d", n))
			}
		}
		add("avl."+nm+"-signal", "AVL height-change signal: the value "+nm+" returns tells the ancestors whether the subtree height changed; each of the four textbook cases has exactly one right answer (a wrong one leaves contents intact and lets the tree drift out of balance)", fn, bad, fmt.Sprintf("%d cases agree with the signal table", n))
	}
	// --- AVL direction arguments / child indices
	{
		var bad []string
		ncall, nidx := 0, 0
		var anchor *ssa.Function
		for _, fn := range p.Funcs {
			if fn.Pkg == nil || p.RelPkg(fn.Pkg.Pkg.Path()) != "trees/avltree" {
				continue
			}
			if fn.Parent() == nil && !p.KnownFunc(fn) {
				continue // a helper the pinned tree does not know is judged where it is expanded, with its actual arguments
			}
			if fnName(fn) == "rotate" {
				anchor = fn
			}
			paramIdx := fnName(fn) == "walk1" || fnName(fn) == "bottom"
			check := func(t *Term) bool {
				if (t.Op == "do" || t.Op == "call") && strings.HasPrefix(t.Leaf, "trees/avltree.") {
					id := lastIdent(t.Leaf)
					args := t.Args
					if t.Op == "call" {
						args = args[1:]
					}
					switch id {
					case "putFix", "removeFix", "singlerot", "doublerot", "rotate":
						ncall++
						if len(args) == 0 || !isDirTerm(args[0]) {
							bad = append(bad, fmt.Sprintf("%s passes the direction %s to %s — not provably ±1 (it indexes Children [2] as (c+1)/2 and is stored as a balance factor)", p.FuncKey(fn), trunc(noEpoch(args[0]), 80), id))
						}
					case "walk1", "bottom":
						ncall++
						last := args[len(args)-1]
						if s := last.String(); s != "#:0" && s != "#:1" && !(paramIdx && last.Op == "p") {
							bad = append(bad, fmt.Sprintf("%s passes the side %s to %s — not 0/1", p.FuncKey(fn), trunc(noEpoch(last), 80), id))
						}
					}
				}
				if t.Op == "ia" && len(t.Args) == 2 && t.Args[0].Op == "fa" && t.Args[0].Leaf == "Children" {
					nidx++
					if !isChildIdxTerm(t.Args[1], paramIdx) {
						bad = append(bad, fmt.Sprintf("%s indexes Children [2] with %s — not provably 0/1", p.FuncKey(fn), trunc(noEpoch(t.Args[1]), 100)))
					}
				}
				return false
			}
			for _, g := range c.GCTail(fn).GCs {
				for _, a := range g.Guards {
					a.any(check)
				}
				for _, ef := range g.Effects {
					ef.any(check)
				}
				g.Exit.any(check)
			}
		}
		if ncall < 10 || nidx < 10 {
			bad = append(bad, fmt.Sprintf("expected the direction call sites and child accesses, found %d/%d", ncall, nidx))
		}
		add("avl.directions", "every AVL direction argument is ±1 (a constant, the caller's own direction or its negation) and every access to the two-element Children array uses 0/1, (c+1)/2 or its complement — the comparator's magnitude never reaches an index or a balance factor", anchor, bad, fmt.Sprintf("%d direction arguments, %d child accesses", ncall, nidx))
	}
	// --- AVL: which side a fix-up is told about
	{
		var bad []string
		n := 0
		var anchor *ssa.Function
		for _, fn := range p.Funcs {
			if fn.Parent() != nil || fn.Blocks == nil || fn.Pkg == nil || p.RelPkg(fn.Pkg.Pkg.Path()) != "trees/avltree" {
				continue
			}
			gc := c.GC(fn)
			if gc.Undecided != "" {
				continue
			}
			for _, g := range gc.GCs {
				child := -1 // index of the child whose address the latest recursive modifier received
				for _, ef := range g.Effects {
					nm, args, ok := effDo(ef)
					if !ok {
						continue
					}
					if nm == "putFix" || nm == "removeFix" {
						if child < 0 || len(args) < 1 {
							continue
						}
						d, isConst := args[0].constInt()
						if !isConst {
							continue
						}
						n++
						if anchor == nil {
							anchor = fn
						}
						want := int64(2*child - 1) // putFix: the side that grew
						what := "grew"
						if nm == "removeFix" {
							want = int64(1 - 2*child) // removeFix: the side opposite to the one that shrank
							what = "is opposite to the one that shrank"
						}
						if d != want {
							bad = append(bad, fmt.Sprintf("%s: after changing the subtree under Children[%d], %s is told direction %d; the side that %s is %d", p.FuncKey(fn), child, nm, d, what, want))
						}
						child = -1
						continue
					}
					for _, a := range args {
						if a.Op == "ia" && len(a.Args) == 2 && a.Args[0].Op == "fa" && a.Args[0].Leaf == "Children" {
							if k, isC := a.Args[1].constInt(); isC && (k == 0 || k == 1) {
								child = int(k)
							}
						}
					}
				}
			}
		}
		if n < 4 {
			bad = append(bad, fmt.Sprintf("expected the fix-up call sites after recursive put/remove/removeMin, found %d", n))
		}
		add("avl.fix-side", "a fix-up that follows a recursive change under Children[i] is told the right side: putFix the side that grew (2i-1), removeFix the opposite of the side that shrank (1-2i)", anchor, bad, fmt.Sprintf("%d fix-up call sites with constant child index and direction", n))
	}
	// --- B-tree: the key handed to rebalance belongs to the node handed to rebalance
	{
		var bad []string
		n := 0
		var anchor *ssa.Function
		for _, fn := range p.Funcs {
			if fn.Pkg == nil || p.RelPkg(fn.Pkg.Pkg.Path()) != "trees/btree" {
				continue
			}
			if fnName(fn) == "rebalance" {
				anchor = fn
			}
			for _, g := range c.GCTail(fn).GCs {
				for _, ef := range g.Effects {
					nm, args, ok := effDo(ef)
					if !ok || nm != "rebalance" || len(args) != 3 {
						continue
					}
					n++
					node, key := noEpoch(args[1]), args[2]
					okKey := false
					if fnName(fn) == "rebalance" && key.String() == "p:2" {
						okKey = true // the caller's key travels up unchanged when no separator was taken out
					}
					if key.Op == "load" && key.Args[0].Op == "fa" && key.Args[0].Leaf == "Key" {
						e := key.Args[0].Args[0] // the entry
						if e.Op == "load" && e.Args[0].Op == "ia" && e.Args[0].Args[0].Op == "load" && e.Args[0].Args[0].Args[0].Op == "fa" && e.Args[0].Args[0].Args[0].Leaf == "Entries" && noEpoch(e.Args[0].Args[0].Args[0].Args[0]) == node {
							okKey = true
						}
					}
					if !okKey {
						bad = append(bad, fmt.Sprintf("%s calls rebalance(%s, key) with a key that is not read from that node's own entries: %s — the sibling lookup searches this key in the parent to find the node's slot", p.FuncKey(fn), trunc(node, 100), trunc(noEpoch(key), 160)))
					}
				}
			}
		}
		if n < 3 {
			bad = append(bad, fmt.Sprintf("expected at least 3 rebalance call paths, found %d", n))
		}
		add("btree.rebalance-key", "rebalance(node, key) is always called with a key taken from node's own entries (or the caller's key passed through): leftSibling/rightSibling locate node in its parent by searching that key", anchor, bad, fmt.Sprintf("%d call paths", n))
	}
	// --- B-tree occupancy definitions
	{
		ct := typeByKey(p, "trees/btree.Tree")
		var bad []string
		var anchor *ssa.Function
		if ct != nil {
			ms := methodsOf(p, ct)
			anchor = ms["minChildren"]
			M := "(load (fa:m p:0))"
			get := func(name string) string {
				fn := ms[name]
				if fn == nil {
					return "<missing>"
				}
				t := exprTermOf(c, fn)
				if t == nil {
					return "<not an expression>"
				}
				return t.String()
			}
			minC := []string{"(/ (+ #:1 " + M + ") #:2)", "(- " + M + " (/ " + M + " #:2))", "(+ (% " + M + " #:2) (/ " + M + " #:2))", "(+ (/ " + M + " #:2) (% " + M + " #:2))"}
			if got := get("maxChildren"); got != M {
				bad = append(bad, "maxChildren() is "+got+", expected the order m")
			}
			gotMin := get("minChildren")
			if !containsStr(minC, gotMin) {
				bad = append(bad, "minChildren() is "+gotMin+", not a recognised form of ceil(m/2) (e.g. (m+1)/2) — for even orders a different value mis-sizes every non-root node")
			}
			if got := get("maxEntries"); got != "(- "+M+" #:1)" {
				bad = append(bad, "maxEntries() is "+got+", expected maxChildren()-1")
			}
			if got := get("minEntries"); !strings.HasPrefix(got, "(- ") || !strings.HasSuffix(got, " #:1)") || !containsStr(minC, strings.TrimSuffix(strings.TrimPrefix(got, "(- "), " #:1)")) {
				bad = append(bad, "minEntries() is "+got+", expected minChildren()-1")
			}
			if got := get("shouldSplit"); got != "(< (- "+M+" #:1) (len (load (fa:Entries p:1))))" {
				bad = append(bad, "shouldSplit(node) is "+got+", expected len(node.Entries) > maxEntries()")
			}
		}
		add("btree.occupancy-defs", "the B-tree occupancy bounds are the documented ones: at most m children / m-1 keys, at least ceil(m/2) children / ceil(m/2)-1 keys; a node is split exactly when it holds more than m-1 keys", anchor, bad, "maxChildren = m, minChildren = ceil(m/2), maxEntries = m-1, minEntries = ceil(m/2)-1, shouldSplit ⇔ len > m-1")
	}
	return r
}

// callersSplit: helper nm grew the entries of `node` (a term over nm's parameters) without checking it for overflow
// itself. True when nm has call sites among the methods of tk and every one of them goes on to split exactly that node
// (the mutual recursion split → splitNonRoot → split(parent) written as a loop in split).
func callersSplit(c *Ctx, tk, nm string, node *Term) bool {
	ct := typeByKey(c.p, tk)
	if ct == nil {
		return false
	}
	sites := 0
	for _, caller := range methodsOf(c.p, ct) {
		if fnName(caller) == nm || caller.Blocks == nil {
			continue
		}
		gc := c.GCTail(caller)
		if gc.Undecided != "" {
			continue
		}
		for _, g := range gc.GCs {
			for i, ef := range g.Effects {
				n1, a1, ok := effDo(ef)
				if !ok || n1 != nm {
					continue
				}
				sites++
				want := noEpoch(rewriteTerm(node, func(t *Term) *Term {
					if t.Op == "p" {
						if j := atoiOr(t.Leaf, -1); j >= 0 && j < len(a1) {
							return a1[j]
						}
					}
					return nil
				}))
				follow := false
				for _, e2 := range g.Effects[i+1:] {
					if n2, a2, ok2 := effDo(e2); ok2 && n2 == "split" && len(a2) == 2 && noEpoch(a2[1]) == want {
						follow = true
					}
				}
				if !follow {
					return false
				}
			}
		}
	}
	return sites > 0
}

// colourAtom: a guard that tests a node's colour — nodeColor(X) or X.color compared with black/red.
func colourAtom(a *Term) (subj string, black bool, ok bool) {
	if (a.Op != "==" && a.Op != "!=") || len(a.Args) != 2 {
		return "", false, false
	}
	for i := 0; i < 2; i++ {
		k := a.Args[i].String()
		if k != "#:true:color" && k != "#:false:color" {
			continue
		}
		x := a.Args[1-i]
		switch {
		case x.Op == "call" && strings.HasSuffix(x.Leaf, ".nodeColor") && len(x.Args) >= 1:
			subj = noEpoch(x.Args[len(x.Args)-1])
		case x.Op == "load" && len(x.Args) == 1 && x.Args[0].Op == "fa" && x.Args[0].Leaf == "color":
			subj = noEpoch(x.Args[0].Args[0])
		default:
			return "", false, false
		}
		return subj, (k == "#:true:color") == (a.Op == "=="), true
	}
	return "", false, false
}
