package main

// helpers.go — small recognisers over SSA shared by the rules.

import (
	"go/token"
	"go/types"

	"golang.org/x/tools/go/ssa"
)

func stripChange(v ssa.Value) ssa.Value {
	for {
		switch x := v.(type) {
		case *ssa.ChangeType:
			v = x.X
		case *ssa.ChangeInterface:
			v = x.X
		default:
			return v
		}
	}
}

// recvField: v is recv.f (loaded) or &recv.f for the receiver (parameter 0) of fn. Returns the field index.
func recvField(fn *ssa.Function, v ssa.Value) (int, bool) {
	if len(fn.Params) == 0 || fn.Signature.Recv() == nil {
		return 0, false
	}
	v = stripChange(v)
	if u, ok := v.(*ssa.UnOp); ok && u.Op == token.MUL {
		v = stripChange(u.X)
	}
	fa, ok := v.(*ssa.FieldAddr)
	if !ok {
		return 0, false
	}
	if stripChange(fa.X) != ssa.Value(fn.Params[0]) {
		return 0, false
	}
	return fa.Field, true
}

func structOf(t types.Type) *types.Struct {
	t = types.Unalias(t)
	if p, ok := t.Underlying().(*types.Pointer); ok {
		t = p.Elem()
	}
	s, _ := t.Underlying().(*types.Struct)
	return s
}

func fieldName(fn *ssa.Function, idx int) string {
	if fn.Signature.Recv() == nil {
		return "?"
	}
	if s := structOf(fn.Signature.Recv().Type()); s != nil && idx < s.NumFields() {
		return fieldNameIn(fn.Signature.Recv().Type(), idx)
	}
	return "?"
}

func allCalls(fn *ssa.Function) []ssa.CallInstruction {
	var out []ssa.CallInstruction
	for _, b := range fn.Blocks {
		for _, in := range b.Instrs {
			if c, ok := in.(ssa.CallInstruction); ok {
				out = append(out, c)
			}
		}
	}
	return out
}

// Forward describes a pure forwarder method: `return recv.f.M(params...)`.
type Forward struct {
	Field    int
	Callee   *ssa.Function
	Call     ssa.CallInstruction
	ArgsThru bool // the remaining arguments are exactly the method's own parameters, in order
}

// forwardInfo recognises a method whose body is one static call on a field of the receiver whose results are returned
// unchanged, and which has no other instruction with an effect. Early-return/else and named results are irrelevant at SSA level.
func forwardInfo(fn *ssa.Function) *Forward {
	if fn == nil || fn.Signature.Recv() == nil || len(fn.Blocks) != 1 {
		return nil
	}
	var call ssa.CallInstruction
	for _, in := range fn.Blocks[0].Instrs {
		switch x := in.(type) {
		case ssa.CallInstruction:
			if _, isDefer := in.(*ssa.Defer); isDefer {
				return nil
			}
			if call != nil {
				return nil
			}
			call = x
		case *ssa.Store:
			if !isVarargsStore(x) {
				return nil
			}
		case *ssa.MapUpdate, *ssa.Send, *ssa.Panic, *ssa.Go:
			return nil
		}
	}
	if call == nil {
		return nil
	}
	cc := call.Common()
	callee := StaticCallee(cc)
	if callee == nil || callee.Signature.Recv() == nil || len(cc.Args) == 0 {
		return nil
	}
	f, ok := recvField(fn, cc.Args[0])
	if !ok {
		return nil
	}
	// flatten the actual arguments (a packed variadic slice counts as its elements)
	var actual []ssa.Value
	for _, a := range cc.Args[1:] {
		if elems, ok := varargsElems(a); ok {
			actual = append(actual, elems...)
		} else {
			actual = append(actual, stripChange(a))
		}
	}
	thru := len(actual) == len(fn.Params)-1
	if thru {
		for i, a := range actual {
			if a != ssa.Value(fn.Params[i+1]) {
				thru = false
			}
		}
	}
	if !thru {
		// the parameters in order with constants in between (`list.Insert(0, v)` for a Push(v)): still nothing of its own
		pi := 1
		okc := true
		for _, a := range actual {
			if _, isConst := a.(*ssa.Const); isConst {
				continue
			}
			if pi < len(fn.Params) && a == ssa.Value(fn.Params[pi]) {
				pi++
				continue
			}
			okc = false
		}
		if okc && pi == len(fn.Params) {
			thru = true
		}
	}
	if !returnsCallUnchanged(fn, call) {
		return nil
	}
	return &Forward{Field: f, Callee: callee, Call: call, ArgsThru: thru}
}

// isVarargsStore: a store that fills the compiler-generated array of a variadic call.
func isVarargsStore(s *ssa.Store) bool {
	ia, ok := s.Addr.(*ssa.IndexAddr)
	if !ok {
		return false
	}
	al, ok := ia.X.(*ssa.Alloc)
	return ok && al.Comment == "varargs"
}

// varargsElems: v is the slice of a compiler-generated varargs array; returns the stored elements in order.
func varargsElems(v ssa.Value) ([]ssa.Value, bool) {
	sl, ok := v.(*ssa.Slice)
	if !ok {
		return nil, false
	}
	al, ok := sl.X.(*ssa.Alloc)
	if !ok || al.Comment != "varargs" {
		return nil, false
	}
	arr, ok := types.Unalias(al.Type()).Underlying().(*types.Pointer).Elem().Underlying().(*types.Array)
	if !ok {
		return nil, false
	}
	out := make([]ssa.Value, arr.Len())
	for _, ref := range *al.Referrers() {
		ia, ok := ref.(*ssa.IndexAddr)
		if !ok {
			continue
		}
		idx, ok := constInt(ia.Index)
		if !ok || idx < 0 || idx >= int64(len(out)) {
			return nil, false
		}
		for _, r2 := range *ia.Referrers() {
			if st, ok := r2.(*ssa.Store); ok && st.Addr == ssa.Value(ia) {
				out[idx] = stripChange(st.Val)
			}
		}
	}
	for _, o := range out {
		if o == nil {
			return nil, false
		}
	}
	return out, true
}

func returnsCallUnchanged(fn *ssa.Function, call ssa.CallInstruction) bool {
	b := fn.Blocks[len(fn.Blocks)-1]
	if len(fn.Blocks) != 1 {
		return false
	}
	ret, ok := b.Instrs[len(b.Instrs)-1].(*ssa.Return)
	if !ok {
		return false
	}
	cv, _ := call.(ssa.Value)
	switch len(ret.Results) {
	case 0:
	case 1:
		if cv == nil || stripChange(ret.Results[0]) != cv {
			return false
		}
	default:
		for i, r := range ret.Results {
			ex, ok := stripChange(r).(*ssa.Extract)
			if !ok || ex.Tuple != cv || ex.Index != i {
				return false
			}
		}
	}
	return true
}

// selfForwardInfo recognises `return recv.M(params...)` (e.g. MarshalJSON → ToJSON).
func selfForward(fn *ssa.Function) *ssa.Function {
	if fn == nil || fn.Signature.Recv() == nil || len(fn.Blocks) != 1 {
		return nil
	}
	var call ssa.CallInstruction
	for _, in := range fn.Blocks[0].Instrs {
		switch x := in.(type) {
		case ssa.CallInstruction:
			if call != nil {
				return nil
			}
			call = x
		case *ssa.Store, *ssa.MapUpdate, *ssa.Send, *ssa.Panic, *ssa.Go:
			return nil
		}
	}
	if call == nil {
		return nil
	}
	cc := call.Common()
	callee := StaticCallee(cc)
	if callee == nil || len(cc.Args) != len(fn.Params) {
		return nil
	}
	for i := range cc.Args {
		if stripChange(cc.Args[i]) != ssa.Value(fn.Params[i]) {
			return nil
		}
	}
	ret, ok := fn.Blocks[0].Instrs[len(fn.Blocks[0].Instrs)-1].(*ssa.Return)
	if !ok {
		return nil
	}
	cv, _ := call.(ssa.Value)
	switch len(ret.Results) {
	case 0:
	case 1:
		if cv == nil || stripChange(ret.Results[0]) != cv {
			return nil
		}
	default:
		for i, r := range ret.Results {
			ex, ok := stripChange(r).(*ssa.Extract)
			if !ok || ex.Tuple != cv || ex.Index != i {
				return nil
			}
		}
	}
	return callee
}

// recvNamed: the generic named type of fn's receiver, or nil.
func recvNamed(fn *ssa.Function) *types.Named {
	if fn == nil || fn.Signature.Recv() == nil {
		return nil
	}
	return namedOf(fn.Signature.Recv().Type())
}

// isMethodNamed: callee is a method called `name` on type n (n may be nil = any library type).
func isMethodNamed(callee *ssa.Function, n *types.Named, name string) bool {
	if callee == nil || fnName(callee) != name {
		return false
	}
	rn := recvNamed(callee)
	if rn == nil {
		return false
	}
	return n == nil || rn == n.Origin()
}

// stdCallee returns the full name of a non-library static callee ("encoding/json.Unmarshal"), or "".
func stdCalleeName(p *Prog, cc *ssa.CallCommon) string {
	cal := StaticCallee(cc)
	if cal == nil || p.IsLib(cal) {
		return ""
	}
	full, _ := stdName(cal)
	return full
}

// negations: strips !x wrappers, returning the inner value and whether polarity flipped.
func stripNot(v ssa.Value) (ssa.Value, bool) {
	flip := false
	for {
		u, ok := v.(*ssa.UnOp)
		if !ok || u.Op != token.NOT {
			return v, flip
		}
		v = u.X
		flip = !flip
	}
}

// guardedBy reports whether block b executes only after `cond` evaluated to `want` (through ! and short-circuit chains).
func guardedBy(b *ssa.BasicBlock, match func(v ssa.Value) bool, want bool) bool {
	for _, g := range guardsOf(b) {
		v, flip := stripNot(g.If.Cond)
		pol := g.Polarity
		if flip {
			pol = !pol
		}
		if pol == want && match(v) {
			return true
		}
	}
	return false
}

func isNilConst(v ssa.Value) bool {
	c, ok := v.(*ssa.Const)
	return ok && c.Value == nil && isNillable(c.Type())
}

func isNillable(t types.Type) bool {
	switch types.Unalias(t).Underlying().(type) {
	case *types.Pointer, *types.Slice, *types.Map, *types.Interface, *types.Chan, *types.Signature:
		return true
	}
	return false
}

// builtinCall: v is a call to builtin `name`; returns its args.
func builtinCall(v ssa.Value, name string) ([]ssa.Value, bool) {
	c, ok := v.(*ssa.Call)
	if !ok {
		return nil, false
	}
	b, ok := c.Call.Value.(*ssa.Builtin)
	if !ok || b.Name() != name {
		return nil, false
	}
	return c.Call.Args, true
}

func exportedMethods(p *Prog, n *types.Named) map[string]*ssa.Function {
	out := map[string]*ssa.Function{}
	for name, fn := range methodsOf(p, n) {
		if token.IsExported(name) {
			out[name] = fn
		}
	}
	return out
}
