package main

// rules_unlink.go — R28 UNLINK: removing a node from a binary tree loses nothing that hangs below it.
//
// A node is taken out by putting one of its children in its place. That is only sound when the path knows the *other* child
// to be nil (`child = node.Left` needs `node.Right == nil`, and the reverse; nil needs both). A node with two children is not
// unlinked itself: its key and value are overwritten — both, from the same in-order neighbour (the maximum of the left
// subtree or the minimum of the right one) — and that neighbour, which has at most one child, is unlinked instead.
// Decided on every path of the red-black tree's Remove and of the AVL tree's remove / removeMin.

import (
	"fmt"
	"go/token"
	"go/types"
	"sort"
	"strings"

	"golang.org/x/tools/go/ssa"
)

func hasNilGuard(g *GC, addr string) bool {
	for _, a := range g.Guards {
		if a.Op == "==" && len(a.Args) == 2 && a.Args[0].String() == "#:nil" && a.Args[1].Op == "load" && noEpoch(a.Args[1].Args[0]) == addr {
			return true
		}
	}
	return false
}

// postNilField: every path of the pure function fn that returns a non-nil node returns one whose field f the path knows
// to be nil (maximumNode leaves its loop when node.Right == nil: its result has no right child).
func postNilField(c *Ctx, fn *ssa.Function, f string) bool {
	gc := c.GC(fn)
	if gc.Undecided != "" {
		return false
	}
	n := 0
	for _, g := range gc.GCs {
		if g.Exit.Op != "return" || len(g.Exit.Args) != 1 {
			continue
		}
		res := g.Exit.Args[0]
		if res.String() == "#:nil" {
			continue
		}
		n++
		if !hasNilGuard(g, "(fa:"+f+" "+noEpoch(res)+")") {
			return false
		}
	}
	return n > 0
}

// knownNilChild: the path knows N.<f> == nil — by a guard, or because N is the result of a function whose result never
// has that child.
func knownNilChild(c *Ctx, byKey map[string]*ssa.Function, g *GC, N *Term, f string) bool {
	if hasNilGuard(g, "(fa:"+f+" "+noEpoch(N)+")") {
		return true
	}
	if N.Op == "call" {
		if fn := byKey[N.Leaf]; fn != nil && postNilField(c, fn, f) {
			return true
		}
	}
	return false
}

func ruleR28(c *Ctx) *RuleResult {
	p := c.p
	r := &RuleResult{Rule: "R28", Title: "UNLINK: a removed tree node is replaced by its only child; a node with two children hands over key and value of its in-order neighbour", Floor: 3}
	clause := "a node is replaced by one of its children only on a path that knows the other child to be nil; a node with two children takes both key and value from the same in-order neighbour (max of the left / min of the right subtree) and that neighbour is the one unlinked"
	byKey := map[string]*ssa.Function{}
	for _, f := range p.Funcs {
		byKey[p.FuncKey(f)] = f
	}
	// ---- red-black tree
	if ct := typeByKey(p, "trees/redblacktree.Tree"); ct != nil {
		fn := methodsOf(p, ct)["Remove"]
		key := "trees/redblacktree.Tree.Remove"
		if fn == nil {
			r.undecided(key, clause, "-", "anchored function not found")
		} else if gc := c.GC(fn); gc.Undecided != "" {
			r.undecided(key, clause, p.FuncPos(fn), gc.Undecided)
		} else {
			var bad []string
			nrep, nswap := 0, 0
			for _, g := range gc.GCs {
				var N, C *Term
				for _, ef := range g.Effects {
					if nm, args, ok := effDo(ef); ok && nm == "replaceNode" && len(args) == 3 {
						N, C = args[1], args[2]
					}
				}
				if N == nil {
					continue
				}
				// a path that assumes a child which the result of maximumNode/minimumNode never has is infeasible
				infeasible := false
				for _, a := range g.Guards {
					if a.Op == "!=" && len(a.Args) == 2 && a.Args[0].String() == "#:nil" && a.Args[1].Op == "load" && a.Args[1].Args[0].Op == "fa" {
						obj := a.Args[1].Args[0].Args[0]
						if obj.Op == "call" {
							if fn := byKey[obj.Leaf]; fn != nil && postNilField(c, fn, a.Args[1].Args[0].Leaf) {
								infeasible = true
							}
						}
					}
				}
				if infeasible {
					continue
				}
				nrep++
				n := noEpoch(N)
				cs := noEpoch(C)
				left, right := "(fa:Left "+n+")", "(fa:Right "+n+")"
				switch {
				case cs == "(load "+left+")":
					if !knownNilChild(c, byKey, g, N, "Right") {
						bad = append(bad, "a node is replaced by its left child on a path that does not know its right child to be nil (the right subtree is lost): "+trunc(guardsString(g), 240))
					}
				case cs == "(load "+right+")":
					if !knownNilChild(c, byKey, g, N, "Left") {
						bad = append(bad, "a node is replaced by its right child on a path that does not know its left child to be nil (the left subtree is lost): "+trunc(guardsString(g), 240))
					}
				case cs == "#:nil":
					if !knownNilChild(c, byKey, g, N, "Left") || !knownNilChild(c, byKey, g, N, "Right") {
						bad = append(bad, "a node is replaced by nil on a path that does not know both children to be nil")
					}
				default:
					bad = append(bad, "a node is replaced by something other than one of its children: "+trunc(cs, 160))
				}
				// the hand-over of key and value
				var kdst, ksrc, vdst, vsrc string
				for _, ef := range g.Effects {
					if storeToField(ef, "Key") && ef.Args[1].Op == "load" && ef.Args[1].Args[0].Op == "fa" && ef.Args[1].Args[0].Leaf == "Key" {
						kdst, ksrc = noEpoch(ef.Args[0].Args[0]), noEpoch(ef.Args[1].Args[0].Args[0])
					}
					if storeToField(ef, "Value") && ef.Args[1].Op == "load" && ef.Args[1].Args[0].Op == "fa" && ef.Args[1].Args[0].Leaf == "Value" {
						vdst, vsrc = noEpoch(ef.Args[0].Args[0]), noEpoch(ef.Args[1].Args[0].Args[0])
					}
				}
				if kdst != "" || vdst != "" {
					nswap++
					switch {
					case kdst == "" || vdst == "":
						bad = append(bad, "only one of key and value is handed over to the node that stays")
					case kdst != vdst || ksrc != vsrc:
						bad = append(bad, "key and value are handed over between different nodes")
					case ksrc != n:
						bad = append(bad, "the node that handed over its key and value is not the one that is unlinked")
					case extremeDescent(gc, g, ksrc, kdst):
						// the descent to the neighbour written out as a loop: starts at the child, hops the other way until nil
					case !(strings.HasPrefix(ksrc, "(call:") && (strings.Contains(ksrc, ").maximumNode @ (load (fa:Left "+kdst+"))") || strings.Contains(ksrc, ").minimumNode @ (load (fa:Right "+kdst+"))"))):
						bad = append(bad, "the key and value do not come from the in-order neighbour (maximum of the left / minimum of the right subtree) of the node that stays: "+trunc(ksrc, 160))
					}
				}
			}
			if nrep == 0 || nswap == 0 {
				bad = append(bad, fmt.Sprintf("expected unlinking and hand-over paths, found %d/%d", nrep, nswap))
			}
			if len(bad) > 0 {
				r.bad(key, clause, p.FuncPos(fn), strings.Join(dedup(bad), "\n"))
			} else {
				r.ok(key, clause, p.FuncPos(fn), fmt.Sprintf("%d unlinking paths (other child known nil), %d of them after handing over key and value of the in-order predecessor", nrep, nswap))
			}
		}
	}
	// ---- AVL tree: *qp = q.Children[i] needs q.Children[1-i] == nil; removeMin hands over key and value of the node it unlinks
	avlFn := func(name string, method bool) *ssa.Function {
		if method {
			if ct := typeByKey(p, "trees/avltree.Tree"); ct != nil {
				return methodsOf(p, ct)[name]
			}
			return nil
		}
		for _, f := range p.Funcs {
			if f.Parent() == nil && f.Pkg != nil && p.RelPkg(f.Pkg.Pkg.Path()) == "trees/avltree" && f.Signature.Recv() == nil && fnName(f) == name {
				return f
			}
		}
		return nil
	}
	for _, sp := range []struct {
		name   string
		method bool
		qp     string // parameter holding **Node
	}{{"remove", true, "p:2"}, {"removeMin", false, "p:0"}} {
		fn := avlFn(sp.name, sp.method)
		key := "trees/avltree." + sp.name
		if fn == nil {
			r.undecided(key, clause, "-", "anchored function not found")
			continue
		}
		gc := c.GC(fn)
		if gc.Undecided != "" {
			r.undecided(key, clause, p.FuncPos(fn), gc.Undecided)
			continue
		}
		var bad []string
		nrep, nhand := 0, 0
		q := "(load " + sp.qp + ")"
		for _, g := range gc.GCs {
			for _, ef := range g.Effects {
				// *qp = q.Children[i]
				if isStore(ef) && ef.Args[0].String() == sp.qp {
					v := ef.Args[1]
					if v.Op == "load" && v.Args[0].Op == "ia" && noEpoch(v.Args[0].Args[0]) == "(fa:Children "+q+")" {
						nrep++
						i, ok := v.Args[0].Args[1].constInt()
						if !ok || (i != 0 && i != 1) {
							bad = append(bad, "the replacing child is not Children[0] or Children[1]")
							continue
						}
						other := fmt.Sprintf("(ia (fa:Children %s) #:%d)", q, 1-i)
						if !hasNilGuard(g, other) {
							bad = append(bad, fmt.Sprintf("the node is replaced by Children[%d] on a path that does not know Children[%d] to be nil (that subtree is lost)", i, 1-i))
						}
					} else {
						bad = append(bad, "the node is replaced by something other than one of its children: "+trunc(noEpoch(v), 160))
					}
				}
				// remove: the two-children case hands the work to removeMin on the right subtree with the addresses of this node's key and value
				if nm, args, ok := effDo(ef); ok && nm == "removeMin" && sp.name == "remove" && len(args) == 1 {
					// removeMin returns the detached minimum: this node takes over its key and its value on this path
					nhand++
					if noEpoch(args[0]) != "(ia (fa:Children "+q+") #:1)" {
						bad = append(bad, "removeMin is not applied to the right subtree: "+trunc(noEpoch(ef), 200))
					}
					least := "(ext:0 (res " + noEpoch(ef) + "))"
					kk, vv := false, false
					for _, e2 := range g.Effects {
						if isStore(e2) && noEpoch(e2.Args[0]) == "(fa:Key "+q+")" && noEpoch(e2.Args[1]) == "(load (fa:Key "+least+"))" {
							kk = true
						}
						if isStore(e2) && noEpoch(e2.Args[0]) == "(fa:Value "+q+")" && noEpoch(e2.Args[1]) == "(load (fa:Value "+least+"))" {
							vv = true
						}
					}
					if !kk || !vv {
						bad = append(bad, "the node does not take over both key and value of the minimum removeMin detached")
					}
				}
				if nm, args, ok := effDo(ef); ok && nm == "removeMin" && sp.name == "remove" && len(args) == 3 {
					nhand++
					if noEpoch(args[0]) != "(ia (fa:Children "+q+") #:1)" || noEpoch(args[1]) != "(fa:Key "+q+")" || noEpoch(args[2]) != "(fa:Value "+q+")" {
						bad = append(bad, "removeMin is not applied to the right subtree with the addresses of this node's own key and value: "+trunc(noEpoch(ef), 200))
					}
				}
			}
			// removeMin: the unlinked minimum hands over both key and value
			if sp.name == "removeMin" {
				unlinks := false
				for _, ef := range g.Effects {
					if isStore(ef) && ef.Args[0].String() == sp.qp {
						unlinks = true
					}
				}
				if unlinks {
					nhand++
					k, v := false, false
					for _, ef := range g.Effects {
						if isStore(ef) && ef.Args[0].String() == "p:1" && noEpoch(ef.Args[1]) == "(load (fa:Key "+q+"))" {
							k = true
						}
						if isStore(ef) && ef.Args[0].String() == "p:2" && noEpoch(ef.Args[1]) == "(load (fa:Value "+q+"))" {
							v = true
						}
					}
					if !k && !v && g.Exit.Op == "return" && len(g.Exit.Args) >= 1 && noEpoch(g.Exit.Args[0]) == q {
						// the other way of handing over: the detached node itself is returned (read before the link was
						// overwritten: the same dated load the path's guards test), and remove copies key and value out of it
						atEntry := false
						for _, a := range g.Guards {
							if a.any(func(t *Term) bool { return t.String() == g.Exit.Args[0].String() }) {
								atEntry = true
							}
						}
						if atEntry {
							k, v = true, true
						}
					}
					if !k || !v {
						bad = append(bad, "the unlinked minimum does not hand over both its key and its value")
					}
				}
			}
		}
		if nrep == 0 || nhand == 0 {
			bad = append(bad, fmt.Sprintf("expected unlinking and hand-over paths, found %d/%d", nrep, nhand))
		}
		if len(bad) > 0 {
			r.bad(key, clause, p.FuncPos(fn), strings.Join(dedup(bad), "\n"))
		} else {
			r.ok(key, clause, p.FuncPos(fn), fmt.Sprintf("%d unlinking paths (other child known nil), %d hand-over paths", nrep, nhand))
		}
	}
	return r
}

// extremeDescent: src is a loop variable φ:k.j that enters the loop as dst.Left (dst.Right), moves by .Right (.Left) every
// round, and the path g knows that its .Right (.Left) is nil: the maximum of the left (minimum of the right) subtree of dst.
func extremeDescent(gc *GCNF, g *GC, src, dst string) bool {
	if !strings.HasPrefix(src, "φ:") {
		return false
	}
	parts := strings.SplitN(src[len("φ:"):], ".", 2)
	if len(parts) != 2 {
		return false
	}
	ks, j := parts[0], atoiOr(parts[1], -1)
	for _, dir := range [][2]string{{"Left", "Right"}, {"Right", "Left"}} {
		start, hop := dir[0], dir[1]
		ok, nEntry, nBack := true, 0, 0
		for _, h := range gc.GCs {
			if h.Exit.Op != "goto" || h.Exit.Leaf != ks || j < 0 || j >= len(h.Exit.Args) {
				continue
			}
			a := noEpoch(h.Exit.Args[j])
			if itoa(h.From) == ks {
				nBack++
				if a != "(load (fa:"+hop+" "+src+"))" {
					ok = false
				}
			} else {
				nEntry++
				if a != "(load (fa:"+start+" "+dst+"))" {
					ok = false
				}
			}
		}
		if !ok || nEntry == 0 || nBack == 0 {
			continue
		}
		for _, a := range g.Guards {
			if a.Op == "==" && len(a.Args) == 2 && a.Args[0].String() == "#:nil" && noEpoch(a.Args[1]) == "(load (fa:"+hop+" "+src+"))" {
				return true
			}
		}
	}
	return false
}

// ---- R44 NILRESULT: the result of a helper that answers nil exactly for a nil argument is dereferenced only where the
// argument is known non-nil ----
//
// `maximumNode(x)` returns nil when x is nil (its first test) — a caller that reads `.Key` of the result on a path that does
// not know x != nil dereferences nil for a node without that subtree. The helpers are found, not listed: a library function
// with one pointer result, every nil-returning path of which is guarded by `p:k == nil` for one pointer parameter k (helpers
// that also answer nil for other reasons — sibling(), uncle(), Left() — are not in the family: their callers rely on shape
// invariants). At every call site in the library, a field access through the result requires a guard `arg != nil` on the
// path (or an argument that is non-nil by construction).

func nilForNilParam(c *Ctx, fn *ssa.Function) (int, bool) {
	if fn.Blocks == nil || fn.Signature.Results().Len() != 1 {
		return 0, false
	}
	if _, ok := fn.Signature.Results().At(0).Type().Underlying().(*types.Pointer); !ok {
		return 0, false
	}
	gc := c.GC(fn)
	if gc.Undecided != "" {
		return 0, false
	}
	k := -1
	nNil := 0
	for _, g := range gc.GCs {
		if g.Exit.Op != "return" || len(g.Exit.Args) != 1 || g.Exit.Args[0].String() != "#:nil" {
			continue
		}
		nNil++
		// exactly the guard p:k == nil, from the entry
		if g.From != 0 || len(g.Guards) != 1 || len(g.Effects) != 0 {
			return 0, false
		}
		a := g.Guards[0]
		if a.Op != "==" || len(a.Args) != 2 || a.Args[0].String() != "#:nil" || a.Args[1].Op != "p" {
			return 0, false
		}
		kk := atoiOr(a.Args[1].Leaf, -1)
		if k >= 0 && kk != k {
			return 0, false
		}
		k = kk
	}
	if nNil != 1 || k < 0 {
		return 0, false
	}
	return k, true
}

func ruleR44(c *Ctx) *RuleResult {
	p := c.p
	r := &RuleResult{Rule: "R44", Title: "NILRESULT: the result of a helper that answers nil exactly for a nil argument is dereferenced only where the argument is known non-nil", Floor: 1}
	clause := "a field access through the result of %s (which returns nil when its argument %d is nil) happens only on paths that know that argument to be non-nil"
	helpers := map[string]int{}
	hfn := map[string]*ssa.Function{}
	for _, fn := range p.Funcs {
		if fn.Parent() != nil || fn.Pkg == nil {
			continue
		}
		if k, ok := nilForNilParam(c, fn); ok {
			helpers[p.FuncKey(fn)] = k
			hfn[p.FuncKey(fn)] = fn
		}
	}
	type site struct{ caller, helper string }
	bad := map[site][]string{}
	seen := map[site]int{}
	pos := map[site]string{}
	for _, fn := range p.Funcs {
		if fn.Parent() != nil || fn.Blocks == nil || fn.Pkg == nil {
			continue
		}
		gc := c.GC(fn)
		if gc.Undecided != "" {
			continue
		}
		for _, g := range gc.GCs {
			check := func(t *Term) bool {
				// (fa:F (call:H … ARG …))
				if t.Op != "fa" || len(t.Args) != 1 || t.Args[0].Op != "call" {
					return false
				}
				call := t.Args[0]
				k, ok := helpers[call.Leaf]
				if !ok || k+1 >= len(call.Args) {
					return false
				}
				arg := call.Args[k+1] // Args[0] is the epoch marker
				s := site{p.FuncKey(fn), call.Leaf}
				seen[s]++
				pos[s] = p.FuncPos(fn)
				if arg.Op == "new" || (arg.Op == "p" && arg.Leaf == "0" && fn.Signature.Recv() != nil) {
					return false
				}
				as := noEpoch(arg)
				known := false
				for _, a := range g.Guards {
					if a.Op == "!=" && len(a.Args) == 2 && a.Args[0].String() == "#:nil" && noEpoch(a.Args[1]) == as {
						known = true
					}
				}
				if !known {
					bad[s] = append(bad[s], fmt.Sprintf(".%s of the result is accessed on a path that does not know %s != nil: %s", t.Leaf, trunc(as, 120), trunc(guardsString(g), 200)))
				}
				return false
			}
			for _, a := range g.Guards {
				a.any(check)
			}
			for _, ef := range g.Effects {
				ef.any(check)
			}
			g.Exit.any(check)
		}
	}
	// (b) no path reads or writes a field or slot through the nil constant (a pointer variable that no path ever assigns)
	nfn := 0
	for _, fn := range p.Funcs {
		if fn.Parent() != nil || fn.Blocks == nil || fn.Pkg == nil {
			continue
		}
		gc := c.GC(fn)
		if gc.Undecided != "" {
			continue
		}
		nfn++
		var hits []string
		// loop variables that only ever hold nil: every value handed to them is the nil constant or the variable itself
		nilPhi := map[string]bool{}
		{
			in := map[string][]string{}
			for _, g := range gc.GCs {
				if g.Exit.Op != "goto" {
					continue
				}
				for j, a := range g.Exit.Args {
					k := "φ:" + g.Exit.Leaf + "." + itoa(j)
					in[k] = append(in[k], a.String())
				}
			}
			for k, vs := range in {
				all, some := true, false
				for _, v := range vs {
					switch v {
					case "#:nil":
						some = true
					case k:
					default:
						all = false
					}
				}
				if all && some {
					nilPhi[k] = true
				}
			}
		}
		// a loop entered with the nil constant for a variable that every path from the loop head reads through, untested
		{
			nilEntry := map[string]bool{}
			for _, g := range gc.GCs {
				if g.Exit.Op != "goto" || itoa(g.From) == g.Exit.Leaf {
					continue
				}
				for j, a := range g.Exit.Args {
					if a.String() == "#:nil" {
						nilEntry["φ:"+g.Exit.Leaf+"."+itoa(j)] = true
					}
				}
			}
			for ph := range nilEntry {
				var k int
				fmt.Sscanf(ph, "φ:%d.", &k)
				npaths, nderef := 0, 0
				for _, g := range gc.GCs {
					if g.From != k {
						continue
					}
					npaths++
					tested, deref := false, false
					see := func(t *Term) bool {
						if (t.Op == "fa" || t.Op == "ia") && len(t.Args) >= 1 && t.Args[0].String() == ph {
							deref = true
						}
						return false
					}
					for _, a := range g.Guards {
						if (a.Op == "==" || a.Op == "!=") && len(a.Args) == 2 && ((a.Args[0].String() == "#:nil" && a.Args[1].String() == ph) || (a.Args[1].String() == "#:nil" && a.Args[0].String() == ph)) {
							tested = true
						}
						a.any(see)
					}
					for _, ef := range g.Effects {
						ef.any(see)
					}
					g.Exit.any(see)
					if deref && !tested {
						nderef++
					}
				}
				if npaths > 0 && nderef == npaths {
					hits = append(hits, fmt.Sprintf("loop %d is entered with nil for %s, and every path from its head reads or writes through that variable without testing it", k, ph))
				}
			}
		}
		hits = append(hits, knownNilDerefs(p, fn)...)
		for _, g := range gc.GCs {
			check := func(t *Term) bool {
				if (t.Op == "fa" || t.Op == "ia") && len(t.Args) >= 1 && t.Args[0].Op == "φ" && nilPhi[t.Args[0].String()] {
					hits = append(hits, fmt.Sprintf("%s is accessed through a variable that only ever holds nil: %s", trunc(noEpoch(t), 60), trunc(guardsString(g), 160)))
				}
				if (t.Op == "fa" || t.Op == "ia") && len(t.Args) >= 1 && t.Args[0].String() == "#:nil" {
					hits = append(hits, fmt.Sprintf("%s is accessed through the nil constant: %s", trunc(noEpoch(t), 60), trunc(guardsString(g), 160)))
				}
				return false
			}
			for _, a := range g.Guards {
				a.any(check)
			}
			for _, ef := range g.Effects {
				ef.any(check)
			}
			g.Exit.any(check)
		}
		if len(hits) > 0 {
			r.bad("nilconst:"+p.FuncKey(fn), "no path dereferences the nil constant", p.FuncPos(fn), strings.Join(dedup(hits), "\n"))
		}
	}
	// (d) the root of an empty tree is nil: a callee that reads through its node parameter on every path, untested, is handed
	// `X.Root` only on paths that know X non-empty (size != 0) or the root non-nil
	{
		needs := map[string]map[int]bool{} // callee key → parameter positions dereferenced on every entry path without a test
		for _, fn := range p.Funcs {
			if fn.Parent() != nil || fn.Blocks == nil || fn.Pkg == nil || !p.IsLib(fn) {
				continue
			}
			gc := c.GC(fn)
			if gc.Undecided != "" {
				continue
			}
			for k, prm := range fn.Params {
				if _, isPtr := prm.Type().Underlying().(*types.Pointer); !isPtr {
					continue
				}
				pk := "p:" + itoa(k)
				all, some := true, false
				for _, g := range gc.GCs {
					if g.From != 0 {
						continue
					}
					some = true
					tested, deref := false, false
					see := func(t *Term) bool {
						if (t.Op == "fa" || t.Op == "ia") && len(t.Args) >= 1 && t.Args[0].String() == pk {
							deref = true
						}
						return false
					}
					for _, a := range g.Guards {
						if (a.Op == "==" || a.Op == "!=") && len(a.Args) == 2 && (a.Args[0].String() == pk || a.Args[1].String() == pk) {
							tested = true
						}
						a.any(see)
					}
					for _, ef := range g.Effects {
						ef.any(see)
					}
					g.Exit.any(see)
					if tested || !deref {
						all = false
					}
				}
				if all && some {
					if needs[p.FuncKey(fn)] == nil {
						needs[p.FuncKey(fn)] = map[int]bool{}
					}
					needs[p.FuncKey(fn)][k] = true
				}
			}
		}
		nsites := 0
		var hits []string
		for _, fn := range p.Funcs {
			if fn.Parent() != nil || fn.Blocks == nil || fn.Pkg == nil || !p.IsLib(fn) {
				continue
			}
			gc := c.GC(fn)
			if gc.Undecided != "" {
				continue
			}
			for _, g := range gc.GCs {
				see := func(t *Term) bool {
					if t.Op != "do" && t.Op != "call" {
						return false
					}
					nd, ok := needs[t.Leaf]
					if !ok {
						return false
					}
					off := 0
					if t.Op == "call" {
						off = 1 // Args[0] is the epoch marker
					}
					for k := range nd {
						if k+off >= len(t.Args) {
							continue
						}
						a := t.Args[k+off]
						if !(a.Op == "load" && len(a.Args) == 1 && a.Args[0].Op == "fa" && a.Args[0].Leaf == "Root" && len(a.Args[0].Args) == 1) {
							continue
						}
						nsites++
						owner := noEpoch(a.Args[0].Args[0])
						known := false
						for _, gd := range g.Guards {
							s := noEpoch(gd)
							if gd.Op == "!=" && (s == "(!= #:0 (load (fa:size "+owner+")))" || s == "(!= #:nil "+noEpoch(a)+")") {
								known = true
							}
							if gd.Op == "<" && s == "(< #:0 (load (fa:size "+owner+")))" {
								known = true
							}
						}
						for _, ef := range g.Effects {
							// the path itself has just planted a root
							if isStore(ef) && ef.Args[0].Op == "fa" && ef.Args[0].Leaf == "Root" {
								known = true
							}
						}
						if !known {
							hits = append(hits, fmt.Sprintf("%s hands %s to %s, which reads through that parameter untested on every path, without knowing the tree non-empty: %s", p.FuncKey(fn), trunc(noEpoch(a), 60), t.Leaf, trunc(guardsString(g), 160)))
						}
					}
					return false
				}
				for _, ef := range g.Effects {
					ef.any(see)
				}
				g.Exit.any(see)
				for _, gd := range g.Guards {
					gd.any(see)
				}
			}
		}
		if len(hits) > 0 {
			r.bad("nilroot", "the root of an empty tree is handed only to callees that test it", "-", strings.Join(dedup(hits), "\n"))
		} else {
			r.ok("nilroot", "a callee that reads through its node parameter untested on every path is handed X.Root only on paths that know X non-empty", "-", fmt.Sprintf("%d call sites handing a Root to such a callee, each under a non-emptiness test", nsites))
		}
	}
	// (e) a slot index that is, by linear arithmetic over the very same (same version) slice value, its length or more
	{
		var linV func(t *Term) lin
		linV = func(t *Term) lin {
			if t == nil || t.Op == "_" {
				return linConst(0)
			}
			if k, ok := t.constInt(); ok {
				return linConst(int(k))
			}
			switch {
			case t.Op == "+" && len(t.Args) == 2:
				return linV(t.Args[0]).add(linV(t.Args[1]), 1)
			case t.Op == "-" && len(t.Args) == 2:
				return linV(t.Args[0]).add(linV(t.Args[1]), -1)
			}
			return linAtom(t.String())
		}
		var hits []string
		nidx := 0
		for _, fn := range p.Funcs {
			if fn.Parent() != nil || fn.Blocks == nil || fn.Pkg == nil || !p.IsLib(fn) {
				continue
			}
			gc := c.GC(fn)
			if gc.Undecided != "" {
				continue
			}
			for _, g := range gc.GCs {
				see := func(t *Term) bool {
					if t.Op != "ia" || len(t.Args) != 2 || t.Args[0].Op != "load" {
						return false
					}
					nidx++
					d := linV(t.Args[1]).add(linAtom("(len "+t.Args[0].String()+")"), -1)
					if len(d.c) == 0 && d.k >= 0 && strings.Contains(t.Args[1].String(), "(len "+t.Args[0].String()+")") {
						hits = append(hits, fmt.Sprintf("%s: slot %s of a slice of that very length is out of range: %s", p.FuncKey(fn), trunc(noEpoch(t.Args[1]), 80), trunc(noEpoch(t), 140)))
					}
					return false
				}
				for _, ef := range g.Effects {
					ef.any(see)
				}
				g.Exit.any(see)
				for _, gd := range g.Guards {
					gd.any(see)
				}
			}
		}
		if len(hits) > 0 {
			r.bad("lenindex", "no slot index equals or exceeds the length of the slice it indexes", "-", strings.Join(dedup(hits), "\n"))
		} else {
			r.ok("lenindex", "no slot index is, by linear arithmetic over the same slice value, that slice's length or more", "-", fmt.Sprintf("%d indexed accesses", nidx))
		}
	}
	r.ok("nilconst", "no path of any library function reads or writes a field or slot through the nil constant (a pointer variable that is never assigned on that path)", "-", fmt.Sprintf("%d functions", nfn))
	var sites []site
	for s := range seen {
		sites = append(sites, s)
	}
	sort.Slice(sites, func(i, j int) bool {
		if sites[i].caller != sites[j].caller {
			return sites[i].caller < sites[j].caller
		}
		return sites[i].helper < sites[j].helper
	})
	for _, s := range sites {
		key := s.caller + "→" + lastIdent(s.helper)
		cl := fmt.Sprintf(clause, s.helper, helpers[s.helper])
		if len(bad[s]) > 0 {
			r.bad(key, cl, pos[s], strings.Join(dedup(bad[s]), "\n"))
		} else {
			r.ok(key, cl, pos[s], fmt.Sprintf("%d access(es), each under a non-nil test of the argument", seen[s]))
		}
	}
	return r
}

// knownNilDerefs: a branch on `x == nil` / `x != nil` whose nil successor has no other predecessor; every block that successor
// dominates runs knowing x is nil (x is an SSA value: it cannot change). A field or slot access through x there panics.
func knownNilDerefs(p *Prog, fn *ssa.Function) []string {
	var out []string
	for _, b := range fn.Blocks {
		if len(b.Instrs) == 0 {
			continue
		}
		ifi, ok := b.Instrs[len(b.Instrs)-1].(*ssa.If)
		if !ok {
			continue
		}
		bin, ok := ifi.Cond.(*ssa.BinOp)
		if !ok || (bin.Op != token.EQL && bin.Op != token.NEQ) {
			continue
		}
		var x ssa.Value
		isNilConst := func(v ssa.Value) bool {
			c, ok := v.(*ssa.Const)
			return ok && c.IsNil()
		}
		switch {
		case isNilConst(bin.Y) && !isNilConst(bin.X):
			x = bin.X
		case isNilConst(bin.X) && !isNilConst(bin.Y):
			x = bin.Y
		default:
			continue
		}
		if _, isPtr := x.Type().Underlying().(*types.Pointer); !isPtr {
			continue
		}
		succ := b.Succs[0]
		if bin.Op == token.NEQ {
			succ = b.Succs[1]
		}
		if len(succ.Preds) != 1 || b.Succs[0] == b.Succs[1] {
			continue
		}
		for _, d := range fn.Blocks {
			if !succ.Dominates(d) {
				continue
			}
			for _, in := range d.Instrs {
				var base ssa.Value
				switch y := in.(type) {
				case *ssa.FieldAddr:
					base = y.X
				case *ssa.IndexAddr:
					base = y.X
				case *ssa.UnOp:
					if y.Op == token.MUL {
						base = y.X
					}
				case *ssa.Store:
					base = y.Addr
				}
				if base == x {
					out = append(out, fmt.Sprintf("%s: an access through %s on a branch that has just tested it and found it nil", p.InstrPos(in), x.Name()))
				}
			}
		}
	}
	return out
}
