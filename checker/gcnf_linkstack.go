package main

// gcnf_linkstack.go — an explicit stack of links read as the recursion it replaces.
//
// Four independently produced refactorings rewrote the AVL tree's `removeMin` (recursive: descend through Children[0], unlink
// the minimum, rebalance on the way back while the subtree keeps shrinking) with an explicit stack:
//
//	for (*qp).Children[d] != nil { stack = append(stack, qp); qp = &(*qp).Children[d] }      (descent)
//	…unlink through qp…                                                                        (bottom)
//	for i := len(stack) - 1; i >= 0; i-- { if !fix(c, stack[i]) { return false } }; return true   (retrace)
//
// linkStackRecForm recognises exactly this shape on the path normal form and returns the normal form of
//
//	if (*qp).Children[d] == nil { …unlink through qp…; return true }
//	if self(&(*qp).Children[d], …) { return fix(c, qp) }; return false
//
// which is the same function: the retrace loop applies fix to the recorded links from the deepest upwards for as long as it
// answers true, returns false at the first false and true when the stack is exhausted — frame by frame what the recursion
// does. Anything that deviates from the shape (another slot, another exit, a stack that is read elsewhere, a retrace that does
// not start at len-1 or does not stop at the first false) leaves the normal form as it is, and the rules decide on that.

import (
	"strconv"
	"strings"

	"golang.org/x/tools/go/ssa"
)

func linkStackRecForm(p *Prog, g *GCNF) *GCNF {
	if g == nil || g.Undecided != "" || g.Fn == nil || g.Fn.Signature.Results().Len() != 1 {
		return g
	}
	var entry *GC
	byFrom := map[int][]*GC{}
	for _, x := range g.GCs {
		byFrom[x.From] = append(byFrom[x.From], x)
		if x.From == 0 {
			if entry != nil {
				return g
			}
			entry = x
		}
	}
	if entry == nil || len(byFrom) != 3 || len(entry.Guards) != 0 || len(entry.Effects) != 0 || entry.Exit.Op != "goto" {
		return g
	}
	D := entry.Exit.Leaf
	dk, err := strconv.Atoi(D)
	if err != nil {
		return g
	}
	// slots of the descent loop: the link (a parameter), the stack (nil), optionally the node the link points at
	lSlot, sSlot, qSlot := -1, -1, -1
	var linkParam *Term
	for j, a := range entry.Exit.Args {
		switch {
		case a.Op == "p" && lSlot < 0:
			lSlot, linkParam = j, a
		case a.String() == "#:nil" && sSlot < 0:
			sSlot = j
		case a.Op == "load" && len(a.Args) == 1 && a.Args[0].Op == "p" && qSlot < 0:
			qSlot = j
		default:
			return g
		}
	}
	if lSlot < 0 || sSlot < 0 || (qSlot >= 0 && entry.Exit.Args[qSlot].Args[0].String() != linkParam.String()) {
		return g
	}
	phi := func(k string, j int) string { return "φ:" + k + "." + strconv.Itoa(j) }
	phiL, phiS := phi(D, lSlot), phi(D, sSlot)
	// read the node slot as *link
	var qLoad *Term
	if qSlot >= 0 {
		qLoad = entry.Exit.Args[qSlot]
	}
	normQ := func(x *GC) *GC {
		if qSlot < 0 {
			return x
		}
		return rewriteGC(x, func(t *Term) *Term {
			if t.Op == "φ" && t.String() == phi(D, qSlot) {
				return &Term{Op: "load", Leaf: qLoad.Leaf, Args: []*Term{leaf("φ", D+"."+strconv.Itoa(lSlot))}}
			}
			return nil
		})
	}
	var back *GC
	var bottoms []*GC
	R := ""
	for _, x0 := range byFrom[dk] {
		x := normQ(x0)
		switch {
		case x.Exit.Op == "goto" && x.Exit.Leaf == D:
			if back != nil {
				return g
			}
			back = x
		case x.Exit.Op == "goto":
			if R != "" && R != x.Exit.Leaf {
				return g
			}
			R = x.Exit.Leaf
			bottoms = append(bottoms, x)
		default:
			return g
		}
	}
	if back == nil || len(bottoms) == 0 || R == "" {
		return g
	}
	// the back edge: one guard `child != nil`, effects = append(stack, link), next link = &(*link).Children[d]
	if len(back.Guards) != 1 || back.Guards[0].Op != "!=" || len(back.Guards[0].Args) != 2 || len(back.Exit.Args) != len(entry.Exit.Args) {
		return g
	}
	next := back.Exit.Args[lSlot]
	if !(next.Op == "ia" && len(next.Args) == 2 && next.Args[0].Op == "fa" && next.Args[0].Leaf == "Children" && len(next.Args[0].Args) == 1 &&
		next.Args[0].Args[0].Op == "load" && len(next.Args[0].Args[0].Args) == 1 && next.Args[0].Args[0].Args[0].String() == phiL && next.Args[1].Op == "#") {
		return g
	}
	gd := back.Guards[0]
	child := gd.Args[1]
	if gd.Args[0].String() != "#:nil" {
		if gd.Args[1].String() != "#:nil" {
			return g
		}
		child = gd.Args[0]
	}
	if !(child.Op == "load" && len(child.Args) == 1 && noEpoch(child.Args[0]) == noEpoch(next)) {
		return g
	}
	if qSlot >= 0 {
		if nq := back.Exit.Args[qSlot]; !(nq.Op == "load" && len(nq.Args) == 1 && noEpoch(nq.Args[0]) == noEpoch(next)) {
			return g
		}
	}
	// append(stack, link)
	var app *Term
	pushed := false
	for _, ef := range back.Effects {
		switch {
		case ef.Op == "builtin" && ef.Leaf == "append" && len(ef.Args) == 2 && ef.Args[0].String() == phiS:
			if app != nil {
				return g
			}
			app = ef
		case isStore(ef) && ef.Args[0].Op == "ia" && len(ef.Args[0].Args) == 2 && ef.Args[0].Args[0].Op == "new" && ef.Args[1].String() == phiL:
			pushed = true
		default:
			return g
		}
	}
	if app == nil || !pushed {
		return g
	}
	if ns := back.Exit.Args[sSlot]; !(ns.Op == "res" && len(ns.Args) == 1 && ns.Args[0].String() == app.String()) {
		return g
	}
	// the bottoms: know the child nil, never look at the stack, leave with len(stack)-1
	for _, b := range bottoms {
		knows := false
		for _, a := range b.Guards {
			if a.Op == "==" && len(a.Args) == 2 && ((a.Args[0].String() == "#:nil" && noEpoch(a.Args[1]) == noEpoch(child)) || (a.Args[1].String() == "#:nil" && noEpoch(a.Args[0]) == noEpoch(child))) {
				knows = true
			}
			if a.any(func(t *Term) bool { return t.String() == phiS }) {
				return g
			}
		}
		for _, ef := range b.Effects {
			if ef.any(func(t *Term) bool { return t.String() == phiS }) {
				return g
			}
		}
		if !knows || len(b.Exit.Args) != 1 || noEpoch(b.Exit.Args[0]) != "(- (len "+phiS+") #:1)" {
			return g
		}
	}
	// the retrace loop
	rk, err := strconv.Atoi(R)
	if err != nil || len(byFrom[rk]) != 3 {
		return g
	}
	phiI := phi(R, 0)
	var fixDo *Term
	seenTrue, seenFalse, seenBack := false, false, false
	for _, x := range byFrom[rk] {
		switch {
		case len(x.Effects) == 0:
			if len(x.Guards) != 1 || noEpoch(x.Guards[0]) != "(< "+phiI+" #:0)" || x.Exit.String() != "(return #:true)" {
				return g
			}
			seenTrue = true
		case len(x.Effects) == 1 && x.Effects[0].Op == "do" && len(x.Effects[0].Args) == 2:
			d := x.Effects[0]
			if d.Args[0].Op != "#" || noEpoch(d.Args[1]) != "(load (ia "+phiS+" "+phiI+"))" {
				return g
			}
			if fixDo != nil && noEpoch(fixDo) != noEpoch(d) {
				return g
			}
			fixDo = d
			if len(x.Guards) != 2 {
				return g
			}
			pol := 0
			inRange := false
			for _, a := range x.Guards {
				switch {
				case noEpoch(a) == "(<= #:0 "+phiI+")":
					inRange = true
				case a.Op == "res" && len(a.Args) == 1 && noEpoch(a.Args[0]) == noEpoch(d):
					pol = 1
				case a.Op == "!" && len(a.Args) == 1 && a.Args[0].Op == "res" && len(a.Args[0].Args) == 1 && noEpoch(a.Args[0].Args[0]) == noEpoch(d):
					pol = -1
				}
			}
			if !inRange || pol == 0 {
				return g
			}
			if pol == -1 {
				if x.Exit.String() != "(return #:false)" {
					return g
				}
				seenFalse = true
			} else {
				if x.Exit.Op != "goto" || x.Exit.Leaf != R || len(x.Exit.Args) != 1 || noEpoch(x.Exit.Args[0]) != "(- "+phiI+" #:1)" {
					return g
				}
				seenBack = true
			}
		default:
			return g
		}
	}
	if !seenTrue || !seenFalse || !seenBack || fixDo == nil {
		return g
	}
	// build the recursive form
	toParam := func(t *Term) *Term {
		if t.Op == "φ" && t.String() == phiL {
			return linkParam
		}
		return nil
	}
	out := &GCNF{Fn: g.Fn, NumPaths: g.NumPaths, Cuts: g.Cuts[:1]}
	for _, b := range bottoms {
		y := rewriteGC(b, toParam)
		y.From = 0
		y.Exit = node("return", leaf("#", "true"))
		out.GCs = append(out.GCs, y)
	}
	args := make([]*Term, len(g.Fn.Params))
	for i := range args {
		args[i] = leaf("p", strconv.Itoa(i))
	}
	li, _ := strconv.Atoi(linkParam.Leaf)
	if li >= len(args) {
		return g
	}
	args[li] = rewriteTerm(next, toParam)
	self := &Term{Op: "do", Leaf: p.FuncKey(g.Fn), Args: args}
	resSelf := &Term{Op: "res", Leaf: "e1", Args: []*Term{self}}
	childNotNil := rewriteTerm(gd, toParam)
	fix := &Term{Op: "do", Leaf: fixDo.Leaf, Args: []*Term{fixDo.Args[0], linkParam}}
	gFalse := &GC{From: 0, Pos: back.Pos, Effects: []*Term{self}, Exit: node("return", leaf("#", "false"))}
	gFalse.Guards, _ = normalizeGuards([]*Term{childNotNil, node("!", resSelf)})
	gTrue := &GC{From: 0, Pos: back.Pos, Effects: []*Term{self, fix}, Exit: node("return", &Term{Op: "res", Leaf: "e2", Args: []*Term{fix}})}
	gTrue.Guards, _ = normalizeGuards([]*Term{childNotNil, resSelf})
	out.GCs = append(out.GCs, gFalse, gTrue)
	_ = strings.TrimSpace
	return out
}

// tailRecHelperAsLoop — the converse of tailRecForm for helpers the pinned tree does not know. The frame-stack inliner enters
// unknown helpers but falls back to an opaque call on recursion; a refactoring that turns a loop into a tail-recursive helper
// (`bubbleDownIndex(i)` = `sink(i, Size())`, `sink` calling itself on the child it swapped with) therefore hid the loop from
// every rule that reads it. Where a path of fn ends in `do:H(args); return` with H unknown, result-less and *tail* recursive
// (every self-call is the last effect of its path, followed by a bare return, and H is mentioned nowhere else), H's paths are
// spliced in as a loop: a new cut K whose variables are the parameters H varies; parameters every self-call hands on unchanged
// read as the caller's argument. Only where fn is nothing but that one call; anything else leaves the normal form alone.
func tailRecHelperAsLoop(c *Ctx, g *GCNF) *GCNF {
	p := c.p
	if g == nil || g.Undecided != "" || g.Fn == nil {
		return g
	}
	var site *GC
	var call *Term
	maxCut := 0
	for _, x := range g.GCs {
		if x.From > maxCut {
			maxCut = x.From
		}
		if n := len(x.Effects); n > 0 && x.Effects[n-1].Op == "do" && x.Exit.Op == "return" && len(x.Exit.Args) == 0 {
			if site != nil {
				if x.Effects[n-1].Leaf == call.Leaf {
					return g // several call sites
				}
				continue
			}
			site, call = x, x.Effects[n-1]
		}
	}
	// only where fn is nothing but that call (a known function turned into a forwarder to its recursive body): splicing a
	// helper into a larger function would hide the call from the rules that look for it there
	if site == nil || len(g.GCs) != 1 || len(site.Guards) != 0 || len(site.Effects) != 1 {
		return g
	}
	var H *ssa.Function
	for _, f := range p.Funcs {
		if f.Parent() == nil && f.Blocks != nil && p.FuncKey(f) == call.Leaf {
			H = f
		}
	}
	if H == nil || H == g.Fn || p.KnownFunc(H) || H.Signature.Results().Len() != 0 || len(H.Params) != len(call.Args) {
		return g
	}
	hg := BuildGCNF(p, c.E(), H)
	if hg.Undecided != "" {
		return g
	}
	mentions := func(t *Term) bool {
		return t.any(func(x *Term) bool { return (x.Op == "do" || x.Op == "call") && x.Leaf == call.Leaf })
	}
	np := len(H.Params)
	invariant := make([]bool, np)
	for i := range invariant {
		invariant[i] = true
	}
	nself := 0
	for _, x := range hg.GCs {
		if x.From != 0 {
			return g
		}
		for _, a := range x.Guards {
			if mentions(a) {
				return g
			}
		}
		if mentions(x.Exit) {
			return g
		}
		for i, ef := range x.Effects {
			if !mentions(ef) {
				continue
			}
			if i != len(x.Effects)-1 || ef.Op != "do" || ef.Leaf != call.Leaf || len(ef.Args) != np || x.Exit.Op != "return" || len(x.Exit.Args) != 0 {
				return g
			}
			for _, a := range ef.Args {
				if mentions(a) {
					return g
				}
			}
			nself++
			for j, a := range ef.Args {
				if a.String() != "p:"+strconv.Itoa(j) {
					invariant[j] = false
				}
			}
		}
	}
	if nself == 0 {
		return g
	}
	// other paths of fn must not mention H
	for _, x := range g.GCs {
		for i, ef := range x.Effects {
			if x == site && i == len(x.Effects)-1 {
				continue
			}
			if mentions(ef) {
				return g
			}
		}
	}
	K := maxCut + 1
	ks := strconv.Itoa(K)
	slot := map[int]int{}
	var order []int
	for j := 0; j < np; j++ {
		if !invariant[j] {
			slot[j] = len(order)
			order = append(order, j)
		}
	}
	sub := func(t *Term) *Term {
		if t.Op == "p" {
			j, err := strconv.Atoi(t.Leaf)
			if err != nil || j >= np {
				return nil
			}
			if invariant[j] {
				return call.Args[j]
			}
			return leaf("φ", ks+"."+strconv.Itoa(slot[j]))
		}
		return nil
	}
	out := &GCNF{Fn: g.Fn, NumPaths: g.NumPaths + hg.NumPaths, Cuts: g.Cuts}
	for _, x := range g.GCs {
		if x != site {
			out.GCs = append(out.GCs, x)
			continue
		}
		y := &GC{From: x.From, Guards: x.Guards, Effects: x.Effects[:len(x.Effects)-1], Pos: x.Pos}
		var args []*Term
		for _, j := range order {
			args = append(args, call.Args[j])
		}
		y.Exit = &Term{Op: "goto", Leaf: ks, Args: args}
		out.GCs = append(out.GCs, y)
	}
	for _, x := range hg.GCs {
		y := rewriteGC(x, sub)
		y.From = K
		if n := len(x.Effects); n > 0 && mentions(x.Effects[n-1]) {
			self := y.Effects[n-1]
			y.Effects = y.Effects[:n-1]
			var args []*Term
			for _, j := range order {
				args = append(args, self.Args[j])
			}
			y.Exit = &Term{Op: "goto", Leaf: ks, Args: args}
		}
		out.GCs = append(out.GCs, y)
	}
	return out
}

// indexOfWalkForm — `list.Remove(list.IndexOf(x))` written out as a walk over the list's own iterator:
//
//	for it := list.Iterator(); it.Next(); { if it.Value() == x { list.Remove(it.Index()); return } }
//
// (exhausted without a match = IndexOf answered -1 = Remove(-1), a no-op). Where a path P ends by storing a fresh iterator of
// list L and entering a loop of exactly the three shapes (exhausted → E; next, value != x → again; next, value == x →
// Remove(L, it.index) → E') with E and E' the same exit and no other effects, P is rewritten to end with
// `Remove(L, IndexOf(L, x))` and that exit. Anything else is left alone.
func indexOfWalkForm(p *Prog, g *GCNF) *GCNF {
	if g == nil || g.Undecided != "" {
		return g
	}
	for _, entry := range g.GCs {
		if entry.Exit.Op != "goto" || len(entry.Exit.Args) != 0 || len(entry.Effects) == 0 {
			continue
		}
		last := entry.Effects[len(entry.Effects)-1]
		if !(isStore(last) && last.Args[0].Op == "new" && last.Args[1].Op == "call" && strings.HasSuffix(last.Args[1].Leaf, ").Iterator") && len(last.Args[1].Args) == 2) {
			continue
		}
		it, L := last.Args[0], last.Args[1].Args[1]
		k, err := strconv.Atoi(entry.Exit.Leaf)
		if err != nil || entry.From == k {
			continue
		}
		var loop []*GC
		entries := 0
		for _, x := range g.GCs {
			if x.From == k {
				loop = append(loop, x)
			}
			if x.Exit.Op == "goto" && x.Exit.Leaf == entry.Exit.Leaf && x.From != k {
				entries++
			}
		}
		if len(loop) != 3 || entries != 1 {
			continue
		}
		nextDo := func(x *GC) *Term {
			if len(x.Effects) >= 1 && x.Effects[0].Op == "do" && strings.HasSuffix(x.Effects[0].Leaf, ").Next") && len(x.Effects[0].Args) == 1 && x.Effects[0].Args[0].String() == it.String() {
				return x.Effects[0]
			}
			return nil
		}
		var exhausted, again, hit *GC
		var key *Term
		ok := true
		for _, x := range loop {
			nd := nextDo(x)
			if nd == nil {
				ok = false
				break
			}
			stepped := 0
			var eq, ne *Term
			for _, a := range x.Guards {
				y, pol := a, true
				if y.Op == "!" {
					y, pol = y.Args[0], false
				}
				switch {
				case y.Op == "res" && len(y.Args) == 1 && y.Args[0].String() == nd.String():
					if pol {
						stepped = 1
					} else {
						stepped = -1
					}
				case a.Op == "==" && len(a.Args) == 2:
					eq = a
				case a.Op == "!=" && len(a.Args) == 2:
					ne = a
				default:
					ok = false
				}
			}
			valueOf := func(a *Term) *Term {
				// one side reads the iterator's current value (it.element.value), the other is the key
				for i := 0; i < 2; i++ {
					if s := noEpoch(a.Args[i]); strings.Contains(s, "(fa:value (load (fa:element "+noEpoch(it)+"))") {
						return a.Args[1-i]
					}
				}
				return nil
			}
			switch {
			case stepped == -1 && len(x.Effects) == 1 && len(x.Guards) == 1:
				exhausted = x
			case stepped == 1 && ne != nil && eq == nil && len(x.Effects) == 1 && x.Exit.Op == "goto" && x.Exit.Leaf == entry.Exit.Leaf:
				if kk := valueOf(ne); kk != nil {
					again, key = x, kk
				} else {
					ok = false
				}
			case stepped == 1 && eq != nil && ne == nil && len(x.Effects) == 2:
				rm := x.Effects[1]
				if kk := valueOf(eq); kk != nil && rm.Op == "do" && strings.HasSuffix(rm.Leaf, ").Remove") && len(rm.Args) == 2 && noEpoch(rm.Args[0]) == noEpoch(L) && noEpoch(rm.Args[1]) == "(load (fa:index "+noEpoch(it)+"))" {
					hit = x
					if key != nil && noEpoch(key) != noEpoch(kk) {
						ok = false
					}
					key = kk
				} else {
					ok = false
				}
			default:
				ok = false
			}
		}
		if !ok || exhausted == nil || again == nil || hit == nil || key == nil || exhausted.Exit.String() != hit.Exit.String() || exhausted.Exit.Op == "goto" && exhausted.Exit.Leaf == entry.Exit.Leaf {
			continue
		}
		idxOf := &Term{Op: "call", Leaf: strings.TrimSuffix(hit.Effects[1].Leaf, ").Remove") + ").IndexOf", Args: []*Term{leaf("@", "e0"), L, key}}
		rm := &Term{Op: "do", Leaf: hit.Effects[1].Leaf, Args: []*Term{L, idxOf}}
		out := &GCNF{Fn: g.Fn, NumPaths: g.NumPaths, Cuts: g.Cuts}
		for _, x := range g.GCs {
			switch {
			case x == entry:
				y := &GC{From: x.From, Guards: x.Guards, Pos: x.Pos, Exit: hit.Exit}
				y.Effects = append(append([]*Term(nil), x.Effects[:len(x.Effects)-1]...), rm)
				out.GCs = append(out.GCs, y)
			case x.From == k:
			default:
				out.GCs = append(out.GCs, x)
			}
		}
		return out
	}
	return g
}

// selfTailRecAsLoop — a function that ends some of its paths with `return self(same arguments)` (the search loop of an
// iterator's NextTo written as tail recursion: step, test, else "try again") is the loop `for { … }` over the same paths.
// Only where every self-call hands on exactly the function's own parameters and is the last effect of its path, whose result
// it returns (or a bare return for a result-less function). The paths move to a new cut entered unconditionally.
func selfTailRecAsLoop(p *Prog, g *GCNF) *GCNF {
	if g == nil || g.Undecided != "" || g.Fn == nil {
		return g
	}
	self := p.FuncKey(g.Fn)
	np := len(g.Fn.Params)
	maxCut, nself := 0, 0
	isSelf := func(t *Term) bool { return t.Op == "do" && t.Leaf == self }
	for _, x := range g.GCs {
		if x.From > maxCut {
			maxCut = x.From
		}
		if x.From != 0 {
			return g // already has loops: not this shape
		}
		for _, a := range x.Guards {
			if a.any(isSelf) {
				return g
			}
		}
		for i, ef := range x.Effects {
			if !ef.any(isSelf) {
				continue
			}
			if i != len(x.Effects)-1 || !isSelf(ef) || len(ef.Args) != np {
				return g
			}
			for j, a := range ef.Args {
				if a.String() != "p:"+strconv.Itoa(j) {
					return g
				}
			}
			// the path returns the call's result(s), in order, or nothing
			if x.Exit.Op != "return" {
				return g
			}
			for k, r := range x.Exit.Args {
				y := r
				if y.Op == "ext" && y.Leaf == strconv.Itoa(k) && len(y.Args) == 1 {
					y = y.Args[0]
				}
				if !(y.Op == "res" && len(y.Args) == 1 && y.Args[0].String() == ef.String()) {
					return g
				}
			}
			nself++
		}
	}
	if nself == 0 {
		return g
	}
	K := maxCut + 1
	ks := strconv.Itoa(K)
	out := &GCNF{Fn: g.Fn, NumPaths: g.NumPaths, Cuts: g.Cuts}
	out.GCs = append(out.GCs, &GC{From: 0, Exit: &Term{Op: "goto", Leaf: ks}})
	for _, x := range g.GCs {
		y := &GC{From: K, Guards: x.Guards, Effects: x.Effects, Exit: x.Exit, Pos: x.Pos}
		if n := len(x.Effects); n > 0 && isSelf(x.Effects[n-1]) {
			y.Effects = x.Effects[:n-1]
			y.Exit = &Term{Op: "goto", Leaf: ks}
		}
		out.GCs = append(out.GCs, y)
	}
	return out
}
