package main

// rules_misc.go — R22 HEAP (C06), R23 LISTS/MEMBERSHIP (C03, C04), R24 HASH (C01, C04).

import (
	"fmt"
	"go/types"
	"strings"

	"golang.org/x/tools/go/ssa"
)

func addOb(r *RuleResult, rule, key, clause, pos string, bad []string, facts string) {
	if len(bad) > 0 {
		r.add(Obligation{Key: rule + ":" + key, Rule: rule, Clause: clause, Pos: pos, Status: Violated, Facts: strings.Join(dedup(bad), "\n")})
	} else {
		r.add(Obligation{Key: rule + ":" + key, Rule: rule, Clause: clause, Pos: pos, Status: Discharged, Facts: facts})
	}
}

// ---- R22 HEAP ----

func ruleR22(c *Ctx) *RuleResult {
	p := c.p
	r := &RuleResult{Rule: "R22", Title: "HEAP: Push/Pop/Peek use the root slot and hand every change to the sift routines", Floor: 6}
	tk := "trees/binaryheap.Heap"
	ct := p.T.ContainerByKey(tk)
	if ct == nil {
		r.undecided(tk, "heap", "-", "anchored type not found")
		return r
	}
	ms := methodsOf(p, ct)
	isGet0 := func(t *Term) bool {
		return t.Op == "ext" && t.Args[0].Op == "call" && strings.HasSuffix(t.Args[0].Leaf, ").Get") && len(t.Args[0].Args) == 3 && hasField(t.Args[0].Args[1], "list") && t.Args[0].Args[2].String() == "#:0"
	}
	// Peek
	if fn := ms["Peek"]; fn != nil {
		var bad []string
		for _, g := range c.GC(fn).GCs {
			if g.Exit.Op != "return" || len(g.Exit.Args) != 2 || !isGet0(g.Exit.Args[0]) || !isGet0(g.Exit.Args[1]) || len(g.Effects) != 0 {
				bad = append(bad, "Peek is not list.Get(0): "+trunc(g.String(), 200))
			}
		}
		addOb(r, "R22", tk+".Peek", "Peek returns the element in slot 0 (the heap's minimum) and changes nothing", p.FuncPos(fn), bad, "return list.Get(0)")
	}
	// Pop
	// the sifting functions by role (R41 finds them by what they swap, whatever they are called)
	downFns, upFns := heapSifters(c)
	downNames, upNames := map[string]bool{}, map[string]bool{}
	for _, f := range downFns {
		downNames[fnName(f)] = true
	}
	for _, f := range upFns {
		upNames[fnName(f)] = true
	}
	// a function whose whole body is one call of an up-sifter (the start slot is checked at that call site by R41)
	upWrapper := map[string]bool{}
	for nm, f := range ms {
		if f.Blocks == nil || upNames[nm] {
			continue
		}
		gcw := c.GC(f)
		if gcw.Undecided == "" && len(gcw.GCs) == 1 && len(gcw.GCs[0].Effects) == 1 {
			if n2, a2, ok := effDo(gcw.GCs[0].Effects[0]); ok && upNames[n2] && len(a2) >= 1 && a2[0].String() == "p:0" {
				upWrapper[nm] = true
			}
		}
	}
	hasDown := func(cs []string) bool {
		for _, x := range cs {
			if downNames[x] {
				return true
			}
		}
		return false
	}
	if fn := ms["Pop"]; fn != nil {
		var bad []string
		nok := 0
		for _, g := range c.GC(fn).GCs {
			// the empty heap decided by its size (instead of by Get's second result): nothing happens, (zero, false)
			emptyBySize := false
			for _, a := range g.Guards {
				s := noEpoch(a)
				if strings.Contains(s, "(fa:list p:0)") && (strings.HasPrefix(s, "(< (- (len ") && strings.HasSuffix(s, "#:1) #:0)") || strings.HasPrefix(s, "(== #:0 (len ") || strings.HasPrefix(s, "(<= (len ") && strings.HasSuffix(s, " #:0)")) {
					emptyBySize = true
				}
			}
			if emptyBySize && g.Exit.Op == "return" && len(g.Exit.Args) == 2 && g.Exit.Args[1].String() == "#:false" {
				if len(g.Effects) != 0 {
					bad = append(bad, "Pop on an empty heap has effects")
				}
				continue
			}
			if g.Exit.Op != "return" || len(g.Exit.Args) != 2 || !isGet0(g.Exit.Args[0]) {
				bad = append(bad, "Pop does not return the element read from slot 0")
				continue
			}
			okPath := false
			for _, a := range g.Guards {
				s := noEpoch(a)
				if strings.Contains(s, "(fa:list p:0)") && (strings.HasPrefix(s, "(<= #:0 (- (len ") || strings.HasPrefix(s, "(!= #:0 (len ") || strings.HasPrefix(s, "(< #:0 (len ")) && g.Exit.Args[1].String() == "#:true" {
					okPath = true // non-empty by size
				}
				if isGet0(a) && a.Leaf == "1" {
					okPath = true
				}
			}
			if !okPath {
				if len(g.Effects) != 0 {
					bad = append(bad, "Pop on an empty heap has effects")
				}
				continue
			}
			nok++
			cs := effCallees(g)
			// sifting down from the root: bubbleDown() or, written out, bubbleDownIndex(0)
			if len(cs) == 3 && downNames[cs[2]] && len(g.Effects) >= 3 {
				if _, a, ok := effDo(g.Effects[len(g.Effects)-1]); ok && len(a) == 2 && a[0].String() == "p:0" && a[1].String() == "#:0" {
					cs[2] = "bubbleDown"
				}
			}
			if strings.Join(cs, ",") == "Set,Remove,bubbleDown" && len(g.Effects) >= 3 {
				// the same thing without the detour of the popped element through the last slot: slot 0 takes the last
				// element's value, the last slot is removed
				st, rm := g.Effects[0], g.Effects[1]
				_, sa, _ := effDo(st)
				_, ra, _ := effDo(rm)
				okSet := len(sa) == 3 && len(ra) == 2 && sa[1].String() == "#:0" && sa[2].Op == "ext" && sa[2].Leaf == "0" && sa[2].Args[0].Op == "call" && strings.HasSuffix(sa[2].Args[0].Leaf, ").Get") && len(sa[2].Args[0].Args) == 3 &&
					noEpoch(sa[2].Args[0].Args[2]) == noEpoch(ra[1]) && ra[1].Op == "-" && ra[1].Args[1].String() == "#:1" && ra[1].Args[0].Op == "len"
				if !okSet {
					bad = append(bad, "Pop must move the last element into slot 0 and remove the last slot: "+trunc(noEpoch(st), 160)+" ; "+trunc(noEpoch(rm), 120))
				}
				if !strings.Contains(g.Exit.Args[0].String(), "@:e0") {
					bad = append(bad, "the popped value is not read before slot 0 is overwritten")
				}
				continue
			}
			// the last slot removed first, then its value (read before anything was written) stored into slot 0 — only where
			// the path knows the last index above 0 (Set(0, v) on a list just emptied would append v again); where it knows
			// the last index is 0 the only element is simply removed
			lastIdxGuard := 0 // +1: path knows lastIndex > 0, -1: knows lastIndex <= 0
			for _, a := range g.Guards {
				s := noEpoch(a)
				if !strings.Contains(s, "(fa:list p:0)") {
					continue
				}
				if strings.HasPrefix(s, "(< #:0 (- (len ") && strings.HasSuffix(s, " #:1))") || strings.HasPrefix(s, "(< #:1 (len ") {
					lastIdxGuard = 1
				}
				if strings.HasPrefix(s, "(<= (- (len ") && strings.HasSuffix(s, " #:1) #:0)") || strings.HasPrefix(s, "(<= (len ") && strings.HasSuffix(s, " #:1)") {
					lastIdxGuard = -1
				}
			}
			if strings.Join(cs, ",") == "Remove,Set,bubbleDown" && len(g.Effects) >= 3 && lastIdxGuard == 1 {
				rm, st := g.Effects[0], g.Effects[1]
				_, sa, _ := effDo(st)
				_, ra, _ := effDo(rm)
				okSet := len(sa) == 3 && len(ra) == 2 && sa[1].String() == "#:0" && sa[2].Op == "ext" && sa[2].Leaf == "0" && sa[2].Args[0].Op == "call" && strings.HasSuffix(sa[2].Args[0].Leaf, ").Get") && len(sa[2].Args[0].Args) == 3 &&
					noEpoch(sa[2].Args[0].Args[2]) == noEpoch(ra[1]) && ra[1].Op == "-" && ra[1].Args[1].String() == "#:1" && ra[1].Args[0].Op == "len" && strings.Contains(sa[2].Args[0].String(), "@:e0")
				if !okSet {
					bad = append(bad, "Pop must move the last element (read before the removal) into slot 0 and remove the last slot: "+trunc(noEpoch(rm), 120)+" ; "+trunc(noEpoch(st), 160))
				}
				if !strings.Contains(g.Exit.Args[0].String(), "@:e0") {
					bad = append(bad, "the popped value is not read before slot 0 is overwritten")
				}
				continue
			}
			if strings.Join(cs, ",") == "Remove,bubbleDown" && lastIdxGuard == -1 && len(g.Effects) >= 2 {
				_, ra, _ := effDo(g.Effects[0])
				if !(len(ra) == 2 && ra[1].Op == "-" && ra[1].Args[1].String() == "#:1" && ra[1].Args[0].Op == "len") || !strings.Contains(g.Exit.Args[0].String(), "@:e0") {
					bad = append(bad, "Pop of the only element must remove the last slot and return what slot 0 held: "+trunc(noEpoch(g.Effects[0]), 160))
				}
				continue
			}
			if strings.Join(cs, ",") != "Swap,Remove,bubbleDown" {
				bad = append(bad, "Pop must swap slot 0 with the last slot, remove the last slot and sift down, found: "+strings.Join(cs, ","))
				continue
			}
			sw, rm := g.Effects[0], g.Effects[1]
			// the value is read before the swap
			if !strings.Contains(g.Exit.Args[0].String(), "@:e0") {
				bad = append(bad, "the popped value is not read before the swap")
			}
			last := sw.Args[2]
			if sw.Args[1].String() != "#:0" || !(last.Op == "-" && last.Args[1].String() == "#:1" && last.Args[0].Op == "len") {
				bad = append(bad, "Swap is not Swap(0, Size()-1): "+trunc(noEpoch(sw), 200))
			}
			if noEpoch(rm.Args[1]) != noEpoch(last) {
				bad = append(bad, "Remove does not remove the slot the root was swapped into")
			}
		}
		if nok == 0 {
			bad = append(bad, "no non-empty path found")
		}
		addOb(r, "R22", tk+".Pop", "Pop returns slot 0, moves the last element there, removes the last slot and sifts down; an empty heap is left alone", p.FuncPos(fn), bad, "value=Get(0); Swap(0,n-1); Remove(n-1); bubbleDown")
	}
	// Push
	if fn := ms["Push"]; fn != nil {
		var bad []string
		single, bulkAdd, heapify := false, false, false
		for _, g := range c.GC(fn).GCs {
			cs := effCallees(g)
			one := false
			for _, a := range g.Guards {
				if a.Op == "==" && a.Args[0].String() == "#:1" && a.Args[1].String() == "(len p:1)" {
					one = true
				}
			}
			switch {
			case one:
				// the append may have been hoisted in front of both arms as the one loop that appends every value: the
				// single-value path then leaves that loop (it starts at the loop's cut, whose rounds each Add) and sifts up
				hoisted := false
				if len(cs) == 1 && (upNames[cs[0]] || upWrapper[cs[0]]) && g.From != 0 {
					for _, h := range c.GC(fn).GCs {
						if h.From == g.From && h.Exit.Op == "goto" && h.Exit.Leaf == itoa(g.From) && containsStr(effCallees(h), "Add") {
							hoisted = true
						}
					}
				}
				if !(len(cs) == 2 && cs[0] == "Add" && (upNames[cs[1]] || upWrapper[cs[1]])) && !hoisted {
					bad = append(bad, "pushing one value must append it and sift up, found: "+strings.Join(cs, ","))
				} else {
					single = true
				}
			case containsStr(cs, "Add"):
				bulkAdd = true
				if len(cs) != 1 || g.Exit.Op != "goto" {
					bad = append(bad, "the bulk path must append every value before heapifying")
				}
			case hasDown(cs):
				// for i := start; i >= 0; i-- { bubbleDownIndex(i) }
				okGuard := false
				for _, a := range g.Guards {
					if a.Op == "<=" && a.Args[0].String() == "#:0" && a.Args[1].Op == "φ" {
						okGuard = true
					}
				}
				step := g.Exit.Op == "goto" && len(g.Exit.Args) == 1 && g.Exit.Args[0].Op == "-" && g.Exit.Args[0].Args[1].String() == "#:1"
				arg := g.Effects[0].Args[1].Op == "φ"
				if okGuard && step && arg {
					heapify = true
				} else {
					bad = append(bad, "the heapify loop must call bubbleDownIndex(i) for i descending to 0")
				}
			}
		}
		// entering the heapify loop: the start index must cover every internal node of the whole heap (>= n/2 - 1 where n is
		// the list's size after the appends — not the number of pushed values)
		heapCut := ""
		for _, g := range c.GC(fn).GCs {
			if hasDown(effCallees(g)) {
				heapCut = itoa(g.From)
			}
		}
		nenter := 0
		for _, g := range c.GC(fn).GCs {
			if heapCut == "" || g.Exit.Op != "goto" || g.Exit.Leaf != heapCut || itoa(g.From) == heapCut || len(g.Exit.Args) != 1 {
				continue
			}
			nenter++
			stT := g.Exit.Args[0]
			st := noEpoch(stT)
			var half *Term
			stT.any(func(t *Term) bool {
				if t.Op == "/" && len(t.Args) == 2 && t.Args[1].String() == "#:2" {
					half = t
				}
				return false
			})
			// the start as a closed arithmetic expression over the heap's own size n: it must reach the parent of the last
			// slot, start(n) >= n/2 - 1, for every n (decided by evaluating both sides with Go's integer semantics for
			// n = 0..64: with one size atom, constants below 16 and divisions by 2 only, both sides are linear on each
			// parity class beyond the constants, so 64 values decide all n)
			// the size the start is computed from is the size *after* the appends of this path: a load dated before the last
			// Add of the same path (same impure-call count as that Add's own receiver load) is the old size
			lastAdd := -1
			for i, ef := range g.Effects {
				if nm, _, ok := effDo(ef); ok && nm == "Add" {
					lastAdd = i
				}
			}
			if lastAdd >= 0 {
				callsBefore := 0
				for _, ef := range g.Effects[:lastAdd] {
					if ef.Op == "do" {
						callsBefore++
					}
				}
				stale := false
				stT.any(func(t *Term) bool {
					if t.Op == "load" && strings.HasPrefix(t.Leaf, "c") {
						n := 0
						fmt.Sscanf(t.Leaf, "c%d.", &n)
						if n <= callsBefore && (hasField(t, "elements") || hasField(t, "size")) {
							stale = true
						}
					}
					if t.Op == "call" && len(t.Args) >= 1 && t.Args[0].Op == "@" && strings.HasPrefix(t.Args[0].Leaf, "e") {
						n := 0
						fmt.Sscanf(t.Args[0].Leaf, "e%d", &n)
						if n <= lastAdd {
							stale = true
						}
					}
					return false
				})
				if stale {
					bad = append(bad, "the heapify start is computed from the list's size as it was before this path's Add: the internal nodes of the grown heap above it are never sifted down: "+trunc(st, 160))
				}
			}
			if okExpr, verdict, cex := heapifyStartCovers(stT); okExpr {
				if !verdict {
					bad = append(bad, fmt.Sprintf("the heapify loop starts at %s, which is below the parent of the last slot (n/2-1) for n = %d: that node is never sifted down", trunc(st, 120), cex))
				}
				if g.From == 0 && !containsStr(effCallees(g), "Add") {
					bad = append(bad, "the heapify loop is entered without appending the values first")
				}
				continue
			}
			switch {
			case half == nil:
				bad = append(bad, "the heapify loop does not start from n/2: "+trunc(st, 120))
			case !hasField(half.Args[0], "list") || half.Args[0].any(func(t *Term) bool { return t.Op == "p" && t.Leaf != "0" }):
				bad = append(bad, "the heapify loop starts from half of something other than the heap's own size (every internal node of the whole heap must be sifted): "+trunc(st, 160))
			case strings.HasPrefix(st, "(- (/ ") && !strings.HasSuffix(st, "#:1)"):
				bad = append(bad, "the heapify loop starts below n/2-1: "+trunc(st, 120))
			case g.From == 0 && !containsStr(effCallees(g), "Add"):
				// entered straight from the entry: the appends must already have happened on this path
				bad = append(bad, "the heapify loop is entered without appending the values first")
			}
		}
		if heapCut != "" && nenter == 0 {
			bad = append(bad, "no path enters the heapify loop")
		}
		if !single || !bulkAdd || !heapify {
			bad = append(bad, fmt.Sprintf("expected single-push, bulk-append and heapify paths, found %v/%v/%v", single, bulkAdd, heapify))
		}
		addOb(r, "R22", tk+".Push", "Push(v) appends and sifts up; Push(vs...) appends all and then sifts down every internal node from n/2 to 0", p.FuncPos(fn), bad, "single: Add;bubbleUp — bulk: Add*; bubbleDownIndex(i) for i = n/2+1 … 0")
	}
	// sift routines only swap under a strict comparator verdict and move the index to where they swapped
	for _, nm := range []string{"bubbleUp", "bubbleDownIndex"} {
		fn := ms[nm]
		if fn != nil && upWrapper[nm] && nm == "bubbleUp" && len(upFns) > 0 {
			fn = upFns[0] // bubbleUp only forwards to the function that sifts
		}
		if fn == nil {
			// the role under another name
			cands := upFns
			if nm == "bubbleDownIndex" {
				cands = downFns
			}
			if len(cands) == 0 {
				continue
			}
			fn = cands[0]
		}
		var bad, badStrict []string
		nswap := 0
		for _, g := range c.GC(fn).GCs {
			for _, ef := range g.Effects {
				n2, a2, ok := effDo(ef)
				if !ok {
					continue
				}
				if n2 == fnName(fn) {
					continue // the recursion that continues the sift
				}
				if n2 != "Swap" {
					bad = append(bad, nm+" calls "+n2)
					continue
				}
				nswap++
				// C11 only: a swap needs a *strict* verdict — re-heapifying an array that already is a heap (what the loader
				// does with the serialized form) must move nothing, or the loaded heap differs from the one that was saved
				strictly := false
				for _, a := range g.Guards {
					if a.Op == "<" && len(a.Args) == 2 && ((a.Args[0].String() == "#:0" && a.Args[1].Op == "dyn") || (a.Args[1].String() == "#:0" && a.Args[0].Op == "dyn")) {
						strictly = true
					}
				}
				if !strictly {
					badStrict = append(badStrict, nm+" swaps two elements without a strict comparator verdict: elements that compare equal are exchanged, so heapifying an array that already is a heap does not reproduce it")
				}
				strict := false
				for _, a := range g.Guards {
					if (a.Op == "<" || a.Op == "<=") && len(a.Args) == 2 && (a.Args[0].Op == "dyn" || a.Args[1].Op == "dyn") && (a.Args[0].String() == "#:0" || a.Args[1].String() == "#:0") {
						strict = true // a comparator verdict (its orientation and sufficiency are R41's)
					}
				}
				if !strict {
					bad = append(bad, nm+" swaps without a comparator verdict")
				}
				// the loop continues from the slot it swapped into
				if g.Exit.Op == "goto" {
					moved := false
					for _, as := range g.Exit.Args {
						if noEpoch(as) == noEpoch(a2[2]) {
							moved = true
						}
					}
					if !moved {
						bad = append(bad, nm+" does not continue from the slot it swapped into")
					}
				}
			}
		}
		if nswap == 0 {
			bad = append(bad, "no swap found in "+nm)
		}
		addOb(r, "R22", tk+"."+nm, "the sift routine swaps only on a comparator verdict and follows the element it moves", p.FuncPos(fn), bad, fmt.Sprintf("%d swap path(s)", nswap))
		addOb(r, "R22s", tk+"."+nm, "the sift routine exchanges two elements only on a strict comparator verdict (re-heapifying a heap is the identity: the JSON form of a heap loads back as that heap)", p.FuncPos(fn), badStrict, fmt.Sprintf("%d swap path(s), all strict", nswap))
	}
	// Values() is filled from the heap's own iterator
	if fn := ms["Values"]; fn != nil {
		var bad []string
		n := 0
		gc := c.GC(fn)
		itf := ms["Iterator"]
		var itType *types.Named
		if itf != nil {
			itType = namedOf(itf.Signature.Results().At(0).Type())
		}
		for _, g := range gc.GCs {
			for i, ef := range g.Effects {
				var idx, val *Term // idx == nil: appended (position = order of the rounds)
				switch {
				case isStore(ef) && ef.Args[0].Op == "ia" && ef.Args[0].Args[0].Op == "makeslice":
					idx, val = ef.Args[0].Args[1], ef.Args[1]
				case ef.Op == "builtin" && ef.Leaf == "append" && len(ef.Args) == 2 && varargElem(g.Effects, i, ef.Args[1]) != nil:
					val = varargElem(g.Effects, i, ef.Args[1])
				default:
					continue
				}
				n++
				var IT *Term
				for _, e2 := range g.Effects {
					if e2.Op == "do" && strings.HasSuffix(e2.Leaf, ").Next") {
						IT = e2.Args[0]
					}
				}
				if IT == nil || itType == nil {
					bad = append(bad, "a slot of the result is filled outside an iterator round")
					continue
				}
				if op, ok := ownIteratorTerm(gc, IT); !ok || op != "0" {
					bad = append(bad, "the iterator is not the heap's own")
				}
				if (idx != nil && noEpoch(idx) != iterMethodTerm(c, fn, itType, "Index", IT)) || noEpoch(val) != iterMethodTerm(c, fn, itType, "Value", IT) {
					bad = append(bad, "the result is not values[it.Index()] = it.Value()")
				}
			}
		}
		if n == 0 {
			bad = append(bad, "no slot store found")
		}
		addOb(r, "R22", tk+".Values", "Values() lists what the heap's own iterator yields, position by position", p.FuncPos(fn), bad, "values[it.Index()] = it.Value() over the own iterator")
	}
	// the priority queue hands its comparator to the heap
	if pq := p.FuncByName("queues/priorityqueue", "NewWith"); pq != nil {
		var bad []string
		ok := false
		for _, g := range c.GC(pq).GCs {
			for _, ef := range g.Effects {
				if storeToField(ef, "heap") && ef.Args[1].Op == "call" && strings.HasSuffix(ef.Args[1].Leaf, "binaryheap.NewWith") && len(ef.Args[1].Args) == 2 && ef.Args[1].Args[1].String() == "p:0" {
					ok = true
				}
			}
		}
		if !ok {
			bad = append(bad, "the heap is not constructed with the queue's comparator")
		}
		addOb(r, "R22", "queues/priorityqueue.NewWith", "the priority queue's heap is ordered by the comparator given to the queue", p.FuncPos(pq), bad, "heap = binaryheap.NewWith(comparator)")
	}
	return r
}

// ---- R23 LISTS / MEMBERSHIP ----

func ruleR23(c *Ctx) *RuleResult {
	p := c.p
	r := &RuleResult{Rule: "R23", Title: "LISTS: Contains(xs...) is exact; Sort rebuilds from the sorted values; withinRange is the one range predicate", Floor: 6 + 3 + 3}
	clC := "Contains(xs...) moves on to the next value only after finding the current one, returns false only after establishing a miss (or an empty container) and true only when every value was found (in particular for no values)"
	for _, ct := range p.T.Containers {
		fn := methodsOf(p, ct)["Contains"]
		if fn == nil || !fn.Signature.Variadic() {
			continue
		}
		gc := c.GC(fn)
		key := p.FuncKey(fn)
		if gc.Undecided != "" {
			r.add(Obligation{Key: "R23c:" + key, Rule: "R23c", Clause: clC, Pos: p.FuncPos(fn), Status: Undecided, Facts: gc.Undecided})
			continue
		}
		// Contains(xs...) = !slices.ContainsFunc(xs, missing) with missing(x) = "x is not a member" (a lookup of x in a field of
		// the captured receiver, negated): true exactly when no argument is missing, true for no arguments
		if len(gc.GCs) == 1 && len(gc.GCs[0].Guards) == 0 && gc.GCs[0].Exit.Op == "return" && len(gc.GCs[0].Exit.Args) == 1 {
			if x := gc.GCs[0].Exit.Args[0]; x.Op == "!" && len(x.Args) == 1 && x.Args[0].Op == "std" && x.Args[0].Leaf == "slices.ContainsFunc" && len(x.Args[0].Args) == 3 && x.Args[0].Args[1].String() == "p:1" && x.Args[0].Args[2].Op == "closure" {
				okForm := false
				for _, an := range fn.AnonFuncs {
					if p.FuncKey(an) != x.Args[0].Args[2].Leaf {
						continue
					}
					ag := c.GC(an)
					if ag.Undecided == "" && len(ag.GCs) == 1 && len(ag.GCs[0].Guards) == 0 && len(ag.GCs[0].Effects) == 0 && ag.GCs[0].Exit.Op == "return" && len(ag.GCs[0].Exit.Args) == 1 {
						if m := ag.GCs[0].Exit.Args[0]; m.Op == "!" && len(m.Args) == 1 && m.Args[0].Op == "ext" && m.Args[0].Leaf == "1" && len(m.Args[0].Args) == 1 {
							if lk := m.Args[0].Args[0]; (lk.Op == "lookup" || lk.Op == "call") && len(lk.Args) >= 2 && lk.Args[len(lk.Args)-1].String() == "p:0" && lk.any(func(t *Term) bool { return t.Op == "fv" }) {
								okForm = true
							}
						}
					}
				}
				if okForm {
					r.add(Obligation{Key: "R23c:" + key, Rule: "R23c", Clause: clC, Pos: p.FuncPos(fn), Status: Discharged, Facts: "!slices.ContainsFunc(values, missing) with missing(x) = not found in the receiver's table"})
					continue
				}
			}
		}
		// the outer loop: the cut whose φ indexes p:1
		outer := -1
		for _, g := range gc.GCs {
			for _, a := range g.Guards {
				if a.Op == "<" && a.Args[1].String() == "(len p:1)" && a.Args[0].Op == "+" && a.Args[0].Args[1].Op == "φ" {
					outer = atoi(strings.SplitN(a.Args[0].Args[1].Leaf, ".", 2)[0])
				}
			}
		}
		var bad []string
		if outer < 0 {
			bad = append(bad, "no loop over the values found")
		}
		item := fmt.Sprintf("(load (ia p:1 (+ #:1 φ:%d.0)))", outer)
		evidence := func(g *GC) (found, missed bool) {
			for _, a := range g.Guards {
				x, pol := a, true
				if x.Op == "!" {
					x, pol = x.Args[0], false
				}
				s := noEpoch(x)
				isMember := false
				switch {
				case x.Op == "std" && x.Leaf == "slices.Contains" && strings.HasSuffix(s, item+")"):
					isMember = true
				case x.Op == "ext" && x.Leaf == "1" && (x.Args[0].Op == "lookup" || x.Args[0].Op == "call") && strings.HasSuffix(noEpoch(x.Args[0]), item+")"):
					isMember = true
				}
				if isMember {
					if pol {
						found = true
					} else {
						missed = true
					}
				}
				if a.Op == "==" && strings.Contains(s, "(fa:value ") && strings.Contains(s, item) {
					found = true
				}
				// the container's own IndexOf of the current value: -1 (or negative) ⇔ not a member (IndexOf is judged by R38)
				if len(a.Args) == 2 {
					isIdx := func(t *Term) bool {
						return t.Op == "call" && strings.HasSuffix(t.Leaf, ").IndexOf") && len(t.Args) == 3 && t.Args[1].String() == "p:0" && noEpoch(t.Args[2]) == item
					}
					switch {
					case a.Op == "==" && a.Args[0].String() == "#:-1" && isIdx(a.Args[1]), a.Op == "<" && isIdx(a.Args[0]) && a.Args[1].String() == "#:0":
						missed = true
					case a.Op == "!=" && a.Args[0].String() == "#:-1" && isIdx(a.Args[1]), a.Op == "<=" && a.Args[0].String() == "#:0" && isIdx(a.Args[1]):
						found = true
					}
				}
				// the member's node looked up in the inner tree: nil ⇔ not a member
				if (a.Op == "==" || a.Op == "!=") && len(a.Args) == 2 {
					for i := 0; i < 2; i++ {
						if n := a.Args[1-i]; a.Args[i].String() == "#:nil" && n.Op == "call" && (strings.HasSuffix(n.Leaf, ").GetNode") || strings.HasSuffix(n.Leaf, ").lookup")) && strings.HasSuffix(noEpoch(n), item+")") {
							if a.Op == "==" {
								missed = true
							} else {
								found = true
							}
						}
					}
				}
				// the whole chain was searched, or the container is empty
				if a.Op == "==" && a.Args[0].String() == "#:nil" && a.Args[1].Op == "φ" {
					missed = true
				}
				if a.Op == "==" && a.Args[0].String() == "#:0" && (hasField(a.Args[1], "size")) {
					missed = true
				}
			}
			return
		}
		nTrue, nFalse, nAdvance := 0, 0, 0
		for _, g := range gc.GCs {
			found, missed := evidence(g)
			switch {
			case g.Exit.String() == "(return #:true)":
				nTrue++
				done := false
				for _, a := range g.Guards {
					if (a.Op == "<=" && a.Args[0].String() == "(len p:1)") || (a.Op == "==" && a.Args[0].String() == "#:0" && a.Args[1].String() == "(len p:1)") {
						done = true
					}
				}
				if !done {
					bad = append(bad, "returns true before every value was looked up: "+trunc(g.String(), 240))
				}
			case g.Exit.String() == "(return #:false)":
				nFalse++
				if !missed || found {
					bad = append(bad, "returns false without having established a miss: "+trunc(g.String(), 240))
				}
			case g.Exit.Op == "goto" && atoi(g.Exit.Leaf) == outer && g.From != 0 && len(g.Exit.Args) >= 1 && g.Exit.Args[0].Op == "+":
				nAdvance++
				if !found || missed {
					bad = append(bad, "moves on to the next value without having found the current one: "+trunc(g.String(), 240))
				}
			case g.Exit.Op == "return":
				bad = append(bad, "returns a non-constant verdict")
			}
			if len(g.Effects) > 0 {
				for _, ef := range g.Effects {
					if ef.Op != "advance" && !(isStore(ef) && ef.Args[0].Op == "ia" && ef.Args[0].Args[0].Op == "new") {
						bad = append(bad, "Contains has an effect: "+trunc(ef.String(), 120))
					}
				}
			}
		}
		if nTrue == 0 || nFalse == 0 || nAdvance == 0 {
			bad = append(bad, fmt.Sprintf("expected true / false / advance paths, found %d/%d/%d", nTrue, nFalse, nAdvance))
		}
		addOb(r, "R23c", key, clC, p.FuncPos(fn), bad, fmt.Sprintf("%d true, %d false, %d advance paths, each with the matching evidence", nTrue, nFalse, nAdvance))
	}
	// Sort
	clS := "Sort leaves the comparator-sorted permutation: the values are sorted with the caller's comparator and the list is rebuilt from exactly that slice (array list: sorted in place)"
	for _, ct := range listTypes(p) {
		fn := methodsOf(p, ct)["Sort"]
		if fn == nil {
			continue
		}
		var bad []string
		nsort := 0
		for _, g := range c.GC(fn).GCs {
			var sorted *Term
			for i, ef := range g.Effects {
				if ef.Op == "stddo" && (ef.Leaf == "slices.SortFunc" || ef.Leaf == "slices.SortStableFunc") {
					nsort++
					if ef.Args[1].String() != "p:1" {
						bad = append(bad, "the values are not sorted with the caller's comparator")
					}
					sorted = ef.Args[0]
					if sorted.Op == "load" && hasField(sorted, "elements") {
						continue // in place
					}
					if !(sorted.Op == "call" && strings.HasSuffix(sorted.Leaf, ").Values") && sorted.Args[1].String() == "p:0") {
						bad = append(bad, "what is sorted is not the list's Values()")
					}
					rest := g.Effects[i+1:]
					if len(rest) != 2 {
						bad = append(bad, "after sorting the list must be cleared and refilled, found "+strings.Join(effCallees(g), ","))
						continue
					}
					n1, a1, _ := effDo(rest[0])
					n2, a2, _ := effDo(rest[1])
					if n1 != "Clear" || len(a1) != 1 || a1[0].String() != "p:0" || n2 != "Add" || len(a2) != 2 || a2[0].String() != "p:0" || noEpoch(a2[1]) != noEpoch(sorted) {
						bad = append(bad, "after sorting the list is not rebuilt as Clear(); Add(sorted values...)")
					}
				}
			}
			if sorted == nil && len(g.Effects) > 0 {
				bad = append(bad, "a path of Sort changes the list without sorting")
			}
			if sorted == nil && len(g.Effects) == 0 && g.Exit.Op == "return" {
				// leaving without sorting is right only for a list of at most one element
				atMostOne := false
				for _, a := range g.Guards {
					if len(a.Args) != 2 {
						continue
					}
					isSize := func(t *Term) bool {
						return (t.Op == "len" && hasField(t, "elements")) || (t.Op == "load" && len(t.Args) == 1 && t.Args[0].Op == "fa" && t.Args[0].Leaf == "size") || (t.Op == "call" && strings.HasSuffix(t.Leaf, ").Size"))
					}
					x, y := a.Args[0], a.Args[1]
					switch {
					case a.Op == "<" && isSize(x):
						if k, ok := y.constInt(); ok && k <= 2 {
							atMostOne = true
						}
					case a.Op == "<=" && isSize(x):
						if k, ok := y.constInt(); ok && k <= 1 {
							atMostOne = true
						}
					case a.Op == "==" && (isSize(x) || isSize(y)):
						for _, z := range []*Term{x, y} {
							if k, ok := z.constInt(); ok && k <= 1 {
								atMostOne = true
							}
						}
					}
					if a.Op == "call" && strings.HasSuffix(a.Leaf, ").Empty") {
						atMostOne = true
					}
				}
				if !atMostOne {
					bad = append(bad, "a path of Sort returns without sorting and without knowing that the list has at most one element: "+trunc(guardsString(g), 200))
				}
			}
		}
		if nsort == 0 {
			bad = append(bad, "no sorting call found")
		}
		addOb(r, "R23s", p.FuncKey(fn), clS, p.FuncPos(fn), bad, "SortFunc(values, comparator) then Clear; Add(values...) (or in place)")
	}
	// withinRange
	clW := "withinRange(i) ≡ 0 <= i && i < Size(): the predicate every index guard of R5 relies on"
	for _, ct := range listTypes(p) {
		ms := methodsOf(p, ct)
		fn, size := ms["withinRange"], ms["Size"]
		if fn == nil || size == nil {
			r.add(Obligation{Key: "R23w:" + p.TypeKey(ct), Rule: "R23w", Clause: clW, Pos: "-", Status: Undecided, Facts: "withinRange / Size not found"})
			continue
		}
		t, ts := exprTermOf(c, fn), returnTerm(c.GC(size))
		want := ""
		if ts != nil {
			want = fmt.Sprintf("(and (<= #:0 p:1) (< p:1 %s))", ts)
		}
		var bad []string
		if t == nil || t.String() != want {
			bad = append(bad, fmt.Sprintf("withinRange is %v, expected %s", t, want))
		}
		addOb(r, "R23w", p.FuncKey(fn), clW, p.FuncPos(fn), bad, want)
	}
	return r
}

// ---- R24 HASH ----

// slotFills: the elements a guarded command puts into a result slice — a store into a slot of a made slice (consecutive when
// the index is the loop counter) or an append of exactly one element.
type slotFill struct {
	val         *Term
	consecutive bool
}

func slotFills(g *GC) []slotFill {
	var out []slotFill
	for i, ef := range g.Effects {
		switch {
		case isStore(ef) && ef.Args[0].Op == "ia" && ef.Args[0].Args[0].Op == "makeslice":
			out = append(out, slotFill{ef.Args[1], ef.Args[0].Args[1].Op == "φ"})
		case ef.Op == "builtin" && ef.Leaf == "append" && len(ef.Args) == 2:
			if el := varargElem(g.Effects, i, ef.Args[1]); el != nil {
				out = append(out, slotFill{el, true})
			}
		}
	}
	return out
}

func ruleR24(c *Ctx) *RuleResult {
	p := c.p
	r := &RuleResult{Rule: "R24", Title: "HASH: the hash containers are exactly Go's map (Put/Add = assignment, Remove = delete, Get/Contains = lookup)", Floor: 7}
	clause := "the operation is the corresponding Go map operation on the container's one map field, for the caller's key — the container inherits the map semantics"
	single := func(fn *ssa.Function) *GC {
		gc := c.GC(fn)
		if gc.Undecided != "" || len(gc.GCs) != 1 {
			return nil
		}
		return gc.GCs[0]
	}
	if ct := p.T.ContainerByKey("maps/hashmap.Map"); ct != nil {
		ms := methodsOf(p, ct)
		if fn := ms["Put"]; fn != nil {
			g := single(fn)
			var bad []string
			if g == nil || len(g.Effects) != 1 || g.Effects[0].Op != "mapset" || !hasField(g.Effects[0].Args[0], "m") || g.Effects[0].Args[1].String() != "p:1" || g.Effects[0].Args[2].String() != "p:2" {
				bad = append(bad, "Put is not m[key] = value")
			}
			addOb(r, "R24", p.FuncKey(fn), clause, p.FuncPos(fn), bad, "m[key] = value")
		}
		if fn := ms["Remove"]; fn != nil {
			g := single(fn)
			var bad []string
			if g == nil || len(g.Effects) != 1 || g.Effects[0].Op != "builtin" || g.Effects[0].Leaf != "delete" || !hasField(g.Effects[0].Args[0], "m") || g.Effects[0].Args[1].String() != "p:1" {
				bad = append(bad, "Remove is not delete(m, key)")
			}
			addOb(r, "R24", p.FuncKey(fn), clause, p.FuncPos(fn), bad, "delete(m, key)")
		}
		if fn := ms["Get"]; fn != nil {
			g := single(fn)
			var bad []string
			ok := g != nil && len(g.Effects) == 0 && g.Exit.Op == "return" && len(g.Exit.Args) == 2
			if ok {
				for i, a := range g.Exit.Args {
					if !(a.Op == "ext" && a.Leaf == itoa(i) && a.Args[0].Op == "lookup" && hasField(a.Args[0].Args[0], "m") && a.Args[0].Args[1].String() == "p:1") {
						ok = false
					}
				}
			}
			if !ok {
				bad = append(bad, "Get is not value, found = m[key]")
			}
			addOb(r, "R24", p.FuncKey(fn), clause, p.FuncPos(fn), bad, "value, found = m[key]")
		}
		for _, nm := range []string{"Keys", "Values"} {
			fn := ms[nm]
			if fn == nil {
				continue
			}
			var bad []string
			n := 0
			which := "1"
			if nm == "Values" {
				which = "2"
			}
			for _, g := range c.GC(fn).GCs {
				for _, fl := range slotFills(g) {
					n++
					v := fl.val
					if !(v.Op == "ext" && v.Leaf == which && v.Args[0].Op == "next" && hasField(v.Args[0], "m")) {
						bad = append(bad, nm+" does not store the current map "+map[string]string{"1": "key", "2": "value"}[which])
					}
					if !fl.consecutive {
						bad = append(bad, nm+" does not fill consecutive slots")
					}
				}
			}
			if n == 0 {
				bad = append(bad, "no slot store found")
			}
			addOb(r, "R24", p.FuncKey(fn), clause, p.FuncPos(fn), bad, "one slot per map entry")
		}
	}
	if ct := p.T.ContainerByKey("sets/hashset.Set"); ct != nil {
		ms := methodsOf(p, ct)
		item := "(load (ia p:1 (+ #:1 φ:1.0)))"
		for _, op := range []struct{ name, eff string }{{"Add", "mapset"}, {"Remove", "delete"}} {
			fn := ms[op.name]
			if fn == nil {
				continue
			}
			var bad []string
			n := 0
			for _, g := range c.GC(fn).GCs {
				if g.From == 0 || g.Exit.Op != "goto" {
					// outside the per-argument rounds nothing is written: a shortcut that clears or rebuilds the table for
					// the whole argument list decides membership for all arguments at once (duplicates among them, members
					// not named)
					for _, ef := range g.Effects {
						if ef.Op == "do" || ef.Op == "mapset" || (ef.Op == "builtin" && (ef.Leaf == "delete" || ef.Leaf == "clear")) || (isStore(ef) && hasField(ef.Args[0], "items")) {
							bad = append(bad, op.name+" writes the table outside its per-argument loop: "+trunc(noEpoch(ef), 160))
						}
					}
					continue
				}
				n++
				ok := len(g.Effects) == 1
				if ok {
					ef := g.Effects[0]
					if op.eff == "mapset" {
						ok = ef.Op == "mapset" && hasField(ef.Args[0], "items") && noEpoch(ef.Args[1]) == item
					} else {
						ok = ef.Op == "builtin" && ef.Leaf == "delete" && hasField(ef.Args[0], "items") && noEpoch(ef.Args[1]) == item
					}
				}
				if !ok {
					bad = append(bad, op.name+" does not apply the map operation to every argument, unconditionally: "+trunc(g.String(), 200))
				}
			}
			if n != 1 {
				bad = append(bad, fmt.Sprintf("expected one loop round shape, found %d", n))
			}
			addOb(r, "R24", p.FuncKey(fn), clause, p.FuncPos(fn), bad, "one map "+op.eff+" per argument")
		}
	}
	return r
}

// exprTermOf: the epoch-free term of an expression-like function over its own parameters (nil if it is not one).
func exprTermOf(c *Ctx, fn *ssa.Function) *Term {
	st := &pstate{b: &gcBuilder{p: c.p, e: c.E(), fn: fn, cutIdx: map[string]int{}, out: &GCNF{Fn: fn}}, env: map[ssa.Value]*Term{}, onPath: map[string]bool{}, inl: true}
	var args []*Term
	for i := range fn.Params {
		args = append(args, leaf("p", itoa(i)))
	}
	t, ok := st.inline(fn, args)
	if !ok {
		return nil
	}
	return stripEpochs(t)
}

// heapifyStartCovers: t is an arithmetic expression over exactly one size atom (len/Size of the heap's own list), integer
// constants |c| < 16, +, -, *c, /2, >>1. Returns (parsed, start(n) >= n/2-1 for all n in 0..64, counterexample).
func heapifyStartCovers(t *Term) (bool, bool, int) {
	sizeAtom := ""
	var eval func(t *Term, n int) (int, bool)
	eval = func(t *Term, n int) (int, bool) {
		if k, ok := t.constInt(); ok {
			if k > 15 || k < -15 {
				return 0, false
			}
			return int(k), true
		}
		s := noEpoch(t)
		isSz := strings.Contains(s, "(fa:list p:0)") && ((t.Op == "len" && strings.Contains(s, "(fa:elements ")) || (t.Op == "call" && strings.HasSuffix(t.Leaf, ").Size")))
		if isSz {
			if sizeAtom != "" && sizeAtom != s {
				return 0, false
			}
			sizeAtom = s
			return n, true
		}
		if len(t.Args) != 2 {
			return 0, false
		}
		a, ok1 := eval(t.Args[0], n)
		b, ok2 := eval(t.Args[1], n)
		if !ok1 || !ok2 {
			return 0, false
		}
		switch t.Op {
		case "+":
			return a + b, true
		case "-":
			return a - b, true
		case "*":
			return a * b, true
		case "/":
			if _, isC := t.Args[1].constInt(); !isC || b != 2 {
				return 0, false
			}
			return a / b, true
		case ">>":
			if _, isC := t.Args[1].constInt(); !isC || b != 1 {
				return 0, false
			}
			return a >> 1, true
		}
		return 0, false
	}
	for n := 0; n <= 64; n++ {
		v, ok := eval(t, n)
		if !ok || sizeAtom == "" {
			return false, false, 0
		}
		if v < n/2-1 {
			return true, false, n
		}
	}
	return true, true, 0
}
