package main

// rules_order.go — R13 ORIENT (comparator-driven descents share one orientation; keys are only compared through the
// comparator) and R20 ROLES (delegation tables: which inner operation each wrapper operation relies on).

import (
	"fmt"
	"os"
	"go/token"
	"go/types"
	"sort"
	"strings"

	"golang.org/x/tools/go/ssa"
)

type descent struct{ tk, fn string }

var descents = []descent{
	{"trees/redblacktree.Tree", "Put"}, {"trees/redblacktree.Tree", "lookup"}, {"trees/redblacktree.Tree", "Floor"}, {"trees/redblacktree.Tree", "Ceiling"},
	{"trees/avltree.Tree", "GetNode"}, {"trees/avltree.Tree", "put"}, {"trees/avltree.Tree", "remove"}, {"trees/avltree.Tree", "Floor"}, {"trees/avltree.Tree", "Ceiling"},
	{"trees/btree.Tree", "search"},
}

// sideTokens counts low-side / high-side tokens in a term.
func sideTokens(t *Term) (low, high int) {
	t.any(func(x *Term) bool {
		switch {
		case x.Op == "fa" && x.Leaf == "Left":
			low++
		case x.Op == "fa" && x.Leaf == "Right":
			high++
		case x.Op == "ia" && len(x.Args) == 2 && hasField(x.Args[0], "Children") && !hasField(x.Args[0], "Entries"):
			if x.Args[1].String() == "#:0" {
				low++
			} else if x.Args[1].String() == "#:1" {
				high++
			}
		}
		return false
	})
	return
}

func ruleR13(c *Ctx) *RuleResult {
	p := c.p
	r := &RuleResult{Rule: "R13", Title: "ORIENT: every comparator-driven descent has the same orientation; keys are compared only through the comparator", Floor: 10 + 8}
	clA := "R13a the comparator relates the probe key to a stored key; probe < stored moves to the left/low side, probe > stored to the right/high side, equal means found — at every descent site"
	clB := "R13b in comparator-ordered packages no Go operator (==, !=, <, …) is applied to operands of key type: keys that compare equal are one key"
	for _, d := range descents {
		key := d.tk + "." + d.fn
		var fn *ssa.Function
		if ct := typeByKey(p, d.tk); ct != nil {
			fn = methodsOf(p, ct)[d.fn]
		}
		if fn == nil {
			r.add(Obligation{Key: "R13a:" + key, Rule: "R13a", Clause: clA, Pos: "-", Status: Undecided, Facts: "anchored function not found"})
			continue
		}
		gc := c.GC(fn)
		if gc.Undecided != "" {
			r.add(Obligation{Key: "R13a:" + key, Rule: "R13a", Clause: clA, Pos: p.FuncPos(fn), Status: Undecided, Facts: gc.Undecided})
			continue
		}
		var bad []string
		nneg, npos, nzero := 0, 0, 0
		for _, g := range gc.GCs {
			for _, a := range g.Guards {
				if len(a.Args) != 2 {
					continue
				}
				var dyn *Term
				sign := ""
				x, y := a.Args[0], a.Args[1]
				switch {
				case a.Op == "<" && x.Op == "dyn" && y.String() == "#:0":
					dyn, sign = x, "neg"
				case a.Op == "<" && y.Op == "dyn" && x.String() == "#:0":
					dyn, sign = y, "pos"
				case a.Op == "==" && y.Op == "dyn" && x.String() == "#:0":
					dyn, sign = y, "zero"
				default:
					continue
				}
				if len(dyn.Args) != 3 || !hasField(dyn.Args[0], "Comparator") {
					continue
				}
				// which argument is the probe (a parameter, or the Key of an entry parameter) and which the stored key?
				isProbe := func(t *Term) bool {
					return t.Op == "p" || (t.Op == "load" && t.Args[0].Op == "fa" && t.Args[0].Leaf == "Key" && t.Args[0].Args[0].Op == "p")
				}
				isStored := func(t *Term) bool { return t.Op == "load" && hasField(t, "Key") && !isProbe(t) }
				switch {
				case isProbe(dyn.Args[1]) && isStored(dyn.Args[2]):
				case isStored(dyn.Args[1]) && isProbe(dyn.Args[2]):
					// Comparator(stored, probe): the same order with the sign reversed
					if sign == "neg" {
						sign = "pos"
					} else if sign == "pos" {
						sign = "neg"
					}
				default:
					bad = append(bad, "the comparator is not applied to (probe key, stored key): "+trunc(noEpoch(dyn), 200))
					continue
				}
				low, high := 0, 0
				for _, ef := range g.Effects {
					l, h := sideTokens(ef)
					low, high = low+l, high+h
				}
				l, h := sideTokens(g.Exit)
				low, high = low+l, high+h
				// the B-tree's binary search moves the bounds: high = mid-1 is the low side, low = mid+1 the high side
				if d.fn == "search" && g.Exit.Op == "goto" {
					for _, as := range g.Exit.Args {
						if as.Op == "-" && as.Args[1].String() == "#:1" {
							low++
						}
						if as.Op == "+" && as.Args[0].String() == "#:1" {
							high++
						}
					}
				}
				// the same decided by which bound moves: the bound that entered the loop as 0 is the lower one; leaving it alone
				// and changing the other narrows towards the low side, and the other way round (covers a half-open range,
				// where the upper bound is set to mid itself)
				if d.fn == "search" && g.Exit.Op == "goto" && low == 0 && high == 0 && len(g.Exit.Args) == 2 && itoa(g.From) == g.Exit.Leaf {
					lb := -1
					for _, e0 := range gc.GCs {
						if e0.Exit.Op == "goto" && e0.Exit.Leaf == g.Exit.Leaf && e0.From != g.From && len(e0.Exit.Args) == 2 {
							for j, a0 := range e0.Exit.Args {
								if a0.String() == "#:0" {
									lb = j
								}
							}
						}
					}
					if lb >= 0 {
						ub := 1 - lb
						phi := func(j int) string { return "φ:" + g.Exit.Leaf + "." + itoa(j) }
						keepL, keepU := g.Exit.Args[lb].String() == phi(lb), g.Exit.Args[ub].String() == phi(ub)
						if keepL && !keepU {
							low++
						}
						if keepU && !keepL {
							high++
						}
					}
				}
				switch sign {
				case "neg":
					nneg++
					if low == 0 || high != 0 {
						bad = append(bad, fmt.Sprintf("with comparator < 0 the descent does not move to the left/low side only (low-side tokens %d, high-side %d): %s", low, high, trunc(g.String(), 260)))
					}
				case "pos":
					npos++
					if high == 0 || low != 0 {
						bad = append(bad, fmt.Sprintf("with comparator > 0 the descent does not move to the right/high side only (low-side tokens %d, high-side %d): %s", low, high, trunc(g.String(), 260)))
					}
				case "zero":
					nzero++
					// removal of a found AVL node restructures its subtrees: only the lookups/insertions must stay put
					if d.fn != "remove" && (low != 0 || high != 0) {
						bad = append(bad, "with comparator == 0 the descent still moves sideways: "+trunc(g.String(), 260))
					}
				}
			}
		}
		for _, g := range gc.GCs {
			for _, a := range g.Guards {
				if a.any(func(t *Term) bool { return t.Op == "narrow" && len(t.Args) == 1 && t.Args[0].Op == "dyn" && hasField(t.Args[0], "Comparator") }) {
					bad = append(bad, "the comparator's int result is converted to a narrower integer type before it is tested: a verdict such as 256 or -512 (a-b comparators) becomes 0 or changes sign — "+trunc(noEpoch(a), 160))
				}
			}
		}
		if nneg == 0 || npos == 0 || nzero == 0 {
			bad = append(bad, fmt.Sprintf("expected <0, >0 and ==0 paths, found %d/%d/%d", nneg, npos, nzero))
		}
		if len(bad) > 0 {
			r.add(Obligation{Key: "R13a:" + key, Rule: "R13a", Clause: clA, Pos: p.FuncPos(fn), Status: Violated, Facts: strings.Join(dedup(bad), "\n")})
		} else {
			r.add(Obligation{Key: "R13a:" + key, Rule: "R13a", Clause: clA, Pos: p.FuncPos(fn), Status: Discharged, Facts: fmt.Sprintf("Comparator(probe, stored): %d paths <0 → low side, %d paths >0 → high side, %d paths ==0 → found", nneg, npos, nzero)})
		}
	}
	// R13b
	ordered := []string{"trees/redblacktree", "trees/avltree", "trees/btree", "maps/treemap", "sets/treeset", "maps/treebidimap", "trees/binaryheap", "queues/priorityqueue"}
	for _, rel := range ordered {
		var bad []string
		nfn, nops := 0, 0
		for _, fn := range p.Funcs {
			root := fn
			for root.Parent() != nil {
				root = root.Parent()
			}
			if root.Pkg == nil || p.RelPkg(root.Pkg.Pkg.Path()) != rel {
				continue
			}
			nfn++
			for _, b := range fn.Blocks {
				for _, in := range b.Instrs {
					bo, ok := in.(*ssa.BinOp)
					if !ok {
						continue
					}
					switch bo.Op {
					case token.EQL, token.NEQ, token.LSS, token.LEQ, token.GTR, token.GEQ:
						nops++
						if _, isTP := types.Unalias(bo.X.Type()).(*types.TypeParam); isTP {
							bad = append(bad, fmt.Sprintf("%s applies %s to operands of type %s at %s", p.FuncKey(fn), bo.Op, bo.X.Type(), p.InstrPos(bo)))
						}
					}
				}
			}
		}
		sort.Strings(bad)
		if nfn == 0 {
			r.add(Obligation{Key: "R13b:" + rel, Rule: "R13b", Clause: clB, Pos: "-", Status: Undecided, Facts: "package not found"})
		} else if len(bad) > 0 {
			r.add(Obligation{Key: "R13b:" + rel, Rule: "R13b", Clause: clB, Pos: "-", Status: Violated, Facts: strings.Join(bad, "\n")})
		} else {
			r.add(Obligation{Key: "R13b:" + rel, Rule: "R13b", Clause: clB, Pos: "-", Status: Discharged, Facts: fmt.Sprintf("%d functions, %d comparison operators, none on a type-parameter operand", nfn, nops)})
		}
	}
	return r
}

// ---- R20 ROLES ----

type role struct {
	prop   string // property the row serves
	tk     string
	method string
	field  string
	callee string
}

var roleTable = []role{
	// C02 (R13c): navigation roles
	{"C02", "maps/treemap.Map", "Min", "tree", "Left"}, {"C02", "maps/treemap.Map", "Max", "tree", "Right"},
	{"C02", "maps/treemap.Map", "Floor", "tree", "Floor"}, {"C02", "maps/treemap.Map", "Ceiling", "tree", "Ceiling"},
	{"C02", "sets/treeset.Set", "Values", "tree", "Keys"},
	{"C02", "maps/treebidimap.Map", "Keys", "forwardMap", "Keys"}, {"C02", "maps/treebidimap.Map", "Values", "inverseMap", "Keys"},
	{"C02", "maps/treemap.Map", "Keys", "tree", "Keys"},
	// C01: TreeMap is the red-black tree
	{"C01", "maps/treemap.Map", "Put", "tree", "Put"}, {"C01", "maps/treemap.Map", "Get", "tree", "Get"}, {"C01", "maps/treemap.Map", "Remove", "tree", "Remove"},
	{"C01", "maps/treemap.Map", "Values", "tree", "Values"}, {"C01", "maps/treemap.Map", "Clear", "tree", "Clear"}, {"C01", "maps/treemap.Map", "Size", "tree", "Size"},
	{"C01", "maps/treemap.Map", "Empty", "tree", "Empty"}, {"C01", "maps/treemap.Map", "Iterator", "tree", "Iterator"},
	// C04: TreeSet members are the keys of a red-black tree
	{"C04", "sets/treeset.Set", "Add", "tree", "Put"}, {"C04", "sets/treeset.Set", "Remove", "tree", "Remove"}, {"C04", "sets/treeset.Set", "Contains", "tree", "Get"},
	{"C04", "sets/treeset.Set", "Size", "tree", "Size"}, {"C04", "sets/treeset.Set", "Clear", "tree", "Clear"}, {"C04", "sets/treeset.Set", "Empty", "tree", "Size"},
	// C06: the priority queue is the heap
	{"C06", "queues/priorityqueue.Queue", "Enqueue", "heap", "Push"}, {"C06", "queues/priorityqueue.Queue", "Dequeue", "heap", "Pop"},
	{"C06", "queues/priorityqueue.Queue", "Peek", "heap", "Peek"}, {"C06", "queues/priorityqueue.Queue", "Empty", "heap", "Empty"},
	{"C06", "queues/priorityqueue.Queue", "Size", "heap", "Size"}, {"C06", "queues/priorityqueue.Queue", "Clear", "heap", "Clear"},
	{"C06", "queues/priorityqueue.Queue", "Values", "heap", "Values"}, {"C06", "queues/priorityqueue.Queue", "Iterator", "heap", "Iterator"},
	{"C06", "queues/priorityqueue.Queue", "ToJSON", "heap", "ToJSON"}, {"C06", "queues/priorityqueue.Queue", "FromJSON", "heap", "FromJSON"},
	// C03: Append is Add
	{"C03", "lists/singlylinkedlist.List", "Append", "", "Add"}, {"C03", "lists/doublylinkedlist.List", "Append", "", "Add"},
	// C05: the adapters' observers
	{"C05", "stacks/arraystack.Stack", "Size", "list", "Size"}, {"C05", "stacks/arraystack.Stack", "Empty", "list", "Empty"}, {"C05", "stacks/arraystack.Stack", "Clear", "list", "Clear"},
	{"C05", "stacks/linkedliststack.Stack", "Size", "list", "Size"}, {"C05", "stacks/linkedliststack.Stack", "Empty", "list", "Empty"}, {"C05", "stacks/linkedliststack.Stack", "Clear", "list", "Clear"},
	{"C05", "stacks/linkedliststack.Stack", "Values", "list", "Values"},
	{"C05", "queues/arrayqueue.Queue", "Size", "list", "Size"}, {"C05", "queues/arrayqueue.Queue", "Empty", "list", "Empty"}, {"C05", "queues/arrayqueue.Queue", "Clear", "list", "Clear"},
	{"C05", "queues/arrayqueue.Queue", "Values", "list", "Values"},
	{"C05", "queues/linkedlistqueue.Queue", "Size", "list", "Size"}, {"C05", "queues/linkedlistqueue.Queue", "Empty", "list", "Empty"}, {"C05", "queues/linkedlistqueue.Queue", "Clear", "list", "Clear"},
	{"C05", "queues/linkedlistqueue.Queue", "Values", "list", "Values"},
}

// libCallsOf lists the static library calls of fn as (receiver-field-or-"", callee name).
func libCallsOf(p *Prog, fn *ssa.Function) [][2]string {
	return libCallsRec(p, fn, 0)
}

func libCallsRec(p *Prog, fn *ssa.Function, depth int) [][2]string {
	var out [][2]string
	for _, c := range allCalls(fn) {
		cal := StaticCallee(c.Common())
		if cal == nil || !p.IsLib(cal) {
			continue
		}
		if !p.KnownFunc(cal) && depth < 4 && cal.Blocks != nil {
			// a helper the pinned tree does not know: what it calls counts as called here (receiver field unknown)
			for _, in := range libCallsRec(p, cal, depth+1) {
				out = append(out, [2]string{"?", in[1]})
			}
			continue
		}
		field := "?"
		if len(c.Common().Args) > 0 && cal.Signature.Recv() != nil {
			if f, ok := recvField(fn, c.Common().Args[0]); ok {
				field = fieldName(fn, f)
			} else if stripChange(c.Common().Args[0]) == ssa.Value(fn.Params[0]) {
				field = ""
			}
		}
		out = append(out, [2]string{field, fnName(cal)})
	}
	return out
}

func ruleR20(c *Ctx) *RuleResult {
	p := c.p
	r := &RuleResult{Rule: "R20", Title: "ROLES: each wrapper operation relies on exactly the inner operation that gives it its meaning", Floor: len(roleTable)}
	for _, ro := range roleTable {
		clause := fmt.Sprintf("%s.%s is implemented by (only) %s.%s of its inner container — it inherits that operation's guarantees", ro.tk, ro.method, ro.field, ro.callee)
		if ro.field == "" {
			clause = fmt.Sprintf("%s.%s is the receiver's own %s", ro.tk, ro.method, ro.callee)
		}
		key := ro.prop + ":" + ro.tk + "." + ro.method
		ct := p.T.ContainerByKey(ro.tk)
		var fn *ssa.Function
		if ct != nil {
			fn = methodsOf(p, ct)[ro.method]
		}
		if fn == nil {
			r.undecided(key, clause, "-", "anchored method not found")
			continue
		}
		calls := libCallsOf(p, fn)
		okAll := len(calls) >= 1
		var seen []string
		for _, cl := range calls {
			seen = append(seen, cl[0]+"."+cl[1])
			if cl[0] != ro.field || cl[1] != ro.callee {
				// the same inner lookup under its other name (`GetNode(k) != nil` for `_, found := Get(k)`): accepted when the
				// inner container's two methods rest on the same library callees (both are the one `lookup`)
				if cl[0] == ro.field && sameInnerCore(p, fn, cl[1], ro.callee) {
					continue
				}
				// iterator-returning wrappers also allocate their own iterator struct: no call involved
				okAll = false
			}
		}
		// no direct storage access bypassing the inner operation
		direct := false
		var scan func(f *ssa.Function, depth int)
		scan = func(f *ssa.Function, depth int) {
			for _, b := range f.Blocks {
				for _, in := range b.Instrs {
					switch x := in.(type) {
					case *ssa.MapUpdate, *ssa.IndexAddr, *ssa.Lookup:
						if _, isVar := in.(*ssa.IndexAddr); isVar {
							if ia := in.(*ssa.IndexAddr); isVarargsArray(ia) || (len(f.Params) > 0 && ia.X == ssa.Value(f.Params[len(f.Params)-1])) {
								continue
							}
						}
						direct = true
					case ssa.CallInstruction:
						if cal := StaticCallee(x.Common()); cal != nil && p.IsLib(cal) && !p.KnownFunc(cal) && depth < 4 {
							scan(cal, depth+1)
						}
					}
				}
			}
		}
		scan(fn, 0)
		// a forwarder hands back what the inner operation answered, as it answered it: re-ordering the result (a sort, a
		// reversal) makes it a different operation (a queue's Values() sorted by an unstable sort no longer starts with Peek's
		// element among ties)
		reorders := ""
		for _, cl := range allCalls(fn) {
			if nm := stdCalleeName(p, cl.Common()); strings.HasPrefix(nm, "slices.Sort") || strings.HasPrefix(nm, "sort.") || nm == "slices.Reverse" {
				reorders = nm
			}
		}
		if reorders != "" {
			r.bad(key, clause, p.FuncPos(fn), "the wrapper re-orders what the inner operation answered ("+reorders+")")
			continue
		}
		if okAll && !direct {
			r.ok(key, clause, p.FuncPos(fn), fmt.Sprintf("library calls: %s", strings.Join(dedup(seen), ", ")))
		} else if !direct && ro.field != "" && writtenOutDelegation(c, ct, fn, ro.field, ro.callee) {
			r.ok(key, clause, p.FuncPos(fn), fmt.Sprintf("not a forwarding call, but path for path the inner %s.%s written out on the %s field (normal forms equal after expanding the wrapper's own methods)", ro.field, ro.callee, ro.field))
		} else {
			r.bad(key, clause, p.FuncPos(fn), fmt.Sprintf("library calls found: [%s] (direct storage access: %v); expected only %s.%s", strings.Join(dedup(seen), ", "), direct, ro.field, ro.callee))
		}
	}
	return r
}

// sameInnerCore: fn calls a method named `got` of an inner container where the role table expects `want`; true when that
// container has both, both are read-only lookups of one key (same parameter list up to results), and the set of library
// functions each rests on (forwarders expanded) is the same non-empty set.
func sameInnerCore(p *Prog, fn *ssa.Function, got, want string) bool {
	for _, c := range allCalls(fn) {
		cal := StaticCallee(c.Common())
		if cal == nil || !p.IsLib(cal) || fnName(cal) != got {
			continue
		}
		rn := recvNamed(cal)
		if rn == nil {
			continue
		}
		other := methodsOf(p, rn)[want]
		if other == nil || other.Signature.Params().Len() != cal.Signature.Params().Len() {
			return false
		}
		core := func(f *ssa.Function) string {
			var ns []string
			for _, x := range libCallsOf(p, f) {
				ns = append(ns, x[1])
			}
			if len(ns) == 0 {
				return ""
			}
			return strings.Join(dedup(ns), ",")
		}
		a, b := core(origin(cal)), core(other)
		return (a != "" && a == b) || b == got
	}
	return false
}

func isVarargsArray(ia *ssa.IndexAddr) bool {
	al, ok := ia.X.(*ssa.Alloc)
	return ok && al.Comment == "varargs"
}

func rolesFor(c *Ctx, prop string) *RuleResult {
	all := c.rule("R20", ruleR20)
	n := 0
	for _, ro := range roleTable {
		if ro.prop == prop {
			n++
		}
	}
	return filter(all, "R20", "ROLES: delegation table rows serving "+prop, n, func(o Obligation) bool { return strings.HasPrefix(o.Key, "R20:"+prop+":") })
}

// writtenOutDelegation: fn is, path for path, the inner container's operation `callee` written out on the receiver's field:
// the normal form of fn (the wrapper's own methods expanded) equals the normal form of the inner operation with its receiver
// replaced by recv.<field>. Fresh objects are named by order of appearance; a result the path knows to be nil is nil.
func writtenOutDelegation(c *Ctx, ct *types.Named, fn *ssa.Function, field, callee string) bool {
	p := c.p
	st, ok := ct.Underlying().(*types.Struct)
	if !ok {
		return false
	}
	var inner *types.Named
	for i := 0; i < st.NumFields(); i++ {
		if st.Field(i).Name() == field {
			inner = namedOf(st.Field(i).Type())
		}
	}
	if inner == nil {
		return false
	}
	innerFn := methodsOf(p, inner)[callee]
	if innerFn == nil {
		return false
	}
	own := map[*ssa.Function]bool{}
	for _, m := range methodsOf(p, ct) {
		own[m] = true
	}
	A := c.GCWith(fn, BuildOpts{Tag: "written-out", Inline: func(cal *ssa.Function) bool {
		return cal != fn && (own[cal] || (cal.Origin() != nil && own[cal.Origin()]))
	}})
	B := c.GC(innerFn)
	if A.Undecided != "" || B.Undecided != "" || len(A.GCs) != len(B.GCs) {
		return false
	}
	canon := func(g *GC, substRecv bool) string {
		names := map[string]string{}
		var conv func(t *Term) *Term
		conv = func(t *Term) *Term {
			if substRecv && t.Op == "p" && t.Leaf == "0" {
				return nodeL("load", "", nodeL("fa", field, leaf("p", "0")))
			}
			if t.Op == "new" {
				n, ok := names[t.Leaf]
				if !ok {
					n = "n" + itoa(len(names))
					names[t.Leaf] = n
				}
				return leaf("new", n)
			}
			if len(t.Args) == 0 {
				return t
			}
			out := &Term{Op: t.Op, Leaf: t.Leaf, Args: make([]*Term, len(t.Args))}
			for i, a := range t.Args {
				out.Args[i] = conv(a)
			}
			return out
		}
		var parts []string
		var gs []string
		// effects first: fresh objects are numbered in program order
		var es []string
		for _, ef := range g.Effects {
			es = append(es, noEpoch(conv(ef)))
		}
		nilTerms := map[string]bool{}
		for _, a := range g.Guards {
			s := noEpoch(conv(a))
			gs = append(gs, s)
			if a.Op == "==" && len(a.Args) == 2 && a.Args[0].String() == "#:nil" {
				nilTerms[noEpoch(conv(a.Args[1]))] = true
			}
		}
		sort.Strings(gs)
		ex := conv(g.Exit)
		if ex.Op == "return" {
			out := &Term{Op: ex.Op, Leaf: ex.Leaf, Args: make([]*Term, len(ex.Args))}
			for i, a := range ex.Args {
				if nilTerms[noEpoch(a)] {
					out.Args[i] = leaf("#", "nil")
				} else {
					out.Args[i] = a
				}
			}
			ex = out
		}
		parts = append(parts, strings.Join(gs, " & "), strings.Join(es, " ; "), noEpoch(ex))
		return strings.Join(parts, " | ")
	}
	var as, bs []string
	for _, g := range A.GCs {
		as = append(as, canon(g, false))
	}
	for _, g := range B.GCs {
		bs = append(bs, canon(g, true))
	}
	sort.Strings(as)
	sort.Strings(bs)
	for i := range as {
		if as[i] != bs[i] {
			if os.Getenv("R20_DEBUG") != "" {
				fmt.Fprintf(os.Stderr, "R20 written-out mismatch:\n  A: %s\n  B: %s\n", as[i], bs[i])
			}
			return false
		}
	}
	return true
}
