package main

// rules_rotate.go — R34 ROTATE: a rotation re-hangs subtrees without changing their in-order sequence.
//
// Every path of a rotation primitive is replayed over a symbolic heap: objects are named by how the path reached them in the
// initial heap (p:1, (p:1).Right, ((p:1).Right).Left, …), a load reads the last earlier store to that slot of that object (the
// load's version stamp says how many stores preceded it) or else the slot's initial symbol, guard equalities unify names. The
// nodes whose child slots the path reads or writes are "opened"; everything else hanging below them is an opaque subtree. The
// in-order sequence of the rotated node's subtree — opened nodes and opaque subtrees, left to right — must be the same
// before and after, with the subtree's new root the one opened node that is no longer anyone's child. For the AVL tree's
// direction-parameterised rotate both directions are replayed (c = -1, +1).

import (
	"fmt"
	"regexp"
	"strconv"
	"strings"

	"golang.org/x/tools/go/ssa"
)

type rotSpec struct {
	tk, pkg, name string
	inline        []string
	nodeParam     int
	dirParam      int // -1: none
	slots         [2]string
}

type symStore struct {
	obj, slot, val string
	field         string // field class for version counting ("Left", "Children", "Parent", …)
}

type symHeap struct {
	stores []symStore
	uf     map[string]string
	env    map[string]int // parameter values (direction)
	opened map[string]bool
	slots  [2]string
	bad    string
}

func (h *symHeap) find(x string) string {
	for {
		p, ok := h.uf[x]
		if !ok || p == x {
			return x
		}
		x = p
	}
}

func (h *symHeap) union(a, b string) {
	a, b = h.find(a), h.find(b)
	if a == b {
		return
	}
	// prefer the shorter (more primitive) name as representative
	if len(b) < len(a) || (len(a) == len(b) && b < a) {
		a, b = b, a
	}
	h.uf[b] = a
}

func (h *symHeap) evalInt(t *Term) (int, bool) {
	if k, ok := t.constInt(); ok {
		return int(k), true
	}
	switch {
	case t.Op == "p":
		v, ok := h.env[t.Leaf]
		return v, ok
	case t.Op == "neg" && len(t.Args) == 1:
		v, ok := h.evalInt(t.Args[0])
		return -v, ok
	case len(t.Args) == 2:
		a, ok1 := h.evalInt(t.Args[0])
		b, ok2 := h.evalInt(t.Args[1])
		if !ok1 || !ok2 {
			return 0, false
		}
		switch t.Op {
		case "+":
			return a + b, true
		case "-":
			return a - b, true
		case "*":
			return a * b, true
		case "/":
			if b != 0 {
				return a / b, true
			}
		case "^":
			return a ^ b, true
		}
	}
	return 0, false
}

// addr: (object, slot, field class) of an address term.
func (h *symHeap) addr(t *Term, upto int) (string, string, string, bool) {
	switch {
	case t.Op == "fa" && len(t.Args) == 1:
		return h.val(t.Args[0], upto), t.Leaf, t.Leaf, true
	case t.Op == "ia" && len(t.Args) == 2 && t.Args[0].Op == "fa" && len(t.Args[0].Args) == 1:
		i, ok := h.evalInt(t.Args[1])
		if !ok {
			return "", "", "", false
		}
		return h.val(t.Args[0].Args[0], upto), t.Args[0].Leaf + "[" + strconv.Itoa(i) + "]", t.Args[0].Leaf, true
	}
	return "", "", "", false
}

var (
	rotFieldVer = regexp.MustCompile(`^c\d+\.f(\d+)`)
	rotAnyVer   = regexp.MustCompile(`^c\d+\.a(\d+)`)
)

// val: the symbolic value of a term; loads read the heap as of the stores that preceded them (upto = number of stores executed).
func (h *symHeap) val(t *Term, upto int) string {
	switch {
	case t.Op == "p":
		return h.find("p:" + t.Leaf)
	case t.Op == "#" && t.Leaf == "nil":
		return "nil"
	case t.Op == "load" && len(t.Args) == 1:
		obj, slot, field, ok := h.addr(t.Args[0], upto)
		if !ok {
			return h.find("?" + noEpoch(t))
		}
		// the version stamp says how many stores preceded this load: f<n> — n stores to this field; a<k> — k stores at all
		lim := 0
		if m := rotFieldVer.FindStringSubmatch(t.Leaf); m != nil {
			n, _ := strconv.Atoi(m[1])
			cnt := 0
			for i, st := range h.stores {
				if cnt == n {
					break
				}
				if st.field == field {
					cnt++
				}
				lim = i + 1
			}
			if n == 0 {
				lim = 0
			}
		} else if m := rotAnyVer.FindStringSubmatch(t.Leaf); m != nil {
			k, _ := strconv.Atoi(m[1])
			lim = k
		}
		if lim > upto {
			lim = upto
		}
		return h.read(obj, slot, lim)
	case t.Op == "res" || t.Op == "call":
		return h.find("?" + noEpoch(t))
	}
	return h.find("?" + noEpoch(t))
}

func (h *symHeap) read(obj, slot string, upto int) string {
	if slot == h.slots[0] || slot == h.slots[1] {
		h.opened[obj] = true
	}
	for i := upto - 1; i >= 0; i-- {
		s := h.stores[i]
		if s.slot == slot && h.find(s.obj) == h.find(obj) {
			return h.find(s.val)
		}
	}
	return h.find("(" + obj + ")." + slot)
}

func (h *symHeap) inorder(x string, upto int, depth int, out *[]string) {
	x = h.find(x)
	if x == "nil" {
		return
	}
	if depth > 12 {
		h.bad = "the links form a cycle"
		return
	}
	if !h.opened[x] {
		*out = append(*out, x)
		return
	}
	// read without opening anything new
	get := func(slot string) string {
		for i := upto - 1; i >= 0; i-- {
			s := h.stores[i]
			if s.slot == slot && h.find(s.obj) == x {
				return h.find(s.val)
			}
		}
		return h.find("(" + x + ")." + slot)
	}
	h.inorder(get(h.slots[0]), upto, depth+1, out)
	*out = append(*out, "<"+x+">")
	h.inorder(get(h.slots[1]), upto, depth+1, out)
}

func ruleR34(c *Ctx) *RuleResult {
	p := c.p
	r := &RuleResult{Rule: "R34", Title: "ROTATE: rotations re-hang subtrees without changing the in-order sequence", Floor: 3}
	clause := "on every path of the rotation the in-order sequence of the rotated node's subtree (opened nodes and opaque subtrees, left to right) is the same before and after; the subtree has exactly one new root"
	specs := []rotSpec{
		{"trees/redblacktree.Tree", "trees/redblacktree", "rotateLeft", []string{"replaceNode"}, 1, -1, [2]string{"Left", "Right"}},
		{"trees/redblacktree.Tree", "trees/redblacktree", "rotateRight", []string{"replaceNode"}, 1, -1, [2]string{"Left", "Right"}},
		{"", "trees/avltree", "rotate", nil, 1, 0, [2]string{"Children[0]", "Children[1]"}},
	}
	for _, sp := range specs {
		var fn *ssa.Function
		if sp.tk != "" {
			if ct := typeByKey(p, sp.tk); ct != nil {
				fn = methodsOf(p, ct)[sp.name]
			}
		} else {
			for _, f := range p.Funcs {
				if f.Parent() == nil && f.Pkg != nil && p.RelPkg(f.Pkg.Pkg.Path()) == sp.pkg && f.Signature.Recv() == nil && fnName(f) == sp.name {
					fn = f
				}
			}
		}
		key := sp.pkg + "." + sp.name
		if fn == nil {
			r.undecided(key, clause, "-", "anchored function not found")
			continue
		}
		inl := map[string]bool{}
		for _, n := range sp.inline {
			inl[n] = true
		}
		gc := c.GCWith(fn, BuildOpts{Tag: "R34", Inline: func(cal *ssa.Function) bool { return inl[fnName(cal)] }})
		if gc.Undecided != "" {
			r.undecided(key, clause, p.FuncPos(fn), gc.Undecided)
			continue
		}
		dirs := []int{0}
		if sp.dirParam >= 0 {
			dirs = []int{-1, 1}
		}
		var bad []string
		npaths := 0
		for _, dir := range dirs {
			for _, g := range gc.GCs {
				h := &symHeap{uf: map[string]string{}, env: map[string]int{}, opened: map[string]bool{}, slots: sp.slots}
				if sp.dirParam >= 0 {
					h.env[itoa(sp.dirParam)] = dir
				}
				// replay the stores
				var derefd []string
				for _, ef := range g.Effects {
					if !isStore(ef) {
						if ef.Op == "do" || ef.Op == "stddo" || ef.Op == "builtin" {
							bad = append(bad, "a call the replay cannot follow: "+trunc(noEpoch(ef), 120))
						}
						continue
					}
					n := len(h.stores)
					obj, slot, field, ok := h.addr(ef.Args[0], n)
					if !ok {
						bad = append(bad, "a store through an address the replay cannot resolve: "+trunc(noEpoch(ef), 120))
						continue
					}
					derefd = append(derefd, obj)
					if slot == sp.slots[0] || slot == sp.slots[1] {
						h.opened[h.find(obj)] = true
					}
					v := h.val(ef.Args[1], n)
					h.stores = append(h.stores, symStore{obj: obj, slot: slot, val: v, field: field})
				}
				// guards (their loads carry their own version stamps): equalities unify names; a nil test on something the path
				// dereferences makes the path panic (out of contract)
				nilSyms := map[string]bool{}
				for _, a := range g.Guards {
					if a.Op == "==" && len(a.Args) == 2 {
						x, y := h.val(a.Args[0], len(h.stores)), h.val(a.Args[1], len(h.stores))
						if x == "nil" {
							nilSyms[y] = true
						} else if y == "nil" {
							nilSyms[x] = true
						} else {
							h.union(x, y)
						}
					}
				}
				skip := false
				for _, o := range derefd {
					if nilSyms[h.find(o)] {
						skip = true
					}
				}
				if skip {
					continue
				}
				npaths++
				root := h.find("p:" + itoa(sp.nodeParam))
				// canonical opened set (names may have been unified late)
				op := map[string]bool{}
				for x := range h.opened {
					op[h.find(x)] = true
				}
				h.opened = op
				if !h.opened[root] {
					continue // nothing re-hung on this path
				}
				var before, after []string
				h.inorder(root, 0, 0, &before)
				// the new root: the opened node below the old root that is nobody's child any more
				inSub := map[string]bool{}
				for _, x := range before {
					if strings.HasPrefix(x, "<") {
						inSub[x[1:len(x)-1]] = true
					}
				}
				child := map[string]bool{}
				n := len(h.stores)
				for x := range inSub {
					for _, sl := range sp.slots {
						cv := ""
						for i := n - 1; i >= 0; i-- {
							if h.stores[i].slot == sl && h.find(h.stores[i].obj) == x {
								cv = h.find(h.stores[i].val)
								break
							}
						}
						if cv == "" {
							cv = h.find("(" + x + ")." + sl)
						}
						child[cv] = true
					}
				}
				var roots []string
				for x := range inSub {
					if !child[x] {
						roots = append(roots, x)
					}
				}
				where := fmt.Sprintf("path %s", trunc(guardsString(g), 160))
				if sp.dirParam >= 0 {
					where = fmt.Sprintf("direction %d, %s", dir, where)
				}
				if len(roots) != 1 {
					bad = append(bad, fmt.Sprintf("%s: after the rotation the subtree has %d roots %v (a node is unreachable or the links form a cycle)", where, len(roots), roots))
					continue
				}
				h.inorder(roots[0], n, 0, &after)
				if h.bad != "" {
					bad = append(bad, where+": "+h.bad)
					continue
				}
				if strings.Join(before, " ") != strings.Join(after, " ") {
					bad = append(bad, fmt.Sprintf("%s: in-order sequence before [%s] ≠ after [%s]", where, strings.Join(before, " "), strings.Join(after, " ")))
				}
			}
		}
		if npaths == 0 {
			bad = append(bad, "no path could be replayed")
		}
		if len(bad) > 0 {
			r.bad(key, clause, p.FuncPos(fn), strings.Join(dedup(bad), "\n"))
		} else {
			r.ok(key, clause, p.FuncPos(fn), fmt.Sprintf("%d path replays: in-order sequence preserved, one new root", npaths))
		}
	}
	return r
}
