package main

// rules_iter.go — R14 CURSOR: iterator families share one cursor protocol (DESIGN §3 R14).

import (
	"fmt"
	"go/types"
	"strings"

	"golang.org/x/tools/go/ssa"
)

// iterOwner: the field of an iterator struct that points to its container, and that container type.
func iterOwner(p *Prog, it *types.Named) (string, *types.Named) {
	st := it.Underlying().(*types.Struct)
	for i := 0; i < st.NumFields(); i++ {
		f := st.Field(i)
		if _, isPtr := types.Unalias(f.Type()).(*types.Pointer); isPtr {
			if n := namedOf(f.Type()); n != nil && p.T.IsContainer(n) {
				return fieldN(it, i), n
			}
		}
	}
	return "", nil
}

// wrappedIter: the field of an iterator struct that holds another iterator (by value or pointer).
func wrappedIter(p *Prog, it *types.Named) (string, *types.Named) {
	st := it.Underlying().(*types.Struct)
	for i := 0; i < st.NumFields(); i++ {
		f := st.Field(i)
		if n := namedOf(f.Type()); n != nil && p.T.IsIterator(n) {
			return fieldN(it, i), n
		}
	}
	return "", nil
}

func hasIntField(it *types.Named, name string) bool {
	st := it.Underlying().(*types.Struct)
	for i := 0; i < st.NumFields(); i++ {
		if fieldN(it, i) == name && isIntType(st.Field(i).Type()) {
			return true
		}
	}
	return false
}

// sizeTermOf: the epoch-free term of owner.Size() seen from an iterator method (receiver p:0).
func sizeTermOf(c *Ctx, fn *ssa.Function, ownerField string, owner *types.Named) string {
	size := methodsOf(c.p, owner)["Size"]
	if size == nil {
		return ""
	}
	st := &pstate{b: &gcBuilder{p: c.p, e: c.E(), fn: fn, cutIdx: map[string]int{}, out: &GCNF{Fn: fn}}, env: map[ssa.Value]*Term{}, onPath: map[string]bool{}, inl: true}
	recv := nodeL("load", "x", nodeL("fa", ownerField, leaf("p", "0")))
	t, ok := st.inline(size, []*Term{recv})
	if !ok {
		return ""
	}
	return noEpoch(t)
}

var sizeLeaf = leaf("SIZE", "")

func substSize(g *GC, sizeStr string) *GC {
	if sizeStr == "" {
		return g
	}
	return rewriteGC(g, func(t *Term) *Term {
		if (t.Op == "load" || t.Op == "len") && noEpoch(t) == sizeStr {
			return sizeLeaf
		}
		return nil
	})
}

func isIndexLoad(t *Term, ver int) bool {
	return t.Op == "load" && len(t.Args) == 1 && t.Args[0].Op == "fa" && t.Args[0].Leaf == "index" && t.Args[0].Args[0].String() == "p:0" &&
		strings.Contains(t.Leaf, fmt.Sprintf(".f%d.", ver))
}

func countIndexStores(g *GC) int {
	n := 0
	for _, ef := range g.Effects {
		if storeToField(ef, "index") && ef.Args[0].Args[0].String() == "p:0" {
			n++
		}
	}
	return n
}

type cursorFacts struct {
	oldLtSize, oldGeSize bool // idx_old < SIZE / SIZE <= idx_old
	oldGe0, oldLt0       bool // 0 <= idx_old / idx_old < 0
	newLtSize, newGe0    bool // guards imply new < SIZE / 0 <= new
	newOut               bool // guards imply the new index is out of range
	newEq0, newEqLast    bool
}

func isZeroT(t *Term) bool { return t.String() == "#:0" }
func isSize(t *Term) bool  { return t.Op == "SIZE" }

func isRangePred(t *Term, ver int) bool {
	if t.Op != "and" || len(t.Args) != 2 {
		return false
	}
	a, b := t.Args[0], t.Args[1]
	return a.Op == "<=" && isZeroT(a.Args[0]) && isIndexLoad(a.Args[1], ver) && b.Op == "<" && isIndexLoad(b.Args[0], ver) && isSize(b.Args[1])
}

func cursorFactsOf(g *GC, nstores int) cursorFacts {
	var f cursorFacts
	// the new index as a linear form over the old one, when the path's (last) index store says so: guards may then be
	// written over the old index (`old+1 < size` computed in a local before the field is written)
	N := linAtom("N")
	if nstores > 0 {
		var last *Term
		for _, ef := range g.Effects {
			if storeToField(ef, "index") && ef.Args[0].Args[0].String() == "p:0" {
				last = ef.Args[1]
			}
		}
		if last != nil {
			okv := true
			var evO func(t *Term) lin
			evO = func(t *Term) lin {
				if k, ok := t.constInt(); ok {
					return linConst(int(k))
				}
				switch {
				case isIndexLoad(t, 0):
					return linAtom("O")
				case (t.Op == "+" || t.Op == "-") && len(t.Args) == 2:
					sign := 1
					if t.Op == "-" {
						sign = -1
					}
					return evO(t.Args[0]).add(evO(t.Args[1]), sign)
				}
				okv = false
				return linConst(0)
			}
			if v := evO(last); okv && v.c["O"] == 1 {
				N = v
			}
		}
	}
	for _, a := range g.Guards {
		if len(a.Args) == 2 {
			x, y := a.Args[0], a.Args[1]
			switch a.Op {
			case "<":
				if isIndexLoad(x, 0) && isSize(y) {
					f.oldLtSize = true
				}
				if isIndexLoad(x, 0) && isZeroT(y) {
					f.oldLt0 = true
				}
				if isIndexLoad(x, nstores) && isSize(y) {
					f.newLtSize = true
				}
				if isZeroT(x) && isIndexLoad(y, nstores) {
					f.newGe0 = true
				}
				if isIndexLoad(x, nstores) && isZeroT(y) {
					f.newOut = true
				}
			case "<=":
				if isSize(x) && isIndexLoad(y, 0) {
					f.oldGeSize = true
				}
				if isZeroT(x) && isIndexLoad(y, 0) {
					f.oldGe0 = true
				}
				if isZeroT(x) && isIndexLoad(y, nstores) {
					f.newGe0 = true
				}
				if isSize(x) && isIndexLoad(y, nstores) {
					f.newOut = true
				}
			case "==":
				if isZeroT(x) && isIndexLoad(y, nstores) {
					f.newEq0, f.newGe0 = true, true
				}
				// the new index equals the size (it stepped over the last element) or equals -1: outside the range
				if (isSize(x) && isIndexLoad(y, nstores)) || (isSize(y) && isIndexLoad(x, nstores)) {
					f.newOut = true
				}
				if (x.String() == "#:-1" && isIndexLoad(y, nstores)) || (y.String() == "#:-1" && isIndexLoad(x, nstores)) {
					f.newOut = true
				}
				for _, pr := range [][2]*Term{{x, y}, {y, x}} {
					if isIndexLoad(pr[1], nstores) && pr[0].Op == "-" && isSize(pr[0].Args[0]) && pr[0].Args[1].String() == "#:1" {
						f.newEqLast = true
					}
				}
			}
		}
		if a.Op == "!" && isRangePred(a.Args[0], nstores) {
			f.newOut = true
		}
		// equalities written with offsets (`index+1 == size` for `index == size-1`)
		if a.Op == "==" && len(a.Args) == 2 {
			var ev func(t *Term) lin
			ev = func(t *Term) lin {
				if k, ok := t.constInt(); ok {
					return linConst(int(k))
				}
				switch {
				case isSize(t):
					return linAtom("S")
				case isIndexLoad(t, nstores):
					return N
				case isIndexLoad(t, 0):
					return linAtom("O")
				case t.Op == "+" && len(t.Args) == 2:
					return ev(t.Args[0]).add(ev(t.Args[1]), 1)
				case t.Op == "-" && len(t.Args) == 2:
					return ev(t.Args[0]).add(ev(t.Args[1]), -1)
				}
				return linAtom(noEpoch(t))
			}
			form := ev(a.Args[0]).add(ev(a.Args[1]), -1)
			neg := linConst(0).add(form, -1)
			last := N.add(linAtom("S"), -1).add(linConst(1), 1) // N - S + 1 = 0
			if form.String() == last.String() || neg.String() == last.String() {
				f.newEqLast = true
			}
			if form.String() == N.String() || neg.String() == N.String() {
				f.newEq0, f.newGe0 = true, true
			}
		}
		// the same facts written with offsets (`index > size-1`, `index+1 <= size`, …): compare as linear forms "… <= 0"
		if (a.Op == "<" || a.Op == "<=") && len(a.Args) == 2 {
			var ev func(t *Term) lin
			ev = func(t *Term) lin {
				if k, ok := t.constInt(); ok {
					return linConst(int(k))
				}
				switch {
				case isSize(t):
					return linAtom("S")
				case isIndexLoad(t, nstores):
					return N
				case isIndexLoad(t, 0):
					return linAtom("O")
				case t.Op == "+" && len(t.Args) == 2:
					return ev(t.Args[0]).add(ev(t.Args[1]), 1)
				case t.Op == "-" && len(t.Args) == 2:
					return ev(t.Args[0]).add(ev(t.Args[1]), -1)
				}
				return linAtom(noEpoch(t))
			}
			form := ev(a.Args[0]).add(ev(a.Args[1]), -1)
			if a.Op == "<" {
				form = form.add(linConst(1), 1)
			}
			O, S, one := linAtom("O"), linAtom("S"), linConst(1)
			zero := linConst(0)
			// form <= 0 is known; a target T <= 0 follows when T = form + c with c <= 0
			implies := func(target lin) bool {
				d := target.add(form, -1)
				return len(d.c) == 0 && d.k <= 0
			}
			if implies(N.add(S, -1).add(one, 1)) { // N - S + 1 <= 0
				f.newLtSize = true
			}
			if implies(zero.add(N, -1)) { // -N <= 0
				f.newGe0 = true
			}
			if implies(N.add(one, 1)) || implies(S.add(N, -1)) { // N + 1 <= 0, S - N <= 0
				f.newOut = true
			}
			if nstores == 0 {
				O = N
			}
			switch form.String() {
			case O.add(S, -1).add(one, 1).String():
				f.oldLtSize = true
			case S.add(O, -1).String():
				f.oldGeSize = true
			case zero.add(O, -1).String():
				f.oldGe0 = true
			case O.add(one, 1).String():
				f.oldLt0 = true
			}
		}
	}
	return f
}

func ruleR14(c *Ctx) *RuleResult {
	p := c.p
	r := &RuleResult{Rule: "R14", Title: "CURSOR: all iterator types follow one cursor protocol over positions -1..n", Floor: 150}
	clMove := "Next (Prev) advances the index by one exactly when it is below n (at least 0), never otherwise — it saturates at n (-1) — and reports true exactly when the new position is inside 0..n-1"
	clJump := "Begin/End store -1 / n (tree cursors: nil + begin/end); Index() returns the stored index"
	clFirst := "First ≡ Begin;Next and Last ≡ End;Prev"
	clTo := "NextTo/PrevTo ≡ for Next()/Prev() { if f(Index()|Key(), Value()) return true }; return false"
	clElem := "linked cursors keep the element pointer in step with the index: list.first at 0, list.last at n-1 (or when the pointer was nil), element.next/prev otherwise"
	clWrap := "wrapper iterators forward every cursor operation to the same operation of the iterator they wrap"
	clTree := "tree cursors: Next from 'begin' starts at the leftmost entry, Prev from 'end' at the rightmost; Next at 'end' and Prev at 'begin' change nothing"
	add := func(rule, key, clause, pos string, bad []string, facts string) {
		if len(bad) > 0 {
			r.add(Obligation{Key: rule + ":" + key, Rule: rule, Clause: clause, Pos: pos, Status: Violated, Facts: strings.Join(dedup(bad), "\n")})
		} else {
			r.add(Obligation{Key: rule + ":" + key, Rule: rule, Clause: clause, Pos: pos, Status: Discharged, Facts: facts})
		}
	}
	for _, it := range p.T.Iterators {
		tk := p.TypeKey(it)
		ms := methodsOf(p, it)
		wrapF, wrapT := wrappedIter(p, it)
		ownerF, ownerT := iterOwner(p, it)
		hasIndex := hasIntField(it, "index")
		// ---------- wrappers (G3) ----------
		if wrapT != nil && !hasIndex {
			for _, name := range []string{"Next", "Prev", "Begin", "End", "First", "Last", "Index", "Key", "Value", "NextTo", "PrevTo"} {
				fn := ms[name]
				if fn == nil {
					continue
				}
				key := tk + "." + name
				f := forwardInfo(fn)
				inner := methodsOf(p, wrapT)
				switch {
				case f != nil && fieldName(fn, f.Field) == wrapF && f.ArgsThru && (f.Callee.Name() == name || (name == "Key" && inner["Key"] == nil && f.Callee.Name() == "Value")):
					add("R14wrap", key, clWrap, p.FuncPos(fn), nil, "forwards to "+wrapF+"."+f.Callee.Name()+"()")
				case name == "Value" && inner["Key"] == nil:
					// linked map: the wrapped list iterator yields the key; the value is the table entry of that key
					ok := false
					if t := returnTerm(c.GC(fn)); t != nil && t.Op == "lookup" && hasField(t.Args[1], wrapF) {
						ok = true
					}
					if ok {
						add("R14wrap", key, clWrap, p.FuncPos(fn), nil, "table lookup of the wrapped iterator's current key")
					} else {
						add("R14wrap", key, clWrap, p.FuncPos(fn), []string{"Value() is neither a forwarder nor the table entry of the wrapped iterator's key"}, "")
					}
				case name == "NextTo" || name == "PrevTo":
					bad := checkToLoop(c, it, fn, name)
					add("R14to", key, clTo, p.FuncPos(fn), bad, "canonical search loop over the own "+strings.TrimSuffix(name, "To")+"()")
				case name == "First" || name == "Last":
					// not a forwarder: the composition of the wrapper's own Begin;Next / End;Prev is the same thing (they forward
					// to the inner Begin/Next, and the inner First is the inner Begin;Next by its own obligation)
					pre, step := "Begin", "Next"
					if name == "Last" {
						pre, step = "End", "Prev"
					}
					gcw := c.GC(fn)
					okc := len(gcw.GCs) == 1 && len(gcw.GCs[0].Effects) == 2
					if okc {
						g := gcw.GCs[0]
						n1, a1, ok1 := effDo(g.Effects[0])
						n2, a2, ok2 := effDo(g.Effects[1])
						okc = ok1 && ok2 && n1 == pre && n2 == step && len(a1) == 1 && len(a2) == 1 && a1[0].String() == "p:0" && a2[0].String() == "p:0" &&
							g.Exit.Op == "return" && len(g.Exit.Args) == 1 && g.Exit.Args[0].Op == "res" && g.Exit.Args[0].Args[0].String() == g.Effects[1].String() &&
							strings.HasPrefix(g.Effects[0].Leaf, p.RelPkg(it.Obj().Pkg().Path())+".(*"+it.Obj().Name()+")")
					}
					if !okc {
						if eq, _ := firstIsComposition(c, it, fn, ms[pre], ms[step], "", nil); eq {
							okc = true
						}
					}
					if okc {
						add("R14wrap", key, clWrap, p.FuncPos(fn), nil, name+" ≡ "+pre+";"+step+" on the wrapper itself")
					} else {
						add("R14wrap", key, clWrap, p.FuncPos(fn), []string{name + "() is neither a pure forwarder to " + wrapF + "." + name + "() nor " + pre + "(); return " + step + "()"}, "")
					}
				default:
					add("R14wrap", key, clWrap, p.FuncPos(fn), []string{name + "() is not a pure forwarder to " + wrapF + "." + name + "()"}, "")
				}
			}
			continue
		}
		// ---------- First/Last, NextTo/PrevTo for everything else ----------
		for _, pr := range [][3]string{{"First", "Begin", "Next"}, {"Last", "End", "Prev"}} {
			fn := ms[pr[0]]
			if fn == nil {
				continue
			}
			gc := c.GC(fn)
			var bad []string
			ok := len(gc.GCs) == 1 && len(gc.GCs[0].Effects) == 2
			if ok {
				g := gc.GCs[0]
				n1, a1, ok1 := effDo(g.Effects[0])
				n2, a2, ok2 := effDo(g.Effects[1])
				ok = ok1 && ok2 && n1 == pr[1] && n2 == pr[2] && len(a1) == 1 && len(a2) == 1 && a1[0].String() == "p:0" && a2[0].String() == "p:0" &&
					g.Exit.Op == "return" && len(g.Exit.Args) == 1 && g.Exit.Args[0].Op == "res" && g.Exit.Args[0].Args[0].String() == g.Effects[1].String() &&
					strings.HasPrefix(g.Effects[0].Leaf, p.RelPkg(it.Obj().Pkg().Path())+".(*"+it.Obj().Name()+")")
			}
			facts := pr[0] + " ≡ " + pr[1] + ";" + pr[2]
			if !ok {
				// not written as the composition: decide the equivalence by symbolic evaluation of both sides
				if eq, why := firstIsComposition(c, it, fn, ms[pr[1]], ms[pr[2]], ownerF, ownerT); eq {
					facts += " (not written as that composition; both sides evaluated symbolically from an arbitrary iterator state, for every size: same final fields, same calls, same result)"
				} else {
					bad = append(bad, fmt.Sprintf("%s() is not %s(); return %s() on the same iterator, and evaluating both sides does not show them equal (%s)", pr[0], pr[1], pr[2], why))
				}
			}
			add("R14first", tk+"."+pr[0], clFirst, p.FuncPos(fn), bad, facts)
		}
		for _, name := range []string{"NextTo", "PrevTo"} {
			if fn := ms[name]; fn != nil {
				add("R14to", tk+"."+name, clTo, p.FuncPos(fn), checkToLoop(c, it, fn, name), "canonical search loop over the own "+strings.TrimSuffix(name, "To")+"()")
			}
		}
		// ---------- index cursors (G1, G2, G5) ----------
		if hasIndex {
			if ownerT == nil {
				add("R14move", tk, clMove, p.Pos(it.Obj().Pos()), []string{"iterator has an index but no owner container field"}, "")
				continue
			}
			for _, dir := range []string{"Next", "Prev"} {
				fn := ms[dir]
				if fn == nil {
					continue
				}
				sizeStr := sizeTermOf(c, fn, ownerF, ownerT)
				gc := c.GC(fn)
				var bad []string
				if sizeStr == "" || gc.Undecided != "" {
					bad = append(bad, "could not compute the size term / normal form "+gc.Undecided)
				}
				linked := hasPtrField(it, "element")
				var badElem []string
				// invariant "the element pointer is nil whenever the index is outside 0..n-1": established iff every path of
				// Next, Prev and Begin that leaves the range stores nil into it. Only under this invariant may a mover anchor
				// on "element == nil" instead of on the index (two edits that are each harmless — anchoring on nil, and no
				// longer clearing on leave — break the cursor together).
				nilOutside := linked && elementNilOutsideRange(c, ms, ownerF, ownerT)
				for _, g0 := range gc.GCs {
					g := substSize(g0, sizeStr)
					n := countIndexStores(g)
					f := cursorFactsOf(g, n)
					// the step
					var stepVal *Term
					moved := 0 // stores that change the index (writing a local copy back unchanged is no move)
					for _, ef := range g.Effects {
						if storeToField(ef, "index") && ef.Args[0].Args[0].String() == "p:0" {
							stepVal = ef.Args[1]
							if !isIndexLoad(ef.Args[1], 0) {
								moved++
							}
						}
					}
					if dir == "Next" {
						switch {
						case f.oldLtSize && !f.oldGeSize:
							if n != 1 || stepVal.Op != "+" || stepVal.Args[0].String() != "#:1" || !isIndexLoad(stepVal.Args[1], 0) {
								bad = append(bad, "with index < n, Next does not store index+1 exactly once: "+trunc(g.String(), 300))
							}
						case f.oldGeSize && !f.oldLtSize:
							if moved != 0 {
								bad = append(bad, "with index >= n, Next still moves the index (no saturation at n): "+trunc(g.String(), 300))
							}
						default:
							bad = append(bad, "a path of Next does not compare the index with the container size: "+trunc(g.String(), 300))
						}
					} else {
						switch {
						case f.oldGe0 && !f.oldLt0:
							if n != 1 || stepVal.Op != "-" || !isIndexLoad(stepVal.Args[0], 0) || stepVal.Args[1].String() != "#:1" {
								bad = append(bad, "with index >= 0, Prev does not store index-1 exactly once: "+trunc(g.String(), 300))
							}
						case f.oldLt0 && !f.oldGe0:
							if moved != 0 {
								bad = append(bad, "with index < 0, Prev still moves the index (no saturation at -1): "+trunc(g.String(), 300))
							}
						default:
							bad = append(bad, "a path of Prev does not compare the index with 0: "+trunc(g.String(), 300))
						}
					}
					// the result
					if g.Exit.Op != "return" || len(g.Exit.Args) != 1 {
						bad = append(bad, "unexpected exit "+g.Exit.String())
						continue
					}
					res := g.Exit.Args[0]
					inRange, outRange := f.newLtSize && f.newGe0, f.newOut
					switch {
					case isRangePred(res, n):
					case res.Op == "<" && len(res.Args) == 2 && isIndexLoad(res.Args[0], n) && isSize(res.Args[1]) && f.newGe0:
						// `index >= 0 && index < n` written out in the mover itself: this path already knows 0 <= index
					case res.Op == "<=" && len(res.Args) == 2 && isZeroT(res.Args[0]) && isIndexLoad(res.Args[1], n) && f.newLtSize:
						// … or already knows index < n
					case res.Op == "<" && len(res.Args) == 2 && isIndexLoad(res.Args[0], n) && isSize(res.Args[1]) && dir == "Next" && moved == 1 &&
						stepVal.Op == "+" && stepVal.Args[0].String() == "#:1" && isIndexLoad(stepVal.Args[1], 0):
						// after index+1 the lower half holds by the cursor invariant -1 <= index <= n, which this very rule
						// establishes for every mover (saturation at both ends, Begin/End store -1 / n)
					case res.Op == "<=" && len(res.Args) == 2 && isZeroT(res.Args[0]) && isIndexLoad(res.Args[1], n) && dir == "Prev" && moved == 1 &&
						stepVal.Op == "-" && isIndexLoad(stepVal.Args[0], 0) && stepVal.Args[1].String() == "#:1":
						// mirror: after index-1 the upper half holds by the same invariant
					case res.Op == "res" && wrapT != nil && strings.HasSuffix(res.Args[0].Leaf, ")."+dir) && hasField(res.Args[0], wrapF):
						// treeset: result of the wrapped tree iterator
					case res.String() == "#:true":
						// after a single step index+1 from an index known below n, "new index != n" is "new index < n"; the lower
						// half holds by the cursor invariant -1 <= index (as above). Mirror for Prev.
						if !inRange && moved == 1 {
							neSize, neMinus1 := false, false
							for _, a := range g.Guards {
								if a.Op == "!=" && len(a.Args) == 2 {
									x, y := a.Args[0], a.Args[1]
									if (isSize(x) && isIndexLoad(y, n)) || (isSize(y) && isIndexLoad(x, n)) {
										neSize = true
									}
									if (x.String() == "#:-1" && isIndexLoad(y, n)) || (y.String() == "#:-1" && isIndexLoad(x, n)) {
										neMinus1 = true
									}
								}
							}
							if dir == "Next" && stepVal.Op == "+" && stepVal.Args[0].String() == "#:1" && isIndexLoad(stepVal.Args[1], 0) && f.oldLtSize && (neSize || f.newLtSize) {
								inRange = true
							}
							if dir == "Prev" && stepVal.Op == "-" && isIndexLoad(stepVal.Args[0], 0) && stepVal.Args[1].String() == "#:1" && f.oldGe0 && (neMinus1 || f.newGe0) && f.newLtSize {
								inRange = true
							}
						}
						if !inRange {
							bad = append(bad, dir+" returns true on a path that does not establish 0 <= index < n: "+trunc(g.String(), 300))
						}
					case res.String() == "#:false":
						if !outRange {
							bad = append(bad, dir+" returns false on a path that does not establish that the index is outside 0..n-1: "+trunc(g.String(), 300))
						}
					default:
						bad = append(bad, dir+" returns "+trunc(res.String(), 200)+", neither the range predicate of the new index nor a constant justified by the guards")
					}
					// linked cursors: the element pointer
					if linked {
						var elemVal *Term
						for _, ef := range g.Effects {
							if storeToField(ef, "element") && ef.Args[0].Args[0].String() == "p:0" {
								elemVal = ef.Args[1]
							}
						}
						isTrue := res.String() == "#:true" || (isRangePred(res, n) && inRange)
						// what does this path know about the old element pointer?
						elemNil, elemNonNil := false, false
						for _, a := range g.Guards {
							if (a.Op == "==" || a.Op == "!=") && len(a.Args) == 2 && a.Args[0].String() == "#:nil" && a.Args[1].Op == "load" && a.Args[1].Args[0].Op == "fa" && a.Args[1].Args[0].Leaf == "element" && a.Args[1].Args[0].Args[0].String() == "p:0" {
								if a.Op == "==" {
									elemNil = true
								} else {
									elemNonNil = true
								}
							}
						}
						if isTrue && !outRange {
							anchor, follow := "first", "next"
							atEdge := f.newEq0
							if dir == "Prev" {
								anchor, follow = "last", "prev"
								atEdge = f.newEqLast
							}
							isAnchor := elemVal != nil && elemVal.Op == "load" && elemVal.Args[0].Op == "fa" && elemVal.Args[0].Leaf == anchor && hasField(elemVal, ownerF)
							isFollow := elemVal != nil && elemVal.Op == "load" && elemVal.Args[0].Op == "fa" && elemVal.Args[0].Leaf == follow && hasField(elemVal.Args[0].Args[0], "element")
							switch {
							case isAnchor && atEdge:
							case isAnchor && elemNil && nilOutside:
							case isFollow && !atEdge && !elemNil:
							case isFollow && elemNonNil && nilOutside:
							case (elemNil || elemNonNil) && !nilOutside:
								badElem = append(badElem, fmt.Sprintf("%s decides by 'element == nil' whether to re-anchor, but the element pointer is not cleared on every path that leaves the range (Next/Prev/Begin): after running off one end the stale pointer is followed — %s", dir, trunc(g.String(), 240)))
							default:
								badElem = append(badElem, fmt.Sprintf("%s inside the range must set the element to list.%s at the edge (or when it was nil) and to element.%s otherwise: %s", dir, anchor, follow, trunc(g.String(), 300)))
							}
						}
					}
				}
				add("R14move", tk+"."+dir, clMove, p.FuncPos(fn), bad, fmt.Sprintf("%d paths: step and result agree with the saturating cursor over -1..n (n = %s)", len(gc.GCs), trunc(sizeStr, 80)))
				if linked {
					add("R14elem", tk+"."+dir, clElem, p.FuncPos(fn), badElem, "element pointer follows the index on every path")
				}
			}
			// Begin / End / Index
			for _, j := range []struct{ name, want string }{{"Begin", "#:-1"}, {"End", "SIZE"}} {
				fn := ms[j.name]
				if fn == nil {
					continue
				}
				sizeStr := sizeTermOf(c, fn, ownerF, ownerT)
				gc := c.GC(fn)
				var bad []string
				if len(gc.GCs) != 1 {
					bad = append(bad, j.name+" is not a single path")
				} else {
					g := substSize(gc.GCs[0], sizeStr)
					ok := false
					for _, ef := range g.Effects {
						if storeToField(ef, "index") && ef.Args[0].Args[0].String() == "p:0" {
							ok = ef.Args[1].String() == j.want || (j.want == "SIZE" && isSize(ef.Args[1]))
						}
					}
					if !ok {
						bad = append(bad, fmt.Sprintf("%s does not store %s into the index", j.name, map[string]string{"#:-1": "-1", "SIZE": "the container size"}[j.want]))
					}
				}
				add("R14jump", tk+"."+j.name, clJump, p.FuncPos(fn), bad, j.name+" stores "+j.want)
			}
			if fn := ms["Index"]; fn != nil {
				t := returnTerm(c.GC(fn))
				var bad []string
				if t == nil || !(t.Op == "load" && t.Args[0].Op == "fa" && t.Args[0].Leaf == "index" && t.Args[0].Args[0].String() == "p:0") {
					bad = append(bad, "Index() does not return the stored index")
				}
				add("R14jump", tk+".Index", clJump, p.FuncPos(fn), bad, "returns iterator.index")
			}
			continue
		}
		// ---------- tree cursors (G4) ----------
		if hasFieldNamed(it, "position") {
			var bad []string
			posC := func(v int) string { return fmt.Sprintf("#:%d:position", v) }
			// Begin / End
			for _, j := range []struct {
				name string
				v    int
			}{{"Begin", 0}, {"End", 2}} {
				fn := ms[j.name]
				if fn == nil {
					continue
				}
				gc := c.GC(fn)
				ok := len(gc.GCs) == 1
				okPos, okNode := false, false
				if ok {
					for _, ef := range gc.GCs[0].Effects {
						if storeToField(ef, "position") && ef.Args[1].String() == posC(j.v) {
							okPos = true
						}
						if storeToField(ef, "node") && ef.Args[1].String() == "#:nil" {
							okNode = true
						}
					}
				}
				var b []string
				if !okPos || !okNode {
					b = append(b, fmt.Sprintf("%s does not store (nil, %s)", j.name, map[int]string{0: "begin", 2: "end"}[j.v]))
				}
				add("R14jump", tk+"."+j.name, clJump, p.FuncPos(fn), b, "stores node=nil and the sentinel position")
			}
			// invariant: whenever a sentinel position is stored, node is nil (stored nil on the same path, or tested nil)
			sentinelInv := true
			for _, mname := range sortedNames(ms) {
				for _, g := range c.GC(ms[mname]).GCs {
					setsSentinel, setsNil, knowsNil := false, false, false
					for _, ef := range g.Effects {
						if storeToField(ef, "position") && (ef.Args[1].String() == posC(0) || ef.Args[1].String() == posC(2)) {
							setsSentinel = true
						}
						if storeToField(ef, "node") && (ef.Args[1].String() == "#:nil" || knownNil(g, ef.Args[1])) {
							setsNil = true // literally nil, or a value the path has tested to be nil
						}
					}
					for _, a := range g.Guards {
						if a.Op == "==" && (a.Args[0].String() == "#:nil") && a.Args[1].Op == "load" && a.Args[1].Args[0].Op == "fa" && a.Args[1].Args[0].Leaf == "node" {
							knowsNil = true
						}
					}
					if setsSentinel && !setsNil && !knowsNil {
						sentinelInv = false
						bad = append(bad, mname+" stores a sentinel position on a path where node is not nil")
					}
				}
			}
			// Next from begin / saturation at end; Prev dual
			for _, d := range []struct {
				name, start string
				from, sat   int
			}{{"Next", "Left", 0, 2}, {"Prev", "Right", 2, 0}} {
				fn := ms[d.name]
				if fn == nil {
					continue
				}
				gc := c.GC(fn)
				nStart, nSat := 0, 0
				for _, g := range gc.GCs {
					if g.From != 0 {
						continue
					}
					atFrom, atSat := false, false
					neFrom, neMid, nodeNonNil := false, false, false
					for _, a := range g.Guards {
						if (a.Op == "==" || a.Op == "!=") && hasField(a, "position") {
							isC := func(v int) bool { return a.Args[0].String() == posC(v) || a.Args[1].String() == posC(v) }
							if a.Op == "==" && isC(d.from) {
								atFrom = true
							}
							if a.Op == "==" && isC(d.sat) {
								atSat = true
							}
							if a.Op == "!=" && isC(d.from) {
								neFrom = true
							}
							if a.Op == "!=" && isC(1) {
								neMid = true
							}
						}
						if a.Op == "!=" && (a.Args[0].String() == "#:nil" || a.Args[1].String() == "#:nil") && hasField(a, "node") && !hasField(a, "Left") && !hasField(a, "Right") && !hasField(a, "Parent") && !hasField(a, "Children") {
							nodeNonNil = true
						}
					}
					if neFrom && neMid {
						atSat = true // the switch is exhausted: only the saturation sentinel remains
						if nodeNonNil && sentinelInv {
							continue // node != nil at a sentinel is excluded by the invariant checked below
						}
					}
					if atFrom {
						nStart++
						// the node must come from tree.Left()/Right()
						usesStart := false
						chk := func(t *Term) bool {
							if t.Op == "call" && (strings.EqualFold(lastIdent(t.Leaf), d.start) || (strings.HasSuffix(t.Leaf, ").bottom") && len(t.Args) == 3 && t.Args[2].String() == map[string]string{"Left": "#:0", "Right": "#:1"}[d.start])) {
								usesStart = true
							}
							return false
						}
						for _, a := range g.Guards {
							a.any(chk)
						}
						for _, ef := range g.Effects {
							ef.any(chk)
						}
						if !usesStart {
							bad = append(bad, fmt.Sprintf("%s from the '%s' sentinel does not start at tree.%s()", d.name, map[int]string{0: "begin", 2: "end"}[d.from], d.start))
						}
					}
					if atSat {
						nSat++
						for _, ef := range g.Effects {
							okEf := (storeToField(ef, "position") && ef.Args[1].String() == posC(d.sat)) || (storeToField(ef, "node") && ef.Args[1].String() == "#:nil") ||
								(storeToField(ef, "entry") && ef.Args[1].String() == "#:nil") || (ef.Op == "do" && strings.HasSuffix(ef.Leaf, map[int]string{2: ").End", 0: ").Begin"}[d.sat]))
							if !okEf {
								bad = append(bad, fmt.Sprintf("%s at its saturation sentinel changes state: %s", d.name, trunc(ef.String(), 160)))
							}
						}
						if g.Exit.Op != "return" || len(g.Exit.Args) != 1 || g.Exit.Args[0].String() != "#:false" {
							bad = append(bad, d.name+" at its saturation sentinel does not return false")
						}
					}
				}
				if nStart == 0 {
					bad = append(bad, d.name+": no path for the starting sentinel found")
				}
				if nSat == 0 {
					bad = append(bad, d.name+": no path for the saturation sentinel found")
				}
			}
			add("R14tree", tk, clTree, p.Pos(it.Obj().Pos()), bad, "start at leftmost/rightmost, saturate at the sentinels")
		}
	}
	return r
}

func hasPtrField(it *types.Named, name string) bool {
	st := it.Underlying().(*types.Struct)
	for i := 0; i < st.NumFields(); i++ {
		if fieldN(it, i) == name {
			_, ok := types.Unalias(st.Field(i).Type()).(*types.Pointer)
			return ok
		}
	}
	return false
}

func hasFieldNamed(it *types.Named, name string) bool {
	st := it.Underlying().(*types.Struct)
	for i := 0; i < st.NumFields(); i++ {
		if fieldN(it, i) == name {
			return true
		}
	}
	return false
}

// checkToLoop: NextTo/PrevTo is the canonical search loop (or a forwarder to the wrapped iterator's NextTo/PrevTo).
func checkToLoop(c *Ctx, it *types.Named, fn *ssa.Function, name string) []string {
	p := c.p
	step := strings.TrimSuffix(name, "To")
	if f := forwardInfo(fn); f != nil && f.Callee.Name() == name && f.ArgsThru {
		return nil
	}
	gc := c.GC(fn)
	if gc.Undecided != "" {
		return []string{"normal form not built: " + gc.Undecided}
	}
	ms := methodsOf(p, it)
	keyName := "Index"
	if ms["Key"] != nil && ms["Index"] == nil {
		keyName = "Key"
	}
	kT, vT := returnTerm(c.GC(ms[keyName])), returnTerm(c.GC(ms["Value"]))
	var bad []string
	own := p.RelPkg(it.Obj().Pkg().Path()) + ".(*" + it.Obj().Name() + ")." + step
	nTrue, nFalse, nLoop, nEntry := 0, 0, 0, 0
	for _, g := range gc.GCs {
		if g.From == 0 {
			nEntry++
			if len(g.Effects) != 0 || g.Exit.Op != "goto" {
				bad = append(bad, "unexpected work before the loop")
			}
			continue
		}
		// every iteration starts with the own step — or, where the own step is nothing but the wrapped iterator's step handed
		// back (a one-path forwarder: judged as such by R14wrap), with that very call written out
		if len(g.Effects) == 0 || g.Effects[0].Op != "do" || g.Effects[0].Leaf != own || g.Effects[0].Args[0].String() != "p:0" {
			writtenOut := false
			if sf := ms[step]; sf != nil && len(g.Effects) > 0 && g.Effects[0].Op == "do" {
				if sg := c.GC(sf); sg.Undecided == "" && len(sg.GCs) == 1 && len(sg.GCs[0].Guards) == 0 && len(sg.GCs[0].Effects) == 1 {
					e0, ex := sg.GCs[0].Effects[0], sg.GCs[0].Exit
					if e0.Op == "do" && ex.Op == "return" && len(ex.Args) == 1 && ex.Args[0].Op == "res" && len(ex.Args[0].Args) == 1 && ex.Args[0].Args[0].String() == e0.String() && noEpoch(e0) == noEpoch(g.Effects[0]) {
						writtenOut = true
					}
				}
			}
			if !writtenOut {
				bad = append(bad, "a loop iteration does not start with the own "+step+"()")
				continue
			}
		}
		stepped, called := 0, (*Term)(nil)
		calledPol := false
		for _, a := range g.Guards {
			x, pol := a, true
			if x.Op == "!" {
				x, pol = x.Args[0], false
			}
			if x.Op == "res" && x.Args[0].String() == g.Effects[0].String() {
				if pol {
					stepped = 1
				} else {
					stepped = -1
				}
			}
			if x.Op == "dyn" && x.Args[0].String() == "p:1" {
				called, calledPol = x, pol
			}
		}
		switch {
		case stepped == -1:
			nFalse++
			if called != nil || g.Exit.String() != "(return #:false)" || len(g.Effects) != 1 {
				bad = append(bad, "when "+step+"() fails the loop must return false without calling f")
			}
		case stepped == 1 && called != nil:
			if len(called.Args) != 3 {
				bad = append(bad, "f is not called with (index|key, value)")
			} else {
				ownCall := func(t *Term, m string) bool {
					return t.Op == "call" && t.Leaf == p.RelPkg(it.Obj().Pkg().Path())+".(*"+it.Obj().Name()+")."+m && len(t.Args) == 2 && t.Args[1].String() == "p:0"
				}
				if !(kT != nil && noEpoch(called.Args[1]) == kT.String()) && !ownCall(called.Args[1], keyName) {
					bad = append(bad, "the first argument of f is not the iterator's own "+keyName+"()")
				}
				if !(vT != nil && noEpoch(called.Args[2]) == vT.String()) && !ownCall(called.Args[2], "Value") {
					bad = append(bad, "the second argument of f is not the iterator's own Value()")
				}
			}
			if calledPol {
				nTrue++
				if g.Exit.String() != "(return #:true)" {
					bad = append(bad, "a hit does not return true")
				}
			} else {
				nLoop++
				if g.Exit.Op != "goto" {
					bad = append(bad, "a miss does not continue the loop")
				}
			}
		default:
			bad = append(bad, "a loop path neither tests "+step+"() nor calls f")
		}
	}
	if nEntry != 1 || nTrue != 1 || nFalse != 1 || nLoop != 1 {
		bad = append(bad, fmt.Sprintf("expected exactly the paths entry/hit/miss/exhausted, found %d/%d/%d/%d", nEntry, nTrue, nLoop, nFalse))
	}
	return bad
}

// elementNilOutsideRange: every path of Next/Prev that returns false (left the range), and Begin, store nil into the element pointer.
func elementNilOutsideRange(c *Ctx, ms map[string]*ssa.Function, ownerF string, ownerT *types.Named) bool {
	for _, name := range []string{"Next", "Prev", "Begin"} {
		fn := ms[name]
		if fn == nil {
			continue
		}
		sizeStr := sizeTermOf(c, fn, ownerF, ownerT)
		for _, g0 := range c.GC(fn).GCs {
			g := substSize(g0, sizeStr)
			leaves := name == "Begin"
			if g.Exit.Op == "return" && len(g.Exit.Args) == 1 {
				n := countIndexStores(g)
				f := cursorFactsOf(g, n)
				if g.Exit.Args[0].String() == "#:false" || f.newOut {
					leaves = true
				}
			}
			if !leaves {
				continue
			}
			cleared := false
			for _, ef := range g.Effects {
				if storeToField(ef, "element") && ef.Args[0].Args[0].String() == "p:0" && ef.Args[1].String() == "#:nil" {
					cleared = true
				}
			}
			if !cleared {
				return false
			}
		}
	}
	return true
}

// ---- R29 BTREEWALK: the B-tree iterator follows the in-order successor / predecessor rule ----

func isSearchIdx(t *Term) bool {
	return t.Op == "ext" && t.Leaf == "0" && len(t.Args) == 1 && t.Args[0].Op == "call" && strings.HasSuffix(t.Args[0].Leaf, ").search")
}

func ruleR29(c *Ctx) *RuleResult {
	p := c.p
	r := &RuleResult{Rule: "R29", Title: "BTREEWALK: the B-tree iterator follows the in-order successor / predecessor rule", Floor: 2}
	it := typeByKey(p, "trees/btree.Iterator")
	if it == nil {
		r.undecided("trees/btree.Iterator", "btree walk", "-", "anchored type not found")
		return r
	}
	ms := methodsOf(p, it)
	type dirSpec struct {
		name                      string
		inNode, descend, climbIdx func(idx *Term) bool // shapes of the index relative to the search result e
		extreme                   func(idx *Term, coll string) bool
	}
	isEplus1 := func(t *Term) bool { return t.Op == "+" && t.Args[0].String() == "#:1" && isSearchIdx(t.Args[1]) }
	isEminus1 := func(t *Term) bool { return t.Op == "-" && isSearchIdx(t.Args[0]) && t.Args[1].String() == "#:1" }
	first := func(t *Term, coll string) bool { return t.String() == "#:0" }
	last := func(t *Term, coll string) bool {
		return t.Op == "-" && t.Args[1].String() == "#:1" && t.Args[0].Op == "len" && hasField(t.Args[0], coll)
	}
	specs := []dirSpec{
		{"Next", isEplus1, isEplus1, isSearchIdx, first},
		{"Prev", isEminus1, isSearchIdx, isEminus1, last},
	}
	for _, sp := range specs {
		fn := ms[sp.name]
		clause := "from entry e of a node: if the node has the adjoining child, go to the extreme entry of that subtree on the far side; else take the neighbouring entry of the node if there is one; else climb until the parent has an entry on the near side — with the indices e+1 / e (Next) and e-1 / e (Prev) in exactly these roles, each guarded by its bound"
		key := "trees/btree.Iterator." + sp.name
		if fn == nil {
			r.undecided(key, clause, "-", "anchored method not found")
			continue
		}
		gc := c.GC(fn)
		var bad []string
		nIn, nDesc, nExt, nClimb := 0, 0, 0, 0
		boundedBy := func(g *GC, idx *Term, coll string) bool {
			// the path knows idx < len(node.<coll>) (or 0 <= idx for a decrement)
			// (linear reading: `e > 0` bounds e-1 as well as `e-1 >= 0` does)
			li := linOf(idx)
			for _, a := range g.Guards {
				if (a.Op != "<" && a.Op != "<=") || len(a.Args) != 2 {
					continue
				}
				strict := 0
				if a.Op == "<" {
					strict = 1
				}
				if a.Args[1].Op == "len" && hasField(a.Args[1], coll) {
					// len - A >= strict; idx < len follows when A - idx + strict - 1 is a constant >= 0
					if d := linOf(a.Args[0]).add(li, -1); len(d.c) == 0 && d.k+strict-1 >= 0 {
						return true
					}
				}
				// Y - X >= strict; 0 <= idx follows when idx - (Y - X) + strict is a constant >= 0
				if d := li.add(linOf(a.Args[1]), -1).add(linOf(a.Args[0]), 1); len(d.c) == 0 && d.k+strict >= 0 {
					return true
				}
			}
			return false
		}
		for _, g := range gc.GCs {
			for _, ef := range g.Effects {
				if !isStore(ef) || ef.Args[0].Op != "fa" || ef.Args[0].Args[0].String() != "p:0" {
					continue
				}
				v := ef.Args[1]
				switch ef.Args[0].Leaf {
				case "entry":
					if v.String() == "#:nil" {
						continue
					}
					if !(v.Op == "load" && v.Args[0].Op == "ia" && hasField(v.Args[0].Args[0], "Entries")) {
						bad = append(bad, sp.name+" sets the entry to something that is not an entry of a node: "+trunc(noEpoch(v), 120))
						continue
					}
					idx := v.Args[0].Args[1]
					switch {
					case sp.extreme(idx, "Entries"):
						nExt++ // after a descent (or from the sentinel): the extreme entry of the leaf
					case sp.inNode(idx) && g.From == 0:
						nIn++
						if !boundedBy(g, idx, "Entries") {
							bad = append(bad, sp.name+" steps to the neighbouring entry without knowing that it exists")
						}
						// only when there is no adjoining child
						noChild := false
						for _, a := range g.Guards {
							if a.Op == "<=" && a.Args[0].Op == "len" && hasField(a.Args[0], "Children") {
								noChild = true
							}
						}
						if !noChild {
							bad = append(bad, sp.name+" steps inside the node although an adjoining child may exist (its subtree would be skipped)")
						}
					case sp.climbIdx(idx) && g.From != 0:
						nClimb++
						if !boundedBy(g, idx, "Entries") {
							bad = append(bad, sp.name+" takes a parent entry while climbing without knowing that it exists")
						}
						climbed := false
						for _, e2 := range g.Effects {
							if storeToField(e2, "node") && e2.Args[1].Op == "load" && e2.Args[1].Args[0].Op == "fa" && e2.Args[1].Args[0].Leaf == "Parent" {
								climbed = true
							}
						}
						if !climbed {
							bad = append(bad, sp.name+" takes an entry by the climb rule without moving to the parent")
						}
					default:
						bad = append(bad, fmt.Sprintf("%s sets the entry to Entries[%s], which is none of: neighbouring entry, extreme entry after a descent, parent entry while climbing", sp.name, trunc(noEpoch(idx), 100)))
					}
				case "node":
					if v.Op == "φ" && g.From != 0 && strings.HasPrefix(v.Leaf, itoa(g.From)+".") {
						// the descent ran on a local cursor and is stored once at its end: the cursor's entry value is the
						// adjoining child, every round moves it to its far-side child
						j := atoiOr(v.Leaf[len(itoa(g.From))+1:], -1)
						for _, h := range gc.GCs {
							if h.Exit.Op != "goto" || h.Exit.Leaf != itoa(g.From) || j < 0 || j >= len(h.Exit.Args) {
								continue
							}
							a := h.Exit.Args[j]
							if !(a.Op == "load" && a.Args[0].Op == "ia" && hasField(a.Args[0].Args[0], "Children")) {
								bad = append(bad, sp.name+" moves its descent cursor to something that is not a child: "+trunc(noEpoch(a), 100))
								continue
							}
							idx := a.Args[0].Args[1]
							switch {
							case h.From != g.From && sp.descend(idx):
								nDesc++
								if !boundedBy(h, idx, "Children") {
									bad = append(bad, sp.name+" descends into a child without knowing that it exists")
								}
							case h.From == g.From && sp.extreme(idx, "Children") && a.Args[0].Args[0].any(func(t *Term) bool { return t.Op == "φ" && t.Leaf == v.Leaf }):
								// walking down the far side
							default:
								bad = append(bad, fmt.Sprintf("%s descends into Children[%s], which is neither the adjoining child of the current entry nor the far-side child on the way down", sp.name, trunc(noEpoch(idx), 100)))
							}
						}
						continue
					}
					if v.Op == "load" && v.Args[0].Op == "ia" && hasField(v.Args[0].Args[0], "Children") {
						idx := v.Args[0].Args[1]
						switch {
						case g.From == 0 && sp.descend(idx):
							nDesc++
							if !boundedBy(g, idx, "Children") {
								bad = append(bad, sp.name+" descends into a child without knowing that it exists")
							}
						case g.From != 0 && sp.extreme(idx, "Children"):
							// walking down the far side
						default:
							bad = append(bad, fmt.Sprintf("%s descends into Children[%s], which is neither the adjoining child of the current entry nor the far-side child on the way down", sp.name, trunc(noEpoch(idx), 100)))
						}
					}
				}
			}
		}
		if nIn == 0 || nDesc == 0 || nExt == 0 || nClimb == 0 {
			bad = append(bad, fmt.Sprintf("expected in-node / descend / extreme / climb steps, found %d/%d/%d/%d", nIn, nDesc, nExt, nClimb))
		}
		if len(bad) > 0 {
			r.bad(key, clause, p.FuncPos(fn), strings.Join(dedup(bad), "\n"))
		} else {
			r.ok(key, clause, p.FuncPos(fn), fmt.Sprintf("%d in-node, %d descend, %d extreme-entry, %d climb steps with the right indices and bounds", nIn, nDesc, nExt, nClimb))
		}
	}
	return r
}
