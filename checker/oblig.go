package main

// oblig.go — obligations, verdicts, evidence files, known findings (DESIGN §2 E4).

import (
	"encoding/json"
	"fmt"
	"os"
	"path/filepath"
	"sort"
	"strconv"
	"strings"
	"time"
)

func itoa(i int) string { return strconv.Itoa(i) }

type Status int

const (
	Discharged Status = iota
	Violated
	Undecided
)

func (s Status) String() string { return [...]string{"discharged", "VIOLATED", "UNDECIDED"}[s] }

// Obligation is one rule instance. Key = "<rule>:<construct>[:<site>]" — never a line number.
type Obligation struct {
	Key    string
	Rule   string // "R1", "R8a", ...
	Clause string // one-line statement of the clause
	Pos    string // file:line of the construct (informative)
	Status Status
	Facts  string // what discharged it / what violates it (path, summary, the two guarded commands)
}

// RuleResult is what one rule produced on this run.
type RuleResult struct {
	Rule     string
	Title    string
	Obs      []Obligation
	Floor    int      // minimum number of obligations confirmed by reading; fewer ⇒ failure
	Analysed []string // notes on what was analysed (functions, call sites, paths)
}

func (r *RuleResult) add(o Obligation) { r.Obs = append(r.Obs, o) }

func (r *RuleResult) ok(key, clause, pos, facts string) {
	r.add(Obligation{Key: r.Rule + ":" + key, Rule: r.Rule, Clause: clause, Pos: pos, Status: Discharged, Facts: facts})
}
func (r *RuleResult) bad(key, clause, pos, facts string) {
	r.add(Obligation{Key: r.Rule + ":" + key, Rule: r.Rule, Clause: clause, Pos: pos, Status: Violated, Facts: facts})
}
func (r *RuleResult) undecided(key, clause, pos, facts string) {
	r.add(Obligation{Key: r.Rule + ":" + key, Rule: r.Rule, Clause: clause, Pos: pos, Status: Undecided, Facts: facts})
}

// KnownFinding is one entry of /verif/known_findings.json (read-only at run time).
type KnownFinding struct {
	Property string `json:"property"`
	Rule     string `json:"rule"`
	Key      string `json:"key"`
	Status   string `json:"status"` // "known" | "fixed"
	Commit   string `json:"commit,omitempty"`
	What     string `json:"what"`
}

func loadKnownFindings(path string) []KnownFinding {
	b, err := os.ReadFile(path)
	if err != nil {
		if os.IsNotExist(err) {
			return nil
		}
		infraFail("known findings: %v", err)
	}
	var kf struct {
		Findings []KnownFinding `json:"findings"`
	}
	if err := json.Unmarshal(b, &kf); err != nil {
		infraFail("known findings: %v", err)
	}
	return kf.Findings
}

// PropertyRun is the outcome of checking one property.
type PropertyRun struct {
	ID        string
	Tier      string
	Level     string
	Rules     []*RuleResult
	Explain   string   // what is decided / not decided
	Trusted   []string // trusted base
	Assume    []string
	Extra     map[string]interface{}
	StartedAt time.Time
}

type verdict struct {
	obligations, discharged, undecided, violated, known int
	violations                                         []Obligation // not known
	knownLines                                         []string
	floorProblems                                      []string
}

func (pr *PropertyRun) verdict(kf []KnownFinding, tableProblems []string) verdict {
	var v verdict
	v.floorProblems = append(v.floorProblems, tableProblems...)
	seen := map[string]bool{}
	for _, r := range pr.Rules {
		n := 0
		for _, o := range r.Obs {
			if seen[o.Key] {
				infraFail("duplicate obligation key %s", o.Key)
			}
			seen[o.Key] = true
			n++
			v.obligations++
			switch o.Status {
			case Discharged:
				v.discharged++
			case Undecided:
				v.undecided++
				v.violations = append(v.violations, o)
			case Violated:
				known := false
				for _, k := range kf {
					if k.Status == "known" && k.Property == pr.ID && k.Key == o.Key {
						known = true
						v.knownLines = append(v.knownLines, fmt.Sprintf("KNOWN-FINDING: property=%s %s %s", pr.ID, o.Key, k.What))
					}
				}
				if known {
					v.known++
				} else {
					v.violated++
					v.violations = append(v.violations, o)
				}
			}
		}
		if n < r.Floor {
			v.floorProblems = append(v.floorProblems, fmt.Sprintf("rule %s (%s): %d instances < floor %d — an anchored construct disappeared or the rule stopped matching", r.Rule, r.Title, n, r.Floor))
		}
	}
	return v
}

// finish writes evidence (+ the violation replay file) and returns the process exit code.
func (pr *PropertyRun) finish(p *Prog, evidenceDir string, kf []KnownFinding) int {
	v := pr.verdict(kf, p.T.floorProblems())
	wall := time.Since(pr.StartedAt).Seconds()

	type sample struct {
		Key    string `json:"obligation"`
		Clause string `json:"clause"`
		Pos    string `json:"pos"`
		Status string `json:"status"`
		Facts  string `json:"facts"`
	}
	var samples []sample
	ruleSummary := map[string]interface{}{}
	var analysed []string
	for _, r := range pr.Rules {
		d, u, x := 0, 0, 0
		for _, o := range r.Obs {
			switch o.Status {
			case Discharged:
				d++
			case Undecided:
				u++
			case Violated:
				x++
			}
		}
		ruleSummary[r.Rule] = map[string]interface{}{"title": r.Title, "obligations": len(r.Obs), "discharged": d, "undecided": u, "violated": x, "floor": r.Floor}
		// up to 3 samples per rule: first discharged ones, plus every non-discharged
		k := map[string]int{}
		for _, o := range r.Obs {
			if o.Status != Discharged || k[o.Rule] < 2 {
				if o.Status == Discharged {
					k[o.Rule]++
				}
				f := o.Facts
				if len(f) > 600 {
					f = f[:600] + "…"
				}
				samples = append(samples, sample{o.Key, o.Clause, o.Pos, o.Status.String(), f})
			}
		}
		for _, a := range r.Analysed {
			analysed = append(analysed, r.Rule+": "+a)
		}
	}
	seed := 0
	if s, err := strconv.Atoi(os.Getenv("VERIF_SEED")); err == nil {
		seed = s
	}
	var keys []string
	for _, r := range pr.Rules {
		for _, o := range r.Obs {
			keys = append(keys, o.Key)
		}
	}
	sort.Strings(keys)
	cov := map[string]interface{}{
		"obligations":        v.obligations,
		"discharged":         v.discharged,
		"undecided":          v.undecided,
		"violated_unlisted":  v.violated,
		"known_findings":     v.known,
		"checker_cmd":        fmt.Sprintf("/verif/bin/gods-sa check %s --tier %s", pr.ID, pr.Tier),
		"trusted_base":       pr.Trusted,
		"explanation":        pr.Explain,
		"rules":              ruleSummary,
		"samples":            samples,
		"analysed":           analysed,
		"packages_loaded":    len(p.All),
		"library_packages":   len(p.Lib),
		"library_functions":  len(p.Funcs),
		"container_types":    len(p.T.Containers),
		"iterator_types":     len(p.T.Iterators),
		"protected_types":    len(p.T.Protected),
		"floor_problems":     v.floorProblems,
		"obligation_keys":    keys,
		"exhaustive":         true,
		"evaluations":        v.obligations,
		"distinct_nontrivial": v.obligations,
		"rule":               "one obligation per (rule, construct) instance enumerated from the type-checked program; distinct by key; every instance is non-trivial (it names a concrete function / site / pair in /repo)",
	}
	// symbols of the current tree relative to the pinned symbol table (align.go)
	var unknown []string
	for _, fn := range p.Funcs {
		if fn.Parent() == nil && fn.Synthetic == "" && !p.KnownFunc(fn) {
			unknown = append(unknown, p.FuncKey(fn))
		}
	}
	cov["pinned_symbol_aliases"] = aliasNotes
	cov["functions_unknown_to_pinned_table_expanded_in_place"] = unknown
	for k, x := range pr.Extra {
		cov[k] = x
	}
	ev := map[string]interface{}{
		"property_id": pr.ID,
		"tier":        pr.Tier,
		"seed":        seed,
		"level":       pr.Level,
		"coverage":    cov,
		"assumptions": pr.Assume,
		"wall_s":      wall,
		"violations":  len(v.violations) + len(v.floorProblems),
	}
	if err := os.MkdirAll(evidenceDir, 0o755); err != nil {
		infraFail("evidence dir: %v", err)
	}
	b, _ := json.MarshalIndent(ev, "", " ")
	evPath := filepath.Join(evidenceDir, pr.ID+".json")
	if err := os.WriteFile(evPath, append(b, '\n'), 0o644); err != nil {
		infraFail("write evidence: %v", err)
	}

	fmt.Printf("property %s tier=%s: %d obligations, %d discharged, %d undecided, %d violated (unlisted), %d known findings; %d library functions analysed; %.1fs\n",
		pr.ID, pr.Tier, v.obligations, v.discharged, v.undecided, v.violated, v.known, len(p.Funcs), wall)
	for _, r := range pr.Rules {
		fmt.Printf("  %-5s %-62s %4d instances (floor %d)\n", r.Rule, r.Title, len(r.Obs), r.Floor)
	}
	for _, l := range v.knownLines {
		fmt.Println(l)
	}
	replay := filepath.Join(evidenceDir, pr.ID+".violation.txt")
	if len(v.violations) == 0 && len(v.floorProblems) == 0 {
		os.Remove(replay)
		return 0
	}
	var sb strings.Builder
	fmt.Fprintf(&sb, "property %s — violated / undecided obligations on %s\n\n", pr.ID, p.Dir)
	for _, f := range v.floorProblems {
		fmt.Fprintf(&sb, "FLOOR: %s\n\n", f)
	}
	for _, o := range v.violations {
		fmt.Fprintf(&sb, "%s  %s\n  at      %s\n  clause  %s\n  facts   %s\n\n", o.Status, o.Key, o.Pos, o.Clause, strings.ReplaceAll(o.Facts, "\n", "\n          "))
	}
	os.WriteFile(replay, []byte(sb.String()), 0o644)
	for _, f := range v.floorProblems {
		fmt.Printf("FLOOR %s\n", f)
	}
	for _, o := range v.violations {
		fmt.Printf("%s %s at %s: %s\n", o.Status, o.Key, o.Pos, firstLine(o.Facts))
	}
	fmt.Printf("VIOLATION property=%s replay=%s\n", pr.ID, replay)
	return 1
}

func firstLine(s string) string {
	if i := strings.IndexByte(s, '\n'); i >= 0 {
		return s[:i]
	}
	return s
}
