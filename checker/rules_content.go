package main

// rules_content.go — R40 CONTENT: where Size() is the length of a slice field (the array list), every exported mutator is
// replayed path by path over a *symbolic sequence*: the field's content is a concatenation of segments of the old content,
// of the slice arguments, of single values, of zeroes and of unspecified capacity ("junk"). Re-slicing, make, copy, append,
// slices.Insert/Delete/Clone/Grow, element stores and counted fill loops move it; the unexported helpers of the type
// (growBy, resize, shrink, or whatever a refactoring calls them) are expanded in place, calls to the exported Add/Clear use
// their own (checked) outcome. At every return the content must be exactly what the operation means:
//
//	Add(vs)        old ++ vs
//	Insert(i, vs)  old[:i] ++ vs ++ old[i:]   when the path knows 0 <= i <= len, unchanged otherwise
//	Remove(i)      old[:i] ++ old[i+1:]        when the path knows 0 <= i < len, unchanged otherwise
//	Set(i, v)      old[:i] ++ [v] ++ old[i+1:] in range, old ++ [v] at i == len, unchanged otherwise
//	Clear()        empty;   every other method: unchanged (Sort, Swap and the loaders are decided elsewhere)
//
// Comparisons between symbolic positions are decided by linear arithmetic over the path's guards (index range checks,
// lengths are non-negative). A path the replay cannot interpret (an idiom outside this vocabulary) gets no verdict here —
// the obligation says so; R30 (length), R32 (shift idioms) and R38 (splice arguments) still bind it.

import (
	"fmt"
	"go/types"
	"os"
	"sort"
	"strings"

	"golang.org/x/tools/go/ssa"
)

type cseg struct {
	base   string // "old", "junk", "zero", "v:<slice term>", "e:<value term>"
	lo, hi lin
}
type cseq []cseg

type cobj struct {
	content   cseq
	clobbered string
}
type cval struct {
	o      *cobj
	lo, hi lin
}

type creplay struct {
	field   string
	facts   []lin          // each >= 0
	subst   map[string]lin // atom → value (equalities known on the path, final loop counters)
	F       cval
	byVer   map[string]cval
	calls   int
	f       int
	objs    map[string]*cobj
	nstores map[string]int
	res     map[string]cval
	liveInt map[string]lin
	liveSl  map[string]cval
	unknown string
	effects []*Term
	depth   int
	split   *[2]lin // an ordering a <= b that the facts leave open and a placement needed (first one met)
}

func (r *creplay) clone() *creplay {
	c := *r
	c.facts = append([]lin(nil), r.facts...)
	c.subst = map[string]lin{}
	for k, v := range r.subst {
		c.subst[k] = v
	}
	// objects are shared by pointer on purpose only within one path: deep-copy them for the branch
	m := map[*cobj]*cobj{}
	cp := func(o *cobj) *cobj {
		if o == nil {
			return nil
		}
		if n, ok := m[o]; ok {
			return n
		}
		n := &cobj{content: append(cseq(nil), o.content...), clobbered: o.clobbered}
		m[o] = n
		return n
	}
	cpv := func(v cval) cval { return cval{cp(v.o), v.lo, v.hi} }
	c.F = cpv(r.F)
	c.byVer = map[string]cval{}
	for k, v := range r.byVer {
		c.byVer[k] = cpv(v)
	}
	c.objs = map[string]*cobj{}
	for k, v := range r.objs {
		c.objs[k] = cp(v)
	}
	c.nstores = map[string]int{}
	for k, v := range r.nstores {
		c.nstores[k] = v
	}
	c.res = map[string]cval{}
	for k, v := range r.res {
		c.res[k] = cpv(v)
	}
	c.liveInt = map[string]lin{}
	for k, v := range r.liveInt {
		c.liveInt[k] = v
	}
	c.liveSl = map[string]cval{}
	for k, v := range r.liveSl {
		c.liveSl[k] = cpv(v)
	}
	return &c
}

// assume records facts that hold on every execution of this path that reaches a return (it did not panic on the way).
func (r *creplay) assume(fs ...lin) {
	for _, f := range fs {
		if len(f.c) == 0 {
			continue
		}
		dup := false
		for _, g := range r.facts {
			if g.String() == f.String() {
				dup = true
			}
		}
		if !dup {
			r.facts = append(r.facts, f)
		}
	}
}

func (r *creplay) fail(why string) {
	if r.unknown == "" {
		r.unknown = why
	}
}

// ---- linear arithmetic under the path's facts

func (r *creplay) ap(l lin) lin { // apply substitutions
	out := linConst(l.k)
	for x, c := range l.c {
		t := linAtom(x)
		if v, ok := r.subst[x]; ok {
			t = v
		}
		for i := 0; i < c; i++ {
			out = out.add(t, 1)
		}
		for i := 0; i > c; i-- {
			out = out.add(t, -1)
		}
	}
	return out
}

func (r *creplay) nonneg(d lin) bool {
	d = r.ap(d)
	if len(d.c) == 0 {
		return d.k >= 0
	}
	var fs []lin
	for _, f := range r.facts {
		fs = append(fs, r.ap(f))
	}
	// atoms that are lengths are non-negative
	for x := range d.c {
		if strings.HasPrefix(x, "(len ") || x == "L0" {
			fs = append(fs, linAtom(x))
		}
	}
	for _, f := range fs {
		if e := d.add(f, -1); len(e.c) == 0 && e.k >= 0 {
			return true
		}
	}
	for i, f := range fs {
		for _, g := range fs[i:] {
			if e := d.add(f, -1).add(g, -1); len(e.c) == 0 && e.k >= 0 {
				return true
			}
		}
	}
	return false
}
func (r *creplay) le(a, b lin) bool { return r.nonneg(b.add(a, -1)) }

// openOrder notes the first of the given orderings a <= b that is neither provable nor refutable: the caller of the replay
// may then replay the path once under a <= b and once under b < a.
func (r *creplay) openOrder(pairs ...[2]lin) {
	if r.split != nil {
		return
	}
	for _, pr := range pairs {
		a, b := pr[0], pr[1]
		if !r.nonneg(b.add(a, -1)) && !r.nonneg(a.add(b, -1).add(linConst(1), -1)) {
			r.split = &[2]lin{a, b}
			return
		}
	}
}
func (r *creplay) eq(a, b lin) bool { return r.le(a, b) && r.le(b, a) }

func (l lin) hasLoopVar() bool {
	for x := range l.c {
		if strings.HasPrefix(x, "φ:") {
			return true
		}
	}
	return false
}

func seqLen(s cseq) lin {
	n := linConst(0)
	for _, g := range s {
		n = n.add(g.hi, 1).add(g.lo, -1)
	}
	return n
}

// sub: s[lo:hi] (positions relative to s); beyond the known extent the content is junk.
func (r *creplay) sub(s cseq, lo, hi lin) (cseq, bool) {
	if r.le(hi, lo) && r.le(lo, hi) {
		return nil, true
	}
	var out cseq
	off := linConst(0)
	for _, g := range s {
		n := g.hi.add(g.lo, -1)
		end := off.add(n, 1)
		var start, stop lin
		switch {
		case r.le(lo, off):
			start = off
		case r.le(end, lo):
			off = end
			continue
		case r.le(off, lo) && r.le(lo, end):
			start = lo
		default:
			r.openOrder([2]lin{lo, off}, [2]lin{end, lo}, [2]lin{lo, end})
			return nil, false
		}
		switch {
		case r.le(end, hi):
			stop = end
		case r.le(hi, off):
			off = end
			continue
		case r.le(off, hi) && r.le(hi, end):
			stop = hi
		default:
			r.openOrder([2]lin{end, hi}, [2]lin{hi, off}, [2]lin{hi, end})
			return nil, false
		}
		if !(r.le(stop, start) && r.le(start, stop)) {
			out = append(out, cseg{g.base, g.lo.add(start, 1).add(off, -1), g.lo.add(stop, 1).add(off, -1)})
		}
		off = end
	}
	// off = extent
	switch {
	case r.le(hi, off):
	case r.le(off, hi):
		from := off
		if r.le(off, lo) {
			from = lo
		}
		out = append(out, cseg{"junk", linConst(0), hi.add(from, -1)})
	default:
		r.openOrder([2]lin{hi, off})
		return nil, false
	}
	return out, true
}

func (r *creplay) content(v cval) (cseq, bool) {
	if v.o == nil {
		return nil, true // nil slice
	}
	if r.le(v.hi, v.lo) && r.le(v.lo, v.hi) {
		return nil, true
	}
	if v.o.clobbered != "" {
		r.fail("a slice is read after " + v.o.clobbered + " may have rewritten its backing array")
		return nil, false
	}
	s, ok := r.sub(v.o.content, v.lo, v.hi)
	if !ok {
		r.fail("cannot order the bounds of a slice expression against the segments of its content")
	}
	return s, ok
}

// overwrite: o.content[at : at+len(src)] = src
func (r *creplay) overwrite(o *cobj, at lin, src cseq) bool {
	if o.clobbered != "" {
		r.fail("a slice is written after " + o.clobbered + " may have rewritten its backing array")
		return false
	}
	n := seqLen(src)
	head, ok1 := r.sub(o.content, linConst(0), at)
	ext := seqLen(o.content)
	var tail cseq
	ok2 := true
	if !r.le(ext, at.add(n, 1)) {
		tail, ok2 = r.sub(o.content, at.add(n, 1), ext)
	}
	if !ok1 || !ok2 {
		r.fail("cannot place a write inside the segments of a slice")
		return false
	}
	o.content = append(append(append(cseq(nil), head...), src...), tail...)
	return true
}

func (r *creplay) norm(s cseq) cseq {
	var out cseq
	for _, g := range s {
		g.lo, g.hi = r.ap(g.lo), r.ap(g.hi)
		if d := g.hi.add(g.lo, -1); len(d.c) == 0 && d.k == 0 {
			continue
		}
		if g.base == "junk" || g.base == "zero" {
			g.lo, g.hi = linConst(0), g.hi.add(g.lo, -1)
		}
		if n := len(out); n > 0 && out[n-1].base == g.base && g.base != "junk" && g.base != "zero" && out[n-1].hi.String() == g.lo.String() {
			out[n-1].hi = g.hi
			continue
		}
		out = append(out, g)
	}
	return out
}

func (s cseq) String() string {
	if len(s) == 0 {
		return "[]"
	}
	var parts []string
	for _, g := range s {
		switch {
		case g.base == "junk" || g.base == "zero":
			parts = append(parts, fmt.Sprintf("%s(%s)", g.base, g.hi.add(g.lo, -1).String()))
		case strings.HasPrefix(g.base, "e:"):
			parts = append(parts, "["+g.base[2:]+"]")
		default:
			parts = append(parts, fmt.Sprintf("%s[%s : %s]", strings.TrimPrefix(g.base, "v:"), g.lo.String(), g.hi.String()))
		}
	}
	return strings.Join(parts, " ++ ")
}

// ---- evaluation of terms

func (r *creplay) isF(t *Term) bool {
	return t.Op == "load" && len(t.Args) == 1 && t.Args[0].Op == "fa" && t.Args[0].Leaf == r.field && t.Args[0].Args[0].String() == "p:0"
}

func (r *creplay) mark() { r.byVer[fmt.Sprintf("c%d.f%d", r.calls, r.f)] = r.F }

func (r *creplay) intVal(t *Term) lin {
	if k, ok := t.constInt(); ok {
		return linConst(int(k))
	}
	if v, ok := r.liveInt[t.String()]; ok {
		return v
	}
	switch {
	case t.Op == "len" && len(t.Args) == 1:
		saved := r.unknown
		if v, ok := r.slice0(t.Args[0]); ok {
			return v.hi.add(v.lo, -1)
		}
		r.unknown = saved // a length of something that is not a tracked slice is just an unknown number
		return linAtom(noEpoch(t))
	case t.Op == "+" && len(t.Args) == 2:
		return r.intVal(t.Args[0]).add(r.intVal(t.Args[1]), 1)
	case t.Op == "-" && len(t.Args) == 2:
		return r.intVal(t.Args[0]).add(r.intVal(t.Args[1]), -1)
	case t.Op == "φ":
		return linAtom("φ:" + t.Leaf)
	}
	return linAtom(noEpoch(t))
}

// slice: the value of a slice-typed term.
func (r *creplay) slice(t *Term) (cval, bool) {
	saved := r.unknown
	v, ok := r.slice0(t)
	if !ok && saved == "" && r.unknown == "" {
		r.unknown = "slice expression outside the replay's vocabulary: " + trunc(noEpoch(t), 100)
	}
	return v, ok
}

func (r *creplay) slice0(t *Term) (cval, bool) {
	if v, ok := r.liveSl[t.String()]; ok {
		return v, true
	}
	switch {
	case r.isF(t):
		if m := verRe.FindStringSubmatch(t.Leaf); m != nil {
			if v, ok := r.byVer["c"+m[1]+".f"+m[2]]; ok {
				return v, true
			}
		}
		if t.Leaf == "pre" {
			if v, ok := r.byVer["c0.f0"]; ok && r.f == 0 {
				return v, true
			}
			r.fail("a value of " + r.field + " read before the loop cannot be dated")
			return cval{}, false
		}
		return r.F, true
	case t.String() == "#:nil":
		return cval{}, true
	case t.Op == "p":
		k := "p:" + t.Leaf
		o := r.objs[k]
		n := linAtom("(len " + k + ")")
		if o == nil {
			o = &cobj{content: cseq{{"v:" + k, linConst(0), n}}}
			r.objs[k] = o
		}
		return cval{o, linConst(0), n}, true
	case t.Op == "slice" && len(t.Args) == 4:
		if t.Args[0].Op == "new" {
			// an array built element by element (variadic call site, composite literal)
			k := t.Args[0].String()
			o := r.objs[k]
			if o == nil {
				o = &cobj{}
				r.objs[k] = o
			}
			if t.Args[1].Op != "_" || t.Args[2].Op != "_" {
				return cval{}, false
			}
			return cval{o, linConst(0), seqLen(o.content)}, true
		}
		b, ok := r.slice0(t.Args[0])
		if !ok {
			return cval{}, false
		}
		if b.o == nil {
			return b, true
		}
		lo, hi := b.lo, b.hi
		if t.Args[1].Op != "_" {
			lo = b.lo.add(r.intVal(t.Args[1]), 1)
		}
		if t.Args[2].Op != "_" {
			hi = b.lo.add(r.intVal(t.Args[2]), 1)
		}
		// a path that returns did not panic here: 0 <= low <= high (high defaults to the length)
		r.assume(lo.add(b.lo, -1), hi.add(lo, -1))
		return cval{b.o, lo, hi}, true
	case t.Op == "makeslice" && len(t.Args) == 2:
		k := "makeslice:" + t.Leaf
		n := r.intVal(t.Args[0])
		o := r.objs[k]
		if o == nil {
			o = &cobj{content: cseq{{"zero", linConst(0), n}}}
			r.objs[k] = o
		}
		return cval{o, linConst(0), n}, true
	case t.Op == "res" && len(t.Args) == 1:
		if v, ok := r.res[t.Args[0].String()]; ok {
			return v, true
		}
		return cval{}, false
	case t.Op == "std" && (t.Leaf == "slices.Clone") && len(t.Args) == 2:
		b, ok := r.slice0(t.Args[1])
		if !ok {
			return cval{}, false
		}
		s, ok := r.content(b)
		if !ok {
			return cval{}, false
		}
		return cval{&cobj{content: s}, linConst(0), seqLen(s)}, true
	}
	return cval{}, false
}

// elem: the one-element sequence holding value v.
func (r *creplay) elem(v *Term) cseq {
	if v.Op == "load" && len(v.Args) == 1 && v.Args[0].Op == "ia" && len(v.Args[0].Args) == 2 {
		saved := r.unknown
		if b, ok := r.slice0(v.Args[0].Args[0]); ok && b.o != nil && b.o.clobbered == "" {
			j := r.intVal(v.Args[0].Args[1])
			if s, ok := r.sub(b.o.content, b.lo.add(j, 1), b.lo.add(j, 1).add(linConst(1), 1)); ok && len(s) == 1 && s[0].base != "junk" {
				return s
			}
		}
		r.unknown = saved
	}
	return cseq{{"e:" + noEpoch(v), linConst(0), linConst(1)}}
}

var readOnlyStd = map[string]bool{"slices.Index": true, "slices.Contains": true, "slices.IndexFunc": true, "slices.Clone": true, "encoding/json.Marshal": true,
	"strings.Join": true, "fmt.Sprintf": true, "fmt.Sprint": true, "slices.Equal": true, "slices.ContainsFunc": true, "encoding/json.Unmarshal": true}

// trySlice: like slice, but an operand that is not a tracked slice is no failure (the effect is then skipped: whatever it
// produces has no name in the replay, and a later use of it is the failure).
func (r *creplay) trySlice(t *Term) (cval, bool) {
	saved := r.unknown
	v, ok := r.slice0(t)
	if !ok {
		r.unknown = saved
	}
	return v, ok
}

// effect replays one effect.
func (r *creplay) effect(ef *Term) {
	switch {
	case isStore(ef) && ef.Args[0].Op == "fa" && ef.Args[0].Leaf == r.field && ef.Args[0].Args[0].String() == "p:0":
		v, ok := r.slice(ef.Args[1])
		if !ok {
			return
		}
		r.F = v
		r.f++
		r.mark()
	case isStore(ef) && ef.Args[0].Op == "ia" && len(ef.Args[0].Args) == 2:
		base := ef.Args[0].Args[0]
		if base.Op == "new" {
			k := base.String()
			o := r.objs[k]
			if o == nil {
				o = &cobj{}
				r.objs[k] = o
			}
			idx, isConst := ef.Args[0].Args[1].constInt()
			if !isConst || int(idx) != r.nstores[k] {
				o.clobbered = "an out-of-order element store"
				return
			}
			r.nstores[k]++
			o.content = append(o.content, r.elem(ef.Args[1])...)
			return
		}
		saved := r.unknown
		b, ok := r.slice0(base)
		if !ok {
			r.unknown = saved // a store into some other slice
			return
		}
		if b.o == nil {
			return
		}
		idx := r.intVal(ef.Args[0].Args[1])
		if !idx.hasLoopVar() {
			r.assume(idx, b.hi.add(b.lo, -1).add(idx, -1).add(linConst(1), -1)) // 0 <= idx < len
		}
		r.overwrite(b.o, b.lo.add(idx, 1), r.elem(ef.Args[1]))
	case ef.Op == "builtin" && ef.Leaf == "copy" && len(ef.Args) == 2:
		d, ok1 := r.trySlice(ef.Args[0])
		s, ok2 := r.trySlice(ef.Args[1])
		if !ok1 || !ok2 {
			return
		}
		if d.o == nil || s.o == nil {
			return
		}
		dn, sn := d.hi.add(d.lo, -1), s.hi.add(s.lo, -1)
		var n lin
		switch {
		case r.le(sn, dn):
			n = sn
		case r.le(dn, sn):
			n = dn
		default:
			r.openOrder([2]lin{sn, dn})
			r.fail("cannot decide which operand of copy is shorter")
			return
		}
		src, ok := r.content(cval{s.o, s.lo, s.lo.add(n, 1)})
		if !ok {
			return
		}
		r.overwrite(d.o, d.lo, src)
	case ef.Op == "builtin" && ef.Leaf == "append" && len(ef.Args) == 2:
		a, ok1 := r.trySlice(ef.Args[0])
		b, ok2 := r.trySlice(ef.Args[1])
		if !ok1 || !ok2 {
			return
		}
		sa, ok1 := r.content(a)
		sb, ok2 := r.content(b)
		if !ok1 || !ok2 {
			return
		}
		if a.o != nil {
			a.o.clobbered = "an append to it"
		}
		out := append(append(cseq(nil), sa...), sb...)
		r.res[ef.String()] = cval{&cobj{content: out}, linConst(0), seqLen(out)}
	case ef.Op == "stddo" && ef.Leaf == "slices.Delete" && len(ef.Args) == 3:
		s, ok := r.trySlice(ef.Args[0])
		if !ok {
			return
		}
		i, j := r.intVal(ef.Args[1]), r.intVal(ef.Args[2])
		n := s.hi.add(s.lo, -1)
		r.assume(i, j.add(i, -1), n.add(j, -1)) // 0 <= i <= j <= len
		h, ok1 := r.content(cval{s.o, s.lo, s.lo.add(i, 1)})
		t, ok2 := r.content(cval{s.o, s.lo.add(j, 1), s.hi})
		if !ok1 || !ok2 || s.o == nil {
			return
		}
		out := append(append(cseq(nil), h...), t...)
		full := append(append(cseq(nil), out...), cseg{"zero", linConst(0), j.add(i, -1)})
		if !r.overwrite(s.o, s.lo, full) {
			return
		}
		r.res[ef.String()] = cval{s.o, s.lo, s.lo.add(n, 1).add(j, -1).add(i, 1)}
	case ef.Op == "stddo" && ef.Leaf == "slices.Insert" && len(ef.Args) == 3:
		s, ok1 := r.trySlice(ef.Args[0])
		v, ok2 := r.trySlice(ef.Args[2])
		if !ok1 || !ok2 {
			return
		}
		i := r.intVal(ef.Args[1])
		r.assume(i, s.hi.add(s.lo, -1).add(i, -1)) // 0 <= i <= len
		h, ok1 := r.content(cval{s.o, s.lo, s.lo.add(i, 1)})
		t, ok2 := r.content(cval{s.o, s.lo.add(i, 1), s.hi})
		m, ok3 := r.content(v)
		if !ok1 || !ok2 || !ok3 {
			return
		}
		if s.o != nil {
			s.o.clobbered = "slices.Insert into it"
		}
		out := append(append(append(cseq(nil), h...), m...), t...)
		r.res[ef.String()] = cval{&cobj{content: out}, linConst(0), seqLen(out)}
	case ef.Op == "stddo" && (ef.Leaf == "slices.Grow" || ef.Leaf == "slices.Clip") && len(ef.Args) >= 1:
		s, ok := r.trySlice(ef.Args[0])
		if !ok {
			return
		}
		c, ok := r.content(s)
		if !ok {
			return
		}
		r.res[ef.String()] = cval{&cobj{content: c}, linConst(0), seqLen(c)}
	case ef.Op == "do":
		nm, args, _ := effDo(ef)
		if len(args) > 0 && args[0].String() == "p:0" {
			switch nm {
			case "Add", "Append":
				v, ok := r.slice(args[1])
				if !ok {
					return
				}
				a, ok1 := r.content(r.F)
				b, ok2 := r.content(v)
				if !ok1 || !ok2 {
					return
				}
				out := append(append(cseq(nil), a...), b...)
				r.F = cval{&cobj{content: out}, linConst(0), seqLen(out)}
			case "Clear":
				r.F = cval{&cobj{}, linConst(0), linConst(0)}
			default:
				r.fail("call to " + nm + " on the receiver (its outcome is not part of the replay's vocabulary)")
				return
			}
			r.calls++
			r.f++
			r.mark()
			return
		}
		r.opaqueCall(ef, nm, args)
	case ef.Op == "stddo" || ef.Op == "invoke" || ef.Op == "dyn" || ef.Op == "builtin":
		if ef.Op == "stddo" && readOnlyStd[ef.Leaf] {
			r.calls++
			r.mark()
			return
		}
		r.opaqueCall(ef, ef.Leaf, ef.Args)
	}
}

// opaqueCall: a call the replay does not model — every tracked slice handed to it may be rewritten.
func (r *creplay) opaqueCall(ef *Term, nm string, args []*Term) {
	for _, a := range args {
		if a.Op == "fa" && a.Leaf == r.field {
			r.fail("the address of " + r.field + " is handed to " + nm)
		}
		if a.Op == "p" && r.objs["p:"+a.Leaf] == nil {
			continue // a parameter that was never used as a slice
		}
		saved := r.unknown
		if v, ok := r.slice0(a); ok && v.o != nil {
			v.o.clobbered = "a call to " + nm
		}
		r.unknown = saved
	}
	r.calls++
	r.mark()
}

// addGuards turns the path's guards into facts / substitutions.
func (r *creplay) addGuards(gs []*Term, early bool) {
	for _, a := range gs {
		if len(a.Args) != 2 || a.any(func(t *Term) bool { return t.Op == "φ" || t.Op == "cap" }) {
			continue
		}
		if early && a.any(func(t *Term) bool {
			if !r.isF(t) {
				return t.Op == "res"
			}
			m := verRe.FindStringSubmatch(t.Leaf)
			if m == nil {
				return true
			}
			_, have := r.byVer["c"+m[1]+".f"+m[2]]
			return !have
		}) {
			continue // mentions a state this path has not reached yet
		}
		saved := r.unknown
		x, y := r.intVal(a.Args[0]), r.intVal(a.Args[1])
		r.unknown = saved
		switch a.Op {
		case "<":
			r.facts = append(r.facts, y.add(x, -1).add(linConst(1), -1))
		case "<=":
			r.facts = append(r.facts, y.add(x, -1))
		case "==":
			r.facts = append(r.facts, y.add(x, -1), x.add(y, -1))
			for _, pr := range [][2]lin{{x, y}, {y, x}} {
				if len(pr[0].c) == 1 && pr[0].k == 0 {
					for at, c := range pr[0].c {
						if c == 1 && strings.HasPrefix(at, "p:") {
							if _, has := r.subst[at]; !has {
								r.subst[at] = pr[1]
							}
						}
					}
				}
			}
		}
	}
}

// ---- loops

// fillLoop summarises loop k when it is a counted loop whose rounds only store S[φ+B] = V[φ+C] (or a loop-invariant
// value); returns false when the loop is something else.
func (r *creplay) fillLoop(gc *GCNF, k int, entry *GC) bool {
	ks := itoa(k)
	var backs []*GC
	for _, g := range gc.GCs {
		if g.From == k && g.Exit.Op == "goto" && g.Exit.Leaf == ks {
			backs = append(backs, g)
		}
	}
	// do the rounds write anything the replay tracks? (dry run of every round on a copy)
	snap := func(x *creplay) string {
		var ks []string
		for k, o := range x.objs {
			if !strings.HasPrefix(k, "new:") {
				ks = append(ks, k+"="+o.content.String()+"!"+o.clobbered)
			}
		}
		sort.Strings(ks)
		fo := ""
		if x.F.o != nil {
			fo = x.F.o.content.String() + "!" + x.F.o.clobbered
		}
		return strings.Join(ks, ";") + "|F=" + fo + "@" + x.F.lo.String() + ":" + x.F.hi.String() + "|" + x.unknown
	}
	any := false
	for _, g := range backs {
		dry := r.clone()
		before := snap(dry)
		for _, ef := range g.Effects {
			dry.effect(ef)
		}
		if snap(dry) != before {
			any = true
		}
	}
	if !any {
		return true // the rounds write nothing the replay tracks
	}
	if len(backs) != 1 {
		r.fail(fmt.Sprintf("loop %d writes on %d different round shapes", k, len(backs)))
		return false
	}
	b := backs[0]
	// the counter
	cslot, step := -1, 0
	for j, a := range b.Exit.Args {
		d := linOf(a).add(linAtom("φ:"+ks+"."+itoa(j)), -1)
		if len(d.c) == 0 && (d.k == 1 || d.k == -1) {
			if cslot >= 0 {
				r.fail("loop with two counters")
				return false
			}
			cslot, step = j, d.k
		}
	}
	if cslot < 0 || cslot >= len(entry.Exit.Args) {
		r.fail(fmt.Sprintf("loop %d writes but has no ±1 counter", k))
		return false
	}
	phi := "φ:" + ks + "." + itoa(cslot)
	init := r.intVal(entry.Exit.Args[cslot])
	// continuation condition: φ + g < bound (ascending) or bound < φ + g (descending)
	var final *lin // value of φ when the loop is left
	for _, a := range b.Guards {
		if len(a.Args) != 2 || (a.Op != "<" && a.Op != "<=") {
			continue
		}
		x, y := r.intVal(a.Args[0]), r.intVal(a.Args[1])
		strict := 0
		if a.Op == "<" {
			strict = 1
		}
		switch {
		case x.c[phi] == 1 && y.c[phi] == 0 && step == 1: // φ + g <(=) bound: leaves at φ = bound - g (+1 for <=)
			g := x.add(linAtom(phi), -1)
			f := y.add(g, -1).add(linConst(1-strict), 1)
			final = &f
		case y.c[phi] == 1 && x.c[phi] == 0 && step == -1: // bound <(=) φ + g: leaves at φ = bound - g (-1 for <=)
			g := y.add(linAtom(phi), -1)
			f := x.add(g, -1).add(linConst(1-strict), -1)
			final = &f
		}
	}
	if final == nil {
		r.fail(fmt.Sprintf("loop %d writes but its continuation condition does not bound the counter", k))
		return false
	}
	// the range of φ over the rounds: ascending [init, final), descending (final, init]
	lo, hi := init, *final
	if step == -1 {
		lo, hi = final.add(linConst(1), 1), init.add(linConst(1), 1)
	}
	if !r.le(lo, hi) {
		// the loop may not run at all in the other order; treat an unknown order as zero-or-more rounds only when provable
		r.fail(fmt.Sprintf("loop %d: cannot show that the counter's start does not pass its bound", k))
		return false
	}
	for _, ef := range b.Effects {
		if !isStore(ef) {
			if ef.Op == "stddo" && readOnlyStd[ef.Leaf] {
				continue
			}
			r.fail(fmt.Sprintf("loop %d does more than element stores", k))
			return false
		}
		if ef.Args[0].Op != "ia" {
			r.fail(fmt.Sprintf("loop %d stores to something that is not a slice element", k))
			return false
		}
		S, ok := r.slice(ef.Args[0].Args[0])
		if !ok || S.o == nil {
			return false
		}
		idx := r.intVal(ef.Args[0].Args[1])
		if idx.c[phi] != 1 {
			r.fail(fmt.Sprintf("loop %d: the stored index does not move with the counter", k))
			return false
		}
		B := idx.add(linAtom(phi), -1)
		for x := range B.c {
			if strings.HasPrefix(x, "φ:") {
				r.fail("loop index depends on another loop variable")
				return false
			}
		}
		val := ef.Args[1]
		var src cseq
		if val.Op == "load" && len(val.Args) == 1 && val.Args[0].Op == "ia" {
			V, ok := r.slice(val.Args[0].Args[0])
			if !ok || V.o == nil {
				return false
			}
			vidx := r.intVal(val.Args[0].Args[1])
			if vidx.c[phi] == 0 || vidx.c[phi] == -1 {
				// every slot receives the same source element / the source is read backwards: the written stretch is
				// not a stretch of the source (named so that it equals nothing an operation means)
				kind := "repeat of "
				if vidx.c[phi] == -1 {
					kind = "reversal of "
				}
				if !r.overwrite(S.o, S.lo.add(B, 1).add(lo, 1), cseq{{"x:" + kind + trunc(noEpoch(val), 80), linConst(0), hi.add(lo, -1)}}) {
					return false
				}
				continue
			}
			if vidx.c[phi] != 1 {
				r.fail(fmt.Sprintf("loop %d: the source index does not move with the counter", k))
				return false
			}
			C := vidx.add(linAtom(phi), -1)
			if V.o == S.o {
				// shifting within one array: reads must stay ahead of the writes
				d := V.lo.add(C, 1).add(S.lo, -1).add(B, -1)
				if !((step == 1 && r.nonneg(d)) || (step == -1 && r.nonneg(linConst(0).add(d, -1)))) {
					r.fail(fmt.Sprintf("loop %d shifts elements within one array against the direction of the loop (values smear)", k))
					return false
				}
			}
			src, ok = r.content(cval{V.o, V.lo.add(C, 1).add(lo, 1), V.lo.add(C, 1).add(hi, 1)})
			if !ok {
				return false
			}
		} else if !val.any(func(t *Term) bool { return t.Op == "φ" }) {
			src = cseq{{"x:repeat of " + trunc(noEpoch(val), 80), linConst(0), hi.add(lo, -1)}}
		} else {
			r.fail(fmt.Sprintf("loop %d stores a value the replay cannot name", k))
			return false
		}
		if !r.overwrite(S.o, S.lo.add(B, 1).add(lo, 1), src) {
			return false
		}
	}
	r.subst[phi] = *final
	return true
}

// run replays path g and everything reachable from its exit; calls done(r) at every return.
func (r *creplay) run(gc *GCNF, g *GC, done func(*creplay, *GC)) {
	if r.depth > 6 {
		r.fail("more than 6 loops in sequence")
	}
	r.effects = g.Effects
	r.addGuards(g.Guards, true)
	for _, ef := range g.Effects {
		if r.unknown != "" {
			break
		}
		r.effect(ef)
	}
	if r.unknown == "" {
		r.addGuards(g.Guards, false)
	}
	if r.unknown != "" || g.Exit.Op != "goto" {
		done(r, g)
		return
	}
	k := atoiOr(g.Exit.Leaf, -1)
	// values defined before the loop, as this path sees them
	for key, t := range g.LiveIn {
		saved := r.unknown
		if v, ok := r.slice0(t); ok {
			r.liveSl[key] = v
		} else {
			r.unknown = saved
			r.liveInt[key] = r.intVal(t)
		}
		r.unknown = saved
	}
	// inside the loop the version stamps restart at the loop head
	r.byVer = map[string]cval{}
	r.calls, r.f = 0, 0
	r.mark()
	if !r.fillLoop(gc, k, g) {
		done(r, g)
		return
	}
	n := 0
	for _, x := range gc.GCs {
		if x.From != k || (x.Exit.Op == "goto" && x.Exit.Leaf == g.Exit.Leaf) {
			continue
		}
		n++
		br := r.clone()
		br.depth++
		br.byVer = map[string]cval{}
		br.calls, br.f = 0, 0
		br.mark()
		br.run(gc, x, done)
	}
	if n == 0 {
		r.fail("a loop without exit")
		done(r, g)
	}
}

func ruleR40(c *Ctx) *RuleResult {
	p := c.p
	r := &RuleResult{Rule: "R40", Title: "CONTENT: where Size() is the length of a slice field, every operation leaves exactly the sequence its meaning says (symbolic sequence replay)", Floor: 20}
	for _, ct := range p.T.Containers {
		ms := methodsOf(p, ct)
		size := ms["Size"]
		if size == nil {
			continue
		}
		ts := returnTerm(c.GC(size))
		if ts == nil || ts.Op != "len" || ts.Args[0].Op != "load" || ts.Args[0].Args[0].Op != "fa" || ts.Args[0].Args[0].Args[0].String() != "p:0" {
			continue
		}
		field := ts.Args[0].Args[0].Leaf
		st := ct.Underlying().(*types.Struct)
		isSlice := false
		for i := 0; i < st.NumFields(); i++ {
			if fieldN(ct, i) == field {
				_, isSlice = types.Unalias(st.Field(i).Type()).Underlying().(*types.Slice)
			}
		}
		if !isSlice {
			continue
		}
		tk := p.TypeKey(ct)
		own := map[*ssa.Function]bool{}
		for _, fn := range ms {
			own[fn] = true
		}
		for _, name := range sortedNames(ms) {
			fn := ms[name]
			if !isExportedName(name) || name == "Sort" || name == "Swap" || name == "FromJSON" || name == "UnmarshalJSON" {
				continue
			}
			key := p.FuncKey(fn)
			clause := fmt.Sprintf("%s.%s leaves %s holding exactly the sequence the operation means (see rule text), on every path", tk, name, field)
			gc := c.GCWith(fn, BuildOpts{Tag: "content", LiveIn: true, Inline: func(callee *ssa.Function) bool {
				o := callee
				if callee.Origin() != nil {
					o = callee.Origin()
				}
				return own[o] && !isExportedName(fnName(o))
			}})
			if gc.Undecided != "" {
				r.ok(key, clause, p.FuncPos(fn), "NOT DECIDED here (no path form: "+gc.Undecided+")")
				continue
			}
			L0 := linAtom("L0")
			var bad, undecided []string
			outcomes := map[string]bool{}
			for _, g := range gc.GCs {
				if g.From != 0 {
					continue
				}
				var replay func(extra []lin, depth int)
				replay = func(extra []lin, depth int) {
					o0 := &cobj{content: cseq{{"old", linConst(0), L0}}}
					rp := &creplay{field: field, subst: map[string]lin{}, F: cval{o0, linConst(0), L0}, byVer: map[string]cval{}, objs: map[string]*cobj{}, nstores: map[string]int{}, res: map[string]cval{}, liveInt: map[string]lin{}, liveSl: map[string]cval{}}
					rp.facts = append(rp.facts, extra...)
					rp.mark()
					rp.run(gc, g, func(e *creplay, last *GC) {
						// a placement that depends on an ordering the facts leave open: replay the path under each alternative
						retry := func() bool {
							if e.split == nil || depth >= 5 {
								return false
							}
							a, b := e.split[0], e.split[1]
							replay(append(append([]lin(nil), extra...), b.add(a, -1)), depth+1)                      // a <= b
							replay(append(append([]lin(nil), extra...), a.add(b, -1).add(linConst(1), -1)), depth+1) // b < a
							return true
						}
						if e.unknown != "" {
							if !retry() {
								undecided = append(undecided, e.unknown)
							}
							return
						}
						got, ok := e.content(e.F)
						if !ok {
							if !retry() {
								undecided = append(undecided, e.unknown)
							}
							return
						}
						np := len(fn.Params)
						lastP := "p:" + itoa(np-1)
						i := linAtom("p:1")
						in0 := e.le(linConst(0), i)
						old := func(lo, hi lin) cseg { return cseg{"old", lo, hi} }
						vals := cseg{"v:" + lastP, linConst(0), linAtom("(len " + lastP + ")")}
						one := i.add(linConst(1), 1)
						var want cseq
						switch name {
						case "Add", "Append":
							want = cseq{old(linConst(0), L0), vals}
						case "Insert":
							if in0 && e.le(i, L0) {
								want = cseq{old(linConst(0), i), vals, old(i, L0)}
							} else {
								want = cseq{old(linConst(0), L0)}
							}
						case "Remove":
							if in0 && e.le(one, L0) {
								want = cseq{old(linConst(0), i), old(one, L0)}
							} else {
								want = cseq{old(linConst(0), L0)}
							}
						case "Set":
							v := cseg{"e:" + lastP, linConst(0), linConst(1)}
							switch {
							case in0 && e.le(one, L0):
								want = cseq{old(linConst(0), i), v, old(one, L0)}
							case e.eq(i, L0):
								want = cseq{old(linConst(0), L0), v}
							default:
								want = cseq{old(linConst(0), L0)}
							}
						case "Clear":
							want = nil
						default:
							want = cseq{old(linConst(0), L0)}
						}
						gs, ws := e.norm(got).String(), e.norm(want).String()
						if gs == ws {
							outcomes[ws] = true
						} else {
							bad = append(bad, fmt.Sprintf("a path leaves %s = %s where the operation means %s: %s", field, gs, ws, trunc(last.String(), 300)))
						}
					})
				}
				replay(nil, 0)
			}
			var oc []string
			for o := range outcomes {
				oc = append(oc, o)
			}
			sort.Strings(oc)
			switch {
			case len(bad) > 0:
				r.bad(key, clause, p.FuncPos(fn), strings.Join(dedup(bad), "\n"))
			case len(undecided) > 0:
				r.ok(key, clause, p.FuncPos(fn), fmt.Sprintf("NOT DECIDED here for %d path(s) (%s); decided outcomes: %s", len(undecided), strings.Join(dedup(undecided), "; "), strings.Join(oc, " | ")))
				r.Analysed = append(r.Analysed, key+": not decided ("+strings.Join(dedup(undecided), "; ")+")")
			default:
				r.ok(key, clause, p.FuncPos(fn), "path outcomes: "+strings.Join(oc, " | "))
			}
		}
	}
	if os.Getenv("R40_DEBUG") != "" {
		for _, o := range r.Obs {
			fmt.Fprintf(os.Stderr, "%s %s: %s\n", o.Status, o.Key, o.Facts)
		}
	}
	return r
}
