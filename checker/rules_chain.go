package main

// rules_chain.go — R45 CHAIN: pointer surgery of the linked lists.
//
// (a) remove: every path of Remove(index) that unlinks one element (it decrements the size) is replayed over positions.
// The walk analysis of R33 says where the loop leaves its pointers relative to the index i (element at i, trailing pointer at
// i-1, …); first ↦ 0, last ↦ size-1, x.next ↦ pos(x)+1, x.prev ↦ pos(x)-1, positions -1 and size are nil. The path's guards
// (comparisons of positioned pointers with first / last / nil, of the index with 0 / size-1) say whether i is the first
// and/or the last position; contradictory paths are dropped. The stores are replayed in order (a load sees the stores to the
// same field of the same position that precede it). Afterwards:
//
//	first = position 1 if i == 0, else unchanged;  last = position size-2 if i == size-1, else unchanged;
//	the element at i-1 (if any) points at i+1;  the element at i+1 (if any, doubly linked) points back at i-1;
//	no other element's links are written; nothing is written through nil.
//
// (b) link loops: in every loop round of a list method that allocates an element X, X becomes somebody's next (or first), and
// X either gets its own next in that round or is remembered (handed to a loop variable / the loop's continuation, or stored
// in last) as the element to link behind — and then every path from the loop head gives the remembered element its successor
// (or special-cases the first round, or makes it the tail); doubly linked: an X linked behind another element gets its prev.
//
// A path the replay cannot model gives no verdict (NOT DECIDED with the reason), not an alarm.

import (
	"fmt"
	"go/types"
	"sort"
	"strconv"
	"strings"
)

type chainVal struct {
	isNil bool
	pos   lin
}

type chainStore struct {
	field string
	obj   chainVal
	val   chainVal
	root  bool // a field of the list itself (first / last)
}

type chainReplay struct {
	phiPos map[string]lin
	stores []chainStore
	fail   string
	z, l   int // i == 0 / i == size-1: 1 yes, -1 no, 0 unknown
}

const chainS = "(load (fa:size p:0))"

func (r *chainReplay) subst(v lin) lin {
	out := linConst(v.k)
	for x, n := range v.c {
		term := linAtom(x)
		if x == "p:1" {
			switch {
			case r.z == 1:
				term = linConst(0)
			case r.l == 1:
				term = linAtom(chainS).add(linConst(1), -1)
			}
		}
		for i := 0; i < n; i++ {
			out = out.add(term, 1)
		}
		for i := 0; i > n; i-- {
			out = out.add(term, -1)
		}
	}
	return out
}

// same position? (1 yes, -1 no, 0 unknown)
func (r *chainReplay) samePos(a, b lin) int {
	d := r.subst(a).add(r.subst(b), -1)
	if len(d.c) == 0 {
		if d.k == 0 {
			return 1
		}
		return -1
	}
	// i + c vs something: with 0 <= i <= size-1 some differences cannot vanish — left undecided
	return 0
}

func (r *chainReplay) fieldVersion(t *Term) int {
	if m := verRe.FindStringSubmatch(t.Leaf); m != nil {
		k, _ := strconv.Atoi(m[2])
		return k
	}
	return -1
}

func (r *chainReplay) val(t *Term) (chainVal, bool) {
	switch {
	case t.String() == "#:nil":
		return chainVal{isNil: true}, true
	case t.Op == "φ":
		if v, ok := r.phiPos[t.Leaf]; ok {
			return chainVal{pos: v}, true
		}
		return chainVal{}, false
	case t.Op == "load" && len(t.Args) == 1 && t.Args[0].Op == "fa" && len(t.Args[0].Args) == 1:
		f, x := t.Args[0].Leaf, t.Args[0].Args[0]
		k := r.fieldVersion(t)
		if k < 0 {
			return chainVal{}, false
		}
		if x.String() == "p:0" && (f == "first" || f == "last") {
			n := 0
			var last *chainStore
			for i := range r.stores {
				if r.stores[i].field == f && r.stores[i].root {
					n++
					if n <= k {
						last = &r.stores[i]
					}
				}
			}
			if last != nil {
				return last.val, true
			}
			if f == "first" {
				return chainVal{pos: linConst(0)}, true
			}
			return chainVal{pos: linAtom(chainS).add(linConst(1), -1)}, true
		}
		if f == "next" || f == "prev" {
			o, ok := r.val(x)
			if !ok {
				return chainVal{}, false
			}
			if o.isNil {
				r.fail = "a link is read through nil"
				return chainVal{}, false
			}
			n := 0
			var hit *chainStore
			for i := range r.stores {
				if r.stores[i].field == f && !r.stores[i].root {
					n++
					if n > k {
						break
					}
					switch r.samePos(r.stores[i].obj.pos, o.pos) {
					case 1:
						hit = &r.stores[i]
					case 0:
						return chainVal{}, false
					}
				}
			}
			if hit != nil {
				return hit.val, true
			}
			d := 1
			if f == "prev" {
				d = -1
			}
			return chainVal{pos: o.pos.add(linConst(d), 1)}, true
		}
	}
	return chainVal{}, false
}

// a position outside 0..size-1 is nil: after substitution -1 or size
func (r *chainReplay) isNilPos(v lin) int {
	s := r.subst(v)
	if len(s.c) == 0 {
		if s.k < 0 {
			return 1
		}
		return -1 // a constant position >= 0: assumed inside (the walk reached it)
	}
	d := s.add(linAtom(chainS), -1)
	if len(d.c) == 0 {
		if d.k >= 0 {
			return 1
		}
		return -1
	}
	return 0
}

func (r *chainReplay) note(fact string, yes bool) {
	set := func(p *int) {
		v := 1
		if !yes {
			v = -1
		}
		if *p != 0 && *p != v {
			r.fail = "infeasible"
		}
		*p = v
	}
	switch fact {
	case "z":
		set(&r.z)
	case "l":
		set(&r.l)
	}
}

// classify a difference d (= 0 asserted or denied): ±i → z, ±(i - size + 1) → l
func (r *chainReplay) classify(d lin, eq bool) {
	neg := linConst(0).add(d, -1)
	i := linAtom("p:1")
	lastI := i.add(linAtom(chainS), -1).add(linConst(1), 1)
	switch {
	case linEq(d, i) || linEq(neg, i):
		r.note("z", eq)
	case linEq(d, lastI) || linEq(neg, lastI):
		r.note("l", eq)
	case len(d.c) == 0:
		if (d.k == 0) != eq {
			r.fail = "infeasible"
		}
	}
}

func (r *chainReplay) guard(a *Term) {
	if (a.Op != "==" && a.Op != "!=") || len(a.Args) != 2 {
		return
	}
	eq := a.Op == "=="
	// the index against 0 / size-1
	for j := 0; j < 2; j++ {
		if a.Args[j].String() == "p:1" {
			o := linOf(stripEpochs(a.Args[1-j]))
			r.classify(linAtom("p:1").add(o, -1), eq)
			return
		}
	}
	x, ok1 := r.val(a.Args[0])
	y, ok2 := r.val(a.Args[1])
	if !ok1 || !ok2 {
		return
	}
	switch {
	case x.isNil && y.isNil:
	case x.isNil || y.isNil:
		n := y
		if y.isNil {
			n = x
		}
		// node at position p is nil: p == -1 (reached from below) or p == size (from above)
		s := n.pos
		ci := s.c["p:1"]
		rest := s.add(linAtom("p:1"), -ci)
		if ci == 1 && len(rest.c) == 0 && rest.k < 0 {
			// i + k == -1  ⇔  i == -1-k: only k == -1 is the head
			if rest.k == -1 {
				r.note("z", eq)
			}
		} else if ci == 1 && len(rest.c) == 0 && rest.k > 0 {
			if rest.k == 1 {
				r.note("l", eq)
			}
		}
	default:
		r.classify(x.pos.add(y.pos, -1), eq)
	}
}

func ruleR45(c *Ctx) *RuleResult {
	p := c.p
	r := &RuleResult{Rule: "R45", Title: "CHAIN: unlinking an element of a linked list rewires exactly its neighbours and the ends; a loop that allocates elements links each of them in", Floor: 4}
	clRem := "every path of %s.Remove that unlinks one element, replayed over positions (walk analysis for the pointers, first ↦ 0, last ↦ size-1, next/prev ↦ ±1, outside ↦ nil): first moves to position 1 exactly when the index is 0, last to size-2 exactly when it is size-1, the predecessor (if any) points at the successor, the successor (doubly linked, if any) back at the predecessor, no other element's links are written, nothing is written through nil"
	clLoop := "in every loop round of %s that allocates an element X: X becomes somebody's next or the head; X gets its own next in that round or is remembered as the element to link behind (a loop variable, the continuation, last); doubly linked: X gets its prev or becomes the head"
	for _, tk := range []string{"lists/singlylinkedlist.List", "lists/doublylinkedlist.List"} {
		ct := p.T.ContainerByKey(tk)
		if ct == nil {
			continue
		}
		doubly := false
		if et := elementTypeOf(ct); et != nil {
			if st, ok := et.Underlying().(*types.Struct); ok {
				for i := 0; i < st.NumFields(); i++ {
					if st.Field(i).Name() == "prev" {
						doubly = true
					}
				}
			}
		}
		ms := methodsOf(p, ct)
		// ---- (a) Remove
		if fn := ms["Remove"]; fn != nil {
			key := "remove:" + tk
			cl := fmt.Sprintf(clRem, tk)
			gc := c.GC(fn)
			if gc.Undecided != "" {
				r.ok(key, cl, p.FuncPos(fn), "NOT DECIDED: "+gc.Undecided)
			} else {
				bad, skipped, n := chainRemove(gc, doubly)
				switch {
				case len(bad) > 0:
					r.bad(key, cl, p.FuncPos(fn), strings.Join(dedup(bad), "\n"))
				case n == 0:
					r.ok(key, cl, p.FuncPos(fn), "NOT DECIDED: no unlinking path could be replayed ("+trunc(strings.Join(dedup(skipped), "; "), 300)+")")
				default:
					r.ok(key, cl, p.FuncPos(fn), fmt.Sprintf("%d unlinking path(s) replayed; %d without verdict (%s)", n, len(skipped), trunc(strings.Join(dedup(skipped), "; "), 200)))
				}
			}
		}
		// ---- (b) link loops
		for _, name := range sortedNames(ms) {
			fn := ms[name]
			gc := c.GC(fn)
			if gc.Undecided != "" {
				continue
			}
			bad, n := chainLinkLoops(gc, doubly)
			if n == 0 {
				continue
			}
			key := "link:" + p.FuncKey(fn)
			cl := fmt.Sprintf(clLoop, p.FuncKey(fn))
			if len(bad) > 0 {
				r.bad(key, cl, p.FuncPos(fn), strings.Join(dedup(bad), "\n"))
			} else {
				r.ok(key, cl, p.FuncPos(fn), fmt.Sprintf("%d allocating round path(s)", n))
			}
		}
	}
	return r
}

// elementTypeOf: the element struct of a linked list (the pointee of its `first` field).
func elementTypeOf(ct *types.Named) *types.Named {
	st, ok := ct.Underlying().(*types.Struct)
	if !ok {
		return nil
	}
	for i := 0; i < st.NumFields(); i++ {
		if st.Field(i).Name() == "first" {
			return namedOf(st.Field(i).Type())
		}
	}
	return nil
}

func chainRemove(gc *GCNF, doubly bool) (bad, skipped []string, n int) {
	// positions of the loop pointers at each loop's exit
	cuts := map[int]bool{}
	for _, g := range gc.GCs {
		if g.Exit.Op == "goto" {
			if k := atoiOr(g.Exit.Leaf, -1); k > 0 {
				cuts[k] = true
			}
		}
	}
	var ks []int
	for k := range cuts {
		ks = append(ks, k)
	}
	sort.Ints(ks)
	phiPos := map[string]lin{}
	for _, k := range ks {
		w, _, ok := analyseWalk(gc, k, phiPos)
		if !ok {
			continue
		}
		for l, v := range w.slotExit {
			phiPos[l] = v
		}
	}
	S := linAtom(chainS)
	I := linAtom("p:1")
	for _, g := range gc.GCs {
		if g.Exit.Op != "return" {
			continue
		}
		dec := false
		for _, ef := range g.Effects {
			if storeToField(ef, "size") && ef.Args[0].Args[0].String() == "p:0" && ef.Args[1].Op == "-" && len(ef.Args[1].Args) == 2 && ef.Args[1].Args[1].String() == "#:1" {
				dec = true
			}
		}
		if !dec {
			continue
		}
		where := trunc(guardsString(g), 220)
		rp := &chainReplay{phiPos: phiPos}
		// guards first (they read the initial state: loads at version 0 resolve without stores)
		for _, a := range g.Guards {
			rp.guard(a)
		}
		// knowledge the entry path hands to a loop-exit path: the guards of every path into that loop (index tests)
		if g.From != 0 {
			for _, a := range entryKnowledge(gc, g.From, 0) {
				rp.guard(a)
			}
		}
		if rp.fail == "infeasible" {
			continue
		}
		if rp.z == 1 && rp.l == 1 {
			continue // a single element: the list becomes empty (R27's business)
		}
		ok := true
		for _, ef := range g.Effects {
			if !isStore(ef) {
				skipped = append(skipped, "a call on an unlinking path: "+trunc(noEpoch(ef), 80))
				ok = false
				break
			}
			addr := ef.Args[0]
			if addr.Op != "fa" || len(addr.Args) != 1 {
				skipped = append(skipped, "a store the replay does not model: "+trunc(noEpoch(ef), 80))
				ok = false
				break
			}
			f := addr.Leaf
			switch {
			case addr.Args[0].String() == "p:0" && f == "size":
			case addr.Args[0].String() == "p:0" && (f == "first" || f == "last"):
				v, okv := rp.val(ef.Args[1])
				if !okv {
					skipped = append(skipped, "the value stored into "+f+" has no position: "+trunc(noEpoch(ef.Args[1]), 80))
					ok = false
					break
				}
				rp.stores = append(rp.stores, chainStore{field: f, root: true, val: v})
			case f == "next" || f == "prev":
				o, oko := rp.val(addr.Args[0])
				v, okv := rp.val(ef.Args[1])
				if !oko || !okv {
					skipped = append(skipped, "a link store between elements without position: "+trunc(noEpoch(ef), 100))
					ok = false
					break
				}
				if o.isNil || rp.isNilPos(o.pos) == 1 {
					bad = append(bad, "a link is written through nil ("+trunc(noEpoch(ef), 100)+"): "+where)
					ok = false
					break
				}
				rp.stores = append(rp.stores, chainStore{field: f, obj: o, val: v})
			case f == "value":
				// clearing the removed element's value
			default:
				skipped = append(skipped, "a store the replay does not model: "+trunc(noEpoch(ef), 80))
				ok = false
			}
			if !ok {
				break
			}
		}
		if rp.fail != "" && rp.fail != "infeasible" {
			skipped = append(skipped, rp.fail)
			continue
		}
		if !ok {
			continue
		}
		if rp.z == 0 || rp.l == 0 {
			skipped = append(skipped, "a path that does not know whether the index is the first / the last position: "+where)
			continue
		}
		n++
		final := func(f string, root bool, obj lin) (chainVal, bool) {
			var hit *chainStore
			for i := range rp.stores {
				s := &rp.stores[i]
				if s.field != f || s.root != root {
					continue
				}
				if root || rp.samePos(s.obj.pos, obj) == 1 {
					hit = s
				}
			}
			if hit != nil {
				return hit.val, true
			}
			return chainVal{}, false
		}
		same := func(got chainVal, want lin) bool {
			if got.isNil {
				return rp.isNilPos(want) == 1
			}
			if rp.isNilPos(want) == 1 {
				return rp.isNilPos(got.pos) == 1
			}
			return rp.samePos(got.pos, want) == 1
		}
		show := func(v chainVal) string {
			if v.isNil {
				return "nil"
			}
			return "position " + rp.subst(v.pos).String()
		}
		// first / last
		wantFirst := linConst(0)
		if rp.z == 1 {
			wantFirst = linConst(1)
		}
		if got, stored := final("first", true, lin{}); stored {
			if !same(got, wantFirst) {
				bad = append(bad, fmt.Sprintf("first ends at %s, expected position %s: %s", show(got), wantFirst.String(), where))
			}
		} else if rp.z == 1 {
			bad = append(bad, "the head is removed and first keeps pointing at it: "+where)
		}
		wantLast := S.add(linConst(1), -1)
		if rp.l == 1 {
			wantLast = S.add(linConst(2), -1)
		}
		if got, stored := final("last", true, lin{}); stored {
			if !same(got, wantLast) {
				bad = append(bad, fmt.Sprintf("last ends at %s, expected position %s: %s", show(got), wantLast.String(), where))
			}
		} else if rp.l == 1 {
			bad = append(bad, "the tail is removed and last keeps pointing at it: "+where)
		}
		// the neighbours
		if rp.z == -1 {
			got, stored := final("next", false, I.add(linConst(1), -1))
			if !stored {
				bad = append(bad, "the predecessor keeps pointing at the removed element (its next is not rewired): "+where)
			} else if !same(got, I.add(linConst(1), 1)) {
				bad = append(bad, fmt.Sprintf("the predecessor's next ends at %s, expected the element after the removed one: %s", show(got), where))
			}
		}
		if doubly && rp.l == -1 {
			got, stored := final("prev", false, I.add(linConst(1), 1))
			if !stored {
				bad = append(bad, "the successor keeps pointing back at the removed element (its prev is not rewired): "+where)
			} else if !same(got, I.add(linConst(1), -1)) {
				bad = append(bad, fmt.Sprintf("the successor's prev ends at %s, expected the element before the removed one: %s", show(got), where))
			}
		}
		// strays
		for _, s := range rp.stores {
			if s.root {
				continue
			}
			okObj := rp.samePos(s.obj.pos, I) == 1 ||
				(s.field == "next" && rp.samePos(s.obj.pos, I.add(linConst(1), -1)) == 1) ||
				(s.field == "prev" && rp.samePos(s.obj.pos, I.add(linConst(1), 1)) == 1)
			if !okObj {
				bad = append(bad, fmt.Sprintf("the %s of the element at position %s is written — not a neighbour of the removed element: %s", s.field, rp.subst(s.obj.pos).String(), where))
			}
		}
	}
	return
}

// chainLinkLoops: clause (b).
func chainLinkLoops(gc *GCNF, doubly bool) (bad []string, n int) {
	// a path that special-cases the first round: a loop variable tested == nil, or == 0
	firstRound := func(g *GC) bool {
		for _, a := range g.Guards {
			if a.Op != "==" || len(a.Args) != 2 {
				continue
			}
			for i := 0; i < 2; i++ {
				x, y := a.Args[i], a.Args[1-i]
				if (x.String() == "#:nil" || x.String() == "#:0") && y.any(func(t *Term) bool { return t.Op == "φ" }) {
					return true
				}
				if x.String() == "#:nil" && y.Op == "load" && len(y.Args) == 1 && y.Args[0].Op == "fa" && (y.Args[0].Leaf == "first" || y.Args[0].Leaf == "last") {
					return true
				}
				if x.String() == "#:0" && y.Op == "load" && len(y.Args) == 1 && y.Args[0].Op == "fa" && y.Args[0].Leaf == "size" {
					return true
				}
			}
		}
		return false
	}
	for _, g := range gc.GCs {
		if g.From == 0 || g.Exit.Op != "goto" {
			continue
		}
		// elements allocated in this round: new:X with a store to one of its fields (value / next / prev)
		fresh := map[string]bool{}
		for _, ef := range g.Effects {
			if isStore(ef) && ef.Args[0].Op == "fa" && len(ef.Args[0].Args) == 1 && ef.Args[0].Args[0].Op == "new" && (ef.Args[0].Leaf == "value" || ef.Args[0].Leaf == "next" || ef.Args[0].Leaf == "prev") {
				fresh[ef.Args[0].Args[0].String()] = true
			}
		}
		var xs []string
		for x := range fresh {
			xs = append(xs, x)
		}
		sort.Strings(xs)
		for _, x := range xs {
			n++
			linkedIn, ownNext, inLast, ownPrev, behind := false, false, false, false, false
			var storedAt []string // addresses this round stored X into (a re-read of one of them is X)
			for _, ef := range g.Effects {
				if !isStore(ef) {
					continue
				}
				a, v := ef.Args[0], ef.Args[1]
				if v.String() == x {
					storedAt = append(storedAt, noEpoch(a))
				}
				if a.Op == "fa" && a.Leaf == "next" && v.String() == x && a.Args[0].String() != x {
					linkedIn, behind = true, true
				}
				if a.Op == "φ" && v.String() == x {
					linkedIn = true // through a pointer to the link (link := &list.first; … link = &x.next)
				}
				if a.Op == "fa" && a.Leaf == "first" && a.Args[0].String() == "p:0" && v.String() == x {
					linkedIn = true
				}
				if a.Op == "fa" && a.Leaf == "next" && a.Args[0].String() == x {
					ownNext = true
				}
				if a.Op == "fa" && a.Leaf == "prev" && a.Args[0].String() == x {
					ownPrev = true
				}
				if a.Op == "fa" && a.Leaf == "last" && a.Args[0].String() == "p:0" && v.String() == x {
					inLast = true
				}
			}
			handed := -1
			sameLoop := g.Exit.Leaf == itoa(g.From)
			for j, a := range g.Exit.Args {
				if a.any(func(t *Term) bool { return t.String() == x }) {
					handed = j
				}
				if a.Op == "load" && len(a.Args) == 1 {
					for _, ad := range storedAt {
						if noEpoch(a.Args[0]) == ad {
							handed = j
						}
					}
				}
			}
			where := trunc(guardsString(g), 160)
			if !linkedIn && handed < 0 && !inLast {
				bad = append(bad, "a round allocates an element that is neither linked in nor remembered: "+where)
			}
			if handed < 0 && !inLast && !ownNext {
				bad = append(bad, "a round allocates an element that neither gets a next nor is remembered as the element to link behind: "+where)
			}
			if handed >= 0 && sameLoop && !ownNext {
				// the remembered element gets its successor: every path from the loop head writes its next (or special-cases
				// the first round)
				ph := "φ:" + g.Exit.Leaf + "." + itoa(handed)
				for _, h := range gc.GCs {
					if h.From != g.From {
						continue
					}
					sets := false
					for _, ef := range h.Effects {
						if isStore(ef) && ef.Args[0].Op == "fa" && ef.Args[0].Leaf == "next" && len(ef.Args[0].Args) == 1 && ef.Args[0].Args[0].String() == ph {
							sets = true
						}
						if isStore(ef) && ef.Args[0].Op == "fa" && ef.Args[0].Leaf == "last" && ef.Args[1].String() == ph {
							sets = true // it is the tail
						}
						if isStore(ef) && ef.Args[0].String() == ph {
							sets = true // the slot is a pointer to the link itself
						}
					}
					carried := false
					if h.Exit.Op == "goto" && h.Exit.Leaf != itoa(h.From) {
						carried = true // the code after the loop runs on from another cut point: it still has the variable
					}
					// a slot that also holds other things than the linked element on some round (first == nil handling)
					if !sets && !carried && !firstRound(h) {
						bad = append(bad, fmt.Sprintf("the element remembered in %s never gets its successor on the path %s", ph, trunc(guardsString(h), 160)))
					}
				}
			}
			if doubly && behind && !ownPrev {
				bad = append(bad, "a round links a new element of the doubly linked list behind another one without setting its prev: "+where)
			}
		}
	}
	return
}
