package main

// load.go — go/packages loader, SSA builder and the type-driven function index (DESIGN §1.1).
//
// Everything a rule looks at comes from here: the type-checked packages of /repo's *current
// working tree* and the go/ssa form of every library function body. Nothing is executed.

import (
	"fmt"
	"go/token"
	"go/types"
	"os"
	"path/filepath"
	"sort"
	"strings"

	"golang.org/x/tools/go/packages"
	"golang.org/x/tools/go/ssa"
	"golang.org/x/tools/go/ssa/ssautil"
)

// Prog is the loaded program.
type Prog struct {
	Dir     string
	ModPath string
	Fset    *token.FileSet
	All     []*packages.Package // every package matched by ./...
	Lib     []*packages.Package // library packages: not examples/, not testutils
	SSA     *ssa.Program
	Funcs   []*ssa.Function // every library function body (generic bodies kept generic), incl. anonymous functions and package inits
	byObj   map[*types.Func]*ssa.Function
	libPkg  map[*types.Package]bool
	T       *Tables
	Control bool // the embedded positive-control module
}

func loadEnv() []string {
	env := os.Environ()
	out := env[:0:0]
	for _, e := range env {
		k := e
		if i := strings.IndexByte(e, '='); i >= 0 {
			k = e[:i]
		}
		switch k {
		case "GOFLAGS", "GOPROXY", "GOSUMDB", "GOTOOLCHAIN", "GOWORK":
			continue
		}
		out = append(out, e)
	}
	return append(out, "GOFLAGS=-mod=mod", "GOPROXY=off", "GOSUMDB=off", "GOTOOLCHAIN=local", "GOWORK=off")
}

// infraFail reports a broken run (exit 2): never a verdict.
func infraFail(format string, a ...interface{}) {
	fmt.Fprintf(os.Stderr, "gods-sa: infrastructure failure: "+format+"\n", a...)
	os.Exit(2)
}

const minLibPackages = 29 // 30 non-example packages on the pinned tree, minus testutils

func isLibPath(mod, path string) bool {
	if path != mod && !strings.HasPrefix(path, mod+"/") {
		return false
	}
	rel := strings.TrimPrefix(strings.TrimPrefix(path, mod), "/")
	if rel == "examples" || strings.HasPrefix(rel, "examples/") {
		return false
	}
	if rel == "testutils" {
		return false
	}
	return true
}

// Load type-checks ./... in dir and builds SSA.
func Load(dir string) *Prog { return LoadWith(dir, false) }

// LoadWith: control = the embedded positive-control module (no instance floors).
func LoadWith(dir string, control bool) *Prog {
	fset := token.NewFileSet()
	cfg := &packages.Config{
		Mode:  packages.LoadAllSyntax | packages.NeedModule,
		Dir:   dir,
		Fset:  fset,
		Env:   loadEnv(),
		Tests: false,
	}
	pkgs, err := packages.Load(cfg, "./...")
	if err != nil {
		infraFail("packages.Load: %v", err)
	}
	if len(pkgs) == 0 {
		infraFail("no packages matched ./... in %s", dir)
	}
	nerr := 0
	packages.Visit(pkgs, nil, func(p *packages.Package) {
		for _, e := range p.Errors {
			fmt.Fprintf(os.Stderr, "gods-sa: %s: %v\n", p.PkgPath, e)
			nerr++
		}
	})
	if nerr > 0 {
		infraFail("%d load/type errors — no verdict", nerr)
	}
	p := &Prog{Dir: dir, Fset: fset, All: pkgs, byObj: map[*types.Func]*ssa.Function{}, libPkg: map[*types.Package]bool{}}
	for _, pk := range pkgs {
		if pk.Module != nil && pk.Module.Main {
			p.ModPath = pk.Module.Path
			break
		}
	}
	if p.ModPath == "" {
		infraFail("could not determine the main module path")
	}
	for _, pk := range pkgs {
		if isLibPath(p.ModPath, pk.PkgPath) {
			p.Lib = append(p.Lib, pk)
			p.libPkg[pk.Types] = true
		}
	}
	sort.Slice(p.Lib, func(i, j int) bool { return p.Lib[i].PkgPath < p.Lib[j].PkgPath })
	p.Control = control
	if !control && len(p.Lib) < minLibPackages {
		infraFail("only %d library packages loaded, expected at least %d", len(p.Lib), minLibPackages)
	}
	prog, _ := ssautil.AllPackages(pkgs, ssa.BuilderMode(0))
	prog.Build()
	p.SSA = prog
	p.indexFuncs()
	p.align()
	p.T = buildTables(p)
	return p
}

// indexFuncs enumerates library function bodies *from types* (ssautil.AllFunctions omits the
// methods of uninstantiated generic types — DESIGN §1.1).
func (p *Prog) indexFuncs() {
	seen := map[*ssa.Function]bool{}
	var add func(fn *ssa.Function)
	add = func(fn *ssa.Function) {
		if fn == nil || seen[fn] || fn.Blocks == nil {
			return
		}
		seen[fn] = true
		p.Funcs = append(p.Funcs, fn)
		for _, a := range fn.AnonFuncs {
			add(a)
		}
	}
	for _, pk := range p.Lib {
		sp := p.SSA.Package(pk.Types)
		if sp == nil {
			infraFail("no SSA package for %s", pk.PkgPath)
		}
		scope := pk.Types.Scope()
		for _, name := range scope.Names() {
			switch obj := scope.Lookup(name).(type) {
			case *types.Func:
				fn := p.SSA.FuncValue(obj)
				p.byObj[obj] = fn
				add(fn)
			case *types.TypeName:
				named, ok := types.Unalias(obj.Type()).(*types.Named)
				if !ok {
					continue
				}
				for i := 0; i < named.NumMethods(); i++ {
					m := named.Method(i)
					fn := p.SSA.FuncValue(m)
					p.byObj[m] = fn
					add(fn)
				}
			}
		}
		if init := sp.Func("init"); init != nil {
			add(init)
		}
	}
	sort.Slice(p.Funcs, func(i, j int) bool { return p.FuncKey(p.Funcs[i]) < p.FuncKey(p.Funcs[j]) })
}

// IsLib reports whether fn (after Origin resolution) is declared in a library package.
func (p *Prog) IsLib(fn *ssa.Function) bool {
	if o := fn.Origin(); o != nil {
		fn = o
	}
	for fn.Parent() != nil {
		fn = fn.Parent()
	}
	if fn.Pkg != nil {
		return p.libPkg[fn.Pkg.Pkg]
	}
	if o := fn.Object(); o != nil && o.Pkg() != nil {
		return p.libPkg[o.Pkg()]
	}
	return false
}

// origin maps an instantiation (or instantiation wrapper) to its generic function.
func origin(fn *ssa.Function) *ssa.Function {
	if fn == nil {
		return nil
	}
	if instMode && fn.Blocks != nil {
		return fn // thorough tier: analyse the instantiated body itself
	}
	if o := fn.Origin(); o != nil {
		return o
	}
	return fn
}

// StaticCallee resolves a call to the generic library function / stdlib function it targets, or nil
// for a dynamic call (func value or interface invoke).
func StaticCallee(c *ssa.CallCommon) *ssa.Function {
	if c.IsInvoke() {
		return nil
	}
	switch v := c.Value.(type) {
	case *ssa.Function:
		return origin(v)
	case *ssa.MakeClosure:
		return origin(v.Fn.(*ssa.Function))
	}
	return nil
}

// RelPkg is the package path relative to the module ("lists/arraylist").
func (p *Prog) RelPkg(path string) string {
	return strings.TrimPrefix(strings.TrimPrefix(path, p.ModPath), "/")
}

// FuncKey is the stable construct name of a function: "lists/arraylist.(*List).Add",
// "containers.GetSortedValues", "maps/linkedhashmap.(*Map).FromJSON$1".
func (p *Prog) FuncKey(fn *ssa.Function) string { return p.funcKey(fn, true) }

// funcKey: alias = report the pinned name of a renamed unexported function (align.go).
func (p *Prog) funcKey(fn *ssa.Function, alias bool) string {
	if o := fn.Origin(); o != nil {
		fn = o
	}
	if fn.Parent() != nil {
		// anonymous function: parent key + $n
		name := fn.Name()
		if i := strings.LastIndexByte(name, '$'); i >= 0 {
			return p.funcKey(fn.Parent(), alias) + name[i:]
		}
		return p.funcKey(fn.Parent(), alias) + "$" + name
	}
	fname := fn.Name()
	if alias {
		fname = fnName(fn)
	}
	pkg := ""
	if fn.Pkg != nil {
		pkg = fn.Pkg.Pkg.Path()
	} else if o := fn.Object(); o != nil && o.Pkg() != nil {
		pkg = o.Pkg().Path()
	}
	rel := pkg
	if pkg == p.ModPath || strings.HasPrefix(pkg, p.ModPath+"/") {
		rel = p.RelPkg(pkg)
	}
	if recv := fn.Signature.Recv(); recv != nil {
		t := recv.Type()
		ptr := ""
		if pt, ok := t.(*types.Pointer); ok {
			ptr = "*"
			t = pt.Elem()
		}
		tn := "?"
		if n, ok := types.Unalias(t).(*types.Named); ok {
			tn = n.Obj().Name()
		}
		if ptr != "" {
			return fmt.Sprintf("%s.(*%s).%s", rel, tn, fname)
		}
		return fmt.Sprintf("%s.%s.%s", rel, tn, fname)
	}
	return rel + "." + fname
}

// Pos renders a position relative to the repository root.
func (p *Prog) Pos(pos token.Pos) string {
	if !pos.IsValid() {
		return "-"
	}
	ps := p.Fset.Position(pos)
	rel, err := filepath.Rel(p.Dir, ps.Filename)
	if err != nil || strings.HasPrefix(rel, "..") {
		rel = ps.Filename
	}
	return fmt.Sprintf("%s:%d", rel, ps.Line)
}

// FuncPos is the position of the function declaration.
func (p *Prog) FuncPos(fn *ssa.Function) string { return p.Pos(origin(fn).Pos()) }

// InstrPos finds the best position for an instruction (some SSA instructions carry NoPos).
func (p *Prog) InstrPos(in ssa.Instruction) string {
	if in.Pos().IsValid() {
		return p.Pos(in.Pos())
	}
	if v, ok := in.(ssa.Value); ok {
		for _, r := range *v.Referrers() {
			if r.Pos().IsValid() {
				return p.Pos(r.Pos())
			}
		}
	}
	// fall back to the nearest positioned instruction in the block
	b := in.Block()
	idx := -1
	for i, x := range b.Instrs {
		if x == in {
			idx = i
		}
	}
	for d := 1; d < len(b.Instrs); d++ {
		for _, j := range []int{idx - d, idx + d} {
			if j >= 0 && j < len(b.Instrs) && b.Instrs[j].Pos().IsValid() {
				return p.Pos(b.Instrs[j].Pos())
			}
		}
	}
	return p.FuncPos(in.Parent())
}

// Method returns the SSA function of method `name` on the named type tn (pointer or value receiver), or nil.
func (p *Prog) Method(named *types.Named, name string) *ssa.Function {
	named = named.Origin()
	for i := 0; i < named.NumMethods(); i++ {
		if m := named.Method(i); m.Name() == name || fnName(p.byObj[m]) == name {
			return p.byObj[m]
		}
	}
	return nil
}

// FuncByName looks up a package-level function "pkgrel.Name".
func (p *Prog) FuncByName(relpkg, name string) *ssa.Function {
	for _, pk := range p.Lib {
		if p.RelPkg(pk.PkgPath) == relpkg {
			if f, ok := pk.Types.Scope().Lookup(name).(*types.Func); ok {
				return p.byObj[f]
			}
		}
	}
	return nil
}

// namedOf unwraps pointers/aliases to the generic named type, or nil.
func namedOf(t types.Type) *types.Named {
	t = types.Unalias(t)
	if pt, ok := t.(*types.Pointer); ok {
		t = types.Unalias(pt.Elem())
	}
	if n, ok := t.(*types.Named); ok {
		return n.Origin()
	}
	return nil
}

// TypeKey names a library type: "lists/arraylist.List".
func (p *Prog) TypeKey(n *types.Named) string {
	if n == nil {
		return "?"
	}
	if n.Obj().Pkg() == nil {
		return n.Obj().Name()
	}
	return p.RelPkg(n.Obj().Pkg().Path()) + "." + n.Obj().Name()
}
