package main

// props.go — which rules make up each property (DESIGN §4) and the shared analysis context.

import (
	"fmt"
	"runtime"
	"sort"
	"strings"

	"golang.org/x/tools/go/ssa"
)

type Ctx struct {
	p    *Prog
	opts options
	eff  *Effects
	memo map[string]*RuleResult
	gcs  map[*ssa.Function]*GCNF
	gcsOpt map[string]*GCNF
	ctl  *Ctx // positive-control program
}

func newCtx(p *Prog, opts options) *Ctx {
	return &Ctx{p: p, opts: opts, memo: map[string]*RuleResult{}}
}

func (c *Ctx) E() *Effects {
	if c.eff == nil {
		c.eff = ComputeEffects(c.p)
	}
	return c.eff
}

// rule memoises a rule result (several properties share rules).
func (c *Ctx) rule(name string, f func(*Ctx) *RuleResult) *RuleResult {
	if r, ok := c.memo[name]; ok {
		return r
	}
	r := safeRule(name, c, f)
	sort.SliceStable(r.Obs, func(i, j int) bool { return r.Obs[i].Key < r.Obs[j].Key })
	c.memo[name] = r
	return r
}

// filter returns a copy of a rule result restricted to obligations accepted by keep (floor adjusted by the caller).
func filter(r *RuleResult, rule, title string, floor int, keep func(o Obligation) bool) *RuleResult {
	out := &RuleResult{Rule: rule, Title: title, Floor: floor, Analysed: r.Analysed}
	for _, o := range r.Obs {
		if keep(o) {
			out.Obs = append(out.Obs, o)
		}
	}
	return out
}

type propDef struct {
	run func(c *Ctx) *PropertyRun
}

var properties = map[string]propDef{}

func propertyIDs() []string {
	var ids []string
	for k := range properties {
		if len(k) < 3 || k[0] != 'C' {
			continue
		}
		ids = append(ids, k)
	}
	sort.Strings(ids)
	return ids
}

var trustedBase = []string{
	"go/packages + go/types + go/ssa (golang.org/x/tools v0.29.0) represent /repo's source faithfully",
	"closed table of standard-library summaries (DESIGN §1.3): slices.*, encoding/json, fmt.Sprint*, bytes.Buffer, strings, strconv, cmp, reflect.ValueOf/Pointer, builtin append/copy/clear/delete",
	"Go memory model / map / slice / encoding/json semantics",
}

var commonAssumptions = []string{
	"A1: user-supplied code (comparators, Enumerable callbacks, String/MarshalJSON/UnmarshalJSON of element types) does not reach into the container it is called from; values of type-parameter type are opaque elements",
	"A2: containers are made by their constructors",
	"A5: no unsafe, cgo, assembly, go:linkname or reflect writes in library packages (asserted by scan on every run)",
}

// safeRule runs a rule; an analyser panic (an SSA / term shape the rule did not foresee) is turned into an UNDECIDED
// obligation — the clause could not be established on this code — so that the check fails with a VIOLATION line that
// names the rule instead of dying without a verdict.
func safeRule(name string, c *Ctx, f func(*Ctx) *RuleResult) (res *RuleResult) {
	defer func() {
		if x := recover(); x != nil {
			buf := make([]byte, 4096)
			n := runtime.Stack(buf, false)
			stack := string(buf[:n])
			// keep the first frames below the panic
			lines := strings.Split(stack, "\n")
			if len(lines) > 14 {
				lines = lines[:14]
			}
			res = &RuleResult{Rule: name, Title: "rule " + name + " could not be evaluated on this tree"}
			res.undecided("analyser-panic", "the rule must be able to decide its clause on the code under analysis", "-",
				fmt.Sprintf("the analyser panicked while evaluating rule %s: %v\n%s", name, x, strings.Join(lines, "\n")))
		}
	}()
	return f(c)
}
