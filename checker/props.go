package main

// props.go — which rules make up each property (DESIGN §4) and the shared analysis context.

import (
	"sort"

	"golang.org/x/tools/go/ssa"
)

type Ctx struct {
	p    *Prog
	opts options
	eff  *Effects
	memo map[string]*RuleResult
	gcs  map[*ssa.Function]*GCNF
	ctl  *Ctx // positive-control program
}

func newCtx(p *Prog, opts options) *Ctx {
	return &Ctx{p: p, opts: opts, memo: map[string]*RuleResult{}}
}

func (c *Ctx) E() *Effects {
	if c.eff == nil {
		c.eff = ComputeEffects(c.p)
	}
	return c.eff
}

// rule memoises a rule result (several properties share rules).
func (c *Ctx) rule(name string, f func(*Ctx) *RuleResult) *RuleResult {
	if r, ok := c.memo[name]; ok {
		return r
	}
	r := f(c)
	sort.SliceStable(r.Obs, func(i, j int) bool { return r.Obs[i].Key < r.Obs[j].Key })
	c.memo[name] = r
	return r
}

// filter returns a copy of a rule result restricted to obligations accepted by keep (floor adjusted by the caller).
func filter(r *RuleResult, rule, title string, floor int, keep func(o Obligation) bool) *RuleResult {
	out := &RuleResult{Rule: rule, Title: title, Floor: floor, Analysed: r.Analysed}
	for _, o := range r.Obs {
		if keep(o) {
			out.Obs = append(out.Obs, o)
		}
	}
	return out
}

type propDef struct {
	run func(c *Ctx) *PropertyRun
}

var properties = map[string]propDef{}

func propertyIDs() []string {
	var ids []string
	for k := range properties {
		if len(k) < 3 || k[0] != 'C' {
			continue
		}
		ids = append(ids, k)
	}
	sort.Strings(ids)
	return ids
}

var trustedBase = []string{
	"go/packages + go/types + go/ssa (golang.org/x/tools v0.29.0) represent /repo's source faithfully",
	"closed table of standard-library summaries (DESIGN §1.3): slices.*, encoding/json, fmt.Sprint*, bytes.Buffer, strings, strconv, cmp, reflect.ValueOf/Pointer, builtin append/copy/clear/delete",
	"Go memory model / map / slice / encoding/json semantics",
}

var commonAssumptions = []string{
	"A1: user-supplied code (comparators, Enumerable callbacks, String/MarshalJSON/UnmarshalJSON of element types) does not reach into the container it is called from; values of type-parameter type are opaque elements",
	"A2: containers are made by their constructors",
	"A5: no unsafe, cgo, assembly, go:linkname or reflect writes in library packages (asserted by scan on every run)",
}
