package main

// gcnf.go — E2: guarded-command normal form (DESIGN §2 E2).
//
// A function is cut at its entry and at every loop header. For every path between two cut points (or
// to a return/panic) the builder symbolically evaluates the SSA instructions and emits one guarded
// command:   from-cut-point | guard atoms | ordered effects | exit.
// Terms are canonical trees over parameters, constants, field paths and epoch-stamped loads.
// Nothing is executed: this is a syntactic normal form of the SSA, used to compare functions
// modulo an involution (mirror halves) or a renaming (sibling implementations).

import (
	"fmt"
	"go/constant"
	"go/token"
	"go/types"
	"sort"
	"strconv"
	"strings"

	"golang.org/x/tools/go/ssa"
)

type Term struct {
	Op   string
	Leaf string
	Args []*Term
	str  string
}

func (t *Term) String() string {
	if t == nil {
		return "<nil>"
	}
	if t.str != "" {
		return t.str
	}
	var sb strings.Builder
	if len(t.Args) == 0 {
		if t.Leaf != "" && t.Op != "" {
			sb.WriteString(t.Op + ":" + t.Leaf)
		} else {
			sb.WriteString(t.Op + t.Leaf)
		}
	} else {
		sb.WriteString("(" + t.Op)
		if t.Leaf != "" {
			sb.WriteString(":" + t.Leaf)
		}
		for _, a := range t.Args {
			sb.WriteString(" " + a.String())
		}
		sb.WriteString(")")
	}
	t.str = sb.String()
	return t.str
}

func leaf(op, l string) *Term             { return &Term{Op: op, Leaf: l} }
func node(op string, args ...*Term) *Term { return &Term{Op: op, Args: args} }
func nodeL(op, l string, args ...*Term) *Term {
	return &Term{Op: op, Leaf: l, Args: args}
}

func (t *Term) isConst() bool { return t.Op == "#" }
func (t *Term) constInt() (int64, bool) {
	if t.Op != "#" {
		return 0, false
	}
	s := t.Leaf
	if i := strings.IndexByte(s, ':'); i >= 0 {
		s = s[:i]
	}
	v, err := strconv.ParseInt(s, 10, 64)
	return v, err == nil
}
func (t *Term) constBool() (bool, bool) {
	if t.Op != "#" {
		return false, false
	}
	s := t.Leaf
	if i := strings.IndexByte(s, ':'); i >= 0 {
		s = s[:i]
	}
	switch s {
	case "true":
		return true, true
	case "false":
		return false, true
	}
	return false, false
}

func constTypeSuffix(t types.Type) string {
	if n, ok := types.Unalias(t).(*types.Named); ok && n.Obj().Pkg() != nil {
		return ":" + n.Obj().Name()
	}
	return ""
}

func intConst(v int64, suffix string) *Term { return leaf("#", strconv.FormatInt(v, 10)+suffix) }
func boolConst(b bool) *Term {
	if b {
		return leaf("#", "true")
	}
	return leaf("#", "false")
}

// GC is one guarded command.
type GC struct {
	From    int
	Guards  []*Term
	Effects []*Term
	Exit    *Term
	Pos     token.Pos // position of the first effect / exit, for reports
	// LiveIn (BuildOpts.LiveIn only, on paths that enter a loop header): what the values defined before the loop and used
	// inside it — which the loop's own paths can only name at the unspecific epoch "pre" — are on this entering path
	// (spelling inside the loop → term with this path's version stamps)
	LiveIn map[string]*Term
}

func (g *GC) String() string {
	var gs, es []string
	for _, a := range g.Guards {
		gs = append(gs, a.String())
	}
	sort.Strings(gs)
	for _, e := range g.Effects {
		es = append(es, e.String())
	}
	return fmt.Sprintf("from=%d | %s | %s | %s", g.From, strings.Join(gs, " ∧ "), strings.Join(es, " ; "), g.Exit)
}

// GCNF of one function.
type GCNF struct {
	Fn        *ssa.Function
	GCs       []*GC
	Undecided string // non-empty: the normal form could not be built (bound exceeded, irreducible flow)
	NumPaths  int
	Cuts      []*ssa.BasicBlock
}

func (g *GCNF) Strings() []string {
	var out []string
	for _, gc := range g.GCs {
		out = append(out, gc.String())
	}
	sort.Strings(out)
	return out
}

const maxPaths = 4096
const maxInlineDepth = 6

// BuildOpts selects which callees are expanded inline while the paths are enumerated.
type BuildOpts struct {
	Tag    string                          // cache tag
	Inline func(callee *ssa.Function) bool // additionally expand these (known) library callees
	Depth  int                             // frame-stack limit (default 5)
	LiveIn bool                            // record GC.LiveIn
	Opaque func(callee *ssa.Function) bool // never expand these
}

// frame is one activation on the inline stack. Frames are immutable templates: all values live in the one env of the path
// (no function occurs twice on the stack, so an SSA value belongs to at most one active frame).
type frame struct {
	fn      *ssa.Function
	call    ssa.CallInstruction // call site in the parent frame (nil for the root)
	closure *ssa.MakeClosure    // when the callee is a closure: its creation site (free variables = bindings there)
	retBlk  *ssa.BasicBlock     // where the parent continues
	retIdx  int
	sig     string
}

type cutPoint struct {
	frames []*frame
	blk    *ssa.BasicBlock
	ctx    []ctxEntry // loop-invariant merge values that distinguish this instance of the header (cutContext)
}

type ctxEntry struct {
	phi *ssa.Phi
	t   *Term
}

type gcBuilder struct {
	p        *Prog
	e        *Effects
	fn       *ssa.Function
	cutIdx   map[string]int
	cuts     []cutPoint
	out      *GCNF
	noInline map[string]bool
	pinning  bool // producing the pinned symbol table: no pinned facts are consulted
	opts     BuildOpts
	siteID   map[ssa.Instruction]int
}

type pstate struct {
	b       *gcBuilder
	start   *ssa.BasicBlock
	frames  []*frame
	env     map[ssa.Value]*Term
	epoch   int
	guards  []*Term
	effects []*Term
	allocN  int
	calls   int            // impure calls / builtin effects so far (they may write anything)
	fver    map[string]int // stores per struct field
	tver    map[string]int // stores through non-field addresses, per stored type
	tall    map[string]int // all stores, per stored type
	pos     token.Pos
	onPath  map[string]bool
	// expression inlining
	depth  int
	subst  map[ssa.Value]*Term // parameter substitution while inlining an expression-like callee
	inl    bool                // evaluating an inlined expression: every definition is read at the caller's current epoch
	liveIn map[string]*Term    // set just before a loop-entering path is emitted (BuildOpts.LiveIn)
}

func (s *pstate) clone() *pstate {
	c := *s
	c.env = make(map[ssa.Value]*Term, len(s.env))
	for k, v := range s.env {
		c.env[k] = v
	}
	c.frames = append([]*frame(nil), s.frames...)
	c.guards = append([]*Term(nil), s.guards...)
	c.effects = append([]*Term(nil), s.effects...)
	c.onPath = make(map[string]bool, len(s.onPath))
	for k, v := range s.onPath {
		c.onPath[k] = v
	}
	c.fver, c.tver, c.tall = copyCounts(s.fver), copyCounts(s.tver), copyCounts(s.tall)
	return &c
}

func (s *pstate) top() *frame { return s.frames[len(s.frames)-1] }

func blockKey(fr *frame, blk *ssa.BasicBlock) string { return fr.sig + "#" + strconv.Itoa(blk.Index) }

func isLoopHeader(blk *ssa.BasicBlock) bool {
	for _, pr := range blk.Preds {
		if blk.Dominates(pr) {
			return true
		}
	}
	return false
}

// BuildGCNF computes the normal form of fn (no additional inlining beyond helpers unknown to the pinned symbol table).
func BuildGCNF(p *Prog, e *Effects, fn *ssa.Function) *GCNF {
	return BuildGCNFOpts(p, e, fn, BuildOpts{})
}

func BuildGCNFOpts(p *Prog, e *Effects, fn *ssa.Function, opts BuildOpts) *GCNF {
	b := &gcBuilder{p: p, e: e, fn: fn, cutIdx: map[string]int{}, out: &GCNF{Fn: fn}, opts: opts, siteID: map[ssa.Instruction]int{}}
	if len(fn.Blocks) == 0 {
		b.out.Undecided = "no body"
		return b.out
	}
	root := &frame{fn: fn, sig: ""}
	reg := func(frames []*frame, blk *ssa.BasicBlock) {
		k := blockKey(frames[len(frames)-1], blk)
		if _, ok := b.cutIdx[k]; !ok {
			b.cutIdx[k] = len(b.cuts)
			b.cuts = append(b.cuts, cutPoint{frames: frames, blk: blk})
			b.out.Cuts = append(b.out.Cuts, blk)
		}
	}
	reg([]*frame{root}, fn.Blocks[0])
	for _, blk := range fn.Blocks {
		if blk.Index != 0 && isLoopHeader(blk) {
			reg([]*frame{root}, blk)
		}
	}
	for k := 0; k < len(b.cuts); k++ { // cuts inside inlined callees are discovered while walking
		cut := b.cuts[k]
		st := &pstate{b: b, start: cut.blk, frames: append([]*frame(nil), cut.frames...), env: map[ssa.Value]*Term{}, onPath: map[string]bool{}}
		for _, ce := range cut.ctx {
			st.env[ce.phi] = ce.t
		}
		if k != 0 {
			n := 0
			for _, in := range cut.blk.Instrs {
				ph, ok := in.(*ssa.Phi)
				if !ok {
					break
				}
				st.env[ph] = leaf("φ", fmt.Sprintf("%d.%d", k, n))
				n++
			}
		}
		b.walk(st, cut.blk, nil, k, true, 0)
		if b.out.Undecided != "" {
			break
		}
		if len(b.cuts) > 64 {
			b.out.Undecided = "more than 64 cut points after inlining"
			break
		}
	}
	b.dropUnreachable()
	return b.out
}

// dropUnreachable removes the guarded commands of cut instances no path leads to (the context-free instance of a header
// that is only ever entered with a context).
func (b *gcBuilder) dropUnreachable() {
	if b.out.Undecided != "" {
		return
	}
	reach := map[int]bool{0: true}
	for changed := true; changed; {
		changed = false
		for _, g := range b.out.GCs {
			if reach[g.From] && g.Exit.Op == "goto" {
				if k, err := strconv.Atoi(g.Exit.Leaf); err == nil && !reach[k] {
					reach[k] = true
					changed = true
				}
			}
		}
	}
	kept := b.out.GCs[:0]
	for _, g := range b.out.GCs {
		if reach[g.From] {
			kept = append(kept, g)
		}
	}
	b.out.GCs = kept
}

// toPre re-stamps a value computed before a loop as "read before the loop".
func toPre(t *Term) *Term {
	return rewriteTerm(t, func(x *Term) *Term {
		switch x.Op {
		case "load", "lookup", "next", "res", "@":
			if x.Leaf != "" && x.Leaf != "pre" {
				args := make([]*Term, len(x.Args))
				for i, a := range x.Args {
					args[i] = toPre(a)
				}
				return &Term{Op: x.Op, Leaf: "pre", Args: args}
			}
		}
		return nil
	})
}

// cutContext: the merge values (φs of non-header blocks) that dominate loop header blk and were decided on this path —
// `smaller, larger := a, b; if … { smaller, larger = b, a }; for … smaller …`. A header reached with such values becomes a
// cut instance of its own per distinct assignment (the loop is analysed once per way of entering it, as if it had been
// written out in each branch). Values that depend on an earlier loop stay opaque (no context).
func (st *pstate) cutContext(blk *ssa.BasicBlock) ([]ctxEntry, string) {
	var out []ctxEntry
	var sb strings.Builder
	for _, d := range blk.Parent().Blocks {
		if d == blk || !d.Dominates(blk) || isLoopHeader(d) {
			continue
		}
		for _, in := range d.Instrs {
			ph, ok := in.(*ssa.Phi)
			if !ok {
				break
			}
			t, ok := st.env[ph]
			if !ok {
				continue
			}
			if t.any(func(x *Term) bool { return x.Op == "φ" || x.Op == "φout" }) {
				return nil, ""
			}
			t = toPre(t)
			out = append(out, ctxEntry{ph, t})
			fmt.Fprintf(&sb, "|%s=%s", ph.Name(), t.String())
		}
	}
	return out, sb.String()
}

func (b *gcBuilder) emit(st *pstate, from int, exit *Term) {
	b.out.NumPaths++
	if b.out.NumPaths > maxPaths {
		b.out.Undecided = fmt.Sprintf("more than %d paths", maxPaths)
		return
	}
	gs, feasible := normalizeGuards(st.guards)
	if !feasible {
		return
	}
	b.out.GCs = append(b.out.GCs, &GC{From: from, Guards: gs, Effects: append([]*Term(nil), st.effects...), Exit: exit, Pos: st.pos, LiveIn: st.liveIn})
}

// liveIns: see GC.LiveIn.
func (b *gcBuilder) liveIns(st *pstate, blk *ssa.BasicBlock, k int) map[string]*Term {
	cut := b.cuts[k]
	if len(cut.frames) != len(st.frames) {
		return nil
	}
	tmp := &pstate{b: b, start: blk, frames: append([]*frame(nil), st.frames...), env: map[ssa.Value]*Term{}, onPath: map[string]bool{}}
	for _, ce := range cut.ctx {
		tmp.env[ce.phi] = ce.t
	}
	n := 0
	for _, in := range blk.Instrs {
		ph, ok := in.(*ssa.Phi)
		if !ok {
			break
		}
		tmp.env[ph] = leaf("φ", fmt.Sprintf("%d.%d", k, n))
		n++
	}
	out := map[string]*Term{}
	for _, d := range blk.Parent().Blocks {
		if d == blk || !d.Dominates(blk) {
			continue
		}
		for _, in := range d.Instrs {
			v, ok := in.(ssa.Value)
			if !ok {
				continue
			}
			cur, ok := st.env[v]
			if !ok || v.Referrers() == nil {
				continue
			}
			if _, isPhi := v.(*ssa.Phi); isPhi {
				continue
			}
			used := false
			for _, r := range *v.Referrers() {
				if rb := r.Block(); rb != nil && blk.Dominates(rb) {
					used = true
				}
			}
			if !used {
				continue
			}
			key := tmp.term(v)
			if key.String() != cur.String() {
				out[key.String()] = cur
			}
		}
	}
	if len(out) == 0 {
		return nil
	}
	return out
}

// inlinable decides whether a static library callee is expanded in place: closures and compiler-generated wrappers always,
// helpers that the pinned symbol table does not know (introduced by a refactoring) always, known functions only on request.
func (b *gcBuilder) inlinable(st *pstate, callee *ssa.Function) bool {
	if callee == nil || callee.Blocks == nil || len(st.frames) >= b.maxFrames() || !b.p.IsLib(callee) {
		return false
	}
	for _, fr := range st.frames {
		if fr.fn == callee {
			return false // recursion
		}
	}
	if b.opts.Opaque != nil && b.opts.Opaque(callee) {
		return false
	}
	if callee.Parent() != nil || strings.Contains(callee.Synthetic, "wrapper") || strings.Contains(callee.Synthetic, "thunk") {
		return true
	}
	if callee.Synthetic != "" {
		return false // package initialisers
	}
	if b.opts.Inline != nil && b.opts.Inline(callee) {
		return true
	}
	if b.p.KnownFunc(callee) {
		return false
	}
	// a helper the pinned tree does not know is expanded in place — unless it calls itself: a recursion cannot be written
	// out, the helper stays a call (and is a unit the role-finding rules look at on its own)
	return !selfRecursive(callee)
}

var selfRecCache = map[*ssa.Function]bool{}

func selfRecursive(fn *ssa.Function) bool {
	if v, ok := selfRecCache[fn]; ok {
		return v
	}
	rec := false
	o := fn
	if fn.Origin() != nil {
		o = fn.Origin()
	}
	for _, c := range allCalls(fn) {
		if cal := StaticCallee(c.Common()); cal != nil {
			co := cal
			if cal.Origin() != nil {
				co = cal.Origin()
			}
			if co == o {
				rec = true
			}
		}
	}
	selfRecCache[fn] = rec
	return rec
}

func (b *gcBuilder) maxFrames() int {
	if b.opts.Depth > 0 {
		return b.opts.Depth
	}
	return 5
}

// resolveFunc follows a func-typed value through parameters and free variables of the inline stack to its definition.
func (st *pstate) resolveFunc(v ssa.Value, depth int) (*ssa.Function, *ssa.MakeClosure) {
	if depth > 8 {
		return nil, nil
	}
	v = stripChange(v)
	switch x := v.(type) {
	case *ssa.Function:
		return x, nil
	case *ssa.MakeClosure:
		if f, ok := x.Fn.(*ssa.Function); ok {
			return f, x
		}
	case *ssa.Parameter:
		fi := st.frameIndexOf(x.Parent())
		if fi > 0 {
			fr := st.frames[fi]
			for i, p := range fr.fn.Params {
				if p == x {
					if a := st.actualArg(fr, i); a != nil {
						return st.resolveFunc(a, depth+1)
					}
				}
			}
		}
	case *ssa.FreeVar:
		fi := st.frameIndexOf(x.Parent())
		if fi > 0 && st.frames[fi].closure != nil {
			for j, fv := range x.Parent().FreeVars {
				if fv == x && j < len(st.frames[fi].closure.Bindings) {
					return st.resolveFunc(st.frames[fi].closure.Bindings[j], depth+1)
				}
			}
		}
	}
	return nil, nil
}

func (st *pstate) frameIndexOf(fn *ssa.Function) int {
	for i := len(st.frames) - 1; i >= 0; i-- {
		if st.frames[i].fn == fn {
			return i
		}
	}
	return -1
}

// actualArg: the SSA value bound to parameter i of an inlined frame (in its caller's frame).
func (st *pstate) actualArg(fr *frame, i int) ssa.Value {
	if fr.call == nil {
		return nil
	}
	cc := fr.call.Common()
	args := cc.Args
	if fr.closure != nil || (!cc.IsInvoke() && StaticCallee(cc) == nil) {
		// dynamic call of a closure / func value: the call's arguments are the parameters
		if i < len(args) {
			return args[i]
		}
		return nil
	}
	if i < len(args) {
		return args[i]
	}
	return nil
}

// enterCall pushes a frame for callee and walks its body; the parent continues after the call when the callee returns.
func (b *gcBuilder) enterCall(st *pstate, call ssa.CallInstruction, callee *ssa.Function, clo *ssa.MakeClosure, blk *ssa.BasicBlock, idx int, from int) {
	id, ok := b.siteID[call]
	if !ok {
		id = len(b.siteID) + 1
		b.siteID[call] = id
	}
	fr := &frame{fn: callee, call: call, closure: clo, retBlk: blk, retIdx: idx + 1, sig: st.top().sig + "/" + strconv.Itoa(id)}
	// forget what an earlier activation of the same callee left in the environment
	for _, cb := range callee.Blocks {
		for _, in := range cb.Instrs {
			if v, ok := in.(ssa.Value); ok {
				delete(st.env, v)
			}
		}
	}
	st.frames = append(st.frames, fr)
	b.walk(st, callee.Blocks[0], nil, from, true, 0)
}

func (b *gcBuilder) walk(st *pstate, blk *ssa.BasicBlock, pred *ssa.BasicBlock, from int, first bool, startIdx int) {
	if b.out.Undecided != "" {
		return
	}
	fr := st.top()
	if startIdx == 0 {
		key := blockKey(fr, blk)
		isCut := false
		k := 0
		if isLoopHeader(blk) {
			ctx, cs := st.cutContext(blk)
			key += cs
			// a loop inside an inlined callee, or a header entered with decided merge values: a cut point of its own,
			// discovered here
			if _, ok := b.cutIdx[key]; !ok && (len(st.frames) > 1 || len(ctx) > 0) {
				b.cutIdx[key] = len(b.cuts)
				b.cuts = append(b.cuts, cutPoint{frames: append([]*frame(nil), st.frames...), blk: blk, ctx: ctx})
				b.out.Cuts = append(b.out.Cuts, blk)
			}
			for _, ce := range ctx {
				st.env[ce.phi] = ce.t
			}
		}
		if kk, ok := b.cutIdx[key]; ok {
			isCut, k = true, kk
		}
		if isCut && !(first && len(st.frames) == len(b.cuts[from].frames) && b.cuts[from].blk == blk && k == from) {
			// reached a cut point: exit with the φ assignments of this edge
			var assigns []*Term
			if pred != nil {
				pi := predIndex(blk, pred)
				for _, in := range blk.Instrs {
					ph, ok := in.(*ssa.Phi)
					if !ok {
						break
					}
					assigns = append(assigns, st.term(ph.Edges[pi]))
				}
			}
			if b.opts.LiveIn && !(len(st.frames) == len(b.cuts[from].frames) && b.cuts[from].blk == blk) {
				st.liveIn = b.liveIns(st, blk, k)
			}
			b.emit(st, from, nodeL("goto", strconv.Itoa(k), assigns...))
			st.liveIn = nil
			return
		}
		if st.onPath[key] {
			b.out.Undecided = "irreducible control flow (cycle without a dominating header) in " + b.p.FuncKey(b.fn)
			return
		}
		st.onPath[key] = true
		// resolve φs of a non-cut block from the incoming edge (parallel assignment)
		if pred != nil {
			pi := predIndex(blk, pred)
			var phis []*ssa.Phi
			var vals []*Term
			for _, in := range blk.Instrs {
				ph, ok := in.(*ssa.Phi)
				if !ok {
					break
				}
				phis = append(phis, ph)
				vals = append(vals, st.term(ph.Edges[pi]))
			}
			for i, ph := range phis {
				st.env[ph] = vals[i]
			}
		}
	}
	for idx := startIdx; idx < len(blk.Instrs); idx++ {
		in := blk.Instrs[idx]
		switch x := in.(type) {
		case *ssa.Phi:
			continue
		case *ssa.If:
			c := st.term(x.Cond)
			if bv, ok := c.constBool(); ok {
				if bv {
					b.walk(st, blk.Succs[0], blk, from, false, 0)
				} else {
					b.walk(st, blk.Succs[1], blk, from, false, 0)
				}
				return
			}
			for i, pol := range []bool{true, false} {
				s2 := st
				if i == 0 {
					s2 = st.clone()
				}
				s2.guards = append(s2.guards, atomsOf(c, pol)...)
				if _, feasible := normalizeGuards(s2.guards); !feasible {
					continue
				}
				b.walk(s2, blk.Succs[i], blk, from, false, 0)
			}
			return
		case *ssa.Jump:
			b.walk(st, blk.Succs[0], blk, from, false, 0)
			return
		case *ssa.Return:
			var rs []*Term
			for _, r := range x.Results {
				rs = append(rs, st.term(r))
			}
			if len(st.frames) > 1 {
				// return from an inlined callee: bind the result in the parent and continue there
				fr := st.top()
				st.frames = st.frames[:len(st.frames)-1]
				if v, ok := fr.call.(ssa.Value); ok {
					switch len(rs) {
					case 0:
					case 1:
						st.env[v] = rs[0]
					default:
						st.env[v] = node("tuple", rs...)
					}
				}
				b.walk(st, fr.retBlk, nil, from, false, fr.retIdx)
				return
			}
			if !st.pos.IsValid() {
				st.pos = x.Pos()
			}
			b.emit(st, from, node("return", rs...))
			return
		case *ssa.Panic:
			b.emit(st, from, node("panic"))
			return
		case *ssa.Call:
			// expand helpers unknown to the pinned tree, closures and bound-method wrappers in place
			callee := StaticCallee(&x.Call)
			var clo *ssa.MakeClosure
			if callee == nil && !x.Call.IsInvoke() {
				if _, isB := x.Call.Value.(*ssa.Builtin); !isB {
					callee, clo = st.resolveFunc(x.Call.Value, 0)
				}
			} else if mc, ok := x.Call.Value.(*ssa.MakeClosure); ok {
				clo = mc
			}
			if callee != nil && b.inlinable(st, callee) && !(clo == nil && st.pureExprCallee(callee)) {
				b.enterCall(st, x, callee, clo, blk, idx, from)
				return
			}
			st.exec(in)
		default:
			st.exec(in)
		}
	}
}

// pureExprCallee: the callee is handled (better) by expression inlining.
func (s *pstate) pureExprCallee(callee *ssa.Function) bool {
	sum := s.b.e.Sum[callee]
	pure := sum != nil && len(sum.W) == 0 && sum.Out == nil && len(sum.Undecided) == 0 && len(sum.FreshInto) == 0 && len(sum.Keep) == 0
	if !pure {
		return false
	}
	nret := 0
	for _, b := range callee.Blocks {
		if isLoopHeader(b) {
			return false
		}
		for _, in := range b.Instrs {
			switch x := in.(type) {
			case *ssa.Return:
				nret++
			case *ssa.Phi:
				if x.Comment != "&&" && x.Comment != "||" {
					return false
				}
			}
		}
	}
	return nret == 1 && len(callee.Blocks) <= 8
}

func predIndex(blk, pred *ssa.BasicBlock) int {
	for i, p := range blk.Preds {
		if p == pred {
			return i
		}
	}
	return 0
}

func (s *pstate) effect(t *Term, pos token.Pos) {
	s.effects = append(s.effects, t)
	s.epoch++
	if !s.pos.IsValid() {
		s.pos = pos
	}
}

func (s *pstate) ep() string { return "e" + strconv.Itoa(s.epoch) }

func copyCounts(m map[string]int) map[string]int {
	c := make(map[string]int, len(m))
	for k, v := range m {
		c[k] = v
	}
	return c
}

func typeKey(t types.Type) string {
	return types.TypeString(t, func(*types.Package) string { return "" })
}

func fieldKey(fa *ssa.FieldAddr) string {
	owner := "?"
	if n := namedOf(fa.X.Type()); n != nil {
		owner = n.Obj().Name()
	}
	return owner + "." + fieldNameOf(fa)
}

// noteStore advances the version of the memory a store may change: the field it names (or, for a store through any other
// address, every location of that type).
func (s *pstate) noteStore(addr ssa.Value, valType types.Type) {
	if s.fver == nil {
		s.fver, s.tver, s.tall = map[string]int{}, map[string]int{}, map[string]int{}
	}
	tk := typeKey(valType)
	s.tall[tk]++
	if fa, ok := addr.(*ssa.FieldAddr); ok {
		s.fver[fieldKey(fa)]++
	} else {
		s.tver[tk]++
	}
}

// loadVersion stamps a load with the version of the memory it reads: two loads of one address with no intervening
// store that may alias it get the same stamp (go/ssa does no CSE; temporaries must not change the normal form).
func (s *pstate) loadVersion(addr ssa.Value, valType types.Type) string {
	if s.epoch < 0 {
		return "pre"
	}
	tk := typeKey(valType)
	if fa, ok := addr.(*ssa.FieldAddr); ok {
		return fmt.Sprintf("c%d.f%d.t%d", s.calls, s.fver[fieldKey(fa)], s.tver[tk])
	}
	return fmt.Sprintf("c%d.a%d", s.calls, s.tall[tk])
}

// exec evaluates a non-terminator instruction.
func (s *pstate) exec(in ssa.Instruction) {
	switch x := in.(type) {
	case *ssa.DebugRef:
	case *ssa.Store:
		s.effect(node("store", s.term(x.Addr), s.term(x.Val)), x.Pos())
		s.noteStore(x.Addr, x.Val.Type())
	case *ssa.MapUpdate:
		s.effect(node("mapset", s.term(x.Map), s.term(x.Key), s.term(x.Value)), x.Pos())
		s.noteStore(x.Map, x.Map.Type())
	case *ssa.Send:
		s.effect(node("send", s.term(x.Chan), s.term(x.X)), x.Pos())
	case *ssa.Go, *ssa.Defer:
		c := in.(ssa.CallInstruction)
		s.effect(node("defer/go", s.callTerm(nil, c.Common(), in.Pos())), in.Pos())
	case *ssa.RunDefers:
	case ssa.Value:
		// value-producing instruction: evaluate now so that effects (impure calls) are sequenced
		s.env[x] = s.eval(x)
	}
}

func (s *pstate) term(v ssa.Value) *Term {
	if t, ok := s.env[v]; ok {
		return t
	}
	if s.subst != nil {
		if t, ok := s.subst[v]; ok {
			return t
		}
	}
	switch x := v.(type) {
	case *ssa.Const:
		return constTerm(x)
	case *ssa.Parameter:
		fi := s.frameIndexOf(x.Parent())
		for i, p := range x.Parent().Params {
			if p == x {
				if fi > 0 {
					if a := s.actualArg(s.frames[fi], i); a != nil {
						return s.term(a)
					}
				}
				return leaf("p", strconv.Itoa(i))
			}
		}
	case *ssa.FreeVar:
		fi := s.frameIndexOf(x.Parent())
		for i, p := range x.Parent().FreeVars {
			if p == x {
				if fi > 0 && s.frames[fi].closure != nil && i < len(s.frames[fi].closure.Bindings) {
					return s.term(s.frames[fi].closure.Bindings[i])
				}
				return leaf("fv", strconv.Itoa(i))
			}
		}
	case *ssa.Global:
		return leaf("global", x.Pkg.Pkg.Name()+"."+x.Name())
	case *ssa.Function:
		return leaf("fn", s.b.p.FuncKey(x))
	case *ssa.Builtin:
		return leaf("builtin", x.Name())
	case *ssa.Phi:
		// a φ of a block that is neither on this path nor the start header: opaque symbol
		if fi := s.frameIndexOf(x.Parent()); fi >= 0 {
			if k, ok := s.b.cutIdx[blockKey(s.frames[fi], x.Block())]; ok {
				// the instance of that header this path came through: the one whose context agrees with the values
				// decided on this path (a header split per context is left through the matching instance only)
				best := 0
				for ck, c := range s.b.cuts {
					if c.blk != x.Block() || len(c.ctx) <= best || len(c.frames) != fi+1 || blockKey(c.frames[len(c.frames)-1], c.blk) != blockKey(s.frames[fi], x.Block()) {
						continue
					}
					agree := true
					for _, ce := range c.ctx {
						if t, ok := s.env[ce.phi]; !ok || toPre(t).String() != ce.t.String() {
							agree = false
							break
						}
					}
					if agree {
						best, k = len(c.ctx), ck
					}
				}
				n := 0
				for _, in := range x.Block().Instrs {
					if in == ssa.Instruction(x) {
						break
					}
					n++
				}
				return leaf("φ", fmt.Sprintf("%d.%d", k, n))
			}
		}
		return leaf("φout", x.Comment)
	}
	// defined outside the path (in a dominating block): expand structurally at epoch "pre"
	if in, ok := v.(ssa.Instruction); ok && s.inl {
		t := s.eval(in.(ssa.Value))
		s.env[v] = t
		return t
	}
	if in, ok := v.(ssa.Instruction); ok {
		save := s.epoch
		saveEff := len(s.effects)
		s.epoch = -1
		t := s.eval(in.(ssa.Value))
		s.epoch = save
		s.effects = s.effects[:saveEff] // expanding an out-of-path definition emits no effect
		s.env[v] = t
		return t
	}
	return leaf("?", v.Name())
}

func constTerm(c *ssa.Const) *Term {
	if c.Value == nil {
		if isNillable(c.Type()) {
			return leaf("#", "nil")
		}
		return leaf("#", "zero") // zero value of a struct / type parameter
	}
	suf := constTypeSuffix(c.Type())
	switch c.Value.Kind() {
	case constant.Bool:
		return leaf("#", strconv.FormatBool(constant.BoolVal(c.Value))+suf)
	case constant.Int:
		if i, ok := constant.Int64Val(c.Value); ok {
			return intConst(i, suf)
		}
	case constant.String:
		return leaf("#", strconv.Quote(constant.StringVal(c.Value)))
	}
	return leaf("#", c.Value.ExactString()+suf)
}

func (s *pstate) epLeaf() string {
	if s.epoch < 0 {
		return "pre"
	}
	return s.ep()
}

func fieldNameOf(fa *ssa.FieldAddr) string {
	return fieldNameIn(fa.X.Type(), fa.Field)
}

// eval computes the term of a value-producing instruction (and records effects of impure calls).
func (s *pstate) eval(v ssa.Value) *Term {
	switch x := v.(type) {
	case *ssa.Alloc:
		name := x.Comment + strconv.Itoa(allocOrdinal(x))
		if fi := s.frameIndexOf(x.Parent()); fi > 0 {
			name += "@" + s.frames[fi].sig // an allocation of an inlined callee: one name per call site
		}
		return leaf("new", name)
	case *ssa.MakeSlice:
		s.allocN++
		return nodeL("makeslice", strconv.Itoa(s.allocN), s.term(x.Len), s.term(x.Cap))
	case *ssa.MakeMap:
		s.allocN++
		return leaf("makemap", strconv.Itoa(s.allocN))
	case *ssa.MakeChan:
		s.allocN++
		return leaf("makechan", strconv.Itoa(s.allocN))
	case *ssa.MakeClosure:
		var bs []*Term
		for _, bnd := range x.Bindings {
			bs = append(bs, s.term(bnd))
		}
		return nodeL("closure", s.b.p.FuncKey(x.Fn.(*ssa.Function)), bs...)
	case *ssa.FieldAddr:
		return nodeL("fa", fieldNameOf(x), s.term(x.X))
	case *ssa.Field:
		return nodeL("field", fieldNameIn(x.X.Type(), x.Field), s.term(x.X))
	case *ssa.IndexAddr:
		return node("ia", s.term(x.X), s.term(x.Index))
	case *ssa.Index:
		return node("index", s.term(x.X), s.term(x.Index))
	case *ssa.Lookup:
		return nodeL("lookup", s.loadVersion(x.X, x.X.Type()), s.term(x.X), s.term(x.Index))
	case *ssa.UnOp:
		switch x.Op {
		case token.MUL:
			if pv := s.constCell(x.X); pv != nil {
				return s.term(pv) // a captured parameter: the cell is written once, at function entry
			}
			return nodeL("load", s.loadVersion(x.X, x.Type()), s.term(x.X))
		case token.NOT:
			return mkNot(s.term(x.X))
		case token.SUB:
			t := s.term(x.X)
			if c, ok := t.constInt(); ok {
				return intConst(-c, "")
			}
			return node("neg", t)
		}
		return node("unop"+x.Op.String(), s.term(x.X))
	case *ssa.BinOp:
		if b, ok := types.Unalias(x.Type()).Underlying().(*types.Basic); ok && b.Info()&types.IsString != 0 && x.Op == token.ADD {
			return node("concat", s.term(x.X), s.term(x.Y)) // string concatenation is not commutative
		}
		return mkBin(x.Op, s.term(x.X), s.term(x.Y))
	case *ssa.Phi:
		if t, ok := s.env[x]; ok {
			return t
		}
		return s.term(x)
	case *ssa.ChangeType:
		return s.term(x.X)
	case *ssa.ChangeInterface:
		return s.term(x.X)
	case *ssa.MakeInterface:
		return s.term(x.X)
	case *ssa.Convert:
		// an integer conversion to a narrower type can change the value (and its sign): visible; every other conversion is
		// transparent
		if w := narrowing(x.X.Type(), x.Type()); w != "" {
			t := s.term(x.X)
			if c, ok := t.constInt(); ok && fitsIn(c, w) {
				return t
			}
			return nodeL("narrow", w, t)
		}
		return s.term(x.X)
	case *ssa.SliceToArrayPointer:
		return s.term(x.X)
	case *ssa.TypeAssert:
		return nodeL("assert", x.AssertedType.String(), s.term(x.X))
	case *ssa.Slice:
		args := []*Term{s.term(x.X)}
		for _, o := range []ssa.Value{x.Low, x.High, x.Max} {
			if o == nil {
				args = append(args, leaf("_", ""))
			} else {
				args = append(args, s.term(o))
			}
		}
		return node("slice", args...)
	case *ssa.Extract:
		t := s.term(x.Tuple)
		if t.Op == "tuple" && x.Index < len(t.Args) {
			return t.Args[x.Index]
		}
		return nodeL("ext", strconv.Itoa(x.Index), t)
	case *ssa.Range:
		return node("range", s.term(x.X))
	case *ssa.Next:
		t := nodeL("next", s.epLeaf(), s.term(x.Iter))
		if s.epoch >= 0 {
			s.effect(node("advance", s.term(x.Iter)), x.Pos())
		}
		return t
	case *ssa.Call:
		return s.callTerm(x, &x.Call, x.Pos())
	}
	return leaf("?", fmt.Sprintf("%T", v))
}

// constCell: addr is (possibly through free variables of inlined closures) a local cell that holds a value captured by
// closures and never reassigned: one store in the whole program text, in the entry block of the allocating function and
// before any closure binds the cell; every other use is a load or a closure binding whose body only loads. Loads of such a
// cell are the stored (immutable SSA) value itself — a captured parameter, a captured `result := New()`.
func (s *pstate) constCell(addr ssa.Value) ssa.Value {
	for d := 0; d < 8; d++ {
		fv, ok := addr.(*ssa.FreeVar)
		if !ok {
			break
		}
		fi := s.frameIndexOf(fv.Parent())
		if fi <= 0 || s.frames[fi].closure == nil {
			return nil
		}
		found := false
		for j, x := range fv.Parent().FreeVars {
			if x == fv && j < len(s.frames[fi].closure.Bindings) {
				addr, found = s.frames[fi].closure.Bindings[j], true
			}
		}
		if !found {
			return nil
		}
	}
	al, ok := addr.(*ssa.Alloc)
	if !ok || al.Referrers() == nil {
		return nil
	}
	var val ssa.Value
	var onlyLoads func(v ssa.Value, depth int) bool
	onlyLoads = func(v ssa.Value, depth int) bool {
		if depth > 4 || v.Referrers() == nil {
			return false
		}
		for _, r := range *v.Referrers() {
			switch x := r.(type) {
			case *ssa.Store:
				if v != ssa.Value(al) || x.Addr != v || val != nil || x.Block().Index != 0 {
					return false
				}
				// the store must come before every closure that binds the cell and every direct load in the entry block
				// (everything else in the function is dominated by the entry block)
				for _, in := range x.Block().Instrs {
					if in == ssa.Instruction(x) {
						break
					}
					switch y := in.(type) {
					case *ssa.MakeClosure:
						for _, b := range y.Bindings {
							if b == v {
								return false
							}
						}
					case *ssa.UnOp:
						if y.X == v {
							return false
						}
					}
				}
				val = x.Val
			case *ssa.UnOp:
				if x.Op != token.MUL {
					return false
				}
			case *ssa.DebugRef:
			case *ssa.MakeClosure:
				cf := x.Fn.(*ssa.Function)
				for j, b := range x.Bindings {
					if b == v {
						if j >= len(cf.FreeVars) || !onlyLoads(cf.FreeVars[j], depth+1) {
							return false
						}
					}
				}
			default:
				return false
			}
		}
		return true
	}
	if !onlyLoads(al, 0) || val == nil {
		return nil
	}
	return val
}

func intBits(t types.Type) (bits int, signed bool, ok bool) {
	b, isB := types.Unalias(t).Underlying().(*types.Basic)
	if !isB || b.Info()&types.IsInteger == 0 {
		return 0, false, false
	}
	switch b.Kind() {
	case types.Int8:
		return 8, true, true
	case types.Int16:
		return 16, true, true
	case types.Int32:
		return 32, true, true
	case types.Int64, types.Int:
		return 64, true, true
	case types.Uint8:
		return 8, false, true
	case types.Uint16:
		return 16, false, true
	case types.Uint32:
		return 32, false, true
	case types.Uint64, types.Uint, types.Uintptr:
		return 64, false, true
	}
	return 0, false, false
}

// narrowing: converting from→to may lose high bits; returns the target type's name, "" otherwise.
func narrowing(from, to types.Type) string {
	fb, _, ok1 := intBits(from)
	tb, _, ok2 := intBits(to)
	if ok1 && ok2 && tb < fb {
		return types.Unalias(to).Underlying().(*types.Basic).Name()
	}
	return ""
}

func fitsIn(v int64, typ string) bool {
	switch typ {
	case "int8":
		return v >= -128 && v <= 127
	case "int16":
		return v >= -32768 && v <= 32767
	case "int32":
		return v >= -(1<<31) && v <= (1<<31)-1
	case "uint8":
		return v >= 0 && v <= 255
	case "uint16":
		return v >= 0 && v <= 65535
	case "uint32":
		return v >= 0 && v <= (1<<32)-1
	}
	return false
}

// allocOrdinal numbers the allocations of a function in block order, so that an allocation has one name on every path.
func allocOrdinal(a *ssa.Alloc) int {
	n := 0
	for _, b := range a.Parent().Blocks {
		for _, in := range b.Instrs {
			if x, ok := in.(*ssa.Alloc); ok {
				n++
				if x == a {
					return n
				}
			}
		}
	}
	return 0
}

func mkNot(t *Term) *Term {
	if b, ok := t.constBool(); ok {
		return boolConst(!b)
	}
	if t.Op == "!" {
		return t.Args[0]
	}
	return node("!", t)
}

var commutative = map[token.Token]bool{token.ADD: true, token.MUL: true, token.AND: true, token.OR: true, token.XOR: true, token.EQL: true, token.NEQ: true}

func mkBin(op token.Token, a, b *Term) *Term {
	// constant folding on integers
	if x, ok := a.constInt(); ok {
		if y, ok := b.constInt(); ok {
			switch op {
			case token.ADD:
				return intConst(x+y, "")
			case token.SUB:
				return intConst(x-y, "")
			case token.MUL:
				return intConst(x*y, "")
			case token.QUO:
				if y != 0 {
					return intConst(x/y, "")
				}
			case token.REM:
				if y != 0 {
					return intConst(x%y, "")
				}
			case token.XOR:
				return intConst(x^y, "")
			case token.AND:
				return intConst(x&y, "")
			case token.OR:
				return intConst(x|y, "")
			case token.SHL:
				return intConst(x<<uint(y), "")
			case token.SHR:
				return intConst(x>>uint(y), "")
			case token.EQL:
				return boolConst(x == y)
			case token.NEQ:
				return boolConst(x != y)
			case token.LSS:
				return boolConst(x < y)
			case token.LEQ:
				return boolConst(x <= y)
			case token.GTR:
				return boolConst(x > y)
			case token.GEQ:
				return boolConst(x >= y)
			}
		}
	}
	if x, ok := a.constBool(); ok {
		if y, ok := b.constBool(); ok {
			switch op {
			case token.EQL:
				return boolConst(x == y)
			case token.NEQ:
				return boolConst(x != y)
			}
		}
	}
	if op == token.EQL || op == token.NEQ {
		// a boolean compared with a boolean constant is the boolean itself or its negation (`f(x) == wanted` after an
		// entered helper was called with wanted = true / false)
		for _, pr := range [][2]*Term{{a, b}, {b, a}} {
			if cb, ok := pr[0].constBool(); ok && (pr[0].Leaf == "true" || pr[0].Leaf == "false") { // plain bool (a named bool type such as the node colour keeps its comparison); the other operand is boolean by typing
				if cb == (op == token.EQL) {
					return pr[1]
				}
				return mkNot(pr[1])
			}
		}
		// a named boolean (the node colour: black = true, red = false) compared with its false constant is the comparison
		// with the true constant, negated — one spelling, so that `c != black` and `c == red` are the same atom and
		// `c != black ∧ c != red` is recognised as infeasible
		if ca, ok := a.constBool(); ok && !ca && a.Op == "#" && strings.HasPrefix(a.Leaf, "false:") {
			a = leaf("#", "true:"+a.Leaf[len("false:"):])
			if op == token.EQL {
				op = token.NEQ
			} else {
				op = token.EQL
			}
		} else if cb, ok := b.constBool(); ok && !cb && b.Op == "#" && strings.HasPrefix(b.Leaf, "false:") {
			b = leaf("#", "true:"+b.Leaf[len("false:"):])
			if op == token.EQL {
				op = token.NEQ
			} else {
				op = token.EQL
			}
		}
		// nil against nil / against a fresh allocation: decided (an inlined helper returning nil, a just-built node)
		isNil := func(t *Term) bool { return t.Op == "#" && t.Leaf == "nil" }
		nonNil := func(t *Term) bool {
			return t.Op == "new" || t.Op == "makeslice" || t.Op == "makemap" || t.Op == "makechan"
		}
		switch {
		case isNil(a) && isNil(b):
			return boolConst(op == token.EQL)
		case (isNil(a) && nonNil(b)) || (nonNil(a) && isNil(b)):
			return boolConst(op == token.NEQ)
		}
	}
	switch op {
	case token.GTR:
		return node("<", b, a)
	case token.GEQ:
		return node("<=", b, a)
	case token.LSS:
		return node("<", a, b)
	case token.LEQ:
		return node("<=", a, b)
	}
	if commutative[op] && a.String() > b.String() {
		a, b = b, a
	}
	return node(op.String(), a, b)
}

func (s *pstate) argTerms(args []ssa.Value) []*Term {
	out := make([]*Term, len(args))
	for i, a := range args {
		out[i] = s.term(a)
	}
	return out
}

func (s *pstate) callTerm(v *ssa.Call, c *ssa.CallCommon, pos token.Pos) *Term {
	p := s.b.p
	args := s.argTerms(c.Args)
	if bi, ok := c.Value.(*ssa.Builtin); ok {
		switch bi.Name() {
		case "len", "cap", "min", "max":
			return node(bi.Name(), args...)
		}
		t := nodeL("builtin", bi.Name(), args...)
		if s.epoch >= 0 {
			s.effect(t, pos)
			s.calls++
		}
		return nodeL("res", s.epLeaf(), t)
	}
	if c.IsInvoke() {
		t := nodeL("invoke", c.Method.Name(), append([]*Term{s.term(c.Value)}, args...)...)
		if s.epoch >= 0 {
			s.effect(t, pos)
			s.calls++
		}
		return nodeL("res", s.epLeaf(), t)
	}
	callee := StaticCallee(c)
	if callee == nil {
		// dynamic call through a func value: opaque and (A1) free of effects on the container; callbacks through a
		// parameter are recorded as effects so that "visits every element" is visible in the normal form
		t := node("dyn", append([]*Term{s.term(c.Value)}, args...)...)
		if isParam := t.Args[0].Op == "p"; isParam && s.epoch >= 0 {
			s.effects = append(s.effects, t)
			if !s.pos.IsValid() {
				s.pos = pos
			}
		}
		return t
	}
	if p.IsLib(callee) {
		key := p.FuncKey(callee)
		sum := s.b.e.Sum[callee]
		pure := sum != nil && len(sum.W) == 0 && sum.Out == nil && len(sum.Undecided) == 0 && len(sum.FreshInto) == 0 && len(sum.Keep) == 0
		if pure {
			if !s.b.noInline[key] {
				if t, ok := s.inline(callee, args); ok {
					return t
				}
			}
			return nodeL("call", key, append([]*Term{leaf("@", s.epLeaf())}, args...)...)
		}
		t := nodeL("do", key, args...)
		if s.epoch >= 0 {
			s.effect(t, pos)
			s.calls++
		}
		return nodeL("res", s.epLeaf(), t)
	}
	full, _ := stdName(callee)
	sp, known := stdSpec(callee)
	if known && len(sp.mods) == 0 && !sp.output && !sp.exit {
		return nodeL("std", full, append([]*Term{leaf("@", s.epLeaf())}, args...)...)
	}
	t := nodeL("stddo", full, args...)
	if s.epoch >= 0 {
		s.effect(t, pos)
		s.calls++
	}
	return nodeL("res", s.epLeaf(), t)
}

// inline evaluates a pure, loop-free, expression-like callee as a term (DESIGN E2: withinRange, Size, Empty, isLeaf, …).
func (s *pstate) inline(callee *ssa.Function, args []*Term) (*Term, bool) {
	if s.depth >= maxInlineDepth || len(callee.Blocks) == 0 || len(callee.Blocks) > 8 {
		return nil, false
	}
	// a pinned function that was an opaque call at pin time stays one (rules address it as `call:<pinned name>`), whatever
	// its body looks like now
	if !s.b.pinning && !s.b.p.Control && s.b.p.KnownFunc(callee) && !loadPinned().inl[s.b.p.FuncKey(callee)] {
		return nil, false
	}
	// expression-like: only pure value instructions, If/Jump, exactly one Return, φs only of the && / || kind
	var ret *ssa.Return
	for _, b := range callee.Blocks {
		for _, pr := range b.Preds {
			if b.Dominates(pr) {
				return nil, false // loop
			}
		}
		for _, in := range b.Instrs {
			switch x := in.(type) {
			case *ssa.Return:
				if ret != nil {
					return nil, false
				}
				ret = x
			case *ssa.Phi:
				if x.Comment != "&&" && x.Comment != "||" {
					return nil, false
				}
			case *ssa.If, *ssa.Jump, *ssa.DebugRef, *ssa.FieldAddr, *ssa.IndexAddr, *ssa.UnOp, *ssa.BinOp, *ssa.Call, *ssa.ChangeType,
				*ssa.Convert, *ssa.Field, *ssa.Index, *ssa.Extract, *ssa.MakeInterface, *ssa.Slice, *ssa.Lookup:
			default:
				return nil, false
			}
		}
	}
	if ret == nil {
		return nil, false
	}
	in := &pstate{b: s.b, env: map[ssa.Value]*Term{}, epoch: s.epoch, depth: s.depth + 1, subst: map[ssa.Value]*Term{}, onPath: map[string]bool{}, inl: true,
		calls: s.calls, fver: s.fver, tver: s.tver, tall: s.tall}
	for i, prm := range callee.Params {
		if i < len(args) {
			in.subst[prm] = args[i]
		}
	}
	var expr func(v ssa.Value) (*Term, bool)
	expr = func(v ssa.Value) (*Term, bool) {
		if ph, ok := v.(*ssa.Phi); ok {
			// short-circuit φ: (and c1 c2 … last) / (or …)
			isAnd := ph.Comment == "&&"
			var parts []*Term
			var last *Term
			for i, e := range ph.Edges {
				if c, ok := e.(*ssa.Const); ok && c.Value != nil && c.Value.Kind() == constant.Bool && constant.BoolVal(c.Value) == !isAnd {
					pred := ph.Block().Preds[i]
					ifi, ok := pred.Instrs[len(pred.Instrs)-1].(*ssa.If)
					if !ok {
						return nil, false
					}
					ct, ok := expr(ifi.Cond)
					if !ok {
						return nil, false
					}
					parts = append(parts, ct)
				} else {
					if last != nil {
						return nil, false
					}
					lt, ok := expr(e)
					if !ok {
						return nil, false
					}
					last = lt
				}
			}
			if last == nil {
				return nil, false
			}
			parts = append(parts, last)
			op := "and"
			if !isAnd {
				op = "or"
			}
			return node(op, parts...), true
		}
		if c, ok := v.(*ssa.Call); ok {
			// nested calls must themselves be pure (checked by callTerm: impure ones would record an effect)
			before := len(in.effects)
			t := in.callTerm(c, &c.Call, c.Pos())
			if len(in.effects) != before {
				return nil, false
			}
			in.env[v] = t
			return t, true
		}
		return in.term(v), true
	}
	var rs []*Term
	for _, r := range ret.Results {
		t, ok := expr(r)
		if !ok {
			return nil, false
		}
		rs = append(rs, t)
	}
	if len(in.effects) > 0 {
		return nil, false
	}
	// a pinned function that now merely forwards to a helper the pinned tree does not know (and which cannot be expanded
	// as an expression) stays the opaque call it was: rules keep seeing `call:<pinned name>`
	if s.b.p.KnownFunc(callee) {
		for _, r := range rs {
			unknown := false
			r.any(func(t *Term) bool {
				if (t.Op == "call" || t.Op == "do") && !pinnedKey(t.Leaf) {
					unknown = true
				}
				return unknown
			})
			if unknown {
				return nil, false
			}
		}
	}
	if len(rs) == 1 {
		return rs[0], true
	}
	return node("tuple", rs...), true
}

// pinnedKey: the function key names a function of the pinned tree (or one outside the library).
func pinnedKey(key string) bool {
	if i := strings.IndexByte(key, '$'); i >= 0 {
		key = key[:i]
	}
	_, ok := loadPinned().funcs[key]
	return ok
}

// ---- guard atoms ----

// atomsOf turns a condition with polarity into positive atoms.
func atomsOf(c *Term, pol bool) []*Term {
	switch c.Op {
	case "!":
		return atomsOf(c.Args[0], !pol)
	case "and":
		if pol {
			var out []*Term
			for _, a := range c.Args {
				out = append(out, atomsOf(a, true)...)
			}
			return out
		}
		return []*Term{node("!", c)}
	case "or":
		if !pol {
			var out []*Term
			for _, a := range c.Args {
				out = append(out, atomsOf(a, false)...)
			}
			return out
		}
		return []*Term{c}
	case "<":
		if pol {
			return []*Term{c}
		}
		return []*Term{node("<=", c.Args[1], c.Args[0])}
	case "<=":
		if pol {
			return []*Term{c}
		}
		return []*Term{node("<", c.Args[1], c.Args[0])}
	case "==":
		if pol {
			return []*Term{c}
		}
		return []*Term{node("!=", c.Args[0], c.Args[1])}
	case "!=":
		if pol {
			return []*Term{c}
		}
		return []*Term{node("==", c.Args[0], c.Args[1])}
	}
	if pol {
		return []*Term{c}
	}
	return []*Term{node("!", c)}
}

// normalizeGuards removes duplicates and redundancy, folds three-way comparisons against 0 and detects infeasible sets.
func normalizeGuards(gs []*Term) ([]*Term, bool) {
	type signs struct{ neg, zero, pos bool }
	sg := map[string]*signs{}
	sgTerm := map[string]*Term{}
	eqConst := map[string]string{} // term -> constant it equals
	var rest []*Term
	seen := map[string]bool{}
	restrict := func(t *Term, neg, zero, pos bool) {
		k := t.String()
		s, ok := sg[k]
		if !ok {
			s = &signs{true, true, true}
			sg[k] = s
			sgTerm[k] = t
		}
		s.neg = s.neg && neg
		s.zero = s.zero && zero
		s.pos = s.pos && pos
	}
	isZero := func(t *Term) bool { v, ok := t.constInt(); return ok && v == 0 && !strings.Contains(t.Leaf, ":") }
	for _, g := range gs {
		if b, ok := g.constBool(); ok {
			if !b {
				return nil, false
			}
			continue
		}
		if len(g.Args) == 2 {
			a, b := g.Args[0], g.Args[1]
			switch {
			case g.Op == "<" && isZero(b) && !a.isConst():
				restrict(a, true, false, false)
				continue
			case g.Op == "<" && isZero(a) && !b.isConst():
				restrict(b, false, false, true)
				continue
			case g.Op == "<=" && isZero(b) && !a.isConst():
				restrict(a, true, true, false)
				continue
			case g.Op == "<=" && isZero(a) && !b.isConst():
				restrict(b, false, true, true)
				continue
			case g.Op == "==" && (isZero(a) || isZero(b)) && isIntCmpTerm(a, b):
				if isZero(a) {
					restrict(b, false, true, false)
				} else {
					restrict(a, false, true, false)
				}
				continue
			case g.Op == "!=" && (isZero(a) || isZero(b)) && isIntCmpTerm(a, b):
				if isZero(a) {
					restrict(b, true, false, true)
				} else {
					restrict(a, true, false, true)
				}
				continue
			}
		}
		k := g.String()
		if !seen[k] {
			seen[k] = true
			rest = append(rest, g)
		}
	}
	var out []*Term
	for k, s := range sg {
		t := sgTerm[k]
		zero := intConst(0, "")
		switch {
		case !s.neg && !s.zero && !s.pos:
			return nil, false
		case s.neg && s.zero && s.pos:
		case s.neg && !s.zero && !s.pos:
			out = append(out, node("<", t, zero))
		case !s.neg && s.zero && !s.pos:
			out = append(out, node("==", zero, t))
		case !s.neg && !s.zero && s.pos:
			out = append(out, node("<", zero, t))
		case s.neg && s.zero && !s.pos:
			out = append(out, node("<=", t, zero))
		case !s.neg && s.zero && s.pos:
			out = append(out, node("<=", zero, t))
		case s.neg && !s.zero && s.pos:
			out = append(out, node("!=", zero, t))
		}
	}
	// equalities with constants: conflicts and redundant disequalities
	for _, g := range rest {
		if g.Op == "==" {
			a, b := g.Args[0], g.Args[1]
			if a.isConst() && !b.isConst() {
				a, b = b, a
			}
			if b.isConst() && !a.isConst() {
				if prev, ok := eqConst[a.String()]; ok && prev != b.String() {
					return nil, false
				}
				eqConst[a.String()] = b.String()
			}
		}
	}
	for _, g := range rest {
		if g.Op == "!=" {
			a, b := g.Args[0], g.Args[1]
			if a.isConst() && !b.isConst() {
				a, b = b, a
			}
			if b.isConst() && !a.isConst() {
				if c, ok := eqConst[a.String()]; ok {
					if c == b.String() {
						return nil, false
					}
					continue // implied by the equality with another constant
				}
			}
		}
		// direct contradiction with a complementary atom
		comp := atomsOf(g, false)
		if len(comp) == 1 && seen[comp[0].String()] {
			return nil, false
		}
		out = append(out, g)
	}
	// constant bounds on one term that exclude each other (`0 <= x ∧ x <= -1`), read over the reals so that the argument
	// holds for every numeric type
	type bound struct {
		v      int64
		strict bool
		ok     bool
	}
	lo, hi := map[string]bound{}, map[string]bound{}
	plain := func(t *Term) (int64, bool) {
		if t.Op != "#" || strings.Contains(t.Leaf, ":") || strings.Contains(t.Leaf, "/") {
			return 0, false
		}
		return t.constInt()
	}
	for _, g := range out {
		if len(g.Args) != 2 || (g.Op != "<" && g.Op != "<=" && g.Op != "==") {
			continue
		}
		a, b := g.Args[0], g.Args[1]
		setLo := func(k string, v int64, strict bool) {
			if cur, ok := lo[k]; !ok || v > cur.v || (v == cur.v && strict) {
				lo[k] = bound{v, strict, true}
			}
		}
		setHi := func(k string, v int64, strict bool) {
			if cur, ok := hi[k]; !ok || v < cur.v || (v == cur.v && strict) {
				hi[k] = bound{v, strict, true}
			}
		}
		if v, ok := plain(a); ok && !b.isConst() { // v op b
			switch g.Op {
			case "<":
				setLo(b.String(), v, true)
			case "<=":
				setLo(b.String(), v, false)
			case "==":
				setLo(b.String(), v, false)
				setHi(b.String(), v, false)
			}
		}
		if v, ok := plain(b); ok && !a.isConst() { // a op v
			switch g.Op {
			case "<":
				setHi(a.String(), v, true)
			case "<=":
				setHi(a.String(), v, false)
			case "==":
				setLo(a.String(), v, false)
				setHi(a.String(), v, false)
			}
		}
	}
	for k, l := range lo {
		if h, ok := hi[k]; ok && (l.v > h.v || (l.v == h.v && (l.strict || h.strict))) {
			return nil, false
		}
	}
	sort.Slice(out, func(i, j int) bool { return out[i].String() < out[j].String() })
	return out, true
}

// isIntCmpTerm: comparing against the plain integer 0 (not nil / typed constants).
func isIntCmpTerm(a, b *Term) bool {
	other := a
	if v, ok := a.constInt(); ok && v == 0 {
		other = b
	}
	// sizes, lengths, comparator results, arithmetic: anything that is not itself a constant
	return !other.isConst()
}

// ---- mapping (involution / renaming) ----

// Mu is a structural map on terms: field names, callee names, typed constants, array-index flips, comparator sign.
type Mu struct {
	Fields    map[string]string
	Names     map[string]string // method / function identifiers (last path component of a function key)
	Consts    map[string]string // typed constant leaves, e.g. "0:position" ↔ "2:position"
	FlipIndex string            // field whose [2]-array index is flipped (0 ↔ 1), e.g. "Children"
	FlipSign  bool              // comparator results: c<0 ↔ 0<c
	Params    map[string]string // parameter renaming "0" ↔ "1"
	FlipArg   map[string]bool   // callee identifiers whose integer-constant arguments 0/1 are flipped (bottom, walk1)
	NegArg    map[string]bool   // callee identifiers whose integer-constant arguments are negated (putFix, removeFix)
}

func swapMap(pairs ...string) map[string]string {
	m := map[string]string{}
	for i := 0; i+1 < len(pairs); i += 2 {
		m[pairs[i]] = pairs[i+1]
		m[pairs[i+1]] = pairs[i]
	}
	return m
}

func (m *Mu) name(key string) string {
	i := strings.LastIndexByte(key, '.')
	if i < 0 {
		return key
	}
	if r, ok := m.Names[key[i+1:]]; ok {
		return key[:i+1] + r
	}
	return key
}

func containsDyn(t *Term) bool {
	if t.Op == "dyn" {
		return true
	}
	for _, a := range t.Args {
		if containsDyn(a) {
			return true
		}
	}
	return false
}

func (m *Mu) apply(t *Term) *Term {
	if t == nil {
		return nil
	}
	var args []*Term
	if len(t.Args) > 0 {
		args = make([]*Term, len(t.Args))
		for i, a := range t.Args {
			args[i] = m.apply(a)
		}
	}
	l := t.Leaf
	switch t.Op {
	case "fa", "field":
		if r, ok := m.Fields[l]; ok {
			l = r
		}
	case "call", "do", "fn", "closure":
		id := l
		if i := strings.LastIndexByte(l, '.'); i >= 0 {
			id = l[i+1:]
		}
		if m.FlipArg[id] || m.NegArg[id] {
			for i, a := range args {
				if c, ok := a.constInt(); ok && !strings.Contains(a.Leaf, ":") {
					if m.FlipArg[id] && (c == 0 || c == 1) {
						args[i] = intConst(1-c, "")
					} else if m.NegArg[id] {
						args[i] = intConst(-c, "")
					}
				}
			}
		}
		l = m.name(l)
	case "#":
		if r, ok := m.Consts[l]; ok {
			l = r
		}
	case "p":
		if r, ok := m.Params[l]; ok {
			l = r
		}
	case "ia", "index":
		if m.FlipIndex != "" && len(args) == 2 && (args[0].Op == "fa" || args[0].Op == "field" || args[0].Op == "load") && strings.Contains(args[0].String(), ":"+m.FlipIndex+" ") {
			if c, ok := args[1].constInt(); ok && (c == 0 || c == 1) && isDirectFieldAccess(args[0], m.FlipIndex) {
				args[1] = intConst(1-c, "")
			}
		}
	case "<", "<=":
		if m.FlipSign && len(args) == 2 {
			if z, ok := args[1].constInt(); ok && z == 0 && containsDyn(args[0]) {
				return node(t.Op, args[1], args[0])
			}
			if z, ok := args[0].constInt(); ok && z == 0 && containsDyn(args[1]) {
				return node(t.Op, args[1], args[0])
			}
		}
	}
	out := &Term{Op: t.Op, Leaf: l, Args: args}
	// re-normalise commutative nodes after renaming
	if len(args) == 2 && (t.Op == "==" || t.Op == "!=" || t.Op == "+" || t.Op == "*" || t.Op == "&" || t.Op == "|" || t.Op == "^") && args[0].String() > args[1].String() {
		out.Args = []*Term{args[1], args[0]}
	}
	return out
}

func isDirectFieldAccess(t *Term, field string) bool {
	return (t.Op == "fa" || t.Op == "field") && t.Leaf == field
}

func (m *Mu) applyGC(g *GC) *GC {
	out := &GC{From: g.From, Pos: g.Pos}
	var gs []*Term
	for _, a := range g.Guards {
		gs = append(gs, m.apply(a))
	}
	ng, _ := normalizeGuards(gs)
	out.Guards = ng
	for _, e := range g.Effects {
		out.Effects = append(out.Effects, m.apply(e))
	}
	out.Exit = m.apply(g.Exit)
	return out
}

// rewrite replaces every subterm whose string equals a key of repl (comparison ignores load epochs if ignoreEpoch).
func rewriteTerm(t *Term, f func(*Term) *Term) *Term {
	if t == nil {
		return nil
	}
	if r := f(t); r != nil {
		return r
	}
	if len(t.Args) == 0 {
		return t
	}
	args := make([]*Term, len(t.Args))
	changed := false
	for i, a := range t.Args {
		args[i] = rewriteTerm(a, f)
		if args[i] != a {
			changed = true
		}
	}
	if !changed {
		return t
	}
	out := &Term{Op: t.Op, Leaf: t.Leaf, Args: args}
	if len(args) == 2 && (t.Op == "==" || t.Op == "!=" || t.Op == "+" || t.Op == "*") && args[0].String() > args[1].String() {
		out.Args = []*Term{args[1], args[0]}
	}
	return out
}

// stripEpochs removes epoch stamps (used when a comparison must be insensitive to when a value was read).
func stripEpochs(t *Term) *Term {
	return rewriteTerm(t, func(x *Term) *Term {
		switch x.Op {
		case "load", "lookup", "next", "res":
			if x.Leaf != "" {
				args := make([]*Term, len(x.Args))
				for i, a := range x.Args {
					args[i] = stripEpochs(a)
				}
				return &Term{Op: x.Op, Args: args}
			}
		case "@":
			return &Term{Op: "@"}
		}
		return nil
	})
}

func rewriteGC(g *GC, f func(*Term) *Term) *GC {
	out := &GC{From: g.From, Pos: g.Pos}
	var gs []*Term
	for _, a := range g.Guards {
		gs = append(gs, rewriteTerm(a, f))
	}
	ng, _ := normalizeGuards(gs)
	out.Guards = ng
	for _, e := range g.Effects {
		out.Effects = append(out.Effects, rewriteTerm(e, f))
	}
	out.Exit = rewriteTerm(g.Exit, f)
	return out
}

// canonAllocs renames the allocations of one guarded command in order of first appearance (effects, exit, guards), so that
// mirrored arms, which allocate at different source positions, compare equal.
func canonAllocs(g *GC) *GC {
	names := map[string]string{}
	note := func(t *Term) bool {
		if t.Op == "new" {
			if _, ok := names[t.Leaf]; !ok {
				base := strings.TrimRight(strings.TrimRight(t.Leaf, "0123456789"), "^")
				names[t.Leaf] = base + "^" + strconv.Itoa(len(names)+1)
			}
		}
		return false
	}
	for _, e := range g.Effects {
		e.any(note)
	}
	g.Exit.any(note)
	for _, a := range g.Guards {
		a.any(note)
	}
	if len(names) == 0 {
		return g
	}
	return rewriteGC(g, func(t *Term) *Term {
		if t.Op == "new" {
			return leaf("new", names[t.Leaf])
		}
		return nil
	})
}

// compareGCSets reports the differences between two sets of guarded commands (as sorted strings).
func compareGCSets(a, b []string) (onlyA, onlyB []string) {
	ma, mb := map[string]int{}, map[string]int{}
	for _, s := range a {
		ma[s]++
	}
	for _, s := range b {
		mb[s]++
	}
	for s, n := range ma {
		if mb[s] < n {
			onlyA = append(onlyA, s)
		}
	}
	for s, n := range mb {
		if ma[s] < n {
			onlyB = append(onlyB, s)
		}
	}
	sort.Strings(onlyA)
	sort.Strings(onlyB)
	return
}

// tailRecForm rewrites a function whose whole body is one loop over its parameters — entry path without guards or effects
// that enters loop header k with φ_j := p_i — into the equivalent tail-recursive normal form: φ_j is read as p_i and
// every back edge `goto:k b…` becomes the effect `do:<self> p0 … b_j …` followed by a plain return. A rule written
// against the recursive shape (rebalance(node.Parent, key)) then also reads the loop shape; other functions are returned
// unchanged. Only for functions without results.
func tailRecForm(p *Prog, g *GCNF) *GCNF {
	if g.Undecided != "" || g.Fn.Signature.Results().Len() != 0 {
		return g
	}
	var entry *GC
	for _, x := range g.GCs {
		if x.From == 0 {
			if entry != nil {
				return g
			}
			entry = x
		}
	}
	if entry == nil || len(entry.Guards) != 0 || len(entry.Effects) != 0 || entry.Exit.Op != "goto" || len(entry.Exit.Args) == 0 {
		return g
	}
	k := entry.Exit.Leaf
	phiToParam := map[string]*Term{}
	paramOfPhi := make([]int, len(entry.Exit.Args))
	used := map[int]bool{}
	for j, a := range entry.Exit.Args {
		var i int
		if a.Op != "p" {
			return g
		}
		if _, err := fmt.Sscanf(a.Leaf, "%d", &i); err != nil || used[i] {
			return g
		}
		used[i] = true
		paramOfPhi[j] = i
		phiToParam[k+"."+strconv.Itoa(j)] = a
	}
	out := &GCNF{Fn: g.Fn, NumPaths: g.NumPaths, Cuts: g.Cuts}
	self := p.FuncKey(g.Fn)
	for _, x := range g.GCs {
		if x == entry {
			continue
		}
		if strconv.Itoa(x.From) != k {
			return g // another loop: not the simple shape
		}
		y := rewriteGC(x, func(t *Term) *Term {
			if t.Op == "φ" {
				if prm, ok := phiToParam[t.Leaf]; ok {
					return prm
				}
			}
			return nil
		})
		y.From = 0
		if y.Exit.Op == "goto" {
			if y.Exit.Leaf != k || len(y.Exit.Args) != len(paramOfPhi) {
				return g
			}
			args := make([]*Term, len(g.Fn.Params))
			for i := range args {
				args[i] = leaf("p", strconv.Itoa(i))
			}
			for j, b := range y.Exit.Args {
				args[paramOfPhi[j]] = b
			}
			y.Effects = append(append([]*Term(nil), y.Effects...), nodeL("do", self, args...))
			y.Exit = node("return")
		}
		out.GCs = append(out.GCs, y)
	}
	return out
}
