package main

// rules_effects.go — R1 PURE, R1b dynamic-call hygiene, R1c iterator locality, R2 FRESH, R3 NOOUT, R4 PANICSITES.

import (
	"fmt"
	"go/ast"
	"go/types"
	"sort"
	"strings"

	"golang.org/x/tools/go/ssa"
)

// reader names: the read-only operations named in C18's statement plus the other exported observers of the library.
var containerReaders = []string{
	"Get", "GetKey", "GetNode", "Contains", "IndexOf", "Peek", "Size", "Empty", "Full", "Values", "Keys", "String",
	"ToJSON", "MarshalJSON", "Floor", "Ceiling", "Min", "Max", "Left", "Right", "LeftKey", "LeftValue", "RightKey",
	"RightValue", "Height", "Iterator", "IteratorAt", "Each", "Any", "All", "Find", "Select", "Map",
	"Intersection", "Union", "Difference",
}

// frozen list of mutator names (everything else exported on a container is reported as unclassified, not failed)
var containerMutators = map[string]bool{
	"Add": true, "Append": true, "Prepend": true, "Insert": true, "Remove": true, "Set": true, "Swap": true, "Sort": true,
	"Clear": true, "Put": true, "Push": true, "Pop": true, "Enqueue": true, "Dequeue": true, "FromJSON": true, "UnmarshalJSON": true,
}

var iteratorMovers = []string{"Next", "Prev", "Begin", "End", "First", "Last", "NextTo", "PrevTo"}
var iteratorObservers = []string{"Value", "Key", "Index", "Node"}

func methodsOf(p *Prog, n *types.Named) map[string]*ssa.Function {
	out := map[string]*ssa.Function{}
	n = n.Origin()
	for i := 0; i < n.NumMethods(); i++ {
		m := n.Method(i)
		if fn := p.byObj[m]; fn != nil {
			out[fnName(fn)] = fn
		}
	}
	return out
}

func sortedNames(m map[string]*ssa.Function) []string {
	var xs []string
	for k := range m {
		xs = append(xs, k)
	}
	sort.Strings(xs)
	return xs
}

// paramIsIterator: the declared type of parameter i of fn is (a pointer to) an iterator type.
func paramKind(p *Prog, fn *ssa.Function, i int) Kind {
	if i < len(fn.Params) {
		return p.T.KindOfStruct(fn.Params[i].Type())
	}
	return KOther
}

// forbiddenWrites filters a summary's W set: what a reader must not have.
// allowSelfIter: writes of kind iterator through the receiver are allowed (iterator movers).
func forbiddenWrites(p *Prog, fn *ssa.Function, s *Summary, allowSelfIter bool) []string {
	var bad []string
	for w, wit := range s.W {
		if w.Kind == KIter && w.Root.K == RParam {
			pk := paramKind(p, fn, w.Root.I)
			if pk == KProt || (pk == KOther && w.Root.I < len(fn.Params) && isInterfaceParam(fn, w.Root.I)) {
				// R1c: no iterator object is reachable from container memory, so this pair is impossible
				continue
			}
			if pk == KIter && allowSelfIter && w.Root.I == 0 {
				continue
			}
		}
		bad = append(bad, fmt.Sprintf("writes %s: %s", w, wit))
	}
	sort.Strings(bad)
	return bad
}

func isInterfaceParam(fn *ssa.Function, i int) bool {
	_, ok := types.Unalias(fn.Params[i].Type()).Underlying().(*types.Interface)
	return ok
}

func undecidedFacts(s *Summary) []string {
	var xs []string
	for _, w := range s.Undecided {
		xs = append(xs, w.String())
	}
	sort.Strings(xs)
	return xs
}

const clauseR1 = "a read-only operation performs no write to container/node memory, to another caller's iterator, or to a global (W = ∅ up to its own fresh objects)"

// ruleR1 — PURE.
func ruleR1(c *Ctx) *RuleResult {
	p, e := c.p, c.E()
	r := &RuleResult{Rule: "R1", Title: "PURE: read-only operations perform no shared write", Floor: 330}
	check := func(key string, fn *ssa.Function, allowSelfIter bool) {
		s := e.Sum[fn]
		if u := undecidedFacts(s); len(u) > 0 {
			r.undecided(key, clauseR1, p.FuncPos(fn), "effect summary incomplete: "+strings.Join(u, "; "))
			return
		}
		bad := forbiddenWrites(p, fn, s, allowSelfIter)
		if len(bad) > 0 {
			r.bad(key, clauseR1, p.FuncPos(fn), strings.Join(bad, "\n"))
			return
		}
		r.ok(key, clauseR1, p.FuncPos(fn), "W="+s.WString()+" (only the operation's own iterator/fresh objects)")
	}
	nread, nunclassified := 0, 0
	var unclassified []string
	isReader := map[string]bool{}
	for _, n := range containerReaders {
		isReader[n] = true
	}
	for _, ct := range p.T.Containers {
		ms := methodsOf(p, ct)
		for _, name := range sortedNames(ms) {
			fn := ms[name]
			if isReader[name] {
				check(p.FuncKey(fn), fn, false)
				nread++
			} else if ast.IsExported(name) && !containerMutators[name] {
				nunclassified++
				unclassified = append(unclassified, p.FuncKey(fn))
			}
		}
	}
	for _, nt := range p.T.Nodes {
		ms := methodsOf(p, nt)
		for _, name := range sortedNames(ms) {
			if ast.IsExported(name) {
				check(p.FuncKey(ms[name]), ms[name], false)
				nread++
			}
		}
	}
	nit := 0
	for _, it := range p.T.Iterators {
		ms := methodsOf(p, it)
		for _, name := range iteratorMovers {
			if fn := ms[name]; fn != nil {
				check(p.FuncKey(fn), fn, true)
				nit++
			}
		}
		for _, name := range iteratorObservers {
			if fn := ms[name]; fn != nil {
				check(p.FuncKey(fn), fn, false)
				nit++
			}
		}
	}
	for _, name := range []string{"GetSortedValues", "GetSortedValuesFunc"} {
		if fn := p.FuncByName("containers", name); fn != nil {
			check(p.FuncKey(fn), fn, false)
		} else {
			r.undecided("containers."+name, clauseR1, "-", "anchored function not found")
		}
	}
	r.Analysed = append(r.Analysed,
		fmt.Sprintf("%d container/node reader methods, %d iterator methods, 2 free functions; E1 fixpoint in %d rounds over %d function bodies", nread, nit, e.Rounds, len(p.Funcs)),
		fmt.Sprintf("%d exported container methods are neither readers nor frozen mutators (not judged): %s", nunclassified, strings.Join(unclassified, ", ")))
	return r
}

// ruleR1b — every call through a func value / interface passes only rootless arguments; no library closure escapes.
func ruleR1b(c *Ctx) *RuleResult {
	p, e := c.p, c.E()
	r := &RuleResult{Rule: "R1b", Title: "dynamic-call hygiene: func values receive only opaque elements", Floor: 90}
	clause := "a call through a func value (comparator / user callback) or interface receives no reference into container memory"
	ord := map[string]int{}
	for _, d := range e.Dyn {
		fk := p.FuncKey(d.Fn)
		what := "func:" + calleeValueDesc(d.Instr.Common().Value)
		if d.Invoke {
			what = "invoke:" + d.Instr.Common().Method.Name()
		}
		base := fk + ":" + what
		ord[base]++
		key := fmt.Sprintf("%s#%d", base, ord[base])
		pos := p.InstrPos(d.Instr)
		if d.Rootless {
			r.ok(key, clause, pos, d.Desc)
		} else {
			r.bad(key, clause, pos, d.Desc+" — an argument is rooted in container memory")
		}
	}
	// closures
	var esc []string
	for _, fn := range p.Funcs {
		for _, w := range e.Sum[fn].ClosureEscapes {
			esc = append(esc, p.FuncKey(fn)+": "+w.String())
		}
	}
	sort.Strings(esc)
	cl := "no closure created by the library is stored into shared memory (a stored closure could be run later by a reader)"
	if len(esc) > 0 {
		r.bad("closures", cl, "-", strings.Join(esc, "\n"))
	} else {
		r.ok("closures", cl, "-", "no MakeClosure value flows into a non-fresh region")
	}
	return r
}

// ruleR1c — iterator locality + A5 scan.
func ruleR1c(c *Ctx) *RuleResult {
	p := c.p
	r := &RuleResult{Rule: "R1c", Title: "iterator locality (no iterator in shared memory) and A5 scan", Floor: 22}
	clause := "no container/node struct and no package variable holds an iterator: iterator objects are owned by one caller"
	bad := map[string][]string{}
	for _, s := range p.T.IterInShared {
		k := strings.SplitN(s, " ", 2)[0]
		bad[k] = append(bad[k], s)
	}
	for _, ct := range p.T.Containers {
		k := p.TypeKey(ct)
		if b := bad[k]; len(b) > 0 {
			r.bad(k, clause, p.Pos(ct.Obj().Pos()), strings.Join(b, "; "))
		} else {
			r.ok(k, clause, p.Pos(ct.Obj().Pos()), "field-reachability closure contains no iterator type")
		}
	}
	if b := bad["package"]; len(b) > 0 {
		r.bad("package-variables", clause, "-", strings.Join(b, "; "))
	} else {
		r.ok("package-variables", clause, "-", "no package-level variable of iterator type")
	}
	// A5: unsafe / cgo / linkname / syscall
	var a5 []string
	for _, pk := range p.Lib {
		for _, f := range pk.Syntax {
			for _, im := range f.Imports {
				path := strings.Trim(im.Path.Value, `"`)
				if path == "unsafe" || path == "C" || path == "syscall" || strings.HasPrefix(path, "golang.org/x/sys") {
					a5 = append(a5, p.Pos(im.Pos())+" imports "+path)
				}
			}
			for _, cg := range f.Comments {
				for _, cm := range cg.List {
					if strings.HasPrefix(cm.Text, "//go:linkname") {
						a5 = append(a5, p.Pos(cm.Pos())+" "+cm.Text)
					}
				}
			}
		}
	}
	cl5 := "A5: library packages use no unsafe, cgo, syscall or go:linkname (the effect analysis relies on type safety)"
	if len(a5) > 0 {
		r.bad("A5-scan", cl5, "-", strings.Join(a5, "; "))
	} else {
		r.ok("A5-scan", cl5, "-", fmt.Sprintf("%d library packages scanned", len(p.Lib)))
	}
	return r
}

// ---- R2 FRESH ----

func retOnlyFresh(rs RootSet) bool {
	for r := range rs {
		if r.K != RFresh {
			return false
		}
	}
	return true
}

func ruleR2a(c *Ctx) *RuleResult {
	p, e := c.p, c.E()
	r := &RuleResult{Rule: "R2a", Title: "FRESH: Values()/Keys() return a fresh, unretained slice", Floor: 29}
	clause := "the returned slice is allocated by the call, shares no backing array with the container and is not retained by it"
	for _, ct := range p.T.Containers {
		ms := methodsOf(p, ct)
		for _, name := range []string{"Keys", "Values"} {
			fn := ms[name]
			if fn == nil {
				continue
			}
			s := e.Sum[fn]
			key := p.FuncKey(fn)
			if u := undecidedFacts(s); len(u) > 0 {
				r.undecided(key, clause, p.FuncPos(fn), strings.Join(u, "; "))
				continue
			}
			if len(s.Ret) != 1 {
				r.undecided(key, clause, p.FuncPos(fn), "unexpected result arity")
				continue
			}
			if retOnlyFresh(s.Ret[0]) {
				r.ok(key, clause, p.FuncPos(fn), "Ret="+s.Ret[0].String())
			} else {
				r.bad(key, clause, p.FuncPos(fn), "Ret="+s.Ret[0].String()+" — the result may alias (or be retained in) memory reachable from a parameter/global")
			}
		}
	}
	return r
}

func ruleR2b(c *Ctx) *RuleResult {
	p, e := c.p, c.E()
	r := &RuleResult{Rule: "R2b", Title: "FRESH: slice arguments are copied, never retained", Floor: 50}
	clause := "a slice passed by the caller is not stored into the container, a global or the result (only its elements are copied)"
	for _, fn := range p.Funcs {
		if fn.Parent() != nil || fn.Object() == nil || !ast.IsExported(fn.Name()) {
			continue
		}
		if recv := fn.Signature.Recv(); recv != nil {
			if n := namedOf(recv.Type()); n == nil || !n.Obj().Exported() {
				continue
			}
		}
		for i, prm := range fn.Params {
			if _, ok := types.Unalias(prm.Type()).Underlying().(*types.Slice); !ok {
				continue
			}
			s := e.Sum[fn]
			key := p.FuncKey(fn) + ":" + prm.Name()
			if u := undecidedFacts(s); len(u) > 0 {
				r.undecided(key, clause, p.FuncPos(fn), strings.Join(u, "; "))
				continue
			}
			me := Root{K: RParam, I: i}
			var bad []string
			for k, wit := range s.Keep {
				if k.From == me {
					bad = append(bad, fmt.Sprintf("retained in %s: %s", k.To, wit))
				}
			}
			for ri, rs := range s.Ret {
				if rs.has(me) {
					bad = append(bad, fmt.Sprintf("result %d may alias the argument slice", ri))
				}
			}
			sort.Strings(bad)
			if len(bad) > 0 {
				r.bad(key, clause, p.FuncPos(fn), strings.Join(bad, "\n"))
			} else {
				r.ok(key, clause, p.FuncPos(fn), "no Keep entry from "+me.String()+"; not in any Ret set")
			}
		}
	}
	return r
}

func ruleR2c(c *Ctx) *RuleResult {
	p, e := c.p, c.E()
	r := &RuleResult{Rule: "R2c", Title: "FRESH: GetSortedValues[Func] sort a fresh slice only", Floor: 2}
	clause := "the slice handed to slices.Sort[Func] is fresh for every Values() implementation (CHA join), so sorting cannot reorder any container"
	for _, name := range []string{"GetSortedValues", "GetSortedValuesFunc"} {
		fn := p.FuncByName("containers", name)
		if fn == nil {
			r.undecided("containers."+name, clause, "-", "anchored function not found")
			continue
		}
		a := e.fa[fn]
		s := e.Sum[fn]
		var facts, bad []string
		nsort := 0
		for _, b := range fn.Blocks {
			for _, in := range b.Instrs {
				call, ok := in.(*ssa.Call)
				if !ok {
					continue
				}
				cal := StaticCallee(&call.Call)
				if cal == nil || p.IsLib(cal) {
					continue
				}
				full, _ := stdName(cal)
				if sp, ok := stdSpec(cal); ok && len(sp.mods) > 0 {
					nsort++
					o := a.get(call.Call.Args[sp.mods[0]])
					facts = append(facts, fmt.Sprintf("%s sorts a slice with origins %s", full, o))
					if !o.onlyFresh() {
						bad = append(bad, fmt.Sprintf("%s at %s writes a slice with origins %s", full, p.InstrPos(in), o))
					}
				}
			}
		}
		if !retOnlyFresh(s.Ret[0]) {
			bad = append(bad, "Ret="+s.Ret[0].String())
		}
		// the result is *sorted*: every path that returns two or more values has sorted exactly the slice it returns, last
		// (a hand-written "already in order?" scan with < calls a slice with a NaN in it sorted)
		if gc := c.GC(fn); gc.Undecided == "" {
			for _, g := range gc.GCs {
				if g.Exit.Op != "return" || len(g.Exit.Args) != 1 {
					continue
				}
				res := noEpoch(g.Exit.Args[0])
				short := false
				for _, at := range g.Guards {
					// len(values) < 2
					if at.Op == "<" && len(at.Args) == 2 && at.Args[0].Op == "len" && noEpoch(at.Args[0].Args[0]) == res {
						if k, ok := at.Args[1].constInt(); ok && k <= 2 {
							short = true
						}
					}
					// len(values) <= 1
					if at.Op == "<=" && len(at.Args) == 2 && at.Args[0].Op == "len" && noEpoch(at.Args[0].Args[0]) == res {
						if k, ok := at.Args[1].constInt(); ok && k <= 1 {
							short = true
						}
					}
					// len(values) == 0 / == 1
					if at.Op == "==" && len(at.Args) == 2 && at.Args[1].Op == "len" && noEpoch(at.Args[1].Args[0]) == res {
						if k, ok := at.Args[0].constInt(); ok && k <= 1 {
							short = true
						}
					}
					if at.Op == "std" && (at.Leaf == "slices.IsSorted" || at.Leaf == "slices.IsSortedFunc") && len(at.Args) >= 2 && noEpoch(at.Args[1]) == res {
						short = true // the standard library's own order test
					}
				}
				sorted := false
				for _, ef := range g.Effects {
					if ef.Op == "stddo" && strings.HasPrefix(ef.Leaf, "slices.Sort") && len(ef.Args) >= 1 && noEpoch(ef.Args[0]) == res {
						sorted = true
					} else if sorted && (ef.Op == "stddo" || ef.Op == "builtin" || isStore(ef)) {
						bad = append(bad, "the slice is modified after it was sorted: "+trunc(noEpoch(ef), 120))
					}
				}
				if !short && !sorted {
					bad = append(bad, "a path returns two or more values without having sorted them: "+trunc(guardsString(g), 200))
				}
			}
		}
		if u := undecidedFacts(s); len(u) > 0 {
			r.undecided(p.FuncKey(fn), clause, p.FuncPos(fn), strings.Join(u, "; "))
		} else if len(bad) > 0 {
			r.bad(p.FuncKey(fn), clause, p.FuncPos(fn), strings.Join(bad, "\n"))
		} else if nsort == 0 {
			r.undecided(p.FuncKey(fn), clause, p.FuncPos(fn), "no sorting call found")
		} else {
			impls := len(e.invokeImpl["Values"])
			r.ok(p.FuncKey(fn), clause, p.FuncPos(fn), strings.Join(facts, "; ")+fmt.Sprintf("; Values() resolved to %d implementations; Ret=%s W=%s", impls, s.Ret[0], s.WString()))
		}
	}
	return r
}

var derivedResultMethods = []string{"Select", "Map", "Intersection", "Union", "Difference"}

func ruleR2d(c *Ctx) *RuleResult {
	p, e := c.p, c.E()
	r := &RuleResult{Rule: "R2d", Title: "FRESH: derived containers share no state with their operands", Floor: 25}
	clause := "the container returned by Select/Map/Intersection/Union/Difference is freshly built and embeds no pointer, slice or map of an operand"
	for _, ct := range p.T.Containers {
		ms := methodsOf(p, ct)
		for _, name := range derivedResultMethods {
			fn := ms[name]
			if fn == nil {
				continue
			}
			s := e.Sum[fn]
			key := p.FuncKey(fn)
			if u := undecidedFacts(s); len(u) > 0 {
				r.undecided(key, clause, p.FuncPos(fn), strings.Join(u, "; "))
				continue
			}
			if len(s.Ret) >= 1 && s.Ret[0].hasFresh() && retOnlyFresh(s.Ret[0]) {
				r.ok(key, clause, p.FuncPos(fn), "Ret="+s.Ret[0].String())
			} else {
				r.bad(key, clause, p.FuncPos(fn), "Ret="+s.Ret[0].String()+" — the result is, or reaches, operand memory")
			}
		}
	}
	return r
}

// ---- R3 NOOUT ----

func directOutputSites(p *Prog, fn *ssa.Function) []string {
	var out []string
	for _, b := range fn.Blocks {
		for _, in := range b.Instrs {
			ci, ok := in.(ssa.CallInstruction)
			if !ok {
				continue
			}
			cc := ci.Common()
			if bi, ok := cc.Value.(*ssa.Builtin); ok {
				if bi.Name() == "print" || bi.Name() == "println" {
					out = append(out, "builtin "+bi.Name()+"@"+p.InstrPos(in))
				}
				continue
			}
			cal := StaticCallee(cc)
			if cal == nil || p.IsLib(cal) {
				continue
			}
			if sp, ok := stdSpec(cal); ok && sp.output {
				full, _ := stdName(cal)
				out = append(out, full+"@"+p.InstrPos(in))
			}
		}
	}
	if in, name := refsOutputGlobal(fn); in != nil {
		out = append(out, name+"@"+p.InstrPos(in))
	}
	return out
}

func ruleR3(c *Ctx) *RuleResult {
	p, e := c.p, c.E()
	r := &RuleResult{Rule: "R3", Title: "NOOUT: no library function can write to stdout/stderr", Floor: 600}
	clause := "no path from a library function reaches fmt.Print*/print/println/log.*/os.Stdout/os.Stderr"
	for _, fn := range p.Funcs {
		key := p.FuncKey(fn)
		sites := directOutputSites(p, fn)
		if len(sites) > 0 {
			for _, s := range sites {
				parts := strings.SplitN(s, "@", 2)
				r.bad(key+"→"+parts[0], clause, parts[1], "direct call/reference to "+parts[0]+" in "+key)
			}
			continue
		}
		s := e.Sum[fn]
		if s.Out != nil {
			// reaches output through a callee: reported at the callee; keep this as a discharged-with-note to avoid double counting
			r.ok(key, clause, p.FuncPos(fn), "no direct output call (reaches one through: "+s.Out.String()+" — reported there)")
			continue
		}
		r.ok(key, clause, p.FuncPos(fn), "Out=false")
	}
	return r
}

// ---- R4 PANICSITES ----

var documentedPanics = map[string]int64{"queues/circularbuffer.Queue": 1, "trees/btree.Tree": 3}

func ruleR4(c *Ctx) *RuleResult {
	p := c.p
	r := &RuleResult{Rule: "R4", Title: "PANICSITES: explicit panics only at the two documented constructor preconditions", Floor: 0}
	clause := "an explicit panic/exit exists only in the circular-buffer / B-tree constructor, guarded by the documented bound (capacity < 1, order < 3)"
	n := 0
	for _, fn := range p.Funcs {
		ord := 0
		for _, b := range fn.Blocks {
			for _, in := range b.Instrs {
				isPanic := false
				what := ""
				switch x := in.(type) {
				case *ssa.Panic:
					isPanic, what = true, "panic"
				case ssa.CallInstruction:
					if cal := StaticCallee(x.Common()); cal != nil && !p.IsLib(cal) {
						if sp, ok := stdSpec(cal); ok && sp.exit {
							full, _ := stdName(cal)
							isPanic, what = true, full
						}
					}
				}
				if !isPanic {
					continue
				}
				n++
				ord++
				key := fmt.Sprintf("%s:%s#%d", p.FuncKey(fn), what, ord)
				pos := p.InstrPos(in)
				// allowed?
				res := fn.Signature.Results()
				var bound int64 = -1
				tk := ""
				if fn.Signature.Recv() == nil && res.Len() == 1 {
					if nt := namedOf(res.At(0).Type()); nt != nil {
						tk = p.TypeKey(nt)
						if bnd, ok := documentedPanics[tk]; ok {
							bound = bnd
						}
					}
				}
				if bound < 0 || what != "panic" {
					r.bad(key, clause, pos, "explicit "+what+" outside the documented constructor preconditions")
					continue
				}
				okGuard := false
				var seen []string
				for _, g := range guardsOf(b) {
					if x, cst, ok := asLessThanConst(g.If.Cond); ok && g.Polarity {
						if prm, isParam := x.(*ssa.Parameter); isParam {
							seen = append(seen, fmt.Sprintf("%s < %d", prm.Name(), cst))
							if cst <= bound {
								okGuard = true
							}
						}
					}
				}
				if okGuard {
					r.ok(key, clause, pos, "constructor of "+tk+"; panic edge-dominated by "+strings.Join(seen, ", "))
				} else {
					r.bad(key, clause, pos, fmt.Sprintf("panic in the constructor of %s is not guarded by parameter < %d (guards seen: %v)", tk, bound, seen))
				}
			}
		}
	}
	r.Analysed = append(r.Analysed, fmt.Sprintf("%d explicit panic/exit sites in %d library functions", n, len(p.Funcs)))
	return r
}
