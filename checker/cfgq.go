package main

// cfgq.go — E3: CFG queries over go/ssa basic blocks (DESIGN §2 E3).

import (
	"go/constant"
	"go/token"

	"golang.org/x/tools/go/ssa"
)

// reachableAvoidingEdge reports whether `to` is reachable from the entry block of fn when the CFG edge
// from→succ(idx) is removed. If it is not, every entry→to path passes that edge ("edge dominance").
func reachableAvoidingEdge(fn *ssa.Function, from *ssa.BasicBlock, succIdx int, to *ssa.BasicBlock) bool {
	seen := make([]bool, len(fn.Blocks))
	var stack []*ssa.BasicBlock
	stack = append(stack, fn.Blocks[0])
	seen[0] = true
	if fn.Blocks[0] == to {
		return true
	}
	for len(stack) > 0 {
		b := stack[len(stack)-1]
		stack = stack[:len(stack)-1]
		for i, s := range b.Succs {
			if b == from && i == succIdx {
				continue
			}
			if !seen[s.Index] {
				if s == to {
					return true
				}
				seen[s.Index] = true
				stack = append(stack, s)
			}
		}
	}
	return false
}

// edgeDominates: every path from entry to block `b` takes the `polarity` edge of the If terminating `ifb`.
func edgeDominates(ifb *ssa.BasicBlock, polarity bool, b *ssa.BasicBlock) bool {
	if _, ok := ifb.Instrs[len(ifb.Instrs)-1].(*ssa.If); !ok {
		return false
	}
	idx := 0
	if !polarity {
		idx = 1
	}
	// degenerate: both successors identical
	if ifb.Succs[0] == ifb.Succs[1] {
		return false
	}
	return !reachableAvoidingEdge(ifb.Parent(), ifb, idx, b)
}

// Cond is an atomic branch condition with the polarity under which an instruction executes.
type Cond struct {
	If       *ssa.If
	Polarity bool
}

// guardsOf lists every (If, polarity) whose edge dominates block b.
func guardsOf(b *ssa.BasicBlock) []Cond {
	var out []Cond
	fn := b.Parent()
	for _, blk := range fn.Blocks {
		if len(blk.Instrs) == 0 {
			continue
		}
		ifi, ok := blk.Instrs[len(blk.Instrs)-1].(*ssa.If)
		if !ok {
			continue
		}
		if blk == b {
			continue
		}
		if edgeDominates(blk, true, b) {
			out = append(out, Cond{ifi, true})
		} else if edgeDominates(blk, false, b) {
			out = append(out, Cond{ifi, false})
		}
	}
	return out
}

func constInt(v ssa.Value) (int64, bool) {
	c, ok := v.(*ssa.Const)
	if !ok || c.Value == nil || c.Value.Kind() != constant.Int {
		return 0, false
	}
	return c.Int64(), true
}

// asLessThanConst matches `x < c` / `x <= c-1` / `c > x` / `c-1 >= x` and returns (x, c).
func asLessThanConst(v ssa.Value) (ssa.Value, int64, bool) {
	b, ok := v.(*ssa.BinOp)
	if !ok {
		return nil, 0, false
	}
	if c, ok := constInt(b.Y); ok {
		switch b.Op {
		case token.LSS:
			return b.X, c, true
		case token.LEQ:
			return b.X, c + 1, true
		}
	}
	if c, ok := constInt(b.X); ok {
		switch b.Op {
		case token.GTR:
			return b.Y, c, true
		case token.GEQ:
			return b.Y, c + 1, true
		}
	}
	return nil, 0, false
}

// postDominators computes the immediate post-dominator relation on the reversed CFG with a virtual exit
// joining all blocks without successors (Return / Panic). pdom[b.Index] is the set of blocks post-dominating b.
type postDom struct {
	fn   *ssa.Function
	sets [][]bool // sets[b][x] = x post-dominates b
}

func newPostDom(fn *ssa.Function) *postDom {
	n := len(fn.Blocks)
	pd := &postDom{fn: fn, sets: make([][]bool, n)}
	for i := range pd.sets {
		pd.sets[i] = make([]bool, n)
		for j := range pd.sets[i] {
			pd.sets[i][j] = true
		}
	}
	for _, b := range fn.Blocks {
		if len(b.Succs) == 0 {
			for j := range pd.sets[b.Index] {
				pd.sets[b.Index][j] = j == b.Index
			}
		}
	}
	changed := true
	for changed {
		changed = false
		for i := n - 1; i >= 0; i-- {
			b := fn.Blocks[i]
			if len(b.Succs) == 0 {
				continue
			}
			nw := make([]bool, n)
			for j := range nw {
				nw[j] = true
			}
			for _, s := range b.Succs {
				for j := range nw {
					nw[j] = nw[j] && pd.sets[s.Index][j]
				}
			}
			nw[b.Index] = true
			for j := range nw {
				if nw[j] != pd.sets[b.Index][j] {
					changed = true
				}
			}
			pd.sets[b.Index] = nw
		}
	}
	return pd
}

// postDominates: every path from a to an exit passes b.
func (pd *postDom) postDominates(b, a *ssa.BasicBlock) bool { return pd.sets[a.Index][b.Index] }

// instrIndex returns the index of in within its block.
func instrIndex(in ssa.Instruction) int {
	for i, x := range in.Block().Instrs {
		if x == in {
			return i
		}
	}
	return -1
}

// mustPrecede: every path from entry to b passes a (a dominates b; same block ⇒ earlier).
func mustPrecede(a, b ssa.Instruction) bool {
	if a.Block() == b.Block() {
		return instrIndex(a) < instrIndex(b)
	}
	return a.Block().Dominates(b.Block())
}

// mustFollow: every path from a to an exit passes b.
func mustFollow(pd *postDom, a, b ssa.Instruction) bool {
	if a.Block() == b.Block() {
		return instrIndex(a) < instrIndex(b)
	}
	return pd.postDominates(b.Block(), a.Block())
}
