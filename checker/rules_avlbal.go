package main

// rules_avlbal.go — R42 AVLBAL: after a rebalancing rotation every node's stored balance factor is the height difference of
// its subtrees.
//
// putFix and removeFix are replayed — with singlerot, doublerot, rotate (and any helper a refactoring introduced) expanded in
// place, for both directions c = -1, +1 — over the symbolic heap of R34, extended by the balance fields: what a path knows
// about the initial factors comes from its guards (`s.b == c`, `child.b != 0`, a factor different from two of {-1, 0, 1} is the
// third), the node being repaired is two levels heavier on side c than on the other (that is why it is being rotated).
// From these facts the heights of all opaque subtrees are determined up to a common offset; the replay gives the final links
// and the final stored factors; for every node the path touched, stored factor = height(right) - height(left) must hold.
// (Closed-form evaluation on an abstract shape: no tree is built, no library code runs.)

import (
	"fmt"
	"os"
	"strconv"
	"strings"

	"golang.org/x/tools/go/ssa"
)

func ruleR42(c *Ctx) *RuleResult {
	p := c.p
	r := &RuleResult{Rule: "R42", Title: "AVLBAL: after a rebalancing rotation every touched node's balance factor is the height difference of its subtrees", Floor: 2}
	clause := "on every path of %s without rotation the node's factor moves by c (0 → c, -c → 0; a node leaning towards c is rotated) and the height signal says whether the subtree's height changed; on every rotating path of %s (both directions, helpers expanded): the heights of the subtrees follow from the balance factors the path knows and from the repaired node being 2 heavier on side c; with the links and factors the path leaves, stored factor = height(Children[1]) - height(Children[0]) for every node it touched"
	slots := [2]string{"Children[0]", "Children[1]"}
	for _, name := range []string{"putFix", "removeFix"} {
		var fn *ssa.Function
		for _, f := range p.Funcs {
			if f.Parent() == nil && f.Pkg != nil && p.RelPkg(f.Pkg.Pkg.Path()) == "trees/avltree" && f.Signature.Recv() == nil && fnName(f) == name {
				fn = f
			}
		}
		key := "trees/avltree." + name
		cl := fmt.Sprintf(clause, name, name)
		if fn == nil {
			r.undecided(key, cl, "-", "anchored function not found")
			continue
		}
		gc := c.GCWith(fn, BuildOpts{Tag: "R42", Depth: 6, Inline: func(cal *ssa.Function) bool {
			n := fnName(cal)
			return n == "singlerot" || n == "doublerot" || n == "rotate"
		}})
		if gc.Undecided != "" {
			r.undecided(key, cl, p.FuncPos(fn), gc.Undecided)
			continue
		}
		var bad, skipped []string
		nrot, nflat := 0, 0
		for _, dir := range []int{-1, 1} {
			a := (dir + 1) / 2
			for _, g := range gc.GCs {
				if g.From != 0 || g.Exit.Op != "return" {
					bad = append(bad, "the expanded function has a loop")
					continue
				}
				h := &symHeap{uf: map[string]string{}, env: map[string]int{"0": dir}, opened: map[string]bool{}, slots: slots}
				for i := 0; i < 4; i++ {
					h.uf["p:*p:"+itoa(i)] = "*p:" + itoa(i) // the name of what a pointer parameter points at
				}
				where := fmt.Sprintf("direction %d, path %s", dir, trunc(guardsString(g), 200))
				// the repaired node: *t
				deref := func(t *Term) (string, bool) {
					if t.Op == "load" && len(t.Args) == 1 && t.Args[0].Op == "p" {
						return "*p:" + t.Args[0].Leaf, true
					}
					return "", false
				}
				var val func(t *Term, upto int) string
				val = func(t *Term, upto int) string {
					if s, ok := deref(t); ok {
						return h.find(s)
					}
					if t.Op == "load" && len(t.Args) == 1 && (t.Args[0].Op == "fa" || t.Args[0].Op == "ia") {
						// resolve the object through our own deref-aware evaluation
						var objT *Term
						if t.Args[0].Op == "fa" {
							objT = t.Args[0].Args[0]
						} else if t.Args[0].Args[0].Op == "fa" {
							objT = t.Args[0].Args[0].Args[0]
						}
						if objT != nil {
							if s, ok := deref(objT); ok {
								// substitute a parameter-like leaf for *t so that symHeap can name it
								h.uf["p:"+s] = h.find(s)
							}
						}
					}
					return h.val(rewriteTerm(t, func(x *Term) *Term {
						if s, ok := deref(x); ok {
							return leaf("p", s)
						}
						return nil
					}), upto)
				}
				addr := func(t *Term, upto int) (string, string, string, bool) {
					return h.addr(rewriteTerm(t, func(x *Term) *Term {
						if s, ok := deref(x); ok {
							return leaf("p", s)
						}
						return nil
					}), upto)
				}
				// initial balance factors known from the guards (loads of b at its initial version)
				bInit := map[string]int{}
				excl := map[string]map[int]bool{}
				var intOf func(t *Term, upto int) (int, bool)
				intOf = func(t *Term, upto int) (int, bool) {
					if t.Op == "load" && len(t.Args) == 1 && t.Args[0].Op == "fa" && t.Args[0].Leaf == "b" {
						s := val(t, upto)
						if v, err := strconv.Atoi(s); err == nil {
							return v, true
						}
						if strings.HasSuffix(s, ").b") {
							if v, ok := bInit[h.find(s[1:len(s)-3])]; ok {
								return v, true
							}
						}
						return 0, false
					}
					if k, ok := t.constInt(); ok {
						return int(k), true
					}
					switch {
					case t.Op == "p":
						v, ok := h.env[t.Leaf]
						return v, ok
					case t.Op == "neg" && len(t.Args) == 1:
						v, ok := intOf(t.Args[0], upto)
						return -v, ok
					case t.Op == "narrow" && len(t.Args) == 1:
						return intOf(t.Args[0], upto)
					case len(t.Args) == 2 && (t.Op == "+" || t.Op == "-" || t.Op == "*"):
						x, ok1 := intOf(t.Args[0], upto)
						y, ok2 := intOf(t.Args[1], upto)
						if !ok1 || !ok2 {
							return 0, false
						}
						switch t.Op {
						case "+":
							return x + y, true
						case "-":
							return x - y, true
						}
						return x * y, true
					}
					return h.evalInt(t)
				}
				isInitB := func(t *Term) (string, bool) {
					if t.Op == "load" && len(t.Args) == 1 && t.Args[0].Op == "fa" && t.Args[0].Leaf == "b" && len(t.Args[0].Args) == 1 {
						if m := rotFieldVer.FindStringSubmatch(t.Leaf); m != nil && m[1] == "0" {
							return h.find(val(t.Args[0].Args[0], len(h.stores))), true
						}
					}
					return "", false
				}
				// replay the stores (links, parents, factors, *t)
				finalRoot := ""
				type bst struct {
					obj string
					v   int
					ok  bool
				}
				var bStores []bst
				var bTerms []*Term
				var bIdx []int
				failed := ""
				for _, ef := range g.Effects {
					if !isStore(ef) {
						if ef.Op == "do" || ef.Op == "stddo" || ef.Op == "builtin" {
							failed = "a call the replay cannot follow: " + trunc(noEpoch(ef), 100)
						}
						continue
					}
					n := len(h.stores)
					if ef.Args[0].Op == "p" { // *t = x
						finalRoot = h.find(val(ef.Args[1], n))
						continue
					}
					obj, slot, field, ok := addr(ef.Args[0], n)
					if !ok {
						failed = "a store through an address the replay cannot resolve: " + trunc(noEpoch(ef), 100)
						continue
					}
					if slot == slots[0] || slot == slots[1] {
						h.opened[h.find(obj)] = true
					}
					if slot == "b" {
						bStores = append(bStores, bst{obj: h.find(obj)})
						bTerms = append(bTerms, ef.Args[1])
						bIdx = append(bIdx, len(h.stores))
						h.stores = append(h.stores, symStore{obj: obj, slot: slot, val: "?b", field: field})
						continue
					}
					h.stores = append(h.stores, symStore{obj: obj, slot: slot, val: val(ef.Args[1], n), field: field})
				}
				// what the path knows about the initial factors (its guards, read with all links in place), then the stored
				// factors in order
				for pass := 0; pass < 2; pass++ {
					for _, gd := range g.Guards {
						if (gd.Op != "==" && gd.Op != "!=") || len(gd.Args) != 2 {
							continue
						}
						for i := 0; i < 2; i++ {
							obj, ok := isInitB(gd.Args[i])
							if !ok {
								continue
							}
							v, okv := intOf(gd.Args[1-i], len(h.stores))
							if !okv {
								continue
							}
							if gd.Op == "==" {
								bInit[obj] = v
							} else {
								if excl[obj] == nil {
									excl[obj] = map[int]bool{}
								}
								excl[obj][v] = true
							}
						}
					}
				}
				if name == "putFix" {
					// putFix(c, t) runs because the child on side c just grew; a subtree that grew by insertion is not
					// balanced at its root (its own putFix returned true after setting a non-zero factor)
					rch := h.find("(" + h.find("*p:1") + ")." + slots[a])
					if excl[rch] == nil {
						excl[rch] = map[int]bool{}
					}
					excl[rch][0] = true
				}
				for obj, ex := range excl {
					if _, known := bInit[obj]; known {
						continue
					}
					var rest []int
					for _, v := range []int{-1, 0, 1} {
						if !ex[v] {
							rest = append(rest, v)
						}
					}
					if len(rest) == 1 {
						bInit[obj] = rest[0]
					}
				}
				for i, t := range bTerms {
					v, okv := intOf(t, bIdx[i])
					bStores[i].v, bStores[i].ok = v, okv
					bStores[i].obj = h.find(bStores[i].obj)
					if okv {
						h.stores[bIdx[i]].val = strconv.Itoa(v)
					}
				}
				root := h.find("*p:1")
				rotated := false
				for _, st := range h.stores {
					if st.slot == slots[0] || st.slot == slots[1] {
						rotated = true
					}
				}
				if !rotated {
					// a path without rotation: the side c gained one level relative to the other (putFix: it grew; removeFix:
					// the other side shrank), so the factor moves by c — from 0 to c or from -c to 0; a node already leaning
					// towards c must be rotated. The signal: putFix reports growth (only from 0), removeFix reports
					// shrinking (only from -c).
					nflat++
					beta, ok := bInit[root]
					if !ok {
						skipped = append(skipped, where+": a path without rotation does not know the node's factor")
						continue
					}
					if failed != "" {
						skipped = append(skipped, where+": "+failed)
						continue
					}
					if beta == dir {
						bad = append(bad, where+": the node leans towards side c already (factor c), gains another level there and is not rotated")
						continue
					}
					want := beta + dir
					got, known, stored := beta, true, false
					for i := len(bStores) - 1; i >= 0; i-- {
						if bStores[i].obj == root {
							got, known, stored = bStores[i].v, bStores[i].ok, true
							break
						}
					}
					_ = stored
					if !known {
						skipped = append(skipped, where+": the factor stored without rotation is not a known number")
					} else if got != want {
						bad = append(bad, fmt.Sprintf("%s: without rotation the node's factor must move from %d to %d (side c gained a level); it is left at %d", where, beta, want, got))
					}
					for _, st := range bStores {
						if st.obj != root {
							bad = append(bad, where+": a path without rotation writes the balance factor of another node ("+st.obj+")")
						}
					}
					wantSig := beta == 0
					if name == "removeFix" {
						wantSig = beta == -dir
					}
					switch g.Exit.String() {
					case "(return #:true)":
						if !wantSig {
							bad = append(bad, fmt.Sprintf("%s: reports a height change although the subtree keeps its height (factor %d → %d)", where, beta, want))
						}
					case "(return #:false)":
						if wantSig {
							bad = append(bad, fmt.Sprintf("%s: reports no height change although the subtree's height changed (factor %d → %d)", where, beta, want))
						}
					default:
						skipped = append(skipped, where+": the height signal is not a constant")
					}
					continue
				}
				nrot++
				if failed != "" {
					skipped = append(skipped, where+": "+failed)
					continue
				}
				if finalRoot == "" {
					finalRoot = root
				}
				if bv, ok := bInit[root]; !ok || bv != dir {
					bad = append(bad, where+": the node is rotated on a path that does not know it leans towards side c (its factor must be c, its real imbalance 2c)")
					continue
				}
				// canonical opened set
				op := map[string]bool{}
				for x := range h.opened {
					op[h.find(x)] = true
				}
				h.opened = op
				initChild := func(x string, side int) string { return h.find("(" + x + ")." + slots[side]) }
				// heights of the opaque subtrees, top-down from the repaired node
				height := map[string]int{}
				var assign func(x string, H int, depth int) bool
				assign = func(x string, H int, depth int) bool {
					x = h.find(x)
					if depth > 8 {
						return false
					}
					if !h.opened[x] || x == "nil" {
						if old, seen := height[x]; seen && old != H {
							return false
						}
						height[x] = H
						return true
					}
					d := 0 // height(child on side a) - height(other child)
					if x == root {
						d = 2
					} else {
						bv, ok := bInit[x]
						if !ok {
							failed = "the path rotates through node " + x + " without knowing its balance factor"
							return false
						}
						d = dir * bv
					}
					ha, hb := H-1, H-1-d
					if d < 0 {
						ha, hb = H-1+d, H-1
					}
					return assign(initChild(x, a), ha, depth+1) && assign(initChild(x, a^1), hb, depth+1)
				}
				if !assign(root, 100, 0) {
					if failed == "" {
						failed = "the initial shape is inconsistent with the balance factors the path knows"
					}
					// rotating through a node whose factor the path never looked at, and then writing factors that are
					// constants: the right factors depend on that node's (a double rotation hands the pivot's lean to the two
					// nodes it ends up above), so no constants can be right for all its values — unless some stored factor is
					// itself computed from a loaded factor (an arithmetic spelling the replay does not follow: no verdict)
					if strings.Contains(failed, "without knowing its balance factor") {
						computed := false
						for _, ef := range g.Effects {
							if storeToField(ef, "b") && ef.Args[1].any(func(t *Term) bool { return t.Op == "fa" && t.Leaf == "b" }) {
								computed = true
							}
						}
						if !computed {
							bad = append(bad, where+": "+failed+", yet writes constant factors (the factors after this rotation depend on it)")
							continue
						}
					}
					skipped = append(skipped, where+": "+failed)
					continue
				}
				// final heights
				n := len(h.stores)
				finalChild := func(x string, side int) string {
					for i := n - 1; i >= 0; i-- {
						if h.stores[i].slot == slots[side] && h.find(h.stores[i].obj) == x {
							return h.find(h.stores[i].val)
						}
					}
					return initChild(x, side)
				}
				var hf func(x string, depth int) (int, bool)
				hf = func(x string, depth int) (int, bool) {
					x = h.find(x)
					if depth > 10 {
						return 0, false
					}
					if !h.opened[x] || x == "nil" {
						v, ok := height[x]
						return v, ok
					}
					l, ok1 := hf(finalChild(x, 0), depth+1)
					rr, ok2 := hf(finalChild(x, 1), depth+1)
					if !ok1 || !ok2 {
						return 0, false
					}
					if l > rr {
						return l + 1, true
					}
					return rr + 1, true
				}
				var visit func(x string, depth int)
				seen := map[string]bool{}
				visit = func(x string, depth int) {
					x = h.find(x)
					if seen[x] || depth > 10 || !h.opened[x] || x == "nil" {
						return
					}
					seen[x] = true
					l, ok1 := hf(finalChild(x, 0), 0)
					rr, ok2 := hf(finalChild(x, 1), 0)
					if !ok1 || !ok2 {
						skipped = append(skipped, where+": a subtree of "+x+" has no derived height")
						return
					}
					// the stored factor at the end
					bf, known := 0, false
					for i := len(bStores) - 1; i >= 0; i-- {
						if bStores[i].obj == x {
							bf, known = bStores[i].v, bStores[i].ok
							break
						}
					}
					if !known {
						hasStore := false
						for _, s := range bStores {
							if s.obj == x {
								hasStore = true
							}
						}
						if !hasStore {
							bf, known = bInit[x], true
							if _, ok := bInit[x]; !ok {
								known = false
							}
						}
					}
					if !known {
						skipped = append(skipped, where+": the final factor of "+x+" is not a known number")
					} else if bf != rr-l {
						if os.Getenv("R42_DEBUG") != "" {
							fmt.Fprintf(os.Stderr, "R42 %s dir=%d\n  guards: %s\n  bInit=%v\n  height=%v\n  finalRoot=%s node=%s l=%d r=%d bf=%d\n  bStores=%v\n  stores=%v\n", name, dir, noEpoch(nodeL("x", "", g.Guards...)), bInit, height, finalRoot, x, l, rr, bf, bStores, h.stores)
						}
						bad = append(bad, fmt.Sprintf("%s: node %s ends with subtrees of height %d (left) and %d (right) — relative to each other — but balance factor %d", where, x, l-90, rr-90, bf))
					}
					visit(finalChild(x, 0), depth+1)
					visit(finalChild(x, 1), depth+1)
				}
				visit(finalRoot, 0)
			}
		}
		switch {
		case len(bad) > 0:
			r.bad(key, cl, p.FuncPos(fn), strings.Join(dedup(bad), "\n"))
		case nrot == 0:
			r.undecided(key, cl, p.FuncPos(fn), "no rotating path found")
		case len(skipped) > 0:
			r.ok(key, cl, p.FuncPos(fn), fmt.Sprintf("%d rotating and %d non-rotating path replays; NOT DECIDED for %d of them (%s)", nrot, nflat, len(dedup(skipped)), trunc(strings.Join(dedup(skipped), "; "), 400)))
		default:
			r.ok(key, cl, p.FuncPos(fn), fmt.Sprintf("%d rotating and %d non-rotating path replays (both directions): every touched node's factor equals its height difference, the height signal is right", nrot, nflat))
		}
	}
	return r
}
