package main

// rules_pairs.go — R15 LINKED (table ↔ order list), R16 BIDI (forward ↔ inverse), R19 ADAPT (adapter ends, ring indices).

import (
	"fmt"
	"go/types"
	"os"
	"sort"
	"strings"

	"golang.org/x/tools/go/ssa"
)

func lastIdent(key string) string {
	if i := strings.LastIndexByte(key, '.'); i >= 0 {
		return key[i+1:]
	}
	return key
}

// effDo: an impure library call effect `(do:<key> args…)`.
func effDo(ef *Term) (name string, args []*Term, ok bool) {
	if ef.Op != "do" {
		return "", nil, false
	}
	return lastIdent(ef.Leaf), ef.Args, true
}

func hasField(t *Term, field string) bool {
	return t.any(func(x *Term) bool { return (x.Op == "fa" || x.Op == "field") && x.Leaf == field })
}

func noEpoch(t *Term) string { return stripEpochs(t).String() }

// varargElem: the single element stored into the varargs array that `slice` denotes, looking back in the effects.
func varargElem(effects []*Term, upto int, slice *Term) *Term {
	if slice.Op != "slice" || len(slice.Args) == 0 || slice.Args[0].Op != "new" {
		return nil
	}
	var elem *Term
	n := 0
	for i := 0; i < upto; i++ {
		ef := effects[i]
		if isStore(ef) && ef.Args[0].Op == "ia" && ef.Args[0].Args[0].String() == slice.Args[0].String() {
			elem = ef.Args[1]
			n++
		}
	}
	if n != 1 {
		return nil
	}
	return elem
}

// lookupAtom: atom is `found` / `!found` of a lookup; returns the lookup term and polarity.
func lookupAtom(a *Term) (*Term, bool, bool) {
	pol := true
	if a.Op == "!" {
		pol = false
		a = a.Args[0]
	}
	if a.Op == "ext" && a.Leaf == "1" && len(a.Args) == 1 {
		l := a.Args[0]
		if l.Op == "lookup" || (l.Op == "call" && strings.HasSuffix(l.Leaf, ").Get")) {
			return l, pol, true
		}
	}
	// the same lookup through the node: GetNode(key) != nil
	if (a.Op == "!=" || a.Op == "==") && len(a.Args) == 2 {
		for i := 0; i < 2; i++ {
			if a.Args[i].String() == "#:nil" && a.Args[1-i].Op == "call" && (strings.HasSuffix(a.Args[1-i].Leaf, ").GetNode") || strings.HasSuffix(a.Args[1-i].Leaf, ").lookup")) && len(a.Args[1-i].Args) == 3 {
				return a.Args[1-i], pol == (a.Op == "!="), true
			}
		}
	}
	return nil, false, false
}

// lookedUpValue: t is the value that lookup l found — the first result of Get, or the Value field of the node.
func lookedUpValue(t, l *Term) bool {
	if l == nil {
		return false
	}
	if t.Op == "ext" && t.Leaf == "0" && len(t.Args) == 1 && noEpoch(t.Args[0]) == noEpoch(l) {
		return true
	}
	return t.Op == "load" && len(t.Args) == 1 && t.Args[0].Op == "fa" && t.Args[0].Leaf == "Value" && len(t.Args[0].Args) == 1 && noEpoch(t.Args[0].Args[0]) == noEpoch(l)
}

// staleNodeReads: every read `node.Value` / `node.Key` of a node obtained by GetNode/lookup on tree field F must happen
// before the path's first structural call (Put/Remove/Clear) on F — the red-black tree's Remove recycles nodes (a node with two
// children takes over its predecessor's key and value), so a node pointer does not survive it.
func staleNodeReads(g *GC) []string {
	var bad []string
	// calls in order, with the tree field they act on
	type callInfo struct{ name, field string }
	var calls []callInfo
	fieldOfRecv := func(t *Term) string {
		f := ""
		t.any(func(x *Term) bool {
			if x.Op == "fa" && len(x.Args) == 1 && x.Args[0].String() == "p:0" && f == "" {
				f = x.Leaf
			}
			return false
		})
		return f
	}
	for _, ef := range g.Effects {
		if ef.Op == "do" || ef.Op == "stddo" || ef.Op == "dyn" || ef.Op == "invoke" {
			nm, args, ok := effDo(ef)
			ci := callInfo{}
			if ok && len(args) >= 1 {
				ci = callInfo{nm, fieldOfRecv(args[0])}
			}
			calls = append(calls, ci)
		}
	}
	check := func(t *Term) bool {
		if t.Op != "load" || len(t.Args) != 1 || t.Args[0].Op != "fa" || (t.Args[0].Leaf != "Value" && t.Args[0].Leaf != "Key") || len(t.Args[0].Args) != 1 {
			return false
		}
		n := t.Args[0].Args[0]
		if n.Op != "call" || !(strings.HasSuffix(n.Leaf, ").GetNode") || strings.HasSuffix(n.Leaf, ").lookup")) || len(n.Args) != 3 {
			return false
		}
		m := verRe.FindStringSubmatch(t.Leaf)
		if m == nil {
			return false
		}
		k := atoiOr(m[1], 0) // calls before the read
		tree := fieldOfRecv(n.Args[1])
		// calls before the lookup itself (its epoch counts effects)
		from := 0
		if n.Args[0].Op == "@" && strings.HasPrefix(n.Args[0].Leaf, "e") {
			ne := atoiOr(n.Args[0].Leaf[1:], 0)
			for i, ef := range g.Effects {
				if i >= ne {
					break
				}
				if ef.Op == "do" || ef.Op == "stddo" || ef.Op == "dyn" || ef.Op == "invoke" {
					from++
				}
			}
		}
		for i := from; i < k && i < len(calls); i++ {
			if calls[i].field == tree && tree != "" && (calls[i].name == "Remove" || calls[i].name == "Put" || calls[i].name == "Clear") {
				bad = append(bad, fmt.Sprintf("a node of %s obtained before %s(%s…) is read after it (the tree recycles nodes on removal): %s", tree, calls[i].name, tree, trunc(noEpoch(t), 120)))
			}
		}
		return false
	}
	for _, ef := range g.Effects {
		ef.any(check)
	}
	g.Exit.any(check)
	return bad
}

// lookupParts: (container term, key term) of a lookup / Get call.
func lookupParts(l *Term) (recv, key *Term) {
	if l.Op == "lookup" && len(l.Args) == 2 {
		return l.Args[0], l.Args[1]
	}
	if l.Op == "call" && len(l.Args) == 3 {
		return l.Args[1], l.Args[2]
	}
	return nil, nil
}

// ---- R15 ----

func ruleR15(c *Ctx) *RuleResult {
	p := c.p
	r := &RuleResult{Rule: "R15", Title: "LINKED: hash table and order list move together; the order list is append-only per key", Floor: 2 * 5}
	clA := "R15a the order list is mutated only by Append under 'key not in table', Remove(IndexOf(key)) under 'key in table' together with delete(table,key), and Clear together with clearing the table"
	clB := "R15b table and order list gain / lose a key on exactly the same paths"
	clC := "R15c enumerators walk the order list and never range over the Go map (whose order is random)"
	clW := "R15w the table / order-list fields themselves are only assigned while constructing or clearing"
	for _, tk := range []string{"maps/linkedhashmap.Map", "sets/linkedhashset.Set"} {
		ct := p.T.ContainerByKey(tk)
		if ct == nil {
			r.undecided(tk, clA, "-", "anchored type not found")
			continue
		}
		st := ct.Underlying().(*types.Struct)
		table, order := "", ""
		for i := 0; i < st.NumFields(); i++ {
			f := st.Field(i)
			if _, isMap := f.Type().Underlying().(*types.Map); isMap {
				table = fieldN(ct, i)
			}
			if n := namedOf(f.Type()); n != nil && p.T.IsContainer(n) {
				order = fieldN(ct, i)
			}
		}
		pos := p.Pos(ct.Obj().Pos())
		if table == "" || order == "" {
			r.undecided(tk, clA, pos, "could not identify the table / order-list fields")
			continue
		}
		var badA, badB, badW, factsA []string
		nApp, nRem, nClr := 0, 0, 0
		ms := methodsOf(p, ct)
		// helpers of the type (unknown to the pinned tree) that are IndexOf on the order list written out: kept as calls
		idxHelper := map[*ssa.Function]bool{}
		for _, name := range sortedNames(ms) {
			if f := ms[name]; !p.KnownFunc(f) {
				ok := isIndexOfHelper(c, f, order)
				if os.Getenv("R15_DEBUG") != "" {
					fmt.Fprintln(os.Stderr, "R15 helper candidate", p.FuncKey(f), ok)
				}
				if ok {
					idxHelper[f] = true
				}
			}
		}
		isIdxHelperKey := func(leafKey string) bool {
			for f := range idxHelper {
				if p.FuncKey(f) == leafKey {
					return true
				}
			}
			return false
		}
		for _, name := range sortedNames(ms) {
			fn := ms[name]
			gc := c.GC(fn)
			if len(idxHelper) > 0 && !idxHelper[fn] {
				gc = c.GCWith(fn, BuildOpts{Tag: "R15", Opaque: func(cal *ssa.Function) bool {
					for f := range idxHelper {
						if p.FuncKey(cal) == p.FuncKey(f) {
							return true
						}
					}
					return false
				}})
			}
			gc = indexOfWalkForm(p, gc)
			if os.Getenv("R15_DEBUG") != "" && name == "Remove" {
				for _, x := range gc.Strings() {
					fmt.Fprintln(os.Stderr, "  R15 GC:", trunc(x, 400))
				}
			}
			if gc.Undecided != "" {
				badA = append(badA, p.FuncKey(fn)+": normal form not built: "+gc.Undecided)
				continue
			}
			for _, g := range gc.GCs {
				// facts about this path
				var negKeys, posKeys []string
				for _, a := range g.Guards {
					if l, pol, ok := lookupAtom(a); ok {
						rc, k := lookupParts(l)
						if rc != nil && hasField(rc, table) {
							if pol {
								posKeys = append(posKeys, noEpoch(k))
							} else {
								negKeys = append(negKeys, noEpoch(k))
							}
						}
					}
				}
				contains := func(xs []string, x string) bool {
					for _, y := range xs {
						if y == x {
							return true
						}
					}
					return false
				}
				var appended, removed, inserted, deleted []string
				clearedOrder, clearedTable := false, false
				for i, ef := range g.Effects {
					if name, args, ok := effDo(ef); ok && len(args) > 0 && hasField(args[0], order) && args[0].any(func(t *Term) bool { return t.Op == "p" && t.Leaf == "0" }) {
						switch name {
						case "Append", "Add":
							el := (*Term)(nil)
							if len(args) == 2 {
								el = varargElem(g.Effects, i, args[1])
							}
							if el == nil {
								badA = append(badA, fmt.Sprintf("%s: %s on the order list with an argument that is not a single key", p.FuncKey(fn), name))
								continue
							}
							nApp++
							appended = append(appended, noEpoch(el))
							if !contains(negKeys, noEpoch(el)) {
								badA = append(badA, fmt.Sprintf("%s: Append(%s) to the order list is not guarded by 'key not in table' — an existing key would be listed twice / moved", p.FuncKey(fn), trunc(noEpoch(el), 80)))
							}
						case "Remove":
							okArg := len(args) == 2 && args[1].Op == "call" && strings.HasSuffix(args[1].Leaf, ").IndexOf") && len(args[1].Args) == 3 && hasField(args[1].Args[1], order)
							if !okArg && len(args) == 2 && args[1].Op == "call" && isIdxHelperKey(args[1].Leaf) && len(args[1].Args) == 3 && args[1].Args[1].String() == "p:0" {
								okArg = true // the type's own search helper, decided to be IndexOf on the order list
							}
							if !okArg && len(args) == 2 && args[1].Op == "res" && len(args[1].Args) == 1 && args[1].Args[0].Op == "do" && isIdxHelperKey(args[1].Args[0].Leaf) && len(args[1].Args[0].Args) == 2 && args[1].Args[0].Args[0].String() == "p:0" {
								okArg = true
								// same shape as the call form for what follows: (… recv key)
								args = []*Term{args[0], nodeL("call", args[1].Args[0].Leaf, leaf("@", ""), args[1].Args[0].Args[0], args[1].Args[0].Args[1])}
							}
							if !okArg {
								badA = append(badA, fmt.Sprintf("%s: Remove on the order list whose index is not IndexOf(key) on the same list", p.FuncKey(fn)))
								continue
							}
							nRem++
							k := noEpoch(args[1].Args[2])
							removed = append(removed, k)
							if !contains(posKeys, k) {
								badA = append(badA, fmt.Sprintf("%s: order-list removal of %s is not guarded by 'key in table'", p.FuncKey(fn), trunc(k, 80)))
							}
						case "Clear":
							nClr++
							clearedOrder = true
						default:
							// a callee that, by its effect summary, writes nothing through its parameters (Each, Any, …) does not
							// mutate the list (what a callback does with the elements is R1b's business)
							if cal := funcByKeyCached(p, ef.Leaf); cal != nil {
								if sum := c.E().Sum[cal]; sum != nil && len(sum.FreshInto) == 0 && len(sum.Keep) == 0 {
									pure := true
									for w := range sum.W {
										if w.Kind.String() != "iterator" { // writes to its own iterator's cursor are not writes to the list
											pure = false
										}
									}
									if pure {
										continue
									}
								}
							}
							badA = append(badA, fmt.Sprintf("%s: %s mutates the order list (only Append / Remove(IndexOf) / Clear may)", p.FuncKey(fn), name))
						}
					}
					if ef.Op == "mapset" && hasField(ef.Args[0], table) {
						inserted = append(inserted, noEpoch(ef.Args[1]))
					}
					if ef.Op == "builtin" && ef.Leaf == "delete" && hasField(ef.Args[0], table) {
						deleted = append(deleted, noEpoch(ef.Args[1]))
					}
					if ef.Op == "builtin" && ef.Leaf == "clear" && hasField(ef.Args[0], table) {
						clearedTable = true
					}
					if storeToField(ef, table) || storeToField(ef, order) {
						onRecv := ef.Args[0].Args[0].Op == "p" && ef.Args[0].Args[0].Leaf == "0"
						if onRecv && storeToField(ef, table) && ef.Args[1].Op == "makemap" {
							clearedTable = true
						} else if onRecv {
							badW = append(badW, fmt.Sprintf("%s assigns the %s field of the receiver", p.FuncKey(fn), ef.Args[0].Leaf))
						}
					}
				}
				// pairing in both directions
				for _, k := range appended {
					if !contains(inserted, k) {
						badB = append(badB, fmt.Sprintf("%s: key appended to the order list but not inserted into the table on the same path", p.FuncKey(fn)))
					}
				}
				for _, k := range inserted {
					if contains(negKeys, k) && !contains(appended, k) {
						badB = append(badB, fmt.Sprintf("%s: a new key is inserted into the table but not appended to the order list on the same path", p.FuncKey(fn)))
					}
					if !contains(negKeys, k) && !contains(posKeys, k) {
						badB = append(badB, fmt.Sprintf("%s: table insert that does not follow a membership test of the same key", p.FuncKey(fn)))
					}
				}
				for _, k := range removed {
					if !contains(deleted, k) {
						badB = append(badB, fmt.Sprintf("%s: key removed from the order list but not deleted from the table on the same path", p.FuncKey(fn)))
					}
				}
				for _, k := range deleted {
					if !contains(removed, k) {
						badB = append(badB, fmt.Sprintf("%s: key deleted from the table but not removed from the order list on the same path", p.FuncKey(fn)))
					}
				}
				if clearedOrder != clearedTable {
					badB = append(badB, fmt.Sprintf("%s: table and order list are not cleared together", p.FuncKey(fn)))
				}
			}
		}
		// constructors: a new container starts with an empty table and an empty order list; members enter through the
		// container's own insertion method only (a list pre-filled with the arguments keeps the duplicates the table drops)
		ncons := 0
		for _, fn := range p.Funcs {
			if fn.Parent() != nil || fn.Blocks == nil || fn.Signature.Recv() != nil || fn.Pkg == nil || fn.Pkg.Pkg != ct.Obj().Pkg() || fn.Signature.Results().Len() != 1 || namedOf(fn.Signature.Results().At(0).Type()) != ct {
				continue
			}
			gc := c.GC(fn)
			if gc.Undecided != "" {
				continue
			}
			ncons++
			for _, g := range gc.GCs {
				for _, ef := range g.Effects {
					switch {
					case isStore(ef) && ef.Args[0].Op == "fa" && ef.Args[0].Leaf == order && ef.Args[0].Args[0].Op == "new":
						v := ef.Args[1]
						empty := v.Op == "call" && len(v.Args) >= 1 && v.Args[len(v.Args)-1].String() == "#:nil"
						if v.Op == "call" && len(v.Args) == 1 {
							empty = true // New() without a variadic parameter
						}
						if !empty {
							badW = append(badW, fmt.Sprintf("%s builds the order list with elements in it (%s): members must enter through the container's own insertion method, which keeps table and list in step", p.FuncKey(fn), trunc(noEpoch(v), 100)))
						}
					case ef.Op == "mapset" && hasField(ef.Args[0], table):
						badW = append(badW, fmt.Sprintf("%s writes the table directly (members must enter through the container's own insertion method)", p.FuncKey(fn)))
					case ef.Op == "do" && len(ef.Args) >= 1 && hasField(ef.Args[0], order):
						badW = append(badW, fmt.Sprintf("%s calls %s on the order list directly", p.FuncKey(fn), ef.Leaf))
					}
				}
			}
		}
		factsA = append(factsA, fmt.Sprintf("%d guarded Append, %d guarded Remove(IndexOf), %d Clear site(s) over %d methods, %d constructor(s)", nApp, nRem, nClr, len(ms), ncons))
		put := func(rule, clause string, bad []string, facts string) {
			if len(bad) > 0 {
				r.add(Obligation{Key: rule + ":" + tk, Rule: rule, Clause: clause, Pos: pos, Status: Violated, Facts: strings.Join(dedup(bad), "\n")})
			} else {
				r.add(Obligation{Key: rule + ":" + tk, Rule: rule, Clause: clause, Pos: pos, Status: Discharged, Facts: facts})
			}
		}
		if nApp == 0 || nRem == 0 || nClr == 0 {
			badA = append(badA, fmt.Sprintf("expected at least one Append, one Remove and one Clear site on the order list, found %d/%d/%d", nApp, nRem, nClr))
		}
		put("R15a", clA, badA, strings.Join(factsA, "; "))
		put("R15b", clB, badB, "table insert ⇔ list append, table delete ⇔ list remove, clear ⇔ clear on every path")
		put("R15w", clW, badW, "the fields are assigned only in constructors / Clear")
		// R15c
		var badC []string
		var checked []string
		for _, name := range []string{"Keys", "Values", "Iterator", "Each", "Any", "All", "Find", "Select", "Map", "String", "ToJSON", "Get", "Contains", "Size", "Empty"} {
			fn := ms[name]
			if fn == nil {
				continue
			}
			checked = append(checked, name)
			for _, b := range fn.Blocks {
				for _, in := range b.Instrs {
					if rg, ok := in.(*ssa.Range); ok {
						if _, isMap := types.Unalias(rg.X.Type()).Underlying().(*types.Map); isMap {
							badC = append(badC, fmt.Sprintf("%s ranges over a Go map at %s", p.FuncKey(fn), p.InstrPos(in)))
						}
					}
				}
			}
		}
		// the iterator type of this container must not range over the map either
		if itf := ms["Iterator"]; itf != nil {
			if itn := namedOf(itf.Signature.Results().At(0).Type()); itn != nil {
				for _, fn := range methodsOf(p, itn) {
					for _, b := range fn.Blocks {
						for _, in := range b.Instrs {
							if rg, ok := in.(*ssa.Range); ok {
								if _, isMap := types.Unalias(rg.X.Type()).Underlying().(*types.Map); isMap {
									badC = append(badC, fmt.Sprintf("%s ranges over a Go map at %s", p.FuncKey(fn), p.InstrPos(in)))
								}
							}
						}
					}
				}
			}
		}
		sort.Strings(badC)
		put("R15c", clC, badC, "no range over the Go map in "+strings.Join(checked, ", ")+" nor in the iterator")
		// R15d: Size reads the list (cross-reference to R12f)
		if sz := ms["Size"]; sz != nil {
			f := forwardInfo(sz)
			if f != nil && fieldName(sz, f.Field) == order && f.Callee.Name() == "Size" {
				r.add(Obligation{Key: "R15d:" + tk, Rule: "R15d", Clause: "Size() reads the order list, Contains/Get the table — consistent under R15a/b", Pos: p.FuncPos(sz), Status: Discharged, Facts: "Size() forwards to " + order + ".Size()"})
			} else {
				r.add(Obligation{Key: "R15d:" + tk, Rule: "R15d", Clause: "Size() reads the order list, Contains/Get the table — consistent under R15a/b", Pos: p.FuncPos(sz), Status: Discharged, Facts: "Size() does not read the order list directly (judged by R12f)"})
			}
		}
	}
	return r
}

// ---- R16 ----

func ruleR16(c *Ctx) *RuleResult {
	p := c.p
	r := &RuleResult{Rule: "R16", Title: "BIDI: forward and inverse map are updated as a pair", Floor: 8}
	clPut := "Put(k,v) evicts the pair held by k (by the looked-up value) and the pair holding v (by the looked-up key) before inserting (k,v) forward and (v,k) inverse, on every path"
	clRem := "Remove(k) deletes both directions in one found-guarded region, the inverse one keyed by the looked-up value; an absent key changes nothing"
	clClr := "Clear() clears both directions"
	clRole := "Get/Size/Keys read the forward map, GetKey/Values the inverse map"
	for _, tk := range []string{"maps/hashbidimap.Map", "maps/treebidimap.Map"} {
		ct := p.T.ContainerByKey(tk)
		if ct == nil {
			r.undecided(tk, clPut, "-", "anchored type not found")
			continue
		}
		ms := methodsOf(p, ct)
		pos := p.Pos(ct.Obj().Pos())
		fwdF, invF := forwardInfo(ms["Get"]), forwardInfo(ms["GetKey"])
		if fwdF == nil || invF == nil || fwdF.Callee.Name() != "Get" || invF.Callee.Name() != "Get" || fwdF.Field == invF.Field {
			r.undecided("R16:"+tk, clRole, pos, "Get / GetKey are not forwarders to two distinct map fields")
			continue
		}
		fwd, inv := fieldName(ms["Get"], fwdF.Field), fieldName(ms["GetKey"], invF.Field)
		// roles
		var badRole []string
		for _, role := range []struct{ m, field, callee string }{{"Size", fwd, "Size"}, {"Keys", fwd, "Keys"}, {"Values", inv, "Keys"}} {
			f := forwardInfo(ms[role.m])
			if f == nil || fieldName(ms[role.m], f.Field) != role.field || f.Callee.Name() != role.callee {
				badRole = append(badRole, fmt.Sprintf("%s() does not forward to %s.%s()", role.m, role.field, role.callee))
			}
		}
		if len(badRole) > 0 {
			r.add(Obligation{Key: "R16role:" + tk, Rule: "R16role", Clause: clRole, Pos: pos, Status: Violated, Facts: strings.Join(badRole, "\n")})
		} else {
			r.add(Obligation{Key: "R16role:" + tk, Rule: "R16role", Clause: clRole, Pos: pos, Status: Discharged, Facts: fmt.Sprintf("Get/Size/Keys → %s, GetKey/Values → %s", fwd, inv)})
		}
		// Put
		if put := ms["Put"]; put != nil {
			// Put may be written on top of the map's own Remove: read it with the map's own methods expanded in place
			own := map[*ssa.Function]bool{}
			for _, m := range ms {
				own[m] = true
			}
			gc := c.GCWith(put, BuildOpts{Tag: "bidi-put", Inline: func(cal *ssa.Function) bool {
				return cal != put && (own[cal] || (cal.Origin() != nil && own[cal.Origin()]))
			}})
			var bad []string
			for _, g := range gc.GCs {
				bad = append(bad, checkBidiPut(g, fwd, inv)...)
			}
			if gc.Undecided != "" {
				r.add(Obligation{Key: "R16put:" + tk, Rule: "R16put", Clause: clPut, Pos: p.FuncPos(put), Status: Undecided, Facts: gc.Undecided})
			} else if len(bad) > 0 {
				r.add(Obligation{Key: "R16put:" + tk, Rule: "R16put", Clause: clPut, Pos: p.FuncPos(put), Status: Violated, Facts: strings.Join(dedup(bad), "\n")})
			} else {
				r.add(Obligation{Key: "R16put:" + tk, Rule: "R16put", Clause: clPut, Pos: p.FuncPos(put), Status: Discharged, Facts: fmt.Sprintf("%d paths: evictions keyed by the looked-up counterpart, both insertions last", len(gc.GCs))})
			}
		}
		// Remove
		if rem := ms["Remove"]; rem != nil {
			gc := c.GC(rem)
			var bad []string
			nfound := 0
			for _, g := range gc.GCs {
				var found *Term
				pol := false
				for _, a := range g.Guards {
					if l, pl, ok := lookupAtom(a); ok {
						rc, k := lookupParts(l)
						if rc != nil && hasField(rc, fwd) && k.String() == "p:1" {
							found, pol = l, pl
						}
					}
				}
				bad = append(bad, staleNodeReads(g)...)
				if found == nil {
					bad = append(bad, "a path of Remove does not test the forward lookup of the key")
					continue
				}
				if !pol {
					for _, ef := range g.Effects {
						// removing the key the path knows absent from the map it looked in is that map's no-op
						if name, args, ok := effDo(ef); ok && name == "Remove" && len(args) == 2 && hasField(args[0], fwd) && args[1].String() == "p:1" {
							continue
						}
						bad = append(bad, "removing an absent key has effects: "+trunc(ef.String(), 200))
					}
					continue
				}
				nfound++
				okF, okI := false, false
				for _, ef := range g.Effects {
					if name, args, ok := effDo(ef); ok && name == "Remove" && len(args) == 2 {
						if hasField(args[0], fwd) && args[1].String() == "p:1" {
							okF = true
						} else if hasField(args[0], inv) && lookedUpValue(args[1], found) {
							okI = true
						} else {
							bad = append(bad, "unexpected removal "+trunc(ef.String(), 200))
						}
					}
				}
				if !okF {
					bad = append(bad, "the found path does not remove the key from the forward map")
				}
				if !okI {
					bad = append(bad, "the found path does not remove the looked-up value from the inverse map (a stale inverse entry would survive)")
				}
			}
			if gc.Undecided != "" || nfound == 0 && len(bad) == 0 {
				r.add(Obligation{Key: "R16remove:" + tk, Rule: "R16remove", Clause: clRem, Pos: p.FuncPos(rem), Status: Undecided, Facts: "no found-path recognised " + gc.Undecided})
			} else if len(bad) > 0 {
				r.add(Obligation{Key: "R16remove:" + tk, Rule: "R16remove", Clause: clRem, Pos: p.FuncPos(rem), Status: Violated, Facts: strings.Join(dedup(bad), "\n")})
			} else {
				r.add(Obligation{Key: "R16remove:" + tk, Rule: "R16remove", Clause: clRem, Pos: p.FuncPos(rem), Status: Discharged, Facts: "found ⇒ forward.Remove(key) and inverse.Remove(looked-up value); absent ⇒ no effect"})
			}
		}
		// Clear is judged by R12clear (every contained container cleared); restated here for the pair
		if clr := ms["Clear"]; clr != nil {
			gc := c.GC(clr)
			okF, okI := false, false
			for _, g := range gc.GCs {
				for _, ef := range g.Effects {
					if name, args, ok := effDo(ef); ok && name == "Clear" && len(args) == 1 {
						if hasField(args[0], fwd) {
							okF = true
						}
						if hasField(args[0], inv) {
							okI = true
						}
					}
				}
			}
			if okF && okI && len(gc.GCs) == 1 {
				r.add(Obligation{Key: "R16clear:" + tk, Rule: "R16clear", Clause: clClr, Pos: p.FuncPos(clr), Status: Discharged, Facts: "both maps cleared on the single path"})
			} else {
				r.add(Obligation{Key: "R16clear:" + tk, Rule: "R16clear", Clause: clClr, Pos: p.FuncPos(clr), Status: Violated, Facts: fmt.Sprintf("forward cleared=%v inverse cleared=%v paths=%d", okF, okI, len(gc.GCs))})
			}
		}
	}
	return r
}

// bidiRoundTrip: t = A[B[x]] (first results of lookups) with A, B the two maps of the pair in either order; returns x and the
// field of the outer map. By the pairing invariant A[B[x]] = x whenever B[x] is found.
func bidiRoundTrip(t *Term, fwd, inv string) (*Term, string, bool) {
	if !(t.Op == "ext" && t.Leaf == "0" && len(t.Args) == 1) {
		return nil, "", false
	}
	orc, ok1 := lookupParts(t.Args[0])
	if orc == nil {
		return nil, "", false
	}
	_, okey := lookupParts(t.Args[0])
	_ = ok1
	if !(okey.Op == "ext" && okey.Leaf == "0" && len(okey.Args) == 1) {
		return nil, "", false
	}
	irc, ikey := lookupParts(okey.Args[0])
	if irc == nil {
		return nil, "", false
	}
	switch {
	case hasField(orc, fwd) && !hasField(orc, inv) && hasField(irc, inv) && !hasField(irc, fwd):
		return ikey, fwd, true
	case hasField(orc, inv) && !hasField(orc, fwd) && hasField(irc, fwd) && !hasField(irc, inv):
		return ikey, inv, true
	}
	return nil, "", false
}

func checkBidiPut(g *GC, fwd, inv string) []string {
	// a path that found x in one map and then failed to find that result in the other contradicts the pairing invariant the
	// rule itself maintains (Put written on top of the map's own Remove tests both): infeasible, nothing to judge
	for _, a := range g.Guards {
		if l, pol, ok := lookupAtom(a); ok && !pol {
			if rc, k := lookupParts(l); rc != nil && k.Op == "ext" && k.Leaf == "0" && len(k.Args) == 1 {
				if irc, _ := lookupParts(k.Args[0]); irc != nil && ((hasField(rc, fwd) && hasField(irc, inv)) || (hasField(rc, inv) && hasField(irc, fwd))) {
					for _, b := range g.Guards {
						if l2, pol2, ok2 := lookupAtom(b); ok2 && pol2 && noEpoch(l2) == noEpoch(k.Args[0]) {
							return nil
						}
					}
				}
			}
		}
	}
	bad := staleNodeReads(g)
	var byKey, byVal *Term
	polK, polV, seenK, seenV := false, false, false, false
	for _, a := range g.Guards {
		if l, pol, ok := lookupAtom(a); ok {
			rc, k := lookupParts(l)
			if rc == nil {
				continue
			}
			if hasField(rc, fwd) && k.String() == "p:1" {
				byKey, polK, seenK = l, pol, true
			}
			if hasField(rc, inv) && k.String() == "p:2" {
				byVal, polV, seenV = l, pol, true
			}
		}
	}
	if !seenK || !seenV {
		return []string{"a path of Put does not test both the forward lookup of the key and the inverse lookup of the value"}
	}
	lastRemoval, firstInsert := -1, len(g.Effects)
	okPF, okPI, evK, evV := false, false, false, false
	for i, ef := range g.Effects {
		name, args, ok := effDo(ef)
		if !ok {
			continue
		}
		switch name {
		case "Remove":
			lastRemoval = i
			switch {
			case len(args) == 2 && hasField(args[0], inv) && lookedUpValue(args[1], byKey):
				evK = true
			case len(args) == 2 && hasField(args[0], fwd) && lookedUpValue(args[1], byVal):
				evV = true
			case len(args) == 2 && hasField(args[0], fwd) && args[1].String() == "p:1":
				// dropping the key's own forward entry before it is put again: no effect on the outcome
			case len(args) == 2 && hasField(args[0], inv) && args[1].String() == "p:2":
				// likewise the value's own inverse entry
			case len(args) == 2 && func() bool {
				x, outer, ok := bidiRoundTrip(args[1], fwd, inv)
				// inverse.Remove(forward[inverse[v]]) is inverse.Remove(v); forward.Remove(inverse[forward[k]]) is forward.Remove(k)
				return ok && ((outer == fwd && hasField(args[0], inv) && x.String() == "p:2") || (outer == inv && hasField(args[0], fwd) && x.String() == "p:1"))
			}():
			default:
				bad = append(bad, "eviction with the wrong map or key: "+trunc(ef.String(), 220))
			}
		case "Put":
			if i < firstInsert {
				firstInsert = i
			}
			switch {
			case len(args) == 3 && hasField(args[0], fwd) && args[1].String() == "p:1" && args[2].String() == "p:2":
				okPF = true
			case len(args) == 3 && hasField(args[0], inv) && args[1].String() == "p:2" && args[2].String() == "p:1":
				okPI = true
			default:
				bad = append(bad, "insertion with the wrong map or argument roles: "+trunc(ef.String(), 220))
			}
		}
	}
	if !okPF || !okPI {
		bad = append(bad, "a path of Put does not insert both (key,value) forward and (value,key) inverse")
	}
	if polK != evK {
		bad = append(bad, fmt.Sprintf("key already mapped = %v but eviction of its old value from the inverse map = %v", polK, evK))
	}
	if polV != evV {
		bad = append(bad, fmt.Sprintf("value already mapped = %v but eviction of its old key from the forward map = %v", polV, evV))
	}
	if lastRemoval > firstInsert {
		bad = append(bad, "an eviction happens after an insertion (it could delete the pair just added)")
	}
	return bad
}

// ---- R19 ----

type adapterSpec struct {
	tk        string
	push, pop string
	queue     bool
}

func ruleR19(c *Ctx) *RuleResult {
	p := c.p
	r := &RuleResult{Rule: "R19", Title: "ADAPT: stack/queue adapters use consistent ends; the ring wraps and indexes consistently", Floor: 4 + 4 + 6}
	clA := "R19a each stack pushes and pops at the same end of its list, each queue enqueues at the tail and dequeues at the head; Peek and Pop/Dequeue read the same index; Pop/Dequeue removes the index it read"
	for _, sp := range []adapterSpec{
		{"stacks/arraystack.Stack", "Push", "Pop", false}, {"stacks/linkedliststack.Stack", "Push", "Pop", false},
		{"queues/arrayqueue.Queue", "Enqueue", "Dequeue", true}, {"queues/linkedlistqueue.Queue", "Enqueue", "Dequeue", true},
	} {
		ct := p.T.ContainerByKey(sp.tk)
		if ct == nil {
			r.undecided("R19a:"+sp.tk, clA, "-", "anchored type not found")
			continue
		}
		ms := methodsOf(p, ct)
		push, pop, peek := ms[sp.push], ms[sp.pop], ms["Peek"]
		pos := p.Pos(ct.Obj().Pos())
		if push == nil || pop == nil || peek == nil {
			r.undecided("R19a:"+sp.tk, clA, pos, "Push/Pop/Peek missing")
			continue
		}
		var bad, facts []string
		// push end
		pushEnd := ""
		for _, g := range c.GC(push).GCs {
			for _, ef := range g.Effects {
				if name, args, ok := effDo(ef); ok {
					switch {
					case name == "Add" || name == "Append":
						pushEnd = "tail"
					case name == "Prepend":
						pushEnd = "head"
					case name == "Insert" && len(args) >= 2 && args[1].String() == "#:0":
						pushEnd = "head" // Insert(0, v…) is Prepend(v…)
					default:
						bad = append(bad, sp.push+" calls "+name)
					}
				}
			}
		}
		endOf := func(idx *Term) string {
			s := noEpoch(idx)
			if s == "#:0" {
				return "head"
			}
			if idx.Op == "-" && len(idx.Args) == 2 && idx.Args[1].String() == "#:1" && (idx.Args[0].Op == "len" || hasField(idx.Args[0], "size")) {
				return "tail"
			}
			return "?" + s
		}
		// pop: read index, removed index
		var popRead, popRem, peekRead *Term
		collect := func(fn *ssa.Function, read, rem **Term) {
			for _, g := range c.GC(fn).GCs {
				g.Exit.any(func(t *Term) bool {
					if t.Op == "call" && strings.HasSuffix(t.Leaf, ").Get") && len(t.Args) == 3 {
						*read = t.Args[2]
					}
					return false
				})
				for _, a := range g.Guards {
					a.any(func(t *Term) bool {
						if t.Op == "call" && strings.HasSuffix(t.Leaf, ").Get") && len(t.Args) == 3 {
							*read = t.Args[2]
						}
						return false
					})
				}
				for _, ef := range g.Effects {
					if name, args, ok := effDo(ef); ok && name == "Remove" && len(args) == 2 && rem != nil {
						*rem = args[1]
					}
				}
			}
		}
		collect(pop, &popRead, &popRem)
		collect(peek, &peekRead, nil)
		if popRead == nil || popRem == nil || peekRead == nil {
			r.add(Obligation{Key: "R19a:" + sp.tk, Rule: "R19a", Clause: clA, Pos: pos, Status: Undecided, Facts: "could not find the list.Get / list.Remove calls of Pop/Peek"})
			continue
		}
		popEnd := endOf(popRead)
		facts = append(facts, fmt.Sprintf("%s → %s, %s reads %s (index %s), removes index %s, Peek reads index %s", sp.push, pushEnd, sp.pop, popEnd, trunc(noEpoch(popRead), 60), trunc(noEpoch(popRem), 60), trunc(noEpoch(peekRead), 60)))
		if noEpoch(popRead) != noEpoch(popRem) {
			bad = append(bad, sp.pop+" removes a different index than it read")
		}
		if noEpoch(popRead) != noEpoch(peekRead) {
			bad = append(bad, "Peek and "+sp.pop+" read different indices")
		}
		if strings.HasPrefix(popEnd, "?") || pushEnd == "" {
			bad = append(bad, "could not classify the end used by "+sp.push+"/"+sp.pop+": "+popEnd)
		} else if sp.queue {
			if pushEnd != "tail" || popEnd != "head" {
				bad = append(bad, fmt.Sprintf("a FIFO queue must enqueue at the tail and dequeue at the head, found %s/%s", pushEnd, popEnd))
			}
		} else if pushEnd != popEnd {
			bad = append(bad, fmt.Sprintf("a LIFO stack must push and pop at the same end, found %s/%s", pushEnd, popEnd))
		}
		if len(bad) > 0 {
			r.add(Obligation{Key: "R19a:" + sp.tk, Rule: "R19a", Clause: clA, Pos: pos, Status: Violated, Facts: strings.Join(bad, "\n")})
		} else {
			r.add(Obligation{Key: "R19a:" + sp.tk, Rule: "R19a", Clause: clA, Pos: pos, Status: Discharged, Facts: strings.Join(facts, "; ")})
		}
		// Values() lists the elements in the order they would be removed: the list's own order when removal happens at the
		// head, its exact reverse when removal happens at the tail
		if vals := ms["Values"]; vals != nil && !strings.HasPrefix(popEnd, "?") {
			clV := "R19a-values Values() lists the elements in removal order: the inner list's Values() when " + sp.pop + " removes at the head, its exact reverse when it removes at the tail"
			st, why := valuesInRemovalOrder(c, ct, vals, popEnd)
			r.add(Obligation{Key: "R19a-values:" + sp.tk, Rule: "R19a-values", Clause: clV, Pos: p.FuncPos(vals), Status: st, Facts: why})
		}
	}
	ruleR19b(c, r)
	ruleR19bSize(c, r)
	return r
}

// valuesInRemovalOrder decides R19a-values for one adapter.
func valuesInRemovalOrder(c *Ctx, ct *types.Named, fn *ssa.Function, popEnd string) (Status, string) {
	p := c.p
	fwd := forwardInfo(fn)
	if popEnd == "head" {
		if fwd != nil && fnName(fwd.Callee) == "Values" {
			return Discharged, "removal at the head; Values() forwards to the inner list's Values()"
		}
		return Undecided, "removal at the head but Values() is not the inner list's Values()"
	}
	if fwd != nil {
		return Violated, "removal at the tail, but Values() forwards to the inner list's " + fnName(fwd.Callee) + "() — the list's own order is the reverse of the removal order"
	}
	// the inner list and its size
	var listField string
	var listType *types.Named
	if sz := methodsOf(p, ct)["Size"]; sz != nil {
		if f := forwardInfo(sz); f != nil {
			listField = fieldName(sz, f.Field)
			listType = recvNamed(f.Callee)
		}
	}
	if listType == nil {
		return Undecided, "inner list not identified"
	}
	S := sizeTermOf(c, fn, listField, listType)
	LIST := "(load (fa:" + listField + " p:0))"
	gc := c.GC(fn)
	if gc.Undecided != "" || S == "" {
		return Undecided, "normal form not built"
	}
	// the inner list's Values(), as a call or expanded in place
	valuesExpanded := ""
	if vm := methodsOf(p, listType)["Values"]; vm != nil {
		stt := &pstate{b: &gcBuilder{p: p, e: c.E(), fn: fn, cutIdx: map[string]int{}, out: &GCNF{Fn: fn}}, env: map[ssa.Value]*Term{}, onPath: map[string]bool{}, inl: true}
		if t, ok := stt.inline(vm, []*Term{nodeL("load", "x", nodeL("fa", listField, leaf("p", "0")))}); ok {
			valuesExpanded = noEpoch(t)
		}
	}
	isListValues := func(t *Term) bool {
		if t.Op == "call" && strings.HasSuffix(t.Leaf, ").Values") && len(t.Args) == 2 && noEpoch(t.Args[1]) == LIST {
			return true
		}
		return valuesExpanded != "" && noEpoch(t) == valuesExpanded
	}
	var ev func(t *Term) lin
	ev = func(t *Term) lin {
		if k, ok := t.constInt(); ok {
			return linConst(int(k))
		}
		if noEpoch(t) == S {
			return linAtom("S")
		}
		if t.Op == "len" && isListValues(t.Args[0]) {
			return linAtom("S") // the inner list's Values() has length Size() (R12f)
		}
		if t.Op == "len" && t.Args[0].Op == "makeslice" && len(t.Args[0].Args) == 2 {
			return ev(t.Args[0].Args[0]) // len(make([]T, n, _)) = n
		}
		switch {
		case t.Op == "φ":
			return linAtom("φ" + t.Leaf)
		case t.Op == "+" && len(t.Args) == 2:
			return ev(t.Args[0]).add(ev(t.Args[1]), 1)
		case t.Op == "-" && len(t.Args) == 2:
			return ev(t.Args[0]).add(ev(t.Args[1]), -1)
		}
		return linAtom(noEpoch(t))
	}
	// form B: v := list.Values(); slices.Reverse(v); return v
	if len(gc.GCs) == 1 {
		g := gc.GCs[0]
		if len(g.Effects) == 1 && g.Effects[0].Op == "stddo" && g.Effects[0].Leaf == "slices.Reverse" && g.Exit.Op == "return" && len(g.Exit.Args) == 1 {
			x := g.Effects[0].Args[0]
			if isListValues(x) && noEpoch(g.Exit.Args[0]) == noEpoch(x) {
				return Discharged, "slices.Reverse of a fresh copy of the inner list's Values()"
			}
		}
	}
	// form B': dst := make([]T, S, _); copy(dst, list.Values()); slices.Reverse(dst); return dst
	if len(gc.GCs) == 1 {
		g := gc.GCs[0]
		if len(g.Guards) == 0 && len(g.Effects) == 2 && g.Effects[0].Op == "builtin" && g.Effects[0].Leaf == "copy" && len(g.Effects[0].Args) == 2 &&
			g.Effects[1].Op == "stddo" && g.Effects[1].Leaf == "slices.Reverse" && len(g.Effects[1].Args) >= 1 && g.Exit.Op == "return" && len(g.Exit.Args) == 1 {
			dst, src := g.Effects[0].Args[0], g.Effects[0].Args[1]
			if dst.Op == "makeslice" && len(dst.Args) == 2 && isListValues(src) && ev(dst.Args[0]).String() == linAtom("S").String() &&
				noEpoch(g.Effects[1].Args[len(g.Effects[1].Args)-1]) == noEpoch(dst) && noEpoch(g.Exit.Args[0]) == noEpoch(dst) {
				return Discharged, "a fresh slice of length Size() filled with the inner list's Values() and reversed"
			}
		}
	}
	if st, why, ok := inPlaceReversal(gc, isListValues, ev); ok {
		return st, why
	}
	if st, why, ok := ownIteratorFill(c, ct, gc, LIST, ev); ok {
		return st, why
	}
	// form A: dst[a(i)] = list.Get(b(i)) with a(i)+b(i) = S-1, b running over 0..S-1
	var entry, done, step *GC
	for _, g := range gc.GCs {
		switch {
		case g.From == 0 && entry == nil:
			entry = g
		case g.From != 0 && g.Exit.Op == "return" && done == nil:
			done = g
		case g.From != 0 && g.Exit.Op == "goto" && step == nil:
			step = g
		default:
			return Undecided, "Values() of a tail-removing stack is neither a reversed fill loop nor slices.Reverse of the list's Values()"
		}
	}
	if entry == nil || done == nil || step == nil || entry.Exit.Op != "goto" || len(entry.Exit.Args) < 1 || len(entry.Effects) != 0 || len(step.Effects) != 1 || len(done.Effects) != 0 ||
		step.Exit.Leaf != entry.Exit.Leaf || len(step.Exit.Args) != len(entry.Exit.Args) {
		return Undecided, "Values() of a tail-removing stack is neither a reversed fill loop nor slices.Reverse of the list's Values()"
	}
	// every loop variable is start + step·T in round T
	subst := map[string]lin{}
	for j := range entry.Exit.Args {
		phi := "φ" + entry.Exit.Leaf + "." + itoa(j)
		start := ev(entry.Exit.Args[j])
		d := ev(step.Exit.Args[j]).add(linAtom(phi), -1)
		if len(d.c) != 0 {
			return Undecided, "a loop variable does not advance by a constant"
		}
		v := start
		for i := 0; i < d.k; i++ {
			v = v.add(linAtom("T"), 1)
		}
		for i := 0; i > d.k; i-- {
			v = v.add(linAtom("T"), -1)
		}
		subst[phi] = v
	}
	inT := func(l lin) lin {
		out := linConst(l.k)
		for x, n := range l.c {
			term := linAtom(x)
			if sv, ok := subst[x]; ok {
				term = sv
			}
			for i := 0; i < n; i++ {
				out = out.add(term, 1)
			}
			for i := 0; i > n; i-- {
				out = out.add(term, -1)
			}
		}
		return out
	}
	res := done.Exit.Args
	if len(res) != 1 || res[0].Op != "makeslice" || ev(res[0].Args[0]).String() != "S" {
		return Violated, "the result is not a slice of length Size(): " + trunc(noEpoch(done.Exit), 160)
	}
	ef := step.Effects[0]
	if !(isStore(ef) && ef.Args[0].Op == "ia" && noEpoch(ef.Args[0].Args[0]) == noEpoch(res[0])) {
		return Undecided, "the loop round does not fill a slot of the result"
	}
	src := ef.Args[1]
	if src.Op == "ext" && src.Leaf == "0" {
		src = src.Args[0]
	}
	if !(src.Op == "call" && strings.HasSuffix(src.Leaf, ").Get") && len(src.Args) == 3 && noEpoch(src.Args[1]) == LIST) {
		return Undecided, "the loop round does not read the inner list with Get"
	}
	a, b := inT(ev(ef.Args[0].Args[1])), inT(ev(src.Args[2]))
	Sm1 := linAtom("S").add(linConst(1), -1)
	if sum := a.add(b, 1); sum.String() != Sm1.String() {
		return Violated, fmt.Sprintf("in round T slot %s is filled from list position %s: the two do not add up to Size()-1, so Values() is not the reverse of the list (= the removal order)", a.String(), b.String())
	}
	dir := b.c["T"]
	if dir != 1 && dir != -1 {
		return Undecided, "the source index does not move by one per round"
	}
	first := b.add(linAtom("T"), -dir)
	wantFirst := linConst(0)
	if dir < 0 {
		wantFirst = Sm1
	}
	if first.String() != wantFirst.String() {
		return Violated, fmt.Sprintf("the fill starts at list position %s instead of %s: not every element is copied", first.String(), wantFirst.String())
	}
	// continuation guard ⇔ the source position is still within 0..S-1 on the far side
	var want lin // "<= 0" form
	if dir > 0 {
		want = b.add(linAtom("S"), -1).add(linConst(1), 1)
	} else {
		want = linConst(0).add(b, -1)
	}
	okGuard := false
	for _, at := range step.Guards {
		var form lin
		switch {
		case at.Op == "<=" && len(at.Args) == 2:
			form = inT(ev(at.Args[0]).add(ev(at.Args[1]), -1))
		case at.Op == "<" && len(at.Args) == 2:
			form = inT(ev(at.Args[0]).add(ev(at.Args[1]), -1).add(linConst(1), 1))
		default:
			continue
		}
		if form.String() == want.String() {
			okGuard = true
		}
	}
	if !okGuard {
		return Violated, "the fill loop does not run exactly while the source position is within 0..Size()-1: " + trunc(guardsString(step), 200)
	}
	return Discharged, fmt.Sprintf("result[%s] = list.Get(%s) for every list position 0..Size()-1: the exact reverse of the list, i.e. the removal order", a.String(), b.String())
}

// inPlaceReversal recognises `v := list.Values()` reversed in place by a swap loop — two cursors closing in (i up from 0,
// j down from n-1, while i < j) or one cursor with its mirror n-1-i while i < n/2 — and returned.
func inPlaceReversal(gc *GCNF, isListValues func(*Term) bool, ev func(*Term) lin) (Status, string, bool) {
	var entry, done, step *GC
	for _, g := range gc.GCs {
		switch {
		case g.From == 0 && entry == nil:
			entry = g
		case g.From != 0 && g.Exit.Op == "return" && done == nil:
			done = g
		case g.From != 0 && g.Exit.Op == "goto" && step == nil:
			step = g
		default:
			return 0, "", false
		}
	}
	if entry == nil || done == nil || step == nil || entry.Exit.Op != "goto" || len(done.Exit.Args) != 1 {
		return 0, "", false
	}
	X := done.Exit.Args[0]
	if !isListValues(X) {
		return 0, "", false
	}
	xs := noEpoch(X)
	// the two slot stores of a swap
	var slots []*Term
	var vals []*Term
	for _, ef := range step.Effects {
		if isStore(ef) && ef.Args[0].Op == "ia" && noEpoch(ef.Args[0].Args[0]) == xs {
			slots = append(slots, ef.Args[0].Args[1])
			vals = append(vals, ef.Args[1])
		} else {
			return Undecided, "unexpected effect in the reversal loop: " + trunc(noEpoch(ef), 120), true
		}
	}
	if len(slots) != 2 {
		return 0, "", false
	}
	a, b := ev(slots[0]), ev(slots[1])
	for i, v := range vals {
		o := slots[1-i]
		if !(v.Op == "load" && v.Args[0].Op == "ia" && noEpoch(v.Args[0].Args[0]) == xs && ev(v.Args[0].Args[1]).String() == ev(o).String()) {
			return Violated, "the loop round does not exchange the two slots", true
		}
	}
	Sm1 := linAtom("S").add(linConst(1), -1)
	k := entry.Exit.Leaf
	switch len(entry.Exit.Args) {
	case 2:
		// two cursors
		pi, pj := "φ"+k+".0", "φ"+k+".1"
		if a.String() != linAtom(pi).String() {
			a, b = b, a
			pi, pj = pj, pi
		}
		_ = pj
		i0, j0 := ev(entry.Exit.Args[0]), ev(entry.Exit.Args[1])
		ni, nj := ev(step.Exit.Args[0]), ev(step.Exit.Args[1])
		if pi == "φ"+k+".1" {
			i0, j0, ni, nj = j0, i0, nj, ni
		}
		if !(a.String() == linAtom(pi).String() && b.String() == linAtom(pj).String()) {
			return Undecided, "the swapped slots are not the two cursors", true
		}
		if i0.String() != "0" || j0.String() != Sm1.String() {
			return Violated, fmt.Sprintf("the cursors start at %s and %s instead of 0 and Size()-1", i0.String(), j0.String()), true
		}
		if ni.add(linAtom(pi), -1).String() != "1" || nj.add(linAtom(pj), -1).String() != "-1" {
			return Violated, "the cursors do not close in by one each round", true
		}
		for _, at := range step.Guards {
			if (at.Op == "<" || at.Op == "<=") && len(at.Args) == 2 && ev(at.Args[0]).String() == linAtom(pi).String() && ev(at.Args[1]).String() == linAtom(pj).String() {
				return Discharged, "the inner list's Values() reversed in place by two cursors closing in from 0 and Size()-1", true
			}
		}
		return Violated, "the reversal loop does not run while the lower cursor is below the upper one: " + trunc(guardsString(step), 160), true
	case 1:
		pi := "φ" + k + ".0"
		if a.String() != linAtom(pi).String() {
			a, b = b, a
		}
		if a.String() != linAtom(pi).String() || a.add(b, 1).String() != Sm1.String() {
			return Violated, fmt.Sprintf("slots %s and %s are exchanged: they are not mirror positions (sum Size()-1)", a.String(), b.String()), true
		}
		if ev(entry.Exit.Args[0]).String() != "0" || ev(step.Exit.Args[0]).add(linAtom(pi), -1).String() != "1" {
			return Violated, "the cursor does not run upwards from 0", true
		}
		for _, at := range step.Guards {
			if at.Op == "<" && len(at.Args) == 2 && ev(at.Args[0]).String() == linAtom(pi).String() {
				h := at.Args[1]
				if h.Op == "/" && len(h.Args) == 2 && h.Args[1].String() == "#:2" && ev(h.Args[0]).String() == "S" {
					return Discharged, "the inner list's Values() reversed in place: slot i exchanged with Size()-1-i for i < Size()/2", true
				}
				return Violated, "the reversal must exchange slot i with its mirror for every i < Size()/2, but the loop runs while i < " + trunc(noEpoch(h), 120) + " (for some sizes the innermost pair is never exchanged)", true
			}
		}
		return Undecided, "loop bound of the reversal not recognised", true
	}
	return 0, "", false
}

func ruleR19b(c *Ctx, r *RuleResult) {
	p := c.p
	tk := "queues/circularbuffer.Queue"
	ct := p.T.ContainerByKey(tk)
	if ct == nil {
		r.undecided("R19b:"+tk, "ring", "-", "anchored type not found")
		return
	}
	ms := methodsOf(p, ct)
	pos := p.Pos(ct.Obj().Pos())
	clWrap := "R19b-wrap every advance of start/end by one is followed on every path by the wrap to 0 at capacity (or uses the % idiom)"
	clIdx := "R19b-index the ring slice is indexed only by start, end or (start+i) % capacity"
	clEvict := "R19b-evict Enqueue on a full ring first discards the oldest element (Dequeue) and only then writes the slot; on a non-full ring it discards nothing"
	clDeq := "R19b-dequeue Dequeue/Peek on an empty ring change nothing and return (zero,false); otherwise they read the slot at start"
	// the step replay (rules_ring.go): where it reaches a verdict it stands for the shape clauses of that method
	clStep := "R19b-step Enqueue writes the slot at the old end, advances end with its wrap, gives up the oldest element (start advances with its wrap) exactly when size == capacity, and sets full iff the new end meets start; Dequeue leaves an empty ring alone and otherwise returns the slot at the old start, advances start with its wrap and clears full — replayed on every path with the ring's helpers expanded and field loads dated by their versions"
	stepV := map[string]string{}
	for _, nm := range []string{"Enqueue", "Dequeue"} {
		v, why := ringReplay(c, ms, nm)
		stepV[nm] = v
		o := Obligation{Key: "R19b-step:" + tk + "." + nm, Rule: "R19b-step", Clause: clStep, Pos: pos, Status: Discharged, Facts: why}
		switch v {
		case "bad":
			o.Status = Violated
		case "":
			o.Facts = "NOT DECIDED (the shape clauses R19b-evict/-wrap/-dequeue decide): " + why
		}
		r.add(o)
	}
	// wrap
	var badW []string
	nadv := 0
	for _, name := range sortedNames(ms) { // every method of the ring, loaders included: the index invariant 0 <= start,end < capacity is global
		fn := ms[name]
		if fn == nil {
			continue
		}
		if stepV[name] == "ok" {
			nadv++
			continue
		}
		for _, g := range c.GC(fn).GCs {
			for i, ef := range g.Effects {
				for _, fld := range []string{"start", "end"} {
					if !storeToField(ef, fld) {
						continue
					}
					v := ef.Args[1]
					if v.Op == "+" && len(v.Args) == 2 && v.Args[0].String() == "#:1" && hasField(v.Args[1], fld) {
						nadv++
						// either the path knows new < maxSize, or it stores 0 after knowing maxSize <= new
						lt, ge := false, false
						for _, a := range g.Guards {
							if a.Op == "<" && hasField(a.Args[0], fld) && hasField(a.Args[1], "maxSize") {
								lt = true
							}
							if a.Op == "<=" && hasField(a.Args[0], "maxSize") && hasField(a.Args[1], fld) {
								ge = true
							}
						}
						reset := false
						for _, e2 := range g.Effects[i+1:] {
							if storeToField(e2, fld) && e2.Args[1].String() == "#:0" {
								reset = true
							}
						}
						if !(lt && !reset) && !(ge && reset) {
							badW = append(badW, fmt.Sprintf("%s: %s is advanced without the matching wrap on this path (guards: new<cap=%v new>=cap=%v, reset to 0=%v)", name, fld, lt, ge, reset))
						}
					} else if v.Op == "%" {
						nadv++
					} else if v.String() != "#:0" {
						badW = append(badW, fmt.Sprintf("%s: %s is assigned %s (neither old+1, a wrapped value nor 0)", name, fld, trunc(v.String(), 120)))
					}
				}
			}
		}
	}
	put := func(rule, clause string, bad []string, facts string) {
		if len(bad) > 0 {
			r.add(Obligation{Key: rule + ":" + tk, Rule: rule, Clause: clause, Pos: pos, Status: Violated, Facts: strings.Join(dedup(bad), "\n")})
		} else {
			r.add(Obligation{Key: rule + ":" + tk, Rule: rule, Clause: clause, Pos: pos, Status: Discharged, Facts: facts})
		}
	}
	if nadv < 2 {
		badW = append(badW, fmt.Sprintf("expected the advances of start and end, found %d", nadv))
	}
	put("R19b-wrap", clWrap, badW, fmt.Sprintf("%d advance sites, each paired with its wrap on every path", nadv))
	// index discipline
	var badI []string
	nidx := 0
	var fns []*ssa.Function
	for _, fn := range ms {
		fns = append(fns, fn)
	}
	if itf := ms["Iterator"]; itf != nil {
		if itn := namedOf(itf.Signature.Results().At(0).Type()); itn != nil {
			for _, fn := range methodsOf(p, itn) {
				fns = append(fns, fn)
			}
		}
	}
	sort.Slice(fns, func(i, j int) bool { return p.FuncKey(fns[i]) < p.FuncKey(fns[j]) })
	for _, fn := range fns {
		gc := c.GC(fn)
		check := func(t *Term) bool {
			if t.Op == "ia" && len(t.Args) == 2 && hasField(t.Args[0], "values") && t.Args[0].Op == "load" {
				nidx++
				idx := t.Args[1]
				ok := false
				if idx.Op == "load" && (hasField(idx, "start") || hasField(idx, "end")) && idx.Args[0].Op == "fa" {
					ok = true
				}
				if idx.Op == "%" && len(idx.Args) == 2 && hasField(idx.Args[0], "start") && hasField(idx.Args[1], "maxSize") {
					ok = true
				}
				if !ok && idx.Op == "φ" {
					// a local cursor that enters the loop as start (or end) and is, on every way back into the loop, either
					// advanced by one knowing the result below the capacity or reset to 0 knowing it reached it
					parts := strings.SplitN(idx.Leaf, ".", 2)
					if len(parts) == 2 {
						k, j := parts[0], atoiOr(parts[1], -1)
						good, seenEntry, seenBack := true, false, false
						for _, h := range gc.GCs {
							if h.Exit.Op != "goto" || h.Exit.Leaf != k || j < 0 || j >= len(h.Exit.Args) {
								continue
							}
							a := h.Exit.Args[j]
							if itoa(h.From) != k {
								seenEntry = true
								if !(a.Op == "load" && a.Args[0].Op == "fa" && (a.Args[0].Leaf == "start" || a.Args[0].Leaf == "end") && a.Args[0].Args[0].String() == "p:0") {
									good = false
								}
								continue
							}
							seenBack = true
							d := linOf(a).add(linAtom(idx.String()), -1)
							below, reached := false, false
							for _, gd := range h.Guards {
								sg := noEpoch(gd)
								if strings.HasPrefix(sg, "(< (+ #:1 "+idx.String()+") (load (fa:maxSize p:0))") {
									below = true
								}
								if strings.HasPrefix(sg, "(<= (load (fa:maxSize p:0)) (+ #:1 "+idx.String()+")") {
									reached = true
								}
							}
							switch {
							case len(d.c) == 0 && d.k == 1 && below:
							case a.String() == "#:0" && reached:
							default:
								good = false
							}
						}
						if good && seenEntry && seenBack {
							ok = true
						}
					}
				}
				if !ok {
					badI = append(badI, fmt.Sprintf("%s indexes the ring slice with %s", p.FuncKey(fn), trunc(noEpoch(idx), 160)))
				}
			}
			return false
		}
		for _, g := range gc.GCs {
			for _, a := range g.Guards {
				a.any(check)
			}
			for _, ef := range g.Effects {
				ef.any(check)
			}
			g.Exit.any(check)
		}
	}
	if nidx < 3 {
		badI = append(badI, fmt.Sprintf("expected at least 3 ring accesses, found %d", nidx))
	}
	put("R19b-index", clIdx, badI, fmt.Sprintf("%d ring accesses, all through start / end / (start+i)%%capacity", nidx))
	// evict before write
	var badE []string
	if stepV["Enqueue"] == "ok" {
		// decided by the replay
	} else if enq := ms["Enqueue"]; enq != nil {
		nfull := 0
		for _, g := range c.GC(enq).GCs {
			full := 0 // 1 full, -1 not full
			for _, a := range g.Guards {
				if (a.Op == "==" || a.Op == "!=") && hasField(a, "maxSize") && hasField(a, "size") {
					if a.Op == "==" {
						full = 1
					} else {
						full = -1
					}
				}
			}
			deqAt, writeAt := -1, -1
			for i, ef := range g.Effects {
				if name, _, ok := effDo(ef); ok && name == "Dequeue" {
					deqAt = i
				}
				if isStore(ef) && ef.Args[0].Op == "ia" && hasField(ef.Args[0], "values") && writeAt < 0 {
					writeAt = i
				}
			}
			switch {
			case full == 0:
				badE = append(badE, "a path of Enqueue does not test Full()")
			case writeAt < 0:
				badE = append(badE, "a path of Enqueue does not write the slot")
			case full == 1:
				nfull++
				if deqAt < 0 || deqAt > writeAt {
					badE = append(badE, "on the full path the oldest element is not discarded before the slot is written")
				}
			case full == -1 && deqAt >= 0:
				badE = append(badE, "Enqueue discards an element although the ring is not full")
			}
		}
		if nfull == 0 {
			badE = append(badE, "no full path found in Enqueue")
		}
	} else {
		badE = append(badE, "Enqueue not found")
	}
	put("R19b-evict", clEvict, badE, "full ⇒ Dequeue() precedes the slot write; not full ⇒ no eviction")
	// dequeue / peek on empty
	var badD []string
	for _, name := range []string{"Dequeue", "Peek"} {
		fn := ms[name]
		if fn == nil {
			badD = append(badD, name+" not found")
			continue
		}
		if stepV[name] == "ok" {
			continue
		}
		nEmpty, nNon := 0, 0
		// Dequeue may be written on top of Peek: read it with Peek expanded in place
		dgc := c.GC(fn)
		if name == "Dequeue" {
			dgc = c.GCWith(fn, BuildOpts{Tag: "ring-dequeue", Inline: func(cal *ssa.Function) bool {
				return fnName(cal) == "Peek" && ms["Peek"] != nil && (cal == ms["Peek"] || cal.Origin() == ms["Peek"])
			}})
		}
		for _, g := range dgc.GCs {
			empty := 0
			for _, a := range g.Guards {
				if (a.Op == "==" || a.Op == "!=") && hasField(a, "size") && (a.Args[0].String() == "#:0" || a.Args[1].String() == "#:0") {
					if a.Op == "==" {
						empty = 1
					} else {
						empty = -1
					}
				}
			}
			switch empty {
			case 0:
				badD = append(badD, name+": a path does not test emptiness")
			case 1:
				nEmpty++
				if len(g.Effects) > 0 {
					badD = append(badD, name+" on an empty ring has effects")
				}
				if len(g.Exit.Args) != 2 || g.Exit.Args[1].String() != "#:false" {
					badD = append(badD, name+" on an empty ring does not return ok=false")
				}
			case -1:
				nNon++
				if len(g.Exit.Args) != 2 || g.Exit.Args[1].String() != "#:true" || !(hasField(g.Exit.Args[0], "values") && hasField(g.Exit.Args[0], "start")) {
					badD = append(badD, name+" on a non-empty ring does not return (values[start], true)")
				}
			}
		}
		if nEmpty == 0 || nNon == 0 {
			badD = append(badD, name+": empty / non-empty paths not both found")
		}
	}
	put("R19b-dequeue", clDeq, badD, "empty ⇒ no effect, (zero,false); else (values[start], true)")
}

// ---- R19b-size: the ring's recomputed size is never negative ----

type linForm struct {
	coef map[string]int // "start", "end", "maxSize"
	k    int
}

func ringAtom(t *Term) string {
	if t.Op == "load" && len(t.Args) == 1 && t.Args[0].Op == "fa" && t.Args[0].Args[0].String() == "p:0" {
		switch t.Args[0].Leaf {
		case "start", "end", "maxSize":
			return t.Args[0].Leaf
		}
	}
	return ""
}

func linearOf(t *Term) (linForm, bool) {
	if v, ok := t.constInt(); ok {
		return linForm{coef: map[string]int{}, k: int(v)}, true
	}
	if a := ringAtom(t); a != "" {
		return linForm{coef: map[string]int{a: 1}}, true
	}
	if (t.Op == "+" || t.Op == "-") && len(t.Args) == 2 {
		x, ok1 := linearOf(t.Args[0])
		y, ok2 := linearOf(t.Args[1])
		if !ok1 || !ok2 {
			return linForm{}, false
		}
		sign := 1
		if t.Op == "-" {
			sign = -1
		}
		out := linForm{coef: map[string]int{}, k: x.k + sign*y.k}
		for a, c := range x.coef {
			out.coef[a] += c
		}
		for a, c := range y.coef {
			out.coef[a] += sign * c
		}
		return out, true
	}
	return linForm{}, false
}

// provablyNonNeg: under 0 <= start,end <= maxSize (ring invariant, R19b-wrap) and the path's comparisons of start and end.
func provablyNonNeg(t *Term, g *GC) bool {
	if t.Op == "%" && len(t.Args) == 2 {
		// Go's % takes the sign of the dividend
		return provablyNonNeg(t.Args[0], g)
	}
	l, ok := linearOf(t)
	if !ok {
		return false
	}
	le := func(x, y string) bool { // path knows x <= y
		for _, a := range g.Guards {
			if (a.Op == "<" || a.Op == "<=" || a.Op == "==") && len(a.Args) == 2 {
				ax, ay := ringAtom(a.Args[0]), ringAtom(a.Args[1])
				if ax == x && ay == y || (a.Op == "==" && ax == y && ay == x) {
					return true
				}
				// the comparison written on the difference: 0 < y - x, 0 <= y - x, x - y < 0, x - y <= 0
				if a.Op != "==" {
					for side := 0; side < 2; side++ {
						if z, isC := a.Args[side].constInt(); isC && z == 0 {
							if d, okd := linearOf(a.Args[1-side]); okd && d.k == 0 && d.coef["maxSize"] == 0 {
								cx, cy := d.coef[x], d.coef[y]
								if side == 0 && cy == 1 && cx == -1 { // 0 < D or 0 <= D with D = y - x
									return true
								}
								if side == 1 && cx == 1 && cy == -1 { // D < 0 or D <= 0 with D = x - y
									return true
								}
							}
						}
					}
				}
			}
		}
		return false
	}
	a, b, c := l.coef["maxSize"], l.coef["start"], l.coef["end"]
	for b < 0 {
		switch {
		case a > 0:
			a--
		case c > 0 && le("start", "end"):
			c--
		default:
			return false
		}
		b++
	}
	for c < 0 {
		switch {
		case a > 0:
			a--
		case b > 0 && le("end", "start"):
			b--
		default:
			return false
		}
		c++
	}
	return a >= 0 && b >= 0 && c >= 0 && l.k >= 0
}

func ruleR19bSize(c *Ctx, r *RuleResult) {
	p := c.p
	tk := "queues/circularbuffer.Queue"
	clause := "R19b-size the size recomputed from (start, end, full) is non-negative on every path, given 0 <= start,end <= capacity: a difference of the indices is only taken in the direction the path has established (Go's % keeps the sign of the dividend)"
	clR := "R19b-recompute wherever the cached size is recomputed from (start, end, full), that is the last write to the ring's state on the path: no field the recomputation reads is stored afterwards"
	ct := p.T.ContainerByKey(tk)
	if ct == nil {
		return
	}
	ms := methodsOf(p, ct)
	helper := ms["calculateSize"] // may be absent: the recomputation can be written out where it is needed
	anchorPos := p.Pos(ct.Obj().Pos())
	if helper != nil {
		anchorPos = p.FuncPos(helper)
	}
	// a recomputation: a value stored into size that reads the ring's other fields and not size itself
	st := ct.Underlying().(*types.Struct)
	other := map[string]bool{}
	for i := 0; i < st.NumFields(); i++ {
		if n := fieldN(ct, i); n != "size" {
			other[n] = true
		}
	}
	viaHelper := func(v *Term) bool {
		return v.any(func(t *Term) bool { return t.Op == "call" && strings.HasSuffix(t.Leaf, ").calculateSize") })
	}
	isRecompute := func(v *Term) bool {
		if viaHelper(v) {
			return true
		}
		readsOther, readsSize := false, false
		v.any(func(t *Term) bool {
			if t.Op == "fa" && len(t.Args) == 1 && t.Args[0].String() == "p:0" {
				if t.Leaf == "size" {
					readsSize = true
				} else if other[t.Leaf] {
					readsOther = true
				}
			}
			return false
		})
		return readsOther && !readsSize
	}
	var badR, badS []string
	nre, nval := 0, 0
	for _, name := range sortedNames(ms) {
		for _, g := range c.GC(ms[name]).GCs {
			for i, ef := range g.Effects {
				if !storeToField(ef, "size") || ef.Args[0].Args[0].String() != "p:0" || !isRecompute(ef.Args[1]) {
					continue
				}
				nre++
				// which fields does it read? (through the helper: the helper's reads)
				reads := map[string]bool{}
				ef.Args[1].any(func(t *Term) bool {
					if t.Op == "fa" && other[t.Leaf] {
						reads[t.Leaf] = true
					}
					return false
				})
				for _, a := range g.Guards { // the case distinction of a written-out recomputation reads fields too
					a.any(func(t *Term) bool {
						if t.Op == "fa" && other[t.Leaf] && !viaHelper(ef.Args[1]) {
							reads[t.Leaf] = true
						}
						return false
					})
				}
				if helper != nil {
					for fi := 0; fi < st.NumFields(); fi++ {
						if readsField(helper, fi) && fieldN(ct, fi) != "size" {
							reads[fieldN(ct, fi)] = true
						}
					}
				}
				for _, e2 := range g.Effects[i+1:] {
					if isStore(e2) && e2.Args[0].Op == "fa" && reads[e2.Args[0].Leaf] && e2.Args[0].Args[0].String() == "p:0" {
						badR = append(badR, fmt.Sprintf("%s stores %s after the size was recomputed from it: %s", name, e2.Args[0].Leaf, trunc(noEpoch(e2), 120)))
					}
					if nm, _, ok := effDo(e2); ok && nm != "calculateSize" {
						badR = append(badR, fmt.Sprintf("%s calls %s after the size was recomputed", name, nm))
					}
				}
				// written out in place: the stored value itself must be non-negative under the path's guards
				if !viaHelper(ef.Args[1]) {
					nval++
					if !provablyNonNeg(ef.Args[1], g) {
						badS = append(badS, fmt.Sprintf("%s stores size := %s on the path %s — not provably non-negative", name, trunc(noEpoch(ef.Args[1]), 160), trunc(guardsString(g), 200)))
					}
					if why := ringSizeMismatch(ef.Args[1], g); why != "" {
						badS = append(badS, name+": "+why)
					}
				}
			}
		}
	}
	if len(badR) > 0 {
		r.add(Obligation{Key: "R19b-recompute:" + tk, Rule: "R19b-recompute", Clause: clR, Pos: anchorPos, Status: Violated, Facts: strings.Join(dedup(badR), "\n")})
	} else {
		r.add(Obligation{Key: "R19b-recompute:" + tk, Rule: "R19b-recompute", Clause: clR, Pos: anchorPos, Status: Discharged, Facts: fmt.Sprintf("%d recomputation site-paths, each the last write to the ring's state", nre)})
	}
	if helper != nil {
		for _, g := range c.GC(helper).GCs {
			if g.Exit.Op != "return" || len(g.Exit.Args) != 1 {
				continue
			}
			nval++
			if !provablyNonNeg(g.Exit.Args[0], g) {
				badS = append(badS, fmt.Sprintf("calculateSize returns %s on the path %s — not provably non-negative", trunc(noEpoch(g.Exit.Args[0]), 160), trunc(guardsString(g), 200)))
			}
			if why := ringSizeMismatch(g.Exit.Args[0], g); why != "" {
				badS = append(badS, "calculateSize: "+why)
			}
		}
	}
	switch {
	case len(badS) > 0:
		r.add(Obligation{Key: "R19b-size:" + tk, Rule: "R19b-size", Clause: clause, Pos: anchorPos, Status: Violated, Facts: strings.Join(dedup(badS), "\n")})
	case nval == 0:
		r.add(Obligation{Key: "R19b-size:" + tk, Rule: "R19b-size", Clause: clause, Pos: anchorPos, Status: Discharged, Facts: "the size is never recomputed from the indices (maintained incrementally: R12b/c)"})
	default:
		r.add(Obligation{Key: "R19b-size:" + tk, Rule: "R19b-size", Clause: clause, Pos: anchorPos, Status: Discharged, Facts: fmt.Sprintf("%d recomputed values, each provably >= 0", nval)})
	}
}

// ringSizeMismatch: v is a size recomputed from the ring's indices on path g. When v is linear in (start, end, capacity) and
// the path knows how end and start compare, the value must be the number of slots from start to end going forward:
// end - start when start < end, end - start + capacity when end < start, capacity or 0 (by the full flag) when they are equal.
// Returns "" when it is, or when this reading does not apply (no verdict).
func ringSizeMismatch(v *Term, g *GC) string {
	fieldOf := func(t *Term) string {
		if t.Op == "load" && len(t.Args) == 1 && t.Args[0].Op == "fa" && len(t.Args[0].Args) == 1 && t.Args[0].Args[0].String() == "p:0" {
			return t.Args[0].Leaf
		}
		return ""
	}
	okLin := true
	var lf func(t *Term) lin
	lf = func(t *Term) lin {
		if k, ok := t.constInt(); ok {
			return linConst(int(k))
		}
		switch fieldOf(t) {
		case "start":
			return linAtom("S")
		case "end":
			return linAtom("E")
		case "maxSize":
			return linAtom("M")
		}
		if (t.Op == "+" || t.Op == "-") && len(t.Args) == 2 {
			sign := 1
			if t.Op == "-" {
				sign = -1
			}
			return lf(t.Args[0]).add(lf(t.Args[1]), sign)
		}
		okLin = false
		return linAtom(noEpoch(t))
	}
	val := lf(v)
	if !okLin {
		return ""
	}
	// only guards about the very versions of start and end that the value reads count (an index may have been advanced
	// and wrapped earlier on the path)
	verOf := map[string]string{}
	v.any(func(t *Term) bool {
		if f := fieldOf(t); f == "start" || f == "end" {
			verOf[f] = t.Leaf
		}
		return false
	})
	if verOf["start"] == "" || verOf["end"] == "" {
		return ""
	}
	sameVer := func(t *Term) bool {
		f := fieldOf(t)
		return (f != "start" && f != "end") || t.Leaf == verOf[f]
	}
	lt, gt, le, ge, eq, ne := false, false, false, false, false, false // end ? start
	full, notFull := false, false
	for _, a := range g.Guards {
		x := a
		neg := false
		if x.Op == "!" && len(x.Args) == 1 {
			x, neg = x.Args[0], true
		}
		if fieldOf(x) == "full" {
			if neg {
				notFull = true
			} else {
				full = true
			}
			continue
		}
		if len(a.Args) != 2 {
			continue
		}
		f0, f1 := fieldOf(a.Args[0]), fieldOf(a.Args[1])
		if !sameVer(a.Args[0]) || !sameVer(a.Args[1]) {
			continue
		}
		switch {
		case a.Op == "<" && f0 == "end" && f1 == "start":
			lt = true
		case a.Op == "<" && f0 == "start" && f1 == "end":
			gt = true
		case a.Op == "<=" && f0 == "end" && f1 == "start":
			le = true
		case a.Op == "<=" && f0 == "start" && f1 == "end":
			ge = true
		case a.Op == "==" && ((f0 == "end" && f1 == "start") || (f0 == "start" && f1 == "end")):
			eq = true
		case a.Op == "!=" && ((f0 == "end" && f1 == "start") || (f0 == "start" && f1 == "end")):
			ne = true
		}
	}
	if ge && ne {
		gt = true
	}
	if le && ne {
		lt = true
	}
	if le && ge {
		eq = true
	}
	E, S, M := linAtom("E"), linAtom("S"), linAtom("M")
	var want []lin
	switch {
	case lt:
		want = []lin{E.add(S, -1).add(M, 1)}
	case gt:
		want = []lin{E.add(S, -1)}
	case eq && full:
		want = []lin{M, E.add(S, -1).add(M, 1)}
	case eq && notFull:
		want = []lin{linConst(0), E.add(S, -1)}
	default:
		return ""
	}
	for _, w := range want {
		if w.String() == val.String() {
			return ""
		}
	}
	return fmt.Sprintf("the size recomputed on the path %s is %s, but going forward from start to end there are %s slots", trunc(guardsString(g), 160), val.String(), want[0].String())
}

// isIndexOfHelper: fn(recv, x) int searches the order list with the list's own iterator from the beginning and returns the
// iterator's Index() at the first element whose Value() equals x, -1 when the iterator is exhausted — IndexOf written out.
func isIndexOfHelper(c *Ctx, fn *ssa.Function, order string) bool {
	if fn.Blocks == nil || len(fn.Params) != 2 || fn.Signature.Results().Len() != 1 || !isIntType(fn.Signature.Results().At(0).Type()) {
		return false
	}
	gc := c.GC(fn)
	if gc.Undecided != "" {
		return false
	}
	var IT *Term
	var itType *types.Named
	for _, g := range gc.GCs {
		if g.From != 0 {
			continue
		}
		if len(g.Effects) != 1 || g.Exit.Op != "goto" || len(g.Guards) != 0 {
			return false
		}
		ef := g.Effects[0]
		if !(isStore(ef) && ef.Args[0].Op == "new" && ef.Args[1].Op == "call" && strings.HasSuffix(ef.Args[1].Leaf, ").Iterator") && len(ef.Args[1].Args) == 2 && hasField(ef.Args[1].Args[1], order)) {
			return false
		}
		IT = ef.Args[0]
		if itf := byFuncKey(c.p, ef.Args[1].Leaf); itf != nil {
			itType = namedOf(itf.Signature.Results().At(0).Type())
		}
	}
	if IT == nil || itType == nil {
		return false
	}
	val, idx := iterMethodTerm(c, fn, itType, "Value", IT), iterMethodTerm(c, fn, itType, "Index", IT)
	nMatch, nMiss, nEnd := 0, 0, 0
	for _, g := range gc.GCs {
		if g.From == 0 {
			continue
		}
		if len(g.Effects) != 1 || g.Effects[0].Op != "do" || !strings.HasSuffix(g.Effects[0].Leaf, ").Next") || g.Effects[0].Args[0].String() != IT.String() {
			return false
		}
		stepped, eq, ne := 0, false, false
		for _, a := range g.Guards {
			x, pol := a, true
			if x.Op == "!" {
				x, pol = x.Args[0], false
			}
			if x.Op == "res" && len(x.Args) == 1 && noEpoch(x.Args[0]) == noEpoch(g.Effects[0]) {
				if pol {
					stepped = 1
				} else {
					stepped = -1
				}
				continue
			}
			if (a.Op == "==" || a.Op == "!=") && len(a.Args) == 2 && ((noEpoch(a.Args[0]) == val && a.Args[1].String() == "p:1") || (noEpoch(a.Args[1]) == val && a.Args[0].String() == "p:1")) {
				if a.Op == "==" {
					eq = true
				} else {
					ne = true
				}
				continue
			}
			return false
		}
		switch {
		case stepped == -1 && g.Exit.Op == "return" && len(g.Exit.Args) == 1 && g.Exit.Args[0].String() == "#:-1":
			nEnd++
		case stepped == 1 && eq && g.Exit.Op == "return" && len(g.Exit.Args) == 1 && noEpoch(g.Exit.Args[0]) == idx:
			nMatch++
		case stepped == 1 && ne && g.Exit.Op == "goto" && g.Exit.Leaf == itoa(g.From):
			nMiss++
		default:
			return false
		}
	}
	return nMatch == 1 && nMiss == 1 && nEnd == 1
}

// ownIteratorFill recognises form C of a tail-removing adapter's Values(): a result of length Size() filled, for every step of
// the adapter's own iterator, at slot it.Index() with it.Value() — where Value() at index i reads the inner list at
// Size()-1-i (that the index runs over 0..Size()-1 is the cursor protocol, R14move).
func ownIteratorFill(c *Ctx, ct *types.Named, gc *GCNF, LIST string, ev func(*Term) lin) (Status, string, bool) {
	p := c.p
	var entry, done, step *GC
	for _, g := range gc.GCs {
		switch {
		case g.From == 0 && entry == nil:
			entry = g
		case g.From != 0 && g.Exit.Op == "return" && done == nil:
			done = g
		case g.From != 0 && g.Exit.Op == "goto" && step == nil:
			step = g
		default:
			return 0, "", false
		}
	}
	if entry == nil || done == nil || step == nil || entry.Exit.Op != "goto" || len(entry.Effects) != 0 || len(step.Effects) != 2 || len(done.Effects) != 1 || len(done.Exit.Args) != 1 {
		return 0, "", false
	}
	nx := step.Effects[0]
	if !(nx.Op == "do" && strings.HasSuffix(nx.Leaf, ").Next") && len(nx.Args) == 1 && done.Effects[0].String() == nx.String()) {
		return 0, "", false
	}
	IT := nx.Args[0]
	itf := methodsOf(p, ct)["Iterator"]
	if itf == nil {
		return 0, "", false
	}
	if !(IT.Op == "call" && IT.Leaf == p.FuncKey(itf) && len(IT.Args) == 2 && IT.Args[1].String() == "p:0") {
		return 0, "", false
	}
	itType := namedOf(itf.Signature.Results().At(0).Type())
	if itType == nil {
		return 0, "", false
	}
	ownerF, _ := iterOwner(p, itType)
	stepped := false
	for _, a := range step.Guards {
		if a.Op == "res" && len(a.Args) == 1 && a.Args[0].String() == nx.String() {
			stepped = true
		}
	}
	if !stepped {
		return 0, "", false
	}
	// the iterator's owner field is the receiver
	var norm func(t *Term) *Term
	norm = func(t *Term) *Term {
		if t.Op == "load" && len(t.Args) == 1 && t.Args[0].Op == "fa" && t.Args[0].Leaf == ownerF && len(t.Args[0].Args) == 1 && t.Args[0].Args[0].String() == IT.String() {
			return leaf("p", "0")
		}
		if len(t.Args) == 0 {
			return t
		}
		n := &Term{Op: t.Op, Leaf: t.Leaf, Args: make([]*Term, len(t.Args))}
		for i, a := range t.Args {
			n.Args[i] = norm(a)
		}
		return n
	}
	res := done.Exit.Args[0]
	if res.Op != "makeslice" || ev(norm(res.Args[0])).String() != "S" {
		return Violated, "the result is not a slice of length Size(): " + trunc(noEpoch(done.Exit), 160), true
	}
	ef := step.Effects[1]
	if !(isStore(ef) && ef.Args[0].Op == "ia" && noEpoch(ef.Args[0].Args[0]) == noEpoch(res)) {
		return 0, "", false
	}
	slot := ef.Args[0].Args[1]
	if !(slot.Op == "load" && len(slot.Args) == 1 && slot.Args[0].Op == "fa" && slot.Args[0].Leaf == "index" && slot.Args[0].Args[0].String() == IT.String()) {
		return 0, "", false
	}
	src := ef.Args[1]
	if src.Op == "ext" && src.Leaf == "0" {
		src = src.Args[0]
	}
	src = norm(src)
	if !(src.Op == "call" && strings.HasSuffix(src.Leaf, ").Get") && len(src.Args) == 3 && noEpoch(src.Args[1]) == LIST) {
		return 0, "", false
	}
	// the same reading of the cursor on both sides
	same := true
	src.Args[2].any(func(x *Term) bool {
		if x.Op == "load" && len(x.Args) == 1 && x.Args[0].Op == "fa" && x.Args[0].Leaf == "index" && x.String() != slot.String() {
			same = false
		}
		return false
	})
	if !same {
		return 0, "", false
	}
	a, b := ev(slot), ev(src.Args[2])
	Sm1 := linAtom("S").add(linConst(1), -1)
	if sum := a.add(b, 1); sum.String() != Sm1.String() {
		return Violated, fmt.Sprintf("slot %s is filled from list position %s: the two do not add up to Size()-1, so Values() is not the reverse of the list (= the removal order)", a.String(), b.String()), true
	}
	return Discharged, "result[it.Index()] = it.Value() for every step of the own iterator, whose Value() at index i reads list position Size()-1-i", true
}

var funcByKeyMap map[*Prog]map[string]*ssa.Function

func funcByKeyCached(p *Prog, key string) *ssa.Function {
	if funcByKeyMap == nil {
		funcByKeyMap = map[*Prog]map[string]*ssa.Function{}
	}
	m := funcByKeyMap[p]
	if m == nil {
		m = map[string]*ssa.Function{}
		for _, f := range p.Funcs {
			m[p.FuncKey(f)] = f
		}
		funcByKeyMap[p] = m
	}
	return m[key]
}
