package main

// rules_stale.go — R35 READBACK: a path does not read a field back after overwriting it with a constant.
//
// `parent.color = black; sibling.color = parent.color` reads the constant just written, not the value the programmer meant
// to transfer (the statements are in the wrong order). On a single path: a store of a constant into field F of object X,
// followed — with no other store to F of X in between — by a load of F of X whose value flows into another store or into the
// result. The load's version stamp proves it happens after the store. Expected count on a correct tree: zero (a path that
// wanted the constant would have written the constant).

import (
	"fmt"
	"strings"

	"golang.org/x/tools/go/ssa"
)

// fieldsReturnedOfParam: names of the fields of parameter i whose loaded value fn returns as such on some path.
func fieldsReturnedOfParam(fn *ssa.Function, i int) []string {
	var out []string
	if i >= len(fn.Params) {
		return nil
	}
	for _, b := range fn.Blocks {
		ret, ok := b.Instrs[len(b.Instrs)-1].(*ssa.Return)
		if !ok {
			continue
		}
		for _, res := range ret.Results {
			vals := []ssa.Value{stripChange(res)}
			if ph, isPhi := vals[0].(*ssa.Phi); isPhi {
				vals = nil
				for _, e := range ph.Edges {
					vals = append(vals, stripChange(e))
				}
			}
			for _, v := range vals {
				if u, ok := v.(*ssa.UnOp); ok {
					if fa, ok := stripChange(u.X).(*ssa.FieldAddr); ok && stripChange(fa.X) == ssa.Value(fn.Params[i]) {
						out = append(out, fieldNameOf(fa))
					}
				}
			}
		}
	}
	return out
}

// fieldsReadOfParam: names of the fields that fn loads directly from its parameter i.
func fieldsReadOfParam(fn *ssa.Function, i int) []string {
	var out []string
	if i >= len(fn.Params) {
		return nil
	}
	for _, b := range fn.Blocks {
		for _, in := range b.Instrs {
			if fa, ok := in.(*ssa.FieldAddr); ok && stripChange(fa.X) == ssa.Value(fn.Params[i]) {
				for _, ref := range *fa.Referrers() {
					if u, ok := ref.(*ssa.UnOp); ok && u.X == ssa.Value(fa) {
						out = append(out, fieldNameOf(fa))
						break
					}
				}
			}
		}
	}
	return out
}

func ruleR35(c *Ctx) *RuleResult {
	p := c.p
	r := &RuleResult{Rule: "R35", Title: "READBACK: no path reads a field back after overwriting it with a constant (statement-order slips in value transfers)", Floor: 0}
	clause := "on no path is a field of an object overwritten with a constant and then read back, with the value read flowing into another store or the result — the transfer was meant to move the old value"
	nfn := 0
	byKey := map[string]*ssa.Function{}
	for _, fn := range p.Funcs {
		byKey[p.FuncKey(fn)] = fn
	}
	for _, fn := range p.Funcs {
		if fn.Parent() != nil || fn.Blocks == nil {
			continue
		}
		gc := c.GC(fn)
		if gc.Undecided != "" {
			continue
		}
		nfn++
		var bad []string
		for _, g := range gc.GCs {
			// stores to fields in order; count per field name to interpret version stamps
			type st struct {
				idx       int
				field, ob string
				constant  bool
				val       string
				nth       int // this is the nth store to that field name on the path (1-based)
			}
			var stores []st
			cnt := map[string]int{}
			for i, ef := range g.Effects {
				if isStore(ef) && ef.Args[0].Op == "fa" && len(ef.Args[0].Args) == 1 {
					f := ef.Args[0].Leaf
					cnt[f]++
					v := ef.Args[1]
					stores = append(stores, st{i, f, noEpoch(ef.Args[0].Args[0]), v.Op == "#", v.String(), cnt[f]})
				}
			}
			check := func(where string, t *Term) {
				// only a verbatim transfer counts: the value stored / returned *is* the field read back (or a getter that
				// returns that field) — a recomputation that merely consults the field (calculateSize) is not a transfer
				func(f func(x *Term) bool) { f(t) }(func(x *Term) bool {
					// a pure getter called after N effects reads the fields of its argument as of then (nodeColor(parent))
					if x.Op == "call" && len(x.Args) >= 2 && x.Args[0].Op == "@" && strings.HasPrefix(x.Args[0].Leaf, "e") {
						n := atoiOr(x.Args[0].Leaf[1:], 0)
						callee := byKey[x.Leaf]
						if callee == nil || n == 0 {
							return false
						}
						for pi, arg := range x.Args[1:] {
							if pi >= len(callee.Params) {
								break
							}
							ob := noEpoch(arg)
							for _, f := range fieldsReturnedOfParam(callee, pi) {
								for k := len(stores) - 1; k >= 0; k-- {
									s := stores[k]
									if s.idx >= n || s.field != f {
										continue
									}
									if s.ob == ob {
										// a call between the constant store and the read-back (a rotation, the next case of a
										// fix-up) separates two steps of an algorithm: the later step reading what the earlier
										// one left is its business, not a statement-order slip
										callBetween := false
										for _, e2 := range g.Effects[s.idx+1 : min(n, len(g.Effects))] {
											if e2.Op == "do" {
												callBetween = true
											}
										}
										if s.constant && !callBetween {
											bad = append(bad, fmt.Sprintf("%s reads %s.%s back (through %s) after the same path stored the constant %s into it: %s", where, trunc(ob, 80), f, lastIdent(x.Leaf), s.val, trunc(guardsString(g), 160)))
										}
										break
									}
								}
							}
						}
						return false
					}
					if x.Op != "load" || len(x.Args) != 1 || x.Args[0].Op != "fa" || len(x.Args[0].Args) != 1 {
						return false
					}
					m := rotFieldVer.FindStringSubmatch(x.Leaf)
					if m == nil {
						return false
					}
					n := atoiOr(m[1], 0)
					if n == 0 {
						return false
					}
					f, ob := x.Args[0].Leaf, noEpoch(x.Args[0].Args[0])
					// the load saw the first n stores to field f: the last of those to the same object decides its value
					for k := len(stores) - 1; k >= 0; k-- {
						s := stores[k]
						if s.field != f || s.nth > n {
							continue
						}
						if s.ob == ob {
							if s.constant {
								bad = append(bad, fmt.Sprintf("%s reads %s.%s back after the same path stored the constant %s into it: %s", where, trunc(ob, 80), f, s.val, trunc(guardsString(g), 160)))
							}
							return false
						}
					}
					return false
				})
			}
			for i, ef := range g.Effects {
				if isStore(ef) {
					check(fmt.Sprintf("the value stored by effect %d (%s)", i, trunc(noEpoch(ef.Args[0]), 60)), ef.Args[1])
				}
			}
			if g.Exit.Op == "return" {
				for _, a := range g.Exit.Args {
					check("the result", a)
				}
			}
		}
		if len(bad) > 0 {
			r.bad(p.FuncKey(fn), clause, p.FuncPos(fn), strings.Join(dedup(bad), "\n"))
		}
	}
	r.Analysed = append(r.Analysed, fmt.Sprintf("%d functions scanned", nfn))
	if len(r.Obs) == 0 {
		r.ok("library", clause, "-", fmt.Sprintf("%d functions, no constant-overwrite-then-read-back transfer on any path", nfn))
	}
	return r
}
