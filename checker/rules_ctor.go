package main

// rules_ctor.go — R46 CTORVALUES: a constructor that takes initial values hands them to the container.
//
// `New(values ...T)` of the three lists and the three sets is documented as "instantiates … and adds the passed values, if
// any". Every history of C03 / C04 starts at a constructor, and the unit tests construct with zero or with several values.
// For every package-level library function that returns a pointer to a container type and has a variadic last parameter,
// every loop-free path from the entry to a return whose effects never mention that parameter (outside `len(·)`) must know
// the parameter empty: the guards of the path, read as constraints on n = len(values), have no solution with n >= 1.
// A guard the rule cannot read as a constraint on n counts as satisfiable (towards an alarm only when the path really skips
// the values; towards silence never). Paths that enter a loop are not judged here (element-wise insertion).

import (
	"fmt"
	"go/types"
	"strings"
)

func ruleR46(c *Ctx) *RuleResult {
	p := c.p
	r := &RuleResult{Rule: "R46", Title: "CTORVALUES: a constructor taking initial values hands them to the container unless there are none", Floor: 6}
	clause := "every loop-free path of New(values...) that returns without touching the values knows len(values) == 0"
	for _, fn := range p.Funcs {
		if fn.Parent() != nil || fn.Blocks == nil || !p.IsLib(fn) || fn.Signature.Recv() != nil || !fn.Signature.Variadic() {
			continue
		}
		res := fn.Signature.Results()
		if res.Len() != 1 {
			continue
		}
		ptr, ok := res.At(0).Type().(*types.Pointer)
		if !ok {
			continue
		}
		named, ok := ptr.Elem().(*types.Named)
		if !ok || !p.T.IsContainer(named.Origin()) {
			continue
		}
		k := len(fn.Params) - 1
		pk := "p:" + itoa(k)
		gc := c.GC(fn)
		key := p.FuncKey(fn)
		if gc.Undecided != "" {
			r.add(Obligation{Key: "R46:" + key, Rule: "R46", Clause: clause, Pos: p.FuncPos(fn), Status: Undecided, Facts: gc.Undecided})
			continue
		}
		var mentions func(t *Term) bool
		mentions = func(t *Term) bool {
			if t == nil {
				return false
			}
			if t.Op == "len" || (t.Op == "std" && t.Leaf == "len") {
				return false
			}
			if t.String() == pk {
				return true
			}
			for _, a := range t.Args {
				if mentions(a) {
					return true
				}
			}
			return false
		}
		lenTerm := "(len " + pk + ")"
		var bad []string
		judged := 0
		for _, g := range gc.GCs {
			if g.From != 0 || g.Exit.Op != "return" {
				continue
			}
			uses := mentions(g.Exit)
			for _, e := range g.Effects {
				if mentions(e) {
					uses = true
				}
			}
			if uses {
				continue
			}
			judged++
			// constraints on n
			sat := false
			for n := 1; n <= 64 && !sat; n++ {
				all := true
				for _, a := range g.Guards {
					if len(a.Args) != 2 {
						continue
					}
					var lhs, rhs int
					x, y := a.Args[0], a.Args[1]
					cx, okx := termConstInt(x)
					cy, oky := termConstInt(y)
					switch {
					case x.String() == lenTerm && oky:
						lhs, rhs = n, cy
					case y.String() == lenTerm && okx:
						lhs, rhs = cx, n
					default:
						continue
					}
					holds := true
					switch a.Op {
					case "<":
						holds = lhs < rhs
					case "<=":
						holds = lhs <= rhs
					case "==":
						holds = lhs == rhs
					case "!=":
						holds = lhs != rhs
					default:
						continue
					}
					if !holds {
						all = false
						break
					}
				}
				if all {
					sat = true
					bad = append(bad, fmt.Sprintf("a path returns the new container without touching the %d value(s) it was given: %s", n, trunc(guardsString(g), 200)))
				}
			}
		}
		if len(bad) > 0 {
			r.bad(key, clause, p.FuncPos(fn), strings.Join(dedup(bad), "\n"))
		} else {
			r.ok(key, clause, p.FuncPos(fn), fmt.Sprintf("%d value-free return path(s), each knows len(values) == 0", judged))
		}
	}
	return r
}

func termConstInt(t *Term) (int, bool) {
	if t.Op != "#" {
		return 0, false
	}
	n := 0
	if _, err := fmt.Sscanf(t.Leaf, "%d", &n); err != nil {
		return 0, false
	}
	return n, true
}
