package main

// rules_rbcolour.go — R43 RBCOLOUR: the red-black fix-ups keep the black heights equal.
//
// The whole-chain path forms of the insertion and deletion fix-ups (every case function expanded, R21's skeleton forms) are
// replayed over an abstract tree: nodes with left/right/parent and a colour, materialised on demand around the node the
// fix-up is called for; `rotateLeft/rotateRight` are applied by their specification (R34 decides that the code implements it),
// `sibling`, `uncle`, `grandparent`, `nodeColor` are read structurally at the time the path evaluated them. What a path
// knows about colours and nil-ness comes from its guards. Subtrees the path never looks into are opaque units whose black
// height follows, top-down, from the pre-state being a valid red-black tree except for what the fix-up is there to repair:
//   deletion  — the paths through the node have one black too few;
//   insertion — the node is red and its parent may be red too.
// At the end of a path that does not hand over to the parent/grandparent every touched node must have children of equal
// black height and the region must have the black height it had before (so that it still fits under its untouched parent);
// insertion additionally leaves no touched red node with a touched red child. A path that hands over (deleteCase1(parent),
// insertCase1(grandparent)) must leave exactly the defect that the recursive call expects, one level up.
// A colour or a structure fact the path does not know makes that path undecided (no verdict), never an alarm.

import (
	"fmt"
	"os"
	"sort"
	"strings"

	"golang.org/x/tools/go/ssa"
)

type rbHist struct {
	t   int
	val string
}

type rbModel struct {
	slots   map[string][]rbHist // "id.L" / "id.R" / "id.P" / "id.c" (colour: "b"/"r")
	initCol map[string]string   // colour at time 0 where known
	isNil   map[string]bool
	nonNil  map[string]bool
	side    string            // "L"/"R": the side of N under its parent
	sideOf  map[string]string // the side of other nodes under their parents, where the path says so at the start
	fresh   int
	fail    string
	infeas  bool
}

func (m *rbModel) read(id, f string, t int) string {
	if id == "nil" {
		m.fail = "a field of nil is read"
		return "nil"
	}
	h := m.slots[id+"."+f]
	for i := len(h) - 1; i >= 0; i-- {
		if h[i].t <= t {
			return h[i].val
		}
	}
	// never written before t: materialise the initial value
	var v string
	switch f {
	case "L", "R":
		v = id + "." + f
		m.slots[id+"."+f] = append([]rbHist{{0, v}}, h...)
		m.slots[v+".P"] = append([]rbHist{{0, id}}, m.slots[v+".P"]...)
	case "P":
		v = id + ".P"
		m.slots[id+".P"] = append([]rbHist{{0, v}}, h...)
		s := "L"
		if id == "N" {
			s = m.side
		} else if v, ok := m.sideOf[id]; ok {
			s = v
		}
		other := map[string]string{"L": "R", "R": "L"}[s]
		m.slots[v+"."+s] = append([]rbHist{{0, id}}, m.slots[v+"."+s]...)
		_ = other
	}
	return v
}

func (m *rbModel) write(id, f string, t int, v string) {
	if id == "nil" {
		return
	}
	// make sure the initial value exists before the first write (so that earlier reads stay meaningful)
	if len(m.slots[id+"."+f]) == 0 && f != "c" {
		m.read(id, f, 0)
	}
	m.slots[id+"."+f] = append(m.slots[id+"."+f], rbHist{t, v})
	sort.SliceStable(m.slots[id+"."+f], func(i, j int) bool { return m.slots[id+"."+f][i].t < m.slots[id+"."+f][j].t })
}

func (m *rbModel) colour(id string, t int) (string, bool) {
	if id == "nil" || m.isNil[id] {
		return "b", true
	}
	h := m.slots[id+".c"]
	for i := len(h) - 1; i >= 0; i-- {
		if h[i].t <= t {
			return h[i].val, h[i].val == "b" || h[i].val == "r"
		}
	}
	c, ok := m.initCol[id]
	return c, ok
}

func (m *rbModel) rotate(x string, left bool, t int) {
	a, b := "R", "L"
	if !left {
		a, b = "L", "R"
	}
	y := m.read(x, a, t)
	if y == "nil" || m.isNil[y] {
		m.fail = "a rotation around a node without the child that moves up"
		return
	}
	tr := m.read(y, b, t)
	g := m.read(x, "P", t)
	m.write(x, a, t+1, tr)
	if tr != "nil" {
		m.write(tr, "P", t+1, x)
	}
	m.write(y, b, t+1, x)
	m.write(x, "P", t+1, y)
	m.write(y, "P", t+1, g)
	if g != "nil" && !m.isNil[g] {
		if m.read(g, "L", t) == x {
			m.write(g, "L", t+1, y)
		} else if m.read(g, "R", t) == x {
			m.write(g, "R", t+1, y)
		}
	}
}

// opened: the node has materialised children (the path looked into it).
func (m *rbModel) opened(id string) bool {
	if id == "nil" || m.isNil[id] {
		return false
	}
	if _, ok := m.initCol[id]; ok && id != "N" {
		return true // its colour matters: it is a node of its own, not part of an opaque unit
	}
	return len(m.slots[id+".L"]) > 0 || len(m.slots[id+".R"]) > 0 || len(m.slots[id+".c"]) > 0
}

func ruleR43(c *Ctx) *RuleResult {
	p := c.p
	r := &RuleResult{Rule: "R43", Title: "RBCOLOUR: the red-black fix-ups leave equal black heights (abstract-tree replay of every path of the expanded case chains)", Floor: 2}
	ct := typeByKey(p, "trees/redblacktree.Tree")
	if ct == nil {
		r.undecided("trees/redblacktree.Tree", "red-black colours", "-", "anchored type not found")
		return r
	}
	ms := methodsOf(p, ct)
	for _, sk := range []struct{ entry, prefix string }{{"deleteCase1", "deleteCase"}, {"insertCase1", "insertCase"}} {
		del := sk.prefix == "deleteCase"
		key := "trees/redblacktree.Tree." + sk.prefix + "-chain"
		clause := "insertion fix-up: on every path black heights stay equal and as before, no touched red node keeps a touched red child (except the node handed to the recursive call and its parent)"
		if del {
			clause = "deletion fix-up: the paths through the node have one black too few; a path that ends the fix-up leaves all touched nodes with children of equal black height and the region as high as before; a path that hands over to the parent leaves that deficit exactly at the parent"
		}
		fn := ms[sk.entry]
		if fn == nil {
			r.undecided(key, clause, "-", "anchored function not found")
			continue
		}
		prefix := sk.prefix
		gc := tailRecForm(p, c.GCWith(fn, BuildOpts{Tag: "chain:" + prefix, Depth: 8, Inline: func(callee *ssa.Function) bool { return strings.HasPrefix(fnName(callee), prefix) }}))
		if gc.Undecided != "" {
			r.undecided(key, clause, p.FuncPos(fn), gc.Undecided)
			continue
		}
		var bad, skipped []string
		ndec := 0
		for _, g := range gc.GCs {
			if g.Exit.Op != "return" {
				continue
			}
			why, verdict := rbReplay(g, del, sk.entry)
			switch {
			case verdict == "bad":
				ndec++
				bad = append(bad, why+": "+trunc(g.String(), 260))
				if os.Getenv("R43_DEBUG") == "2" {
					fmt.Fprintf(os.Stderr, "R43 BAD %s\n  %s\n  MODEL %s\n", why, noEpochKeepE(g), lastModelDump)
				}
			case verdict == "ok":
				ndec++
			case verdict == "skip":
				skipped = append(skipped, why)
			}
		}
		switch {
		case len(bad) > 0:
			r.bad(key, clause, p.FuncPos(fn), strings.Join(dedup(bad), "\n"))
		case ndec == 0:
			r.ok(key, clause, p.FuncPos(fn), fmt.Sprintf("NOT DECIDED: none of the %d paths could be replayed (%s)", len(gc.GCs), trunc(strings.Join(dedup(skipped), "; "), 300)))
		default:
			r.ok(key, clause, p.FuncPos(fn), fmt.Sprintf("%d of %d paths replayed and in order; %d without verdict (%s)", ndec, len(gc.GCs), len(skipped), trunc(strings.Join(dedup(skipped), "; "), 200)))
		}
	}
	if os.Getenv("R43_DEBUG") != "" {
		for _, o := range r.Obs {
			fmt.Fprintf(os.Stderr, "%s %s: %s\n", o.Status, o.Key, trunc(o.Facts, 3000))
		}
	}
	return r
}

var lastModelDump string

// rbReplay replays one path; verdict: "ok", "bad", "skip" (no verdict), "infeasible".
func rbReplay(g *GC, del bool, entry string) (string, string) {
	m := &rbModel{slots: map[string][]rbHist{}, initCol: map[string]string{}, isNil: map[string]bool{}, nonNil: map[string]bool{}, side: "L", sideOf: map[string]string{}}
	// sides of the ancestors, from guards about the initial state: (== (load Left X) Y) with X the parent of Y
	{
		initial := func(t *Term) bool {
			return !t.any(func(x *Term) bool {
				if x.Op == "load" {
					if mm := verRe.FindStringSubmatch(x.Leaf); mm != nil && mm[1] != "0" {
						return true
					}
				}
				return x.Op == "@" && x.Leaf != "e0"
			})
		}
		var sid func(t *Term) string
		sid = func(t *Term) string {
			switch {
			case t.Op == "p" && t.Leaf == "1":
				return "N"
			case t.Op == "load" && len(t.Args) == 1 && t.Args[0].Op == "fa" && t.Args[0].Leaf == "Parent" && len(t.Args[0].Args) == 1:
				if x := sid(t.Args[0].Args[0]); x != "" {
					return x + ".P"
				}
			case t.Op == "call" && strings.HasSuffix(t.Leaf, ").grandparent") && len(t.Args) == 2:
				if x := sid(t.Args[1]); x != "" {
					return x + ".P.P"
				}
			}
			return ""
		}
		for _, a := range g.Guards {
			if (a.Op != "==" && a.Op != "!=") || len(a.Args) != 2 || !initial(a) {
				continue
			}
			for i := 0; i < 2; i++ {
				x, y := a.Args[i], a.Args[1-i]
				if x.Op == "load" && len(x.Args) == 1 && x.Args[0].Op == "fa" && (x.Args[0].Leaf == "Left" || x.Args[0].Leaf == "Right") && len(x.Args[0].Args) == 1 {
					px, cy := sid(x.Args[0].Args[0]), sid(y)
					if px != "" && cy != "" && px == cy+".P" && cy != "N" {
						f := map[string]string{"Left": "L", "Right": "R"}[x.Args[0].Leaf]
						if a.Op == "!=" {
							f = map[string]string{"L": "R", "R": "L"}[f]
						}
						if _, seen := m.sideOf[cy]; !seen || a.Op == "==" {
							m.sideOf[cy] = f
						}
					}
				}
			}
		}
	}
	// the side of N under its parent, from any guard that says so
	isN := func(t *Term) bool { return t.Op == "p" && t.Leaf == "1" }
	for _, a := range g.Guards {
		if (a.Op != "==" && a.Op != "!=") || len(a.Args) != 2 {
			continue
		}
		for i := 0; i < 2; i++ {
			x, y := a.Args[i], a.Args[1-i]
			if isN(y) && x.Op == "load" && len(x.Args) == 1 && x.Args[0].Op == "fa" && (x.Args[0].Leaf == "Left" || x.Args[0].Leaf == "Right") && len(x.Args[0].Args) == 1 {
				pt := x.Args[0].Args[0]
				if pt.Op == "load" && len(pt.Args) == 1 && pt.Args[0].Op == "fa" && pt.Args[0].Leaf == "Parent" && len(pt.Args[0].Args) == 1 && isN(pt.Args[0].Args[0]) {
					isLeft := x.Args[0].Leaf == "Left"
					if (a.Op == "==") == isLeft {
						m.side = "L"
					} else {
						m.side = "R"
					}
				}
			}
		}
	}
	// time of a term: number of effects executed when it was evaluated
	ncallsBefore := make([]int, len(g.Effects)+1)
	ncolBefore := make([]int, len(g.Effects)+1)
	for i, ef := range g.Effects {
		ncallsBefore[i+1] = ncallsBefore[i]
		ncolBefore[i+1] = ncolBefore[i]
		if ef.Op == "do" {
			ncallsBefore[i+1]++
		}
		if storeToField(ef, "color") {
			ncolBefore[i+1]++
		}
	}
	timeOfStamp := func(leafStamp string, field string) int {
		mm := verRe.FindStringSubmatch(leafStamp)
		if mm == nil {
			return 0
		}
		calls, fst := atoiOr(mm[1], 0), atoiOr(mm[2], 0)
		for i := 0; i <= len(g.Effects); i++ {
			if ncallsBefore[i] == calls && (field != "color" || ncolBefore[i] == fst) {
				return i
			}
		}
		return len(g.Effects)
	}
	// abstract time: model time 2*i (rotations write at odd times so that reads at the same effect index see the old state)
	var node func(t *Term) (string, bool)
	evalAt := func(t *Term) int { // effect index at which the outermost operator of t was evaluated
		switch {
		case t.Op == "call" && len(t.Args) >= 1 && t.Args[0].Op == "@" && strings.HasPrefix(t.Args[0].Leaf, "e"):
			return atoiOr(t.Args[0].Leaf[1:], 0)
		case t.Op == "load" && len(t.Args) == 1 && t.Args[0].Op == "fa":
			return timeOfStamp(t.Leaf, t.Args[0].Leaf)
		}
		return 0
	}
	node = func(t *Term) (string, bool) {
		switch {
		case isN(t):
			return "N", true
		case t.String() == "#:nil":
			return "nil", true
		case t.Op == "load" && len(t.Args) == 1 && t.Args[0].Op == "fa" && len(t.Args[0].Args) == 1:
			f := map[string]string{"Left": "L", "Right": "R", "Parent": "P"}[t.Args[0].Leaf]
			if f == "" {
				return "", false
			}
			x, ok := node(t.Args[0].Args[0])
			if !ok {
				return "", false
			}
			return m.read(x, f, 2*evalAt(t)), true
		case t.Op == "call" && len(t.Args) == 2:
			x, ok := node(t.Args[1])
			if !ok {
				return "", false
			}
			tm := 2 * evalAt(t)
			sib := func(y string) string {
				pp := m.read(y, "P", tm)
				if m.read(pp, "L", tm) == y {
					return m.read(pp, "R", tm)
				}
				return m.read(pp, "L", tm)
			}
			switch {
			case strings.HasSuffix(t.Leaf, ").sibling"):
				return sib(x), true
			case strings.HasSuffix(t.Leaf, ").grandparent"):
				return m.read(m.read(x, "P", tm), "P", tm), true
			case strings.HasSuffix(t.Leaf, ").uncle"):
				return sib(m.read(x, "P", tm)), true
			}
		}
		return "", false
	}
	// structure first: apply the rotations in order (colour stores and recursion markers are recorded with their time)
	type colStore struct {
		t    int
		id   string
		term *Term
	}
	var cstores []colStore
	recAt, recNode := -1, ""
	for i, ef := range g.Effects {
		switch {
		case storeToField(ef, "color"):
			id, ok := node(ef.Args[0].Args[0])
			if !ok {
				return "a colour store to a node the replay cannot name", "skip"
			}
			cstores = append(cstores, colStore{2*i + 1, id, ef.Args[1]})
		case ef.Op == "do":
			nm, args, _ := effDo(ef)
			switch {
			case (nm == "rotateLeft" || nm == "rotateRight") && len(args) == 2:
				x, ok := node(args[1])
				if !ok {
					return "a rotation around a node the replay cannot name", "skip"
				}
				m.rotate(x, nm == "rotateLeft", 2*i)
			case nm == entry && len(args) == 2:
				x, ok := node(args[1])
				if !ok {
					return "a recursive call on a node the replay cannot name", "skip"
				}
				recAt, recNode = i, x
			default:
				return "a call the replay does not model: " + nm, "skip"
			}
		case isStore(ef):
			return "a store the replay does not model: " + trunc(noEpoch(ef), 80), "skip"
		}
		if m.fail != "" {
			return m.fail, "skip"
		}
	}
	// knowledge from the guards
	colourOf := func(t *Term) (id string, tm int, ok bool) {
		switch {
		case t.Op == "call" && strings.HasSuffix(t.Leaf, ".nodeColor") && len(t.Args) == 2:
			x, ok := node(t.Args[1])
			return x, 2 * evalAt(t), ok
		case t.Op == "load" && len(t.Args) == 1 && t.Args[0].Op == "fa" && t.Args[0].Leaf == "color" && len(t.Args[0].Args) == 1:
			x, ok := node(t.Args[0].Args[0])
			return x, 2 * evalAt(t), ok
		}
		return "", 0, false
	}
	type colFact struct {
		id    string
		t     int
		black bool
	}
	var facts []colFact
	for _, a := range g.Guards {
		if (a.Op != "==" && a.Op != "!=") || len(a.Args) != 2 {
			continue
		}
		for i := 0; i < 2; i++ {
			k, x := a.Args[i], a.Args[1-i]
			if k.String() == "#:true:color" {
				if id, tm, ok := colourOf(x); ok {
					facts = append(facts, colFact{id, tm, a.Op == "=="})
				}
			}
			if k.String() == "#:nil" {
				if id, ok := node(x); ok && id != "nil" {
					if a.Op == "==" {
						m.isNil[id] = true
					} else {
						m.nonNil[id] = true
					}
				}
			}
		}
	}
	if m.fail != "" {
		return m.fail, "skip"
	}
	// structural guards that the abstract tree contradicts make the path infeasible (the expanded chain contains paths on
	// which a node is both the left and the right child of its parent)
	for _, a := range g.Guards {
		if (a.Op != "==" && a.Op != "!=") || len(a.Args) != 2 {
			continue
		}
		if a.Args[0].String() == "#:true:color" || a.Args[1].String() == "#:true:color" {
			continue
		}
		x, ok1 := node(a.Args[0])
		y, ok2 := node(a.Args[1])
		if !ok1 || !ok2 {
			continue
		}
		xn, yn := x == "nil" || m.isNil[x], y == "nil" || m.isNil[y]
		same := x == y || (xn && yn)
		if xn != yn && !(m.nonNil[x] || m.nonNil[y]) && (x == "nil" || y == "nil") {
			continue // nil-ness of a materialised node: recorded above, not decided by names
		}
		if (a.Op == "==") != same {
			return "", "infeasible"
		}
	}
	for id := range m.isNil {
		if m.nonNil[id] {
			return "", "infeasible"
		}
	}
	// colour stores evaluated in order (a stored colour may be a read colour: sibling.color = nodeColor(parent))
	sort.SliceStable(cstores, func(i, j int) bool { return cstores[i].t < cstores[j].t })
	applyFacts := func() bool {
		for _, f := range facts {
			// a fact about a time before the first store to that node is a fact about its initial colour
			h := m.slots[f.id+".c"]
			stored := false
			for _, e := range h {
				if e.t <= f.t {
					stored = true
				}
			}
			if stored {
				continue
			}
			want := "r"
			if f.black {
				want = "b"
			}
			if m.isNil[f.id] && want == "r" {
				return false
			}
			if old, ok := m.initCol[f.id]; ok && old != want {
				return false
			}
			m.initCol[f.id] = want
		}
		return true
	}
	// register when each node's colour is stored (values follow), so that facts are dated correctly
	for _, cs := range cstores {
		m.write(cs.id, "c", cs.t, "?")
	}
	if !applyFacts() {
		return "", "infeasible"
	}
	for _, cs := range cstores {
		v := "?"
		switch cs.term.String() {
		case "#:true:color":
			v = "b"
		case "#:false:color":
			v = "r"
		default:
			if id, tm, ok := colourOf(cs.term); ok {
				if cv, known := m.colour(id, tm); known {
					v = cv
				}
			}
		}
		h := m.slots[cs.id+".c"]
		for i := range h {
			if h[i].t == cs.t {
				h[i].val = v
			}
		}
	}
	// facts about later times must agree with what was stored (else the path is infeasible)
	for _, f := range facts {
		if cv, known := m.colour(f.id, f.t); known && (cv == "b") != f.black {
			return "", "infeasible"
		}
	}
	if del {
		m.initCol["N"] = "b" // immaterial: N is an opaque unit
	} else {
		m.initCol["N"] = "r"
	}
	// the pre-state has no red node with a red child (other than, for insertion, N under its parent): such paths of
	// the expanded chain cannot be taken
	for id, cv := range m.initCol {
		if cv != "r" {
			continue
		}
		for _, f := range []string{"L", "R"} {
			h := m.slots[id+"."+f]
			if len(h) == 0 || h[0].t != 0 {
				continue
			}
			k := h[0].val
			if k == "nil" || (k == "N" && !del) {
				continue
			}
			if m.initCol[k] == "r" {
				return "", "infeasible"
			}
		}
	}
	// the region: N's ancestors as far as materialised
	end := 2*len(g.Effects) + 2
	top := "N"
	for {
		h := m.slots[top+".P"]
		if len(h) == 0 {
			break
		}
		pp := h[0].val // initial parent
		if pp == "nil" || m.isNil[pp] {
			break
		}
		top = pp
	}
	if top == "N" {
		if del {
			if len(g.Effects) != 0 {
				return "the fix-up acts at a node whose parent it never looked at", "skip"
			}
			return "", "ok"
		}
	}
	// black heights of the opaque units, top-down at time 0
	unit := map[string]int{}
	var assign func(x string, H int, depth int) string
	assign = func(x string, H int, depth int) string {
		if depth > 12 {
			return "the initial shape is cyclic"
		}
		if x == "N" && del {
			unit[x] = H // (already lowered by the caller)
			return ""
		}
		if x == "nil" || !m.opened(x) {
			if old, seen := unit[x]; seen && old != H {
				return "the initial shape is inconsistent"
			}
			unit[x] = H
			return ""
		}
		cb := 0
		cv, known := m.colour(x, 0)
		switch {
		case known && cv == "b":
			cb = 1
		case known:
		case x == top:
			// the region's top: its own colour counts for both sides alike
		case x != "N":
			// an untested node above a red one is black (the pre-state has no red-red other than, for insertion, at N)
			if kid := m.read(x, "L", 0); m.initCol[kid] == "r" && kid != "N" {
				cb = 1
				m.initCol[x] = "b"
			} else if kid := m.read(x, "R", 0); m.initCol[kid] == "r" && kid != "N" {
				cb = 1
				m.initCol[x] = "b"
			} else {
				return "the initial colour of " + x + " is not known on this path"
			}
		default:
			return "the initial colour of " + x + " is not known on this path"
		}
		l, rr := m.read(x, "L", 0), m.read(x, "R", 0)
		hl, hr := H-cb, H-cb
		if del {
			if l == "N" {
				hl--
			}
			if rr == "N" {
				hr--
			}
		}
		if e := assign(l, hl, depth+1); e != "" {
			return e
		}
		return assign(rr, hr, depth+1)
	}
	if !del {
		// insertion: the parent of a red N may be red; its parent (the grandparent) is then black
		pp := m.read("N", "P", 0)
		if cv, ok := m.initCol[pp]; ok && cv == "r" {
			gp := m.slots[pp+".P"]
			if len(gp) > 0 {
				if _, known := m.initCol[gp[0].val]; !known && gp[0].val != "nil" {
					m.initCol[gp[0].val] = "b"
				}
			}
		}
	}
	const H0 = 100
	if e := assign(top, H0, 0); e != "" {
		return e, "skip"
	}
	// black height at a time
	var bh func(x string, t int, depth int) (int, string)
	bh = func(x string, t int, depth int) (int, string) {
		if depth > 14 {
			return 0, "the links form a cycle"
		}
		if x == "nil" || !m.opened(x) || (x == "N" && del) {
			v, ok := unit[x]
			if !ok {
				return 0, "a subtree without derived black height: " + x
			}
			return v, ""
		}
		l, e1 := bh(m.read(x, "L", t), t, depth+1)
		if e1 != "" {
			return 0, e1
		}
		rr, e2 := bh(m.read(x, "R", t), t, depth+1)
		if e2 != "" {
			return 0, e2
		}
		if l != rr {
			return 0, fmt.Sprintf("node %s ends with black heights %d (left) and %d (right)", x, l-H0, rr-H0)
		}
		cv, known := m.colour(x, t)
		if !known {
			if x == top && len(m.slots[x+".c"]) == 0 {
				return l, "" // the region's top, colour never tested nor stored: counted as 0 before and after
			}
			return 0, "?the final colour of " + x + " is not known"
		}
		if cv == "b" {
			return l + 1, ""
		}
		return l, ""
	}
	// the region's root at the end: follow parents from the initial top as long as they are materialised and changed
	rootAt := func(t int) string {
		x := top
		for i := 0; i < 12; i++ {
			h := m.slots[x+".P"]
			if len(h) == 0 {
				return x
			}
			pp := m.read(x, "P", t)
			if pp == "nil" || m.isNil[pp] || pp == x {
				return x
			}
			// the initial top's parent was never materialised at time 0 unless a rotation moved something above it
			if pp == top+".P" {
				return x
			}
			x = pp
		}
		return x
	}
	checkAt := end
	if recAt >= 0 {
		checkAt = 2 * recAt
	}
	{
		var ks []string
		for k, h := range m.slots {
			ks = append(ks, fmt.Sprintf("%s=%v", k, h))
		}
		sort.Strings(ks)
		lastModelDump = fmt.Sprintf("side=%s top=%s init=%v nil=%v unit=%v slots: %s", m.side, top, m.initCol, m.isNil, unit, strings.Join(ks, " "))
	}
	root := rootAt(checkAt)
	if recAt >= 0 {
		// hand-over: below the node handed over everything is in order and it carries exactly the defect the callee expects
		got, e := bh(recNode, checkAt, 0)
		if e != "" {
			if strings.HasPrefix(e, "?") || strings.HasPrefix(e, "a subtree") || strings.HasPrefix(e, "the links") {
				return e, "skip"
			}
			return "before handing over to " + recNode + ": " + e, "bad"
		}
		// what the node's black height was meant to be (deletion: via the sibling's side)
		pre, e0 := preBH(m, unit, recNode, del)
		if e0 != "" {
			return e0, "skip"
		}
		want := pre
		if del {
			want = pre - 1
		}
		if got != want {
			return fmt.Sprintf("the node handed to the recursive call ends with black height %d, the call expects %d (relative to before)", got-pre, want-pre), "bad"
		}
		if !del {
			if cv, known := m.colour(recNode, checkAt); known && cv != "r" {
				return "the node handed to the recursive insertion fix-up is not red", "bad"
			}
			if e := redRed(m, recNode, checkAt, true); e != "" {
				return e, "bad"
			}
		}
		return "", "ok"
	}
	got, e := bh(root, checkAt, 0)
	if e != "" {
		if strings.HasPrefix(e, "?") || strings.HasPrefix(e, "a subtree") || strings.HasPrefix(e, "the links") {
			return e, "skip"
		}
		return e, "bad"
	}
	wholeTree := func() bool { // the region's top is known to be the root of the tree
		h := m.slots[top+".P"]
		return len(h) > 0 && (h[0].val == "nil" || m.isNil[h[0].val])
	}
	if !wholeTree() {
		pre := H0 // (assign gave the top H0 including its own colour)
		if got != pre {
			return fmt.Sprintf("the region ends with black height %d relative to before", got-pre), "bad"
		}
	}
	if e := redRed(m, root, checkAt, false); e != "" {
		return e, "bad"
	}
	return "", "ok"
}

// preBH: the black height the node had (was meant to have) before the fix-up.
func preBH(m *rbModel, unit map[string]int, x string, del bool) (int, string) {
	var f func(x string, depth int) (int, string)
	f = func(x string, depth int) (int, string) {
		if depth > 12 {
			return 0, "cyclic"
		}
		if x == "nil" || !m.opened(x) || (x == "N" && del) {
			v, ok := unit[x]
			if !ok {
				return 0, "a subtree without derived black height: " + x
			}
			if x == "N" && del {
				return v + 1, "" // what it was meant to be
			}
			return v, ""
		}
		l, e := f(m.read(x, "L", 0), depth+1)
		if e != "" {
			return 0, e
		}
		if m.read(x, "L", 0) == "N" && del {
			// use the other side
			l, e = f(m.read(x, "R", 0), depth+1)
			if e != "" {
				return 0, e
			}
		}
		cv, known := m.colour(x, 0)
		if !known {
			return 0, "the initial colour of " + x + " is not known on this path"
		}
		if cv == "b" {
			return l + 1, ""
		}
		return l, ""
	}
	return f(x, 0)
}

// redRed: a touched red node with a touched red child below x (the root itself may be red under an untouched parent
// only when it is the node handed over).
func redRed(m *rbModel, x string, t int, handed bool) string {
	var walk func(x string, depth int) string
	walk = func(x string, depth int) string {
		if depth > 12 || x == "nil" || (!m.opened(x) && x != "N") {
			return ""
		}
		cv, known := m.colour(x, t)
		for _, f := range []string{"L", "R"} {
			if len(m.slots[x+"."+f]) == 0 {
				continue
			}
			k := m.read(x, f, t)
			if known && cv == "r" {
				if kc, kk := m.colour(k, t); kk && kc == "r" && k != "nil" {
					return fmt.Sprintf("red node %s keeps the red child %s", x, k)
				}
			}
			if e := walk(k, depth+1); e != "" {
				return e
			}
		}
		return ""
	}
	return walk(x, 0)
}

func noEpochKeepE(g *GC) string {
	var gs, es []string
	for _, a := range g.Guards {
		gs = append(gs, a.String())
	}
	for _, e := range g.Effects {
		es = append(es, e.String())
	}
	r := strings.NewReplacer("trees/redblacktree.", "", "(*Node).", "", "(*Tree).", "", ".t0", "")
	return r.Replace("GUARDS " + strings.Join(gs, "\n     ") + "\n  EFFECTS " + strings.Join(es, "\n     "))
}
