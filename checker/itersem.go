package main

// itersem.go — deciding "First() ≡ Begin(); Next()" (and Last ≡ End; Prev) when First is not written as that composition.
//
// Both sides are evaluated symbolically from one arbitrary iterator state: the iterator's own methods are expanded in place,
// loop-free paths only; own integer fields are linear forms over the entry values and the container's size S, other own
// fields are terms; calls on other objects (a wrapped iterator, list.Get) are recorded as events in order; guards over linear
// forms are decided under S >= 0 (and, if needed, separately for S == 0 and S >= 1), all other guards are kept as the
// condition of the outcome. The two sides must produce the same set of (condition, final fields, events, result). Anything the
// evaluation cannot decide makes the comparison fail (the caller then reports the literal mismatch as before).

import (
	"fmt"
	"go/types"
	"sort"
	"strings"

	"golang.org/x/tools/go/ssa"
)

type symVal struct {
	l     lin
	isLin bool
	s     string
}

func (v symVal) String() string {
	if v.isLin {
		return v.l.String()
	}
	return v.s
}

type symOutcome struct {
	cond   []string
	fields map[string]symVal
	events []string
	result string
}

func (o symOutcome) key() string {
	var fs []string
	for k, v := range o.fields {
		fs = append(fs, k+"="+v.String())
	}
	sort.Strings(fs)
	cs := append([]string(nil), o.cond...)
	sort.Strings(cs)
	return strings.Join(cs, " ∧ ") + " ⊢ " + strings.Join(fs, ",") + " | " + strings.Join(o.events, " ; ") + " | " + o.result
}

type symEval struct {
	c       *Ctx
	it      *types.Named
	sizeStr string
	facts   []lin
	subst   map[string]lin
	why     string
}

func (e *symEval) ap(l lin) lin {
	out := linConst(l.k)
	for x, c := range l.c {
		t := linAtom(x)
		if v, ok := e.subst[x]; ok {
			t = v
		}
		for i := 0; i < c; i++ {
			out = out.add(t, 1)
		}
		for i := 0; i > c; i-- {
			out = out.add(t, -1)
		}
	}
	return out
}

func (e *symEval) nonneg(d lin) (bool, bool) { // (value, decided)
	d = e.ap(d)
	if len(d.c) == 0 {
		return d.k >= 0, true
	}
	for _, f := range e.facts {
		f = e.ap(f)
		if x := d.add(f, -1); len(x.c) == 0 && x.k >= 0 {
			return true, true
		}
		// d <= -1 follows from -d - 1 >= f' ... : d + f + 1 <= 0 with f >= 0 ⇒ d <= -1
		if x := d.add(f, 1).add(linConst(1), 1); len(x.c) == 0 && x.k <= 0 {
			return false, true
		}
	}
	return false, false
}

// evalPaths evaluates fn from the given field values; returns nil when something cannot be decided.
func (e *symEval) evalPaths(fn *ssa.Function, pre map[string]symVal) []symOutcome {
	own := map[*ssa.Function]bool{}
	for _, m := range methodsOf(e.c.p, e.it) {
		own[m] = true
	}
	gc := e.c.GCWith(fn, BuildOpts{Tag: "itersem", Inline: func(callee *ssa.Function) bool {
		o := callee
		if callee.Origin() != nil {
			o = callee.Origin()
		}
		return own[o]
	}})
	if gc.Undecided != "" {
		e.why = gc.Undecided
		return nil
	}
	var outs []symOutcome
	for _, g0 := range gc.GCs {
		if g0.From != 0 || g0.Exit.Op != "return" {
			e.why = "the expanded method has a loop"
			return nil
		}
		g := substSize(g0, e.sizeStr)
		hist := map[string][]symVal{}
		for k, v := range pre {
			hist[k] = []symVal{v}
		}
		failed := false
		var val func(t *Term) symVal
		ownLoad := func(t *Term) (string, int, bool) {
			if t.Op == "load" && len(t.Args) == 1 && t.Args[0].Op == "fa" && len(t.Args[0].Args) == 1 && t.Args[0].Args[0].String() == "p:0" {
				if m := verRe.FindStringSubmatch(t.Leaf); m != nil {
					return t.Args[0].Leaf, atoiOr(m[2], 0), true
				}
				return t.Args[0].Leaf, -1, true
			}
			return "", 0, false
		}
		val = func(t *Term) symVal {
			if k, ok := t.constInt(); ok && !strings.Contains(t.Leaf, ":") {
				return symVal{l: linConst(int(k)), isLin: true}
			}
			if isSize(t) {
				return symVal{l: linAtom("S"), isLin: true}
			}
			if f, k, ok := ownLoad(t); ok {
				h := hist[f]
				if k < 0 || k >= len(h) {
					failed = true
					return symVal{s: "?"}
				}
				return h[k]
			}
			if (t.Op == "+" || t.Op == "-") && len(t.Args) == 2 {
				a, b := val(t.Args[0]), val(t.Args[1])
				if a.isLin && b.isLin {
					sign := 1
					if t.Op == "-" {
						sign = -1
					}
					return symVal{l: a.l.add(b.l, sign), isLin: true}
				}
			}
			// any other term: its text with the own-field loads replaced by their values
			r := rewriteTerm(t, func(x *Term) *Term {
				if _, _, ok := ownLoad(x); ok {
					return leaf("v", val(x).String())
				}
				if isSize(x) {
					return leaf("v", "S")
				}
				return nil
			})
			return symVal{s: noEpoch(r)}
		}
		var events []string
		for _, ef := range g.Effects {
			if isStore(ef) && ef.Args[0].Op == "fa" && len(ef.Args[0].Args) == 1 && ef.Args[0].Args[0].String() == "p:0" {
				f := ef.Args[0].Leaf
				if _, ok := hist[f]; !ok {
					failed = true
					break
				}
				hist[f] = append(hist[f], val(ef.Args[1]))
				continue
			}
			// a call of another iterator's First()/Last() is that iterator's Begin();Next() / End();Prev() (its own R14first
			// obligation): spelled that way on both sides
			evs := val(ef).s
			if ef.Op == "do" && (strings.HasSuffix(ef.Leaf, "Iterator).First") || strings.HasSuffix(ef.Leaf, "Iterator).Last")) {
				a, b := "Begin", "Next"
				if strings.HasSuffix(ef.Leaf, ").Last") {
					a, b = "End", "Prev"
				}
				old := ef.Leaf[strings.LastIndex(ef.Leaf, ")."):]
				events = append(events, strings.Replace(evs, old+" ", ")."+a+" ", 1), strings.Replace(evs, old+" ", ")."+b+" ", 1))
				continue
			}
			events = append(events, evs)
		}
		if failed {
			e.why = "a field version could not be dated"
			return nil
		}
		// guards
		feasible := true
		var cond []string
		var decide func(a *Term) (bool, bool) // value, decided
		decide = func(a *Term) (bool, bool) {
			if b, ok := a.constBool(); ok {
				return b, true
			}
			switch {
			case a.Op == "!" && len(a.Args) == 1:
				v, ok := decide(a.Args[0])
				return !v, ok
			case a.Op == "and" && len(a.Args) == 2:
				v1, ok1 := decide(a.Args[0])
				v2, ok2 := decide(a.Args[1])
				if ok1 && !v1 || ok2 && !v2 {
					return false, true
				}
				return v1 && v2, ok1 && ok2
			case (a.Op == "<" || a.Op == "<=" || a.Op == "==" || a.Op == "!=") && len(a.Args) == 2:
				x, y := val(a.Args[0]), val(a.Args[1])
				if !x.isLin || !y.isLin {
					return false, false
				}
				d := y.l.add(x.l, -1) // y - x
				switch a.Op {
				case "<":
					return e.nonneg(d.add(linConst(1), -1))
				case "<=":
					return e.nonneg(d)
				default:
					ge, ok1 := e.nonneg(d)
					le, ok2 := e.nonneg(linConst(0).add(d, -1))
					if ok1 && ok2 {
						eq := ge && le
						return eq == (a.Op == "=="), true
					}
					if (ok1 && !ge) || (ok2 && !le) {
						return a.Op == "!=", true
					}
					return false, false
				}
			}
			return false, false
		}
		for _, a := range g.Guards {
			v, ok := decide(a)
			if ok {
				if !v {
					feasible = false
					break
				}
				continue
			}
			// not arithmetic: part of the outcome's condition — undecided arithmetic fails the evaluation
			arith := a.Op == "<" || a.Op == "<="
			if (a.Op == "==" || a.Op == "!=") && len(a.Args) == 2 && val(a.Args[0]).isLin && val(a.Args[1]).isLin {
				arith = true
			}
			if arith || a.any(func(t *Term) bool { return isSize(t) }) {
				e.why = "an arithmetic guard is not decided: " + trunc(noEpoch(a), 120)
				return nil
			}
			cond = append(cond, val(a).s)
		}
		if failed {
			e.why = "a field version could not be dated"
			return nil
		}
		if !feasible {
			continue
		}
		fields := map[string]symVal{}
		for k, h := range hist {
			v := h[len(h)-1]
			if v.isLin {
				v.l = e.ap(v.l)
			}
			fields[k] = v
		}
		res := ""
		if len(g.Exit.Args) == 1 {
			if v, ok := decide(g.Exit.Args[0]); ok {
				res = fmt.Sprint(v)
			} else {
				res = val(g.Exit.Args[0]).String()
				if g.Exit.Args[0].any(func(t *Term) bool { return isSize(t) }) {
					// an undecided arithmetic result: leave it to the case split
					e.why = "the result is arithmetic that S >= 0 does not decide"
					return nil
				}
			}
		}
		res = strings.NewReplacer("Iterator).First ", "Iterator).Next ", "Iterator).Last ", "Iterator).Prev ").Replace(res)
		outs = append(outs, symOutcome{cond: cond, fields: fields, events: events, result: res})
	}
	return outs
}

// firstIsComposition: fn (First/Last) behaves as pre(); step() on every iterator state. Returns (equal, explanation).
func firstIsComposition(c *Ctx, it *types.Named, fn, pre, step *ssa.Function, ownerField string, owner *types.Named) (bool, string) {
	if fn == nil || pre == nil || step == nil {
		return false, "method missing"
	}
	sizeStr := ""
	if owner != nil {
		sizeStr = sizeTermOf(c, fn, ownerField, owner)
	}
	st, ok := it.Underlying().(*types.Struct)
	if !ok {
		return false, "not a struct"
	}
	preState := map[string]symVal{}
	for i := 0; i < st.NumFields(); i++ {
		n := fieldN(it, i)
		if isIntType(st.Field(i).Type()) {
			preState[n] = symVal{l: linAtom(n + "₀"), isLin: true}
		} else {
			preState[n] = symVal{s: n + "₀"}
		}
	}
	S := linAtom("S")
	cases := []struct {
		name  string
		facts []lin
		subst map[string]lin
	}{
		{"S >= 0", []lin{S}, nil},
	}
	split := []struct {
		name  string
		facts []lin
		subst map[string]lin
	}{
		{"S == 0", nil, map[string]lin{"S": linConst(0)}},
		{"S >= 1", []lin{S.add(linConst(1), -1), S}, nil},
	}
	run := func(cs struct {
		name  string
		facts []lin
		subst map[string]lin
	}) (bool, string, bool) {
		e := &symEval{c: c, it: it, sizeStr: sizeStr, facts: cs.facts, subst: cs.subst}
		got := e.evalPaths(fn, preState)
		if got == nil {
			return false, e.why, false
		}
		o1 := e.evalPaths(pre, preState)
		if o1 == nil {
			return false, e.why, false
		}
		var want []symOutcome
		for _, a := range o1 {
			o2 := e.evalPaths(step, a.fields)
			if o2 == nil {
				return false, e.why, false
			}
			for _, b := range o2 {
				want = append(want, symOutcome{cond: append(append([]string(nil), a.cond...), b.cond...), fields: b.fields, events: append(append([]string(nil), a.events...), b.events...), result: b.result})
			}
		}
		gs, ws := map[string]bool{}, map[string]bool{}
		for _, o := range got {
			gs[o.key()] = true
		}
		for _, o := range want {
			ws[o.key()] = true
		}
		for k := range gs {
			if !ws[k] {
				return false, fmt.Sprintf("under %s the method yields %s, the composition does not", cs.name, trunc(k, 200)), true
			}
		}
		for k := range ws {
			if !gs[k] {
				return false, fmt.Sprintf("under %s the composition yields %s, the method does not", cs.name, trunc(k, 200)), true
			}
		}
		return true, "", true
	}
	if ok, why, decided := run(cases[0]); decided {
		return ok, why
	}
	for _, cs := range split {
		ok, why, decided := run(cs)
		if !decided || !ok {
			return false, why
		}
	}
	return true, ""
}
